/-
"Model is source" for the resampler: the hand-written tick machine (`Model/Resampler.lean`) and the hand-written helper
(`Model/ResamplingHelper.lean`) are proved equal to the machine translation of the CURRENT `_resampling.py`
(`Extracted/ResamplerLoops.lean`, regenerated on every run by `tools/extractors/resampler_loops.py`).
-/
import Frequenz.Extracted.ResamplerLoops
import Frequenz.Model.Resampler
import Frequenz.Lemmas.ResamplingHelper

set_option linter.unusedSimpArgs false
set_option linter.unusedVariables false

namespace ResamplerTie

open Resampler Extracted.ResamplerLoops Extracted.Resampling

/-! ### (a) the dict of registered series -/

theorem filter_ne_of_not_mem (l : List Nat) (s : Nat) (h : s ∉ l) : l.filter (· ≠ s) = l := by
  rw [List.filter_eq_self]
  intro a ha
  have : a ≠ s := fun e => h (e ▸ ha)
  simp [this]

/-- `add_timeseries` is `addSeries`: refused (`False`) iff the source is already registered, appended otherwise. -/
theorem addTimeseries_eq (l : List Nat) (s : Nat) :
    addTimeseries l s = (addSeries l s, !decide (s ∈ l)) := by
  unfold addTimeseries addSeries
  by_cases h : s ∈ l <;> simp [h]

/-- `remove_timeseries` is `removeSeries`; it returns whether the source was registered. -/
theorem removeTimeseries_eq (l : List Nat) (s : Nat) :
    removeTimeseries l s = (removeSeries l s, decide (s ∈ l)) := by
  unfold removeTimeseries removeSeries
  by_cases h : s ∈ l
  · simp [h]
  · have hf := filter_ne_of_not_mem l s h
    simp only [ne_eq, decide_not] at hf
    simp [h, hf]

theorem step_add (snap advErr : Bool) (p : Int) (st : State) (s : SeriesId) :
    (stepWith snap advErr p st (.add s)).1.series = (addTimeseries st.series s).1 ∧
    (stepWith snap advErr p st (.add s)).2 = [] ∧
    (stepWith snap advErr p st (.add s)).1.windowEnd = st.windowEnd ∧
    (stepWith snap advErr p st (.add s)).1.inflight = st.inflight ∧
    (stepWith snap advErr p st (.add s)).1.raised = st.raised := by
  rw [addTimeseries_eq]
  by_cases h : s ∈ st.series <;> simp [stepWith, addSeries, h]

theorem step_remove (snap advErr : Bool) (p : Int) (st : State) (s : SeriesId) :
    stepWith snap advErr p st (.remove s) = ({ st with series := (removeTimeseries st.series s).1 }, []) := by
  rw [removeTimeseries_eq]
  simp [stepWith]

/-! ### (c) one series at a tick -/

/-- `_StreamingHelper.resample` raises iff the receiving task has ended or the sink raises; unless the task has
ended, the sink is handed a sample stamped with the timestamp it was called with. -/
theorem streamingResample_eq (d r : Bool) (ts : Int) :
    streamingResample d r ts = (d || r, if d then none else some ts) := by
  unfold streamingResample
  cases d <;> cases r <;> simp

/-! ### (b) one iteration of the timer loop -/

/-- What the gather of one tick does, given for each series whether its receiving task has ended / its sink raises:
(series, (raised, timestamp of the sample handed to its sink)). -/
def gatherOutcome (taskDone sinkRaises : Nat → Bool) (calls : List (Nat × Int)) : List (Nat × Bool × Option Int) :=
  calls.map (fun c => (c.1, streamingResample (taskDone c.1) (sinkRaises c.1) c.2))

/-- The sources whose result is an exception, as the second half of the loop body collects them. -/
def exceptionsOf (gathered : List Nat) (results : List Bool) : List Nat :=
  (gathered.zip results).filterMap (fun p => if p.2 = true then some p.1 else none)

theorem exceptionsOf_map (l : List Nat) (f : Nat → Bool) : exceptionsOf l (l.map f) = l.filter f := by
  unfold exceptionsOf
  induction l with
  | nil => rfl
  | cons a t ih =>
    simp only [List.map_cons, List.zip_cons_cons, List.filterMap_cons, List.filter_cons]
    cases h : f a <;> simp [h, ih]

/-- **tickStart is the first half of the loop body.**  For a machine that is running and not in a gather: the gather
is created over the series registered now, in dict order, every one of them is called with `_window_end`; the ones
that raise are remembered, the others' sinks receive a sample stamped `_window_end`. -/
theorem tickStart_eq (p : Int) (st : State) (taskDone sinkRaises : Nat → Bool)
    (hd : st.dead = false) (hs : st.stopped = false) (hi : st.inflight = none)
    (hf : ∀ s, st.failing.contains s = (taskDone s || sinkRaises s)) :
    stepWith true true p st .tickStart =
      ({ st with inflight := some (gatherCalls st.series st.windowEnd p).length,
                 raised := ((gatherOutcome taskDone sinkRaises (gatherCalls st.series st.windowEnd p)).filter
                              (fun o => o.2.1)).map (·.1) },
       [{ ts := st.windowEnd,
          recipients := ((gatherOutcome taskDone sinkRaises (gatherCalls st.series st.windowEnd p)).filter
                              (fun o => !o.2.1)).map (·.1) }]) ∧
    (∀ o ∈ gatherOutcome taskDone sinkRaises (gatherCalls st.series st.windowEnd p),
        o.2.1 = false → o.2.2 = some st.windowEnd) ∧
    (gatherCalls st.series st.windowEnd p).map (·.1) = st.series := by
  refine ⟨?_, ?_, ?_⟩
  · simp only [stepWith, hd, hs, hi, Option.isSome_none, Bool.false_eq_true, if_false]
    have h1 : ∀ (q : Nat × Bool × Option Int → Bool),
        ((gatherOutcome taskDone sinkRaises (gatherCalls st.series st.windowEnd p)).filter q).map (·.1)
          = st.series.filter (fun s => q (s, streamingResample (taskDone s) (sinkRaises s) st.windowEnd)) := by
      intro q
      unfold gatherOutcome gatherCalls
      simp only [List.map_map, List.filter_map, Function.comp_def]
      simp [List.map_map, Function.comp_def]
    rw [h1, h1]
    simp only [streamingResample_eq, hf, gatherCalls, List.length_map]
  · intro o ho h
    unfold gatherOutcome gatherCalls at ho
    simp only [List.map_map, List.mem_map, Function.comp_def] at ho
    obtain ⟨s, _, rfl⟩ := ho
    simp only [streamingResample_eq] at h ⊢
    cases hd' : taskDone s <;> simp_all
  · unfold gatherCalls
    simp [List.map_map, Function.comp_def]

/-- **tickEnd is the second half of the loop body.**  For a machine in a gather over `gathered` whose results are
`results` (`raised` = the sources whose result is an exception): `_window_end` is advanced — also when the tick
ends with an error —, the `ResamplingError` names exactly the series that raised, `resample()` ends iff there is
one, and nothing depends on the series registered or removed during the await (no exception other than
`ResamplingError` escapes: the result is never `none`). -/
theorem tickEnd_eq (p : Int) (st : State) (gathered : List Nat) (results : List Bool) (oneShot : Bool)
    (hd : st.dead = false) (hi : st.inflight = some gathered.length)
    (hr : st.raised = exceptionsOf gathered results) :
    afterGather st.windowEnd p gathered results st.series oneShot =
      some (advanceWindowEnd st.windowEnd p, st.raised,
            if st.raised ≠ [] then LoopExit.raised else if oneShot then LoopExit.stop else LoopExit.next) ∧
    stepWith true true p st .tickEnd =
      ({ st with windowEnd := advanceWindowEnd st.windowEnd p, inflight := none, raised := [],
                 stopped := if st.raised ≠ [] then true else st.stopped }, []) := by
  constructor
  · unfold afterGather advanceWindowEnd
    rw [hr]
    unfold exceptionsOf
    cases oneShot <;>
      by_cases he : (gathered.zip results).filterMap (fun p => if p.2 = true then some p.1 else none) = [] <;>
      simp [he] <;> first | omega | (constructor <;> omega) | skip
  · simp only [stepWith, hd, hi, Bool.false_eq_true, if_false]
    by_cases he : st.raised = []
    · simp [he]
    · have : st.raised.isEmpty = false := by
        cases hx : st.raised with
        | nil => exact absurd hx he
        | cons a t => rfl
      simp [he, this]

/-- The two halves fit together: after `tickStart` the hypotheses of `tickEnd_eq` hold with the snapshot taken by
`tickStart` and the results its gather produced. -/
theorem tickStart_then_tickEnd (p : Int) (st : State) (taskDone sinkRaises : Nat → Bool)
    (hd : st.dead = false) (hs : st.stopped = false) (hi : st.inflight = none)
    (hf : ∀ s, st.failing.contains s = (taskDone s || sinkRaises s)) :
    let st1 := (stepWith true true p st .tickStart).1
    st1.dead = false ∧ st1.inflight = some st.series.length ∧ st1.windowEnd = st.windowEnd ∧
    st1.raised = exceptionsOf st.series (st.series.map (fun s => taskDone s || sinkRaises s)) := by
  have h := (tickStart_eq p st taskDone sinkRaises hd hs hi hf).1
  refine ⟨by simp only [h]; exact hd, by simp [h, gatherCalls], by simp [h], ?_⟩
  · simp only [h]
    rw [exceptionsOf_map]
    unfold gatherOutcome gatherCalls
    simp only [List.map_map, List.filter_map, Function.comp_def, streamingResample_eq]
    simp [List.map_map, Function.comp_def]

end ResamplerTie

/-! ### (d) the helper: `add_sample`, the two updates, `resample` -/

namespace ResamplerTie

open Extracted.ResamplerLoops Extracted.Resampling

/-- The object state of a `_ResamplingHelper` as the translation threads it. -/
def stTuple (h : ResamplingHelper.Helper) : List ResamplingHelper.Sample × Nat × Option Int × Nat × Option Int :=
  (h.buf, h.maxlen, h.start, h.received, h.inputPeriod)

/-- `add_sample` is `ResamplingHelper.addSample`. -/
theorem addSample_eq (h : ResamplingHelper.Helper) (x : ResamplingHelper.Sample) :
    addSample h.buf h.maxlen h.start h.received h.inputPeriod x = stTuple (ResamplingHelper.addSample h x) := by
  obtain ⟨buf, maxlen, start, received, ip⟩ := h
  unfold addSample ResamplingHelper.addSample stTuple
  cases start <;> simp <;> omega

/-- `_update_source_sample_period` is `ResamplingHelper.updatePeriod` (guard, clamp of the estimate, returned flag). -/
theorem updatePeriod_eq (cfg : ResamplingHelper.Cfg) (h : ResamplingHelper.Helper) (T est : Int) :
    updatePeriod h.buf h.maxlen h.start h.received h.inputPeriod cfg.period cfg.maxAge cfg.maxLen cfg.warnLen T est =
      (h.buf, h.maxlen, h.start, h.received, (ResamplingHelper.updatePeriod cfg h T est).1.inputPeriod,
       (ResamplingHelper.updatePeriod cfg h T est).2) ∧
    (ResamplingHelper.updatePeriod cfg h T est).1 =
      { h with inputPeriod := (ResamplingHelper.updatePeriod cfg h T est).1.inputPeriod } := by
  obtain ⟨buf, maxlen, start, received, ip⟩ := h
  obtain ⟨p, ma, initLen, maxLen, warnLen⟩ := cfg
  unfold updatePeriod ResamplingHelper.updatePeriod skipPeriodUpdate ResamplingHelper.clampEstimate minInputPeriodEstimate
  cases start <;> cases ip <;> simp <;> (repeat' split) <;> simp_all <;> omega


theorem totalSeconds_eq_zero (td : Int) : totalSeconds td = (0 : Rat) / 1 ↔ td = 0 := by
  unfold totalSeconds
  constructor
  · intro h
    have h2 : (td : Rat) = 0 := by grind
    exact_mod_cast h2
  · intro h
    subst h
    grind

/-- The length asked for is the extracted `newBufferLenOf` (the same source expression, translated twice). -/
theorem askedBufferLen_eq (buf : List ResamplingHelper.Sample) (maxlen : Nat) (start : Option Int) (received : Nat)
    (ip p : Int) (ma : Rat) (maxL warnL : Nat) :
    askedBufferLen buf maxlen start received ip p ma maxL warnL = newBufferLenOf ip p ma maxL warnL := by
  unfold askedBufferLen newBufferLenOf
  first
    | rfl
    | ((repeat' split) <;> first | rfl | omega | (simp_all <;> omega))

theorem newBufferLenOf_nonneg (ip p : Int) (ma : Rat) (maxL warnL : Nat) : 0 ≤ newBufferLenOf ip p ma maxL warnL := by
  unfold newBufferLenOf
  (repeat' split) <;> omega

/-- `_update_buffer_len` is `newBufferLen` + `resize`: the `ZeroDivisionError` case, the length asked for (the
extracted `newBufferLenOf`), no rebuild when it is the current `maxlen`, otherwise the newest samples are kept. -/
theorem updateBufferLen_eq (cfg : ResamplingHelper.Cfg) (h : ResamplingHelper.Helper) (ip : Int) :
    updateBufferLen h.buf h.maxlen h.start h.received ip cfg.period cfg.maxAge cfg.maxLen cfg.warnLen =
      match ResamplingHelper.newBufferLen cfg ip with
      | none => none
      | some n => some ((ResamplingHelper.resize { h with inputPeriod := some ip } n).buf,
                        (ResamplingHelper.resize { h with inputPeriod := some ip } n).maxlen,
                        h.start, h.received, some ip, decide (n ≠ h.maxlen)) := by
  obtain ⟨buf, maxlen, start, received, ip0⟩ := h
  obtain ⟨p, ma, initLen, maxLen, warnLen⟩ := cfg
  have hn := newBufferLenOf_nonneg ip p ma maxLen warnLen
  unfold updateBufferLen ResamplingHelper.newBufferLen ResamplingHelper.resize
  simp only [totalSeconds_eq_zero, askedBufferLen_eq]
  generalize newBufferLenOf ip p ma maxLen warnLen = n at hn ⊢
  by_cases hgt : p < ip <;> by_cases h0 : ip = 0 <;> by_cases he : n = (maxlen : Int) <;>
    first
      | (have h2 : n.toNat = maxlen := by omega
         simp_all <;> omega)
      | (have h2 : ¬ n.toNat = maxlen := by omega
         simp_all <;> omega)
      | (simp_all <;> omega)

/-- The rest of `resample()` is `relevant`: the two bisections with the extracted keys bound the slice; the resampling
function is called with it unless it is empty. -/
theorem resampleWindow_eq (cfg : ResamplingHelper.Cfg) (h : ResamplingHelper.Helper) (T : Int) :
    resampleWindow h.buf h.inputPeriod cfg.period cfg.maxAge T =
      (T, if (ResamplingHelper.relevant cfg h T).isEmpty then none else some (ResamplingHelper.relevant cfg h T)) := by
  obtain ⟨buf, maxlen, start, received, ip⟩ := h
  obtain ⟨p, ma, initLen, maxLen, warnLen⟩ := cfg
  unfold resampleWindow ResamplingHelper.relevant ResamplingHelper.minRelevant ResamplingHelper.maxRelevant
    relevanceLowKey relevanceHighKey
  cases ip with
  | none => simp only []; split <;> simp_all
  | some v =>
    simp only []
    rcases Int.lt_trichotomy p v with hlt | heq | hgt
    · (repeat' split) <;> first | omega | (simp_all; done) | (simp_all <;> omega)
    · subst heq; (repeat' split) <;> first | omega | (simp_all; done) | (simp_all <;> omega)
    · (repeat' split) <;> first | omega | (simp_all; done) | (simp_all <;> omega)

/-- **`_ResamplingHelper.resample` is `ResamplingHelper.tick`.**  `none` (an exception escapes) exactly when the
model says `err`; otherwise the state afterwards, the timestamp `T` of the returned sample, and the samples the
resampling function is called with (`none`: the value is `None` because nothing is relevant). -/
theorem resampleHelper_eq (cfg : ResamplingHelper.Cfg) (h : ResamplingHelper.Helper) (T est : Int) :
    resampleHelper h.buf h.maxlen h.start h.received h.inputPeriod cfg.period cfg.maxAge cfg.maxLen cfg.warnLen T est =
      if (ResamplingHelper.tick cfg h T est).2.err then none
      else some (stTuple (ResamplingHelper.tick cfg h T est).1, T,
                 if (ResamplingHelper.tick cfg h T est).2.rel.isEmpty then none
                 else some (ResamplingHelper.tick cfg h T est).2.rel) := by
  unfold resampleHelper
  have hu := updatePeriod_eq cfg h T est
  rw [hu.1]
  simp only []
  unfold ResamplingHelper.tick
  by_cases hb : (ResamplingHelper.updatePeriod cfg h T est).2 = true
  · simp only [hb, if_true]
    -- the period has just been set to the clamped estimate
    have hip : (ResamplingHelper.updatePeriod cfg h T est).1.inputPeriod = some (ResamplingHelper.clampEstimate est) ∧
        (ResamplingHelper.updatePeriod cfg h T est).1 = { h with inputPeriod := some (ResamplingHelper.clampEstimate est) } := by
      unfold ResamplingHelper.updatePeriod at hb ⊢
      split <;> simp_all
    rw [hip.1]
    simp only []
    have hl := updateBufferLen_eq cfg h (ResamplingHelper.clampEstimate est)
    rw [hl, hip.2]
    cases hn : ResamplingHelper.newBufferLen cfg (ResamplingHelper.clampEstimate est) with
    | none => simp
    | some n =>
      simp only []
      have hw := resampleWindow_eq cfg (ResamplingHelper.resize { h with inputPeriod := some (ResamplingHelper.clampEstimate est) } n) T
      have hr : ResamplingHelper.resize { h with inputPeriod := some (ResamplingHelper.clampEstimate est) } n =
          { buf := (ResamplingHelper.resize { h with inputPeriod := some (ResamplingHelper.clampEstimate est) } n).buf,
            maxlen := (ResamplingHelper.resize { h with inputPeriod := some (ResamplingHelper.clampEstimate est) } n).maxlen,
            start := h.start, received := h.received, inputPeriod := some (ResamplingHelper.clampEstimate est) } := by
        unfold ResamplingHelper.resize; split <;> rfl
      have hp : (ResamplingHelper.resize { h with inputPeriod := some (ResamplingHelper.clampEstimate est) } n).inputPeriod
          = some (ResamplingHelper.clampEstimate est) := by rw [hr]
      rw [hp] at hw
      simp only [hw, stTuple, Bool.false_eq_true, if_false]
      rw [hr]
  · simp only [Bool.not_eq_true] at hb
    simp only [hb, Bool.false_eq_true, if_false]
    have hst : (ResamplingHelper.updatePeriod cfg h T est).1 = h := by
      unfold ResamplingHelper.updatePeriod at hb ⊢
      split <;> simp_all
    have hw := resampleWindow_eq cfg h T
    simp only [hst, hw, stTuple]

end ResamplerTie
