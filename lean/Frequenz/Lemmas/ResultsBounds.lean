/-
Bounds of the PV water-filling loop (serves: C15): every allocation respects the inverter's lower bound
and never has the wrong sign.  The sign of `remaining / (n - idx)` needs an ordered-field lemma (Mathlib).
-/
import Frequenz.Lemmas.Results
import Mathlib.Algebra.Order.Field.Rat
import Mathlib.Algebra.Order.Field.Basic

namespace Results

open Extracted.Distributor

theorem div_nat_nonpos (r : Rat) (k : Nat) (h : r ≤ 0) : r / ((k : Nat) : Rat) ≤ 0 :=
  div_nonpos_of_nonpos_of_nonneg h (by exact_mod_cast Nat.zero_le k)

/-- The loop only allocates while the remaining power is negative. -/
theorem neg_of_not_skip (rem : Rat) (h : ¬ pvSkip rem) : rem < 0 := by
  unfold pvSkip closeToZeroTol at h
  grind

/-- The allocation never goes beyond the inverter's lower bound (whatever the share is). -/
theorem alloc_ge_bound (rem b share : Rat) : b ≤ pvAlloc rem b share := by
  unfold pvAlloc pyMax
  grind

theorem share_nonpos (rem : Rat) (num idx : Nat) (hr : rem ≤ 0) : pvShare rem num idx ≤ 0 := by
  unfold pvShare
  exact div_nat_nonpos rem (num - idx) hr

/-- An equal share of a negative remaining power is never more (in magnitude) than what remains. -/
theorem share_ge_rem (rem : Rat) (num idx : Nat) (hr : rem ≤ 0) : rem ≤ pvShare rem num idx := by
  unfold pvShare
  rcases Nat.eq_zero_or_pos (num - idx) with h0 | hp
  · rw [h0]; simpa using hr
  · have h1 : (1 : Rat) ≤ ((num - idx : Nat) : Rat) := by exact_mod_cast hp
    have := div_le_self (neg_nonneg.mpr hr) h1
    rw [neg_div] at this
    exact neg_le_neg_iff.mp this

/-- …and never takes more than what remains. -/
theorem alloc_ge_rem (rem b share : Rat) (hs : rem ≤ share) : rem ≤ pvAlloc rem b share := by
  unfold pvAlloc pyMax
  grind

theorem alloc_nonpos (rem b : Rat) (num idx : Nat) (hr : rem < 0) (hb : b ≤ 0) :
    pvAlloc rem b (pvShare rem num idx) ≤ 0 := by
  have hs : pvShare rem num idx ≤ 0 := share_nonpos rem num idx (le_of_lt hr)
  unfold pvAlloc pyMax
  grind

/-- What "the allocation of inverter `x` is within its bound" means: it is for that inverter; it is zero or
not below the lower bound; and for a non-positive lower bound (every real PV inverter) it lies in `[bound, 0]`. -/
def WithinBound (x : PvInv) (ia : Nat × Rat) : Prop :=
  ia.1 = x.id ∧ (ia.2 = 0 ∨ x.bound ≤ ia.2) ∧ (x.bound ≤ 0 → x.bound ≤ ia.2 ∧ ia.2 ≤ 0)

theorem allocLoop_bounds (num : Nat) (xs : List PvInv) (idx : Nat) (rem : Rat) :
    List.Forall₂ WithinBound xs (allocLoop num idx rem xs).1 := by
  induction xs generalizing idx rem with
  | nil => simp [allocLoop]
  | cons x xs ih =>
    by_cases hs : pvSkip rem
    · simp only [allocLoop, hs, if_true]
      refine List.Forall₂.cons ⟨rfl, Or.inl rfl, fun hb => ⟨hb, le_refl _⟩⟩ (ih _ _)
    · simp only [allocLoop, hs, if_false]
      have hr := neg_of_not_skip rem hs
      refine List.Forall₂.cons ⟨rfl, Or.inr (alloc_ge_bound rem x.bound (pvShare rem num idx)),
        fun hb => ⟨alloc_ge_bound rem x.bound (pvShare rem num idx), alloc_nonpos rem x.bound num idx hr hb⟩⟩ (ih _ _)

/-- The remaining power never changes sign and never grows in magnitude: `rem ≤ remaining' ≤ 0` when the
request is negative and all bounds are non-positive. -/
theorem allocLoop_remaining (num : Nat) (xs : List PvInv) (idx : Nat) (rem : Rat)
    (hb : ∀ x ∈ xs, x.bound ≤ 0) (hr : rem ≤ 0) :
    rem ≤ (allocLoop num idx rem xs).2 ∧ (allocLoop num idx rem xs).2 ≤ 0 := by
  induction xs generalizing idx rem with
  | nil => simp [allocLoop, hr]
  | cons x xs ih =>
    have hb' : ∀ y ∈ xs, y.bound ≤ 0 := fun y hy => hb y (List.mem_cons_of_mem _ hy)
    by_cases hs : pvSkip rem
    · simp only [allocLoop, hs, if_true]
      exact ih _ _ hb' hr
    · simp only [allocLoop, hs, if_false]
      have hneg := neg_of_not_skip rem hs
      have h1 := alloc_ge_rem rem x.bound (pvShare rem num idx) (share_ge_rem rem num idx (le_of_lt hneg))
      have h2 := alloc_nonpos rem x.bound num idx hneg (hb x List.mem_cons_self)
      have := ih (idx + 1) (rem - pvAlloc rem x.bound (pvShare rem num idx)) hb' (by grind)
      constructor <;> grind

end Results
