/-
C12: the `visited` set of `dfs` is dead code on trees with pairwise distinct component ids.
-/
import Frequenz.Model.Graph

namespace Graph

theorem contains_false_of_not_mem (vis : List Nat) (i : Nat) (h : i ∉ vis) : vis.contains i = false := by
  simpa using h

mutual
theorem dfsV_eq (cond : Pos → Node → Bool) :
    (n : Node) → (pos : Pos) → (parent : Option (Node × Pos)) → (vis : List Nat) →
    (∀ i ∈ n.allIds, i ∉ vis) → n.allIds.Nodup →
    (dfsV cond pos parent vis n).2 = dfs cond pos parent n
      ∧ ∀ i ∈ (dfsV cond pos parent vis n).1, i ∈ vis ∨ i ∈ n.allIds
  | .meter id cs, pos, parent, vis, hd, hn => by
    have hid : vis.contains id = false := contains_false_of_not_mem vis id (hd id (by simp [Node.allIds]))
    simp only [Node.allIds, List.nodup_cons] at hn
    by_cases hc : cond pos (.meter id cs) = true
    · simp only [dfsV, hid, Bool.false_eq_true, if_false, hc, if_true, dfs, Node.allIds, true_and]
      intro i hi
      rcases List.mem_cons.mp hi with h | h
      · right; simp [h]
      · left; exact h
    · have hc' : cond pos (.meter id cs) = false := by simpa using hc
      obtain ⟨h1, h2⟩ := dfsVL_eq cond cs (belowMeter cs) (some (.meter id cs, pos)) (id :: vis)
        (by
          intro i hi hmem
          rcases List.mem_cons.mp hmem with h | h
          · subst h; exact hn.1 hi
          · exact hd i (by simp [Node.allIds, hi]) h)
        hn.2
      simp only [dfsV, hid, Bool.false_eq_true, if_false, hc', dfs, h1, true_and, Node.allIds]
      intro i hi
      rcases h2 i hi with h | h
      · rcases List.mem_cons.mp h with h' | h'
        · right; simp [h']
        · left; exact h'
      · right; simp [h]
  | .batInv id bs, pos, parent, vis, hd, _ => by
    have hid : vis.contains id = false := contains_false_of_not_mem vis id (hd id (by simp [Node.allIds]))
    by_cases hc : cond pos (.batInv id bs) = true
    · simp only [dfsV, hid, Bool.false_eq_true, if_false, hc, if_true, dfs, Node.allIds, true_and]
      intro i hi
      rcases List.mem_cons.mp hi with h | h
      · right; simp [h]
      · left; exact h
    · have hc' : cond pos (.batInv id bs) = false := by simpa using hc
      simp only [dfsV, hid, Bool.false_eq_true, if_false, hc', dfs, Node.allIds, true_and]
      intro i hi
      rcases List.mem_append.mp hi with h | h
      · right; simp [h]
      · rcases List.mem_cons.mp h with h' | h'
        · right; simp [h']
        · left; exact h'
  | .pvInv id, pos, parent, vis, hd, _ => by
    have hid : vis.contains id = false := contains_false_of_not_mem vis id (hd id (by simp [Node.allIds]))
    simp only [dfsV, hid, Bool.false_eq_true, if_false, dfs, Node.allIds, true_and]
    intro i hi
    rcases List.mem_cons.mp hi with h | h
    · right; simp [h]
    · left; exact h
  | .ev id, pos, parent, vis, hd, _ => by
    have hid : vis.contains id = false := contains_false_of_not_mem vis id (hd id (by simp [Node.allIds]))
    simp only [dfsV, hid, Bool.false_eq_true, if_false, dfs, Node.allIds, true_and]
    intro i hi
    rcases List.mem_cons.mp hi with h | h
    · right; simp [h]
    · left; exact h
  | .chp id, pos, parent, vis, hd, _ => by
    have hid : vis.contains id = false := contains_false_of_not_mem vis id (hd id (by simp [Node.allIds]))
    simp only [dfsV, hid, Bool.false_eq_true, if_false, dfs, Node.allIds, true_and]
    intro i hi
    rcases List.mem_cons.mp hi with h | h
    · right; simp [h]
    · left; exact h
theorem dfsVL_eq (cond : Pos → Node → Bool) :
    (ns : List Node) → (pos : Pos) → (parent : Option (Node × Pos)) → (vis : List Nat) →
    (∀ i ∈ allIdsL ns, i ∉ vis) → (allIdsL ns).Nodup →
    (dfsVL cond pos parent vis ns).2 = dfsL cond pos parent ns
      ∧ ∀ i ∈ (dfsVL cond pos parent vis ns).1, i ∈ vis ∨ i ∈ allIdsL ns
  | [], _, _, vis, _, _ => by
    simp only [dfsVL, dfsL, true_and]
    intro i hi; left; exact hi
  | n :: ns, pos, parent, vis, hd, hn => by
    simp only [allIdsL, List.nodup_append] at hn
    obtain ⟨hn1, hn2, hdisj⟩ := hn
    obtain ⟨a1, a2⟩ := dfsV_eq cond n pos parent vis
      (fun i hi => hd i (by simp [allIdsL, hi])) hn1
    obtain ⟨b1, b2⟩ := dfsVL_eq cond ns pos parent (dfsV cond pos parent vis n).1
      (by
        intro i hi hmem
        rcases a2 i hmem with h | h
        · exact hd i (by simp [allIdsL, hi]) h
        · exact hdisj i h i hi rfl)
      hn2
    simp only [dfsVL, dfsL, a1, b1, true_and, allIdsL]
    intro i hi
    rcases b2 i hi with h | h
    · rcases a2 i h with h' | h'
      · left; exact h'
      · right; simp [h']
    · right; simp [h]
end

end Graph
