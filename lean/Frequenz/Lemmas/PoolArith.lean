/-
Arithmetic facts about the Python built-ins of `Frequenz.Extracted.Pool` (`sum`, `max`, `min` over lists, `abs`,
`math.isclose`, `is_close_to_zero`) and a few ordered-field lemmas on `Rat` that `grind` does not find by itself
(everything involving a division).  Serves C17 and C18.
-/
import Frequenz.Extracted.Pool

namespace PoolArith
open Extracted.Pool

/-! ### `sum` -/

theorem foldl_add (a : Rat) (xs : List Rat) : xs.foldl (· + ·) a = a + xs.foldl (· + ·) 0 := by
  induction xs generalizing a with
  | nil => simp [Rat.add_zero]
  | cons x xs ih =>
    simp only [List.foldl_cons]
    rw [ih (a + x), ih (0 + x)]
    grind

@[simp] theorem pySum_nil : pySum [] = 0 := rfl

theorem pySum_cons (x : Rat) (xs : List Rat) : pySum (x :: xs) = x + pySum xs := by
  unfold pySum
  simp only [List.foldl_cons]
  rw [foldl_add]
  grind

theorem pySum_append (xs ys : List Rat) : pySum (xs ++ ys) = pySum xs + pySum ys := by
  induction xs with
  | nil => simp [Rat.zero_add]
  | cons x xs ih => simp only [List.cons_append, pySum_cons, ih]; grind

theorem pySum_flatMap {α : Type} (f : α → List Rat) (xs : List α) :
    pySum (xs.flatMap f) = pySum (xs.map fun x => pySum (f x)) := by
  induction xs with
  | nil => simp
  | cons x xs ih => simp only [List.flatMap_cons, List.map_cons, pySum_append, pySum_cons, ih]

theorem pySum_map_le {α : Type} (f g : α → Rat) (xs : List α) (h : ∀ x ∈ xs, f x ≤ g x) :
    pySum (xs.map f) ≤ pySum (xs.map g) := by
  induction xs with
  | nil => simp
  | cons x xs ih =>
    simp only [List.map_cons, pySum_cons]
    have h1 := h x (by simp)
    have h2 := ih (fun y hy => h y (by simp [hy]))
    grind

theorem pySum_nonneg (xs : List Rat) (h : ∀ x ∈ xs, 0 ≤ x) : 0 ≤ pySum xs := by
  induction xs with
  | nil => simp
  | cons x xs ih =>
    rw [pySum_cons]
    have h1 := h x (by simp)
    have h2 := ih (fun y hy => h y (by simp [hy]))
    grind

theorem le_pySum_of_mem (xs : List Rat) (h : ∀ x ∈ xs, 0 ≤ x) (y : Rat) (hy : y ∈ xs) : y ≤ pySum xs := by
  induction xs with
  | nil => simp at hy
  | cons x xs ih =>
    rw [pySum_cons]
    have hx := h x (by simp)
    have hrest : 0 ≤ pySum xs := pySum_nonneg xs (fun z hz => h z (by simp [hz]))
    rcases List.mem_cons.mp hy with rfl | hmem
    · grind
    · have := ih (fun z hz => h z (by simp [hz])) hmem
      grind

theorem pySum_map_mul_left {α : Type} (k : Rat) (f : α → Rat) (xs : List α) :
    pySum (xs.map fun x => k * f x) = k * pySum (xs.map f) := by
  induction xs with
  | nil => simp
  | cons x xs ih => simp only [List.map_cons, pySum_cons, ih]; grind

theorem pySum_map_add {α : Type} (f g : α → Rat) (xs : List α) :
    pySum (xs.map fun x => f x + g x) = pySum (xs.map f) + pySum (xs.map g) := by
  induction xs with
  | nil => simp [Rat.add_zero]
  | cons x xs ih => simp only [List.map_cons, pySum_cons, ih]; grind

/-! ### `max` / `min` -/

theorem pyMax_ge_left (a b : Rat) : a ≤ pyMax a b := by unfold pyMax; grind
theorem pyMax_ge_right (a b : Rat) : b ≤ pyMax a b := by unfold pyMax; grind
theorem pyMin_le_left (a b : Rat) : pyMin a b ≤ a := by unfold pyMin; grind
theorem pyMin_le_right (a b : Rat) : pyMin a b ≤ b := by unfold pyMin; grind
theorem pyMax_le {a b c : Rat} (ha : a ≤ c) (hb : b ≤ c) : pyMax a b ≤ c := by unfold pyMax; grind
theorem le_pyMin {a b c : Rat} (ha : c ≤ a) (hb : c ≤ b) : c ≤ pyMin a b := by unfold pyMin; grind
theorem pyMax_mono_right (a : Rat) {b c : Rat} (h : b ≤ c) : pyMax a b ≤ pyMax a c := by unfold pyMax; grind
theorem pyMin_mono_right (a : Rat) {b c : Rat} (h : b ≤ c) : pyMin a b ≤ pyMin a c := by unfold pyMin; grind
theorem pyMin_neg (a b : Rat) : pyMin a b = -pyMax (-a) (-b) := by unfold pyMin pyMax; grind

theorem foldl_pyMin_le (a : Rat) (xs : List Rat) :
    xs.foldl pyMin a ≤ a ∧ ∀ y ∈ xs, xs.foldl pyMin a ≤ y := by
  induction xs generalizing a with
  | nil => simp
  | cons x xs ih =>
    simp only [List.foldl_cons]
    have h := ih (pyMin a x)
    have h1 := pyMin_le_left a x
    have h2 := pyMin_le_right a x
    refine ⟨by grind, ?_⟩
    intro y hy
    rcases List.mem_cons.mp hy with rfl | hmem
    · grind
    · exact h.2 y hmem

theorem pyMinL_le_of_mem (xs : List Rat) (y : Rat) (hy : y ∈ xs) : pyMinL xs ≤ y := by
  cases xs with
  | nil => simp at hy
  | cons x xs =>
    unfold pyMinL
    have h := foldl_pyMin_le x xs
    rcases List.mem_cons.mp hy with rfl | hmem
    · exact h.1
    · exact h.2 y hmem

/-- `min(xs) <= sum(xs)` for a non-empty list of non-negative numbers. -/
theorem pyMinL_le_pySum (xs : List Rat) (hne : xs ≠ []) (h : ∀ x ∈ xs, 0 ≤ x) : pyMinL xs ≤ pySum xs := by
  cases xs with
  | nil => exact absurd rfl hne
  | cons x xs =>
    have h1 := pyMinL_le_of_mem (x :: xs) x (by simp)
    have h2 := le_pySum_of_mem (x :: xs) h x (by simp)
    grind

/-! ### division on `Rat` -/

theorem div_le_of_le_mul {a b t : Rat} (ht : 0 < t) (h : a ≤ b * t) : a / t ≤ b := by
  have hne : t ≠ 0 := by grind
  apply Rat.le_of_mul_le_mul_right (c := t) _ ht
  rw [Rat.div_mul_cancel hne]
  exact h

theorem le_div_of_mul_le {a b t : Rat} (ht : 0 < t) (h : b * t ≤ a) : b ≤ a / t := by
  have hne : t ≠ 0 := by grind
  apply Rat.le_of_mul_le_mul_right (c := t) _ ht
  rw [Rat.div_mul_cancel hne]
  exact h

theorem div_le_div_right {a b t : Rat} (ht : 0 < t) (h : a ≤ b) : a / t ≤ b / t := by
  have hne : t ≠ 0 := by grind
  apply div_le_of_le_mul ht
  rw [Rat.div_mul_cancel hne]
  exact h

theorem mul_div_mul_left (k a t : Rat) (hk : k ≠ 0) : (k * a) / (k * t) = a / t := by
  grind

/-! ### `abs`, `math.isclose`, `is_close_to_zero` -/

theorem pyAbs_nonneg (x : Rat) : 0 ≤ pyAbs x := by unfold pyAbs; grind
theorem pyAbs_of_nonneg {x : Rat} (h : 0 ≤ x) : pyAbs x = x := by unfold pyAbs; grind

/-- `is_close_to_zero(v)` is exactly `|v| ≤ abs_tol` (the relative part of `math.isclose` never helps against 0). -/
theorem isCloseToZero_iff (v : Rat) : isCloseToZero v ↔ pyAbs v ≤ closeToZeroAbsTol := by
  unfold isCloseToZero pyIsclose closeToZeroAbsTol pyAbs
  constructor
  · intro h
    rcases h with h | h | h | h <;> grind
  · intro h
    grind

theorem isCloseToZero_of_nonneg {v : Rat} (h : 0 ≤ v) : isCloseToZero v ↔ v ≤ closeToZeroAbsTol := by
  rw [isCloseToZero_iff, pyAbs_of_nonneg h]

theorem closeToZeroAbsTol_pos : 0 < closeToZeroAbsTol := by unfold closeToZeroAbsTol; decide +kernel

theorem isCloseToZero_zero : isCloseToZero 0 := by
  rw [isCloseToZero_iff]; unfold pyAbs closeToZeroAbsTol; decide +kernel

end PoolArith
