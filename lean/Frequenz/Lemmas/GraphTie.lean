/-
The hand-written model of `component_graph.py` and of the formula generators (`Frequenz.Model.Graph`) is EQUAL to the
machine translation of the current source text (`Frequenz.Extracted.GraphLoops`, regenerated on every run by
`tools/extractors/graph_loops.py`).

The translation works on `Comp` (a node with its place in the tree); the model on `(pos, node)`.  The proofs unfold both
sides, split on the constructors / categories that occur and close the leaves by simplification, so a
behaviour-preserving rewrite of the Python (which yields the same or an equivalent term) still goes through while a
semantic change leaves a false leaf.
-/
import Frequenz.Model.Graph
import Frequenz.Lemmas.Graph
import Frequenz.Extracted.GraphLoops
import Mathlib.Tactic.SplitIfs

set_option linter.unusedTactic false
set_option linter.unusedSimpArgs false
set_option linter.unusedSectionVars false

namespace GraphTie

open Graph Extracted.Graph
namespace S
export Extracted.GraphLoops (isGridMeter isPvInverter isBatteryInverter isEvCharger isChp isPvMeter isBatteryMeter
  isEvChargerMeter isChpMeter isPvChain isBatteryChain isEvChargerChain isChpChain dfs meterFallbackComponents
  isPrimaryFallbackPair mfcStep metricFallbackComponents gridFormula producerFormula consumerFormula)
end S

/-- the component for a node at a place -/
abbrev mk (root : Grid) (anc : List Node) (n : Node) : Comp := ⟨.node n, anc, root⟩

@[simp] theorem mk_cat (root anc n) : (mk root anc n).cat = n.cat := rfl
@[simp] theorem mk_typ (root anc n) : (mk root anc n).typ = n.ityp := rfl
@[simp] theorem mk_id (root anc n) : (mk root anc n).id = n.id := rfl
@[simp] theorem mk_node (root anc n) : (mk root anc n).node = n := rfl

/-- close a Boolean leaf: enumerate the category / inverter type of the node, then propositional reasoning -/
macro "bool_leaf" n:term : tactic =>
  `(tactic| (first
    | done
    | (simp; done)
    | (cases hcat : Node.cat $n <;> cases htyp : Node.ityp $n <;> simp_all <;> done)
    | (cases hcat : Node.cat $n <;> cases htyp : Node.ityp $n <;> simp_all <;> grind)
    | grind))

theorem isGridMeter_tie (root : Grid) (anc : List Node) (n : Node) :
    S.isGridMeter (mk root anc n) = Graph.isGridMeter (mk root anc n).pos n := by
  unfold Extracted.GraphLoops.isGridMeter Graph.isGridMeter
  cases anc with
  | nil =>
    simp [mk, Comp.preds, Comp.pos, Comp.cat, firstComp, Grid.comp, Comp.succs, topPos, gridMeterSpec]
    all_goals bool_leaf n
  | cons p rest =>
    cases p <;>
      simp [mk, Comp.preds, Comp.pos, Comp.cat, firstComp, Comp.succs, gridMeterSpec, Node.cat] <;>
      bool_leaf n

theorem leaf_tie (root : Grid) (anc : List Node) (n : Node) :
    S.isPvInverter (mk root anc n) = leafTest .pvInverter n
    ∧ S.isBatteryInverter (mk root anc n) = leafTest .batteryInverter n
    ∧ S.isEvCharger (mk root anc n) = leafTest .evCharger n
    ∧ S.isChp (mk root anc n) = leafTest .chp n := by
  refine ⟨?_, ?_, ?_, ?_⟩ <;>
    simp [Extracted.GraphLoops.isPvInverter, Extracted.GraphLoops.isBatteryInverter, Extracted.GraphLoops.isEvCharger,
      Extracted.GraphLoops.isChp, leafTest, Leaf.test, pvInverterTest, batteryInverterTest, evChargerTest, chpTest] <;>
    bool_leaf n

@[simp] theorem isPvInverter_mk (root anc n) : S.isPvInverter (mk root anc n) = leafTest .pvInverter n := (leaf_tie root anc n).1
@[simp] theorem isBatteryInverter_mk (root anc n) : S.isBatteryInverter (mk root anc n) = leafTest .batteryInverter n :=
  (leaf_tie root anc n).2.1
@[simp] theorem isEvCharger_mk (root anc n) : S.isEvCharger (mk root anc n) = leafTest .evCharger n := (leaf_tie root anc n).2.2.1
@[simp] theorem isChp_mk (root anc n) : S.isChp (mk root anc n) = leafTest .chp n := (leaf_tie root anc n).2.2.2

/-- the four `is_*_meter` -/
theorem meter_tie (root : Grid) (anc : List Node) (n : Node) :
    S.isPvMeter (mk root anc n) = meterPred .pvMeter (mk root anc n).pos n
    ∧ S.isBatteryMeter (mk root anc n) = meterPred .batteryMeter (mk root anc n).pos n
    ∧ S.isEvChargerMeter (mk root anc n) = meterPred .evChargerMeter (mk root anc n).pos n
    ∧ S.isChpMeter (mk root anc n) = meterPred .chpMeter (mk root anc n).pos n := by
  have hg := isGridMeter_tie root anc n
  refine ⟨?_, ?_, ?_, ?_⟩ <;>
    cases n <;>
    simp [Extracted.GraphLoops.isPvMeter, Extracted.GraphLoops.isBatteryMeter, Extracted.GraphLoops.isEvChargerMeter,
      Extracted.GraphLoops.isChpMeter, meterPred, MeterPred.spec, pvMeterSpec, batteryMeterSpec, evChargerMeterSpec,
      chpMeterSpec, hg, Comp.succs, Comp.cat, Node.cat, Node.children, List.all_map, Function.comp_def] <;>
    grind

/-- the four `is_*_chain` -/
theorem chain_tie (root : Grid) (anc : List Node) (n : Node) :
    S.isPvChain (mk root anc n) = chain .pv (mk root anc n).pos n
    ∧ S.isBatteryChain (mk root anc n) = chain .battery (mk root anc n).pos n
    ∧ S.isEvChargerChain (mk root anc n) = chain .evCharger (mk root anc n).pos n
    ∧ S.isChpChain (mk root anc n) = chain .chp (mk root anc n).pos n := by
  obtain ⟨h1, h2, h3, h4⟩ := meter_tie root anc n
  refine ⟨?_, ?_, ?_, ?_⟩ <;>
    simp [Extracted.GraphLoops.isPvChain, Extracted.GraphLoops.isBatteryChain, Extracted.GraphLoops.isEvChargerChain,
      Extracted.GraphLoops.isChpChain, chain, Chain.parts, h1, h2, h3, h4] <;>
    grind

/-! ## `dfs`

`refDfs` is the Python function written down once by hand over `Comp` (recursion bounded by fuel).  (1) the machine
translation equals it (a proof by unfolding that does not depend on how the translation is phrased); (2) on a tree whose
node ids are pairwise distinct and distinct from the battery ids, started with a `visited` set that contains none of
the ids of the subtree, with fuel at least the size of the subtree, it returns exactly the components of the model's
`dfs` (`Comp.found` forgets the place but for `pos` and `parent`). -/

def refDfs : Nat → Comp → List Comp → (Comp → Bool) → List Comp × List Comp
  | 0, _, vis, _ => (vis, [])
  | fuel + 1, c, vis, cond =>
    if memIds c vis then (vis, [])
    else if cond c then (unionIds vis [c], [c])
    else c.succs.foldl (fun st x => ((refDfs fuel x st.1 cond).1, unionIds st.2 (refDfs fuel x st.1 cond).2))
      (unionIds vis [c], [])

/-- the translation of the recursive `dfs` is `refDfs` (used as a hypothesis: it is established by unfolding where the
source IS recursive; an iterative `dfs` goes through `refWork` below) -/
def IsRec : Prop := ∀ (fuel : Nat) (c : Comp) (vis : List Comp) (cond : Comp → Bool),
  S.dfs fuel c vis cond = refDfs fuel c vis cond

mutual
/-- ids of the meters and devices (batteries excluded: a battery may hang on several inverters) -/
def nodeIds : Node → List Nat
  | .meter id cs => id :: nodeIdsL cs
  | .batInv id _ => [id]
  | .pvInv id => [id]
  | .ev id => [id]
  | .chp id => [id]
def nodeIdsL : List Node → List Nat
  | [] => []
  | n :: ns => nodeIds n ++ nodeIdsL ns
end

mutual
def sz : Node → Nat
  | .meter _ cs => szL cs + 1
  | .batInv _ _ => 2
  | .pvInv _ => 1
  | .ev _ => 1
  | .chp _ => 1
def szL : List Node → Nat
  | [] => 0
  | n :: ns => sz n + szL ns
end

theorem memIds_false (c : Comp) (vis : List Comp) (h : ∀ x ∈ vis, x.id ≠ c.id) : memIds c vis = false := by
  simp only [memIds, List.any_eq_false, beq_iff_eq]
  intro x hx; exact h x hx

theorem unionIds_disjoint (a b : List Comp) (h : ∀ x ∈ b, ∀ y ∈ a, y.id ≠ x.id) : unionIds a b = a ++ b := by
  unfold unionIds
  congr 1
  rw [List.filter_eq_self]
  intro x hx
  simp [memIds_false x a (h x hx)]

theorem mem_unionIds {a b : List Comp} {x : Comp} (h : x ∈ unionIds a b) : x ∈ a ∨ x ∈ b := by
  unfold unionIds at h
  rcases List.mem_append.mp h with h | h
  · exact Or.inl h
  · exact Or.inr (List.mem_filter.mp h).1

/-- `pos` / `parent` of every component whose ancestors are `anc` -/
def posOf (root : Grid) (anc : List Node) : Pos := (mk root anc default).pos
def parentOf (root : Grid) (anc : List Node) : Option (Node × Pos) := (mk root anc default).parentInfo

theorem found_mk (root anc n) : (mk root anc n).found = ⟨n, posOf root anc, parentOf root anc⟩ := rfl

/-- the loop over the batteries of an inverter: nothing is found -/
theorem ref_bats (root : Grid) (condS : Comp → Bool) (hb : ∀ b anc, condS ⟨.bat b, anc, root⟩ = false)
    (fuel : Nat) (anc : List Node) :
    ∀ (bs : List Nat) (vis acc : List Comp),
      let r := (bs.map (fun b => (⟨.bat b, anc, root⟩ : Comp))).foldl
        (fun st x => ((refDfs (fuel + 1) x st.1 condS).1, unionIds st.2 (refDfs (fuel + 1) x st.1 condS).2)) (vis, acc)
      r.2 = acc ∧ ∀ x ∈ r.1, x ∈ vis ∨ x.id ∈ bs := by
  intro bs
  induction bs with
  | nil => intro vis acc; simp
  | cons b bs ih =>
    intro vis acc
    simp only [List.map_cons, List.foldl_cons]
    have h1 : (refDfs (fuel + 1) ⟨.bat b, anc, root⟩ vis condS).2 = [] := by
      simp only [refDfs, hb]
      split <;> simp [Comp.succs]
    have h2 : ∀ x ∈ (refDfs (fuel + 1) ⟨.bat b, anc, root⟩ vis condS).1, x ∈ vis ∨ x.id = b := by
      simp only [refDfs, hb]
      split
      · intro x hx; exact Or.inl hx
      · simp only [Bool.false_eq_true, if_false, Comp.succs, List.foldl_nil]
        intro x hx
        rcases mem_unionIds hx with h | h
        · exact Or.inl h
        · right; simp at h; subst h; rfl
    obtain ⟨a1, a2⟩ := ih (refDfs (fuel + 1) ⟨.bat b, anc, root⟩ vis condS).1
      (unionIds acc (refDfs (fuel + 1) ⟨.bat b, anc, root⟩ vis condS).2)
    refine ⟨?_, ?_⟩
    · rw [a1, h1]; simp [unionIds]
    · intro x hx
      rcases a2 x hx with h | h
      · rcases h2 x h with h' | h'
        · exact Or.inl h'
        · right; simp [h']
      · right; simp [h]

section tree
variable (root : Grid) (condS : Comp → Bool) (condM : Pos → Node → Bool)
variable (hc : ∀ anc n, condS (mk root anc n) = condM (posOf root anc) n)
variable (hb : ∀ b anc, condS ⟨.bat b, anc, root⟩ = false)

/-- one step of the loop over the successors -/
abbrev stepS (fuel : Nat) (st : List Comp × List Comp) (x : Comp) : List Comp × List Comp :=
  ((refDfs fuel x st.1 condS).1, unionIds st.2 (refDfs fuel x st.1 condS).2)

/-- a component found by the search: a node that satisfies the condition, below a node that does not -/
def FoundAt (x : Comp) : Prop :=
  ∃ anc n, x = mk root anc n ∧ condM (posOf root anc) n = true
    ∧ ∀ p rest, anc = p :: rest → condM (posOf root rest) p = false

include hc hb in
mutual
theorem ref_node :
    (n : Node) → (anc : List Node) → (fuel : Nat) → (vis : List Comp) →
    sz n ≤ fuel → (∀ x ∈ vis, x.id ∉ nodeIds n) → (nodeIds n).Nodup → (∀ b ∈ n.allBats, b ∉ nodeIds n) →
    (∀ p rest, anc = p :: rest → condM (posOf root rest) p = false) →
    (refDfs fuel (mk root anc n) vis condS).2.map Comp.found = Graph.dfs condM (posOf root anc) (parentOf root anc) n
      ∧ (∀ x ∈ (refDfs fuel (mk root anc n) vis condS).1, x ∈ vis ∨ x.id ∈ nodeIds n ∨ x.id ∈ n.allBats)
      ∧ (∀ x ∈ (refDfs fuel (mk root anc n) vis condS).2, x.id ∈ nodeIds n)
      ∧ ((refDfs fuel (mk root anc n) vis condS).2.map Comp.id).Nodup
      ∧ (∀ x ∈ (refDfs fuel (mk root anc n) vis condS).2, FoundAt root condM x)
  | .meter id cs, anc, fuel, vis, hf, hv, hn, hbn, hpar => by
    obtain ⟨fuel, rfl⟩ : ∃ f, fuel = f + 1 := ⟨fuel - 1, by simp [sz] at hf; omega⟩
    have hmem : memIds (mk root anc (.meter id cs)) vis = false :=
      memIds_false _ _ (fun x hx h => hv x hx (by simp [nodeIds, Node.id, h]))
    simp only [nodeIds, List.nodup_cons] at hn
    by_cases hcond : condM (posOf root anc) (.meter id cs) = true
    · have hcs : condS (mk root anc (.meter id cs)) = true := by rw [hc]; exact hcond
      simp only [refDfs, hmem, Bool.false_eq_true, if_false, hcs, if_true, Graph.dfs, hcond, List.map_cons,
        List.map_nil, found_mk, true_and]
      refine ⟨?_, ?_, by simp, ?_⟩
      · intro x hx
        rcases mem_unionIds hx with h | h
        · exact Or.inl h
        · simp at h; subst h; right; left; simp [nodeIds, Node.id]
      · intro x hx; simp at hx; subst hx; simp [nodeIds, Node.id]
      · intro x hx; simp at hx; subst hx; exact ⟨anc, _, rfl, hcond, hpar⟩
    · have hcond' : condM (posOf root anc) (.meter id cs) = false := by simpa using hcond
      have hcs : condS (mk root anc (.meter id cs)) = false := by rw [hc]; exact hcond'
      have hsucc : (mk root anc (.meter id cs)).succs = cs.map (mk root (.meter id cs :: anc)) := rfl
      obtain ⟨res, r1, r2, r3, r4, r5, r6⟩ := ref_list cs (.meter id cs :: anc) fuel
        (unionIds vis [mk root anc (.meter id cs)]) []
        (by simp [sz] at hf; omega)
        (by
          intro x hx hmem'
          rcases mem_unionIds hx with h | h
          · exact hv x h (by simp [nodeIds, hmem'])
          · simp at h; subst h; exact hn.1 hmem')
        hn.2
        (by intro b hb' hmem'; exact hbn b (by simpa [Node.allBats] using hb') (by simp [nodeIds, hmem']))
        (by simp)
        (by intro p rest h; cases h; exact hcond')
      simp only [refDfs, hmem, Bool.false_eq_true, if_false, hcs, hsucc, Graph.dfs, hcond']
      simp only [List.nil_append] at r1
      refine ⟨?_, ?_, ?_, ?_, ?_⟩
      · rw [r1]; exact r2
      · intro x hx
        rcases r3 x hx with h | h | h
        · rcases mem_unionIds h with h' | h'
          · exact Or.inl h'
          · simp at h'; subst h'; right; left; simp [nodeIds, Node.id]
        · right; left; simp [nodeIds, Node.id, h]
        · right; right; simpa [Node.allBats] using h
      · intro x hx; rw [r1] at hx; simp [nodeIds, Node.id, r4 x hx]
      · rw [r1]; exact r5
      · intro x hx; rw [r1] at hx; exact r6 x hx
  | .batInv id bs, anc, fuel, vis, hf, hv, _, _, hpar => by
    obtain ⟨fuel, rfl⟩ : ∃ f, fuel = f + 2 := ⟨fuel - 2, by simp [sz] at hf; omega⟩
    have hmem : memIds (mk root anc (.batInv id bs)) vis = false :=
      memIds_false _ _ (fun x hx h => hv x hx (by simp [nodeIds, Node.id, h]))
    by_cases hcond : condM (posOf root anc) (.batInv id bs) = true
    · have hcs : condS (mk root anc (.batInv id bs)) = true := by rw [hc]; exact hcond
      simp only [refDfs, hmem, Bool.false_eq_true, if_false, hcs, if_true, Graph.dfs, hcond, List.map_cons,
        List.map_nil, found_mk, true_and]
      refine ⟨?_, ?_, by simp, ?_⟩
      · intro x hx
        rcases mem_unionIds hx with h | h
        · exact Or.inl h
        · simp at h; subst h; right; left; simp [nodeIds, Node.id]
      · intro x hx; simp at hx; subst hx; simp [nodeIds, Node.id]
      · intro x hx; simp at hx; subst hx; exact ⟨anc, _, rfl, hcond, hpar⟩
    · have hcond' : condM (posOf root anc) (.batInv id bs) = false := by simpa using hcond
      have hcs : condS (mk root anc (.batInv id bs)) = false := by rw [hc]; exact hcond'
      have hsucc : (mk root anc (.batInv id bs)).succs
          = bs.map (fun b => (⟨.bat b, .batInv id bs :: anc, root⟩ : Comp)) := rfl
      obtain ⟨b1, b2⟩ := ref_bats root condS hb fuel (.batInv id bs :: anc) bs
        (unionIds vis [mk root anc (.batInv id bs)]) []
      simp only [refDfs, hmem, Bool.false_eq_true, if_false, hcs, hsucc, Graph.dfs, hcond'] at b1 b2 ⊢
      refine ⟨by rw [b1]; rfl, ?_, by rw [b1]; simp, by rw [b1]; simp, by rw [b1]; simp⟩
      intro x hx
      rcases b2 x hx with h | h
      · rcases mem_unionIds h with h' | h'
        · exact Or.inl h'
        · simp at h'; subst h'; right; left; simp [nodeIds, Node.id]
      · right; right; simpa [Node.allBats] using h
  | .pvInv id, anc, fuel, vis, hf, hv, _, _, hpar => by
    obtain ⟨fuel, rfl⟩ : ∃ f, fuel = f + 1 := ⟨fuel - 1, by simp [sz] at hf; omega⟩
    have hmem : memIds (mk root anc (.pvInv id)) vis = false :=
      memIds_false _ _ (fun x hx h => hv x hx (by simp [nodeIds, Node.id, h]))
    have hsucc : (mk root anc (.pvInv id)).succs = [] := rfl
    simp only [refDfs, hmem, Bool.false_eq_true, if_false, hc, hsucc, List.foldl_nil, Graph.dfs]
    split
    · rename_i hcond
      refine ⟨by simp [found_mk], ?_, by simp [nodeIds, Node.id], by simp, ?_⟩
      · intro x hx; rcases mem_unionIds hx with h | h
        · exact Or.inl h
        · simp at h; subst h; right; left; simp [nodeIds, Node.id]
      · intro x hx; simp at hx; subst hx; exact ⟨anc, _, rfl, hcond, hpar⟩
    · refine ⟨by simp, ?_, by simp, by simp, by simp⟩
      intro x hx; rcases mem_unionIds hx with h | h
      · exact Or.inl h
      · simp at h; subst h; right; left; simp [nodeIds, Node.id]
  | .ev id, anc, fuel, vis, hf, hv, _, _, hpar => by
    obtain ⟨fuel, rfl⟩ : ∃ f, fuel = f + 1 := ⟨fuel - 1, by simp [sz] at hf; omega⟩
    have hmem : memIds (mk root anc (.ev id)) vis = false :=
      memIds_false _ _ (fun x hx h => hv x hx (by simp [nodeIds, Node.id, h]))
    have hsucc : (mk root anc (.ev id)).succs = [] := rfl
    simp only [refDfs, hmem, Bool.false_eq_true, if_false, hc, hsucc, List.foldl_nil, Graph.dfs]
    split
    · rename_i hcond
      refine ⟨by simp [found_mk], ?_, by simp [nodeIds, Node.id], by simp, ?_⟩
      · intro x hx; rcases mem_unionIds hx with h | h
        · exact Or.inl h
        · simp at h; subst h; right; left; simp [nodeIds, Node.id]
      · intro x hx; simp at hx; subst hx; exact ⟨anc, _, rfl, hcond, hpar⟩
    · refine ⟨by simp, ?_, by simp, by simp, by simp⟩
      intro x hx; rcases mem_unionIds hx with h | h
      · exact Or.inl h
      · simp at h; subst h; right; left; simp [nodeIds, Node.id]
  | .chp id, anc, fuel, vis, hf, hv, _, _, hpar => by
    obtain ⟨fuel, rfl⟩ : ∃ f, fuel = f + 1 := ⟨fuel - 1, by simp [sz] at hf; omega⟩
    have hmem : memIds (mk root anc (.chp id)) vis = false :=
      memIds_false _ _ (fun x hx h => hv x hx (by simp [nodeIds, Node.id, h]))
    have hsucc : (mk root anc (.chp id)).succs = [] := rfl
    simp only [refDfs, hmem, Bool.false_eq_true, if_false, hc, hsucc, List.foldl_nil, Graph.dfs]
    split
    · rename_i hcond
      refine ⟨by simp [found_mk], ?_, by simp [nodeIds, Node.id], by simp, ?_⟩
      · intro x hx; rcases mem_unionIds hx with h | h
        · exact Or.inl h
        · simp at h; subst h; right; left; simp [nodeIds, Node.id]
      · intro x hx; simp at hx; subst hx; exact ⟨anc, _, rfl, hcond, hpar⟩
    · refine ⟨by simp, ?_, by simp, by simp, by simp⟩
      intro x hx; rcases mem_unionIds hx with h | h
      · exact Or.inl h
      · simp at h; subst h; right; left; simp [nodeIds, Node.id]
theorem ref_list :
    (ns : List Node) → (anc : List Node) → (fuel : Nat) → (vis acc : List Comp) →
    szL ns ≤ fuel → (∀ x ∈ vis, x.id ∉ nodeIdsL ns) → (nodeIdsL ns).Nodup →
    (∀ b ∈ allBatsL ns, b ∉ nodeIdsL ns) → (∀ x ∈ acc, x.id ∉ nodeIdsL ns) →
    (∀ p rest, anc = p :: rest → condM (posOf root rest) p = false) →
    ∃ res, ((ns.map (mk root anc)).foldl (stepS condS fuel) (vis, acc)).2 = acc ++ res
      ∧ res.map Comp.found = dfsL condM (posOf root anc) (parentOf root anc) ns
      ∧ (∀ x ∈ ((ns.map (mk root anc)).foldl (stepS condS fuel) (vis, acc)).1,
          x ∈ vis ∨ x.id ∈ nodeIdsL ns ∨ x.id ∈ allBatsL ns)
      ∧ (∀ x ∈ res, x.id ∈ nodeIdsL ns)
      ∧ (res.map Comp.id).Nodup
      ∧ (∀ x ∈ res, FoundAt root condM x)
  | [], _, _, vis, acc, _, _, _, _, _, _ =>
    ⟨[], by simp, by simp [dfsL], by intro x hx; exact Or.inl hx, by simp, by simp, by simp⟩
  | n :: ns, anc, fuel, vis, acc, hf, hv, hn, hbn, hacc, hpar => by
    simp only [nodeIdsL, List.nodup_append] at hn
    obtain ⟨hn1, hn2, hdisj⟩ := hn
    simp only [szL] at hf
    obtain ⟨a1, a2, a3, a4, a5⟩ := ref_node n anc fuel vis (by omega)
      (fun x hx h => hv x hx (by simp [nodeIdsL, h])) hn1
      (fun b hb' h => hbn b (by simp [allBatsL, hb']) (by simp [nodeIdsL, h])) hpar
    have hu : unionIds acc (refDfs fuel (mk root anc n) vis condS).2 = acc ++ (refDfs fuel (mk root anc n) vis condS).2 :=
      unionIds_disjoint _ _ (fun x hx y hy h => hacc y hy (by simp [nodeIdsL, h, a3 x hx]))
    obtain ⟨res, r1, r2, r3, r4, r5, r6⟩ := ref_list ns anc fuel (refDfs fuel (mk root anc n) vis condS).1
      (acc ++ (refDfs fuel (mk root anc n) vis condS).2) (by omega)
      (by
        intro x hx hmem
        rcases a2 x hx with h | h | h
        · exact hv x h (by simp [nodeIdsL, hmem])
        · exact hdisj _ h _ hmem rfl
        · exact hbn x.id (by simp [allBatsL, h]) (by simp [nodeIdsL, hmem]))
      hn2
      (fun b hb' h => hbn b (by simp [allBatsL, hb']) (by simp [nodeIdsL, h]))
      (by
        intro x hx hmem
        rcases List.mem_append.mp hx with h | h
        · exact hacc x h (by simp [nodeIdsL, hmem])
        · exact hdisj _ (a3 x h) _ hmem rfl)
      hpar
    refine ⟨(refDfs fuel (mk root anc n) vis condS).2 ++ res, ?_, ?_, ?_, ?_, ?_, ?_⟩
    · simp only [List.map_cons, List.foldl_cons, stepS, hu]
      rw [r1, List.append_assoc]
    · simp only [List.map_append, a1, r2, dfsL]
    · intro x hx
      simp only [List.map_cons, List.foldl_cons, stepS, hu] at hx
      rcases r3 x hx with h | h | h
      · rcases a2 x h with h' | h' | h'
        · exact Or.inl h'
        · right; left; simp [nodeIdsL, h']
        · right; right; simp [allBatsL, h']
      · right; left; simp [nodeIdsL, h]
      · right; right; simp [allBatsL, h]
    · intro x hx
      rcases List.mem_append.mp hx with h | h
      · simp [nodeIdsL, a3 x h]
      · simp [nodeIdsL, r4 x h]
    · rw [List.map_append, List.nodup_append]
      refine ⟨a4, r5, ?_⟩
      intro i hi j hj hij
      obtain ⟨x, hx, rfl⟩ := List.mem_map.mp hi
      obtain ⟨y, hy, rfl⟩ := List.mem_map.mp hj
      exact hdisj _ (a3 x hx) _ (r4 y hy) hij
    · intro x hx
      rcases List.mem_append.mp hx with h | h
      · exact a5 x h
      · exact r6 x h
end

end tree

mutual
theorem sz_le : (n : Node) → sz n ≤ 2 * n.allIds.length
  | .meter _ cs => by have := szL_le cs; simp [sz, Node.allIds]; omega
  | .batInv _ _ => by simp [sz, Node.allIds]; omega
  | .pvInv _ => by simp [sz, Node.allIds]
  | .ev _ => by simp [sz, Node.allIds]
  | .chp _ => by simp [sz, Node.allIds]
theorem szL_le : (ns : List Node) → szL ns ≤ 2 * (allIdsL ns).length
  | [] => by simp [szL, allIdsL]
  | n :: ns => by have := sz_le n; have := szL_le ns; simp [szL, allIdsL]; omega
end

/-- **`dfs(grid, set(), condition)`** as the generators call it: on a tree whose grid / meter / device ids are
pairwise distinct and differ from the battery ids, for a condition that agrees with the model's condition on the
meters and devices and rejects the grid and the batteries, the machine-translated `dfs` (with the fuel the
translation passes) returns exactly the components of the model's `dfsFromGrid`; they have distinct ids and each
is a node that satisfies the condition below a node that does not. -/
theorem dfs_from_grid (hrec : IsRec) (g : Grid) (condS : Comp → Bool) (condM : Pos → Node → Bool)
    (hc : ∀ anc n, condS (mk g anc n) = condM (posOf g anc) n)
    (hb : ∀ b anc, condS ⟨.bat b, anc, g⟩ = false) (hgrid : condS g.comp = false)
    (hn : (g.id :: nodeIdsL g.succ).Nodup) (hbn : ∀ b ∈ allBatsL g.succ, b ∉ g.id :: nodeIdsL g.succ) :
    (S.dfs g.fuel g.comp [] condS).2.map Comp.found = dfsFromGrid condM g
      ∧ ((S.dfs g.fuel g.comp [] condS).2.map Comp.id).Nodup
      ∧ (∀ x ∈ (S.dfs g.fuel g.comp [] condS).2, FoundAt g condM x) := by
  rw [hrec]
  have hfuel : g.fuel = (2 * (allIdsL g.succ).length + 1) + 1 := rfl
  have hsucc : g.comp.succs = g.succ.map (mk g []) := rfl
  rw [hfuel, refDfs]
  simp only [memIds, List.any_nil, Bool.false_eq_true, if_false, hgrid, hsucc]
  rw [List.nodup_cons] at hn
  obtain ⟨res, r1, r2, -, -, r5, r6⟩ := ref_list g condS condM hc hb g.succ [] (2 * (allIdsL g.succ).length + 1)
    (unionIds [] [g.comp]) [] (by have := szL_le g.succ; omega)
    (by
      intro x hx hmem
      rcases mem_unionIds hx with h | h
      · simp at h
      · simp at h; subst h; exact hn.1 hmem)
    hn.2 (fun b hb' h => hbn b hb' (by simp [h])) (by simp) (by intro p rest h; cases h)
  simp only [List.nil_append] at r1
  rw [r1]
  exact ⟨by rw [r2]; rfl, r5, r6⟩

/-! ## Primary / fallback selection (`_formula_generator.py`) -/

@[simp] theorem isPvMeter_mk (root anc n) : S.isPvMeter (mk root anc n) = meterPred .pvMeter (posOf root anc) n :=
  (meter_tie root anc n).1
@[simp] theorem isBatteryMeter_mk (root anc n) :
    S.isBatteryMeter (mk root anc n) = meterPred .batteryMeter (posOf root anc) n := (meter_tie root anc n).2.1
@[simp] theorem isEvChargerMeter_mk (root anc n) :
    S.isEvChargerMeter (mk root anc n) = meterPred .evChargerMeter (posOf root anc) n := (meter_tie root anc n).2.2.1
@[simp] theorem isChpMeter_mk (root anc n) : S.isChpMeter (mk root anc n) = meterPred .chpMeter (posOf root anc) n :=
  (meter_tie root anc n).2.2.2
@[simp] theorem isPvChain_mk (root anc n) : S.isPvChain (mk root anc n) = chain .pv (posOf root anc) n := (chain_tie root anc n).1
@[simp] theorem isBatteryChain_mk (root anc n) : S.isBatteryChain (mk root anc n) = chain .battery (posOf root anc) n :=
  (chain_tie root anc n).2.1
@[simp] theorem isEvChargerChain_mk (root anc n) :
    S.isEvChargerChain (mk root anc n) = chain .evCharger (posOf root anc) n := (chain_tie root anc n).2.2.1
@[simp] theorem isChpChain_mk (root anc n) : S.isChpChain (mk root anc n) = chain .chp (posOf root anc) n :=
  (chain_tie root anc n).2.2.2

/-- `_is_primary_fallback_pair` -/
theorem pair_tie (root : Grid) (ancp anc : List Node) (p n : Node) :
    S.isPrimaryFallbackPair (mk root ancp p) (mk root anc n) = Graph.isPrimaryFallbackPair (posOf root ancp) p n := by
  simp only [Extracted.GraphLoops.isPrimaryFallbackPair, Graph.isPrimaryFallbackPair, primaryFallbackPairs,
    isPvInverter_mk, isBatteryInverter_mk, isEvCharger_mk, isChp_mk, isPvMeter_mk, isBatteryMeter_mk,
    isEvChargerMeter_mk, isChpMeter_mk, List.any_cons, List.any_nil, Bool.or_false]
  generalize leafTest .pvInverter n = a1; generalize leafTest .batteryInverter n = a2
  generalize leafTest .evCharger n = a3; generalize leafTest .chp n = a4
  generalize meterPred .pvMeter (posOf root ancp) p = b1; generalize meterPred .batteryMeter (posOf root ancp) p = b2
  generalize meterPred .evChargerMeter (posOf root ancp) p = b3; generalize meterPred .chpMeter (posOf root ancp) p = b4
  revert a1 a2 a3 a4 b1 b2 b3 b4
  decide

/-- the grid is nobody's primary -/
theorem pair_grid (root : Grid) (c : Comp) : S.isPrimaryFallbackPair root.comp c = false := by
  simp [Extracted.GraphLoops.isPrimaryFallbackPair, Extracted.GraphLoops.isPvMeter, Extracted.GraphLoops.isBatteryMeter,
    Extracted.GraphLoops.isEvChargerMeter, Extracted.GraphLoops.isChpMeter, Grid.comp, Comp.cat]

/-- `_get_meter_fallback_components` -/
theorem meterFallback_tie (root : Grid) (anc : List Node) (n : Node) :
    S.meterFallbackComponents (mk root anc n) = (meterFallback n).map (mk root (n :: anc)) := by
  cases n with
  | meter id cs =>
    have hs : (mk root anc (.meter id cs)).succs = cs.map (mk root (.meter id cs :: anc)) := rfl
    simp only [Extracted.GraphLoops.meterFallbackComponents, meterFallback, meterFallbackLeaves, hs, List.all_map,
      Function.comp_def, isPvInverter_mk, isBatteryInverter_mk, isEvCharger_mk, isChp_mk, Node.children,
      List.any_cons, List.any_nil, Bool.or_false]
    split <;> split <;> simp_all <;> grind
  | batInv id bs =>
    have hs : (mk root anc (.batInv id bs)).succs = bs.map (fun b => (⟨.bat b, .batInv id bs :: anc, root⟩ : Comp)) := rfl
    simp only [Extracted.GraphLoops.meterFallbackComponents, meterFallback, hs, Node.children]
    cases bs <;> simp [Extracted.GraphLoops.isBatteryInverter, Extracted.GraphLoops.isChp, Extracted.GraphLoops.isEvCharger,
      Extracted.GraphLoops.isPvInverter, Comp.cat] <;> exact ite_self _
  | pvInv id => simp [Extracted.GraphLoops.meterFallbackComponents, meterFallback, Comp.succs, Node.children]; exact ite_self _
  | ev id => simp [Extracted.GraphLoops.meterFallbackComponents, meterFallback, Comp.succs, Node.children]; exact ite_self _
  | chp id => simp [Extracted.GraphLoops.meterFallbackComponents, meterFallback, Comp.succs, Node.children]; exact ite_self _

/-- **one iteration of `_get_metric_fallback_components`**: a component of the primary category is entered with
its meter-fallback components; any other component (it has exactly one predecessor in a tree) is added to the entry
of its predecessor when the two form a primary/fallback pair and — `pairRequiresAllRequested` — all successors of the
predecessor were requested; otherwise it is its own primary without fallback. -/
theorem mfcStep_tie (comps : List Comp) (d : CDict) (root : Grid) (anc : List Node) (n : Node) :
    S.mfcStep comps d (mk root anc n) =
      if n.cat == fallbackPrimaryCat then CDict.set d (mk root anc n) (S.meterFallbackComponents (mk root anc n))
      else if S.isPrimaryFallbackPair (firstComp (mk root anc n).preds) (mk root anc n)
          && (!pairRequiresAllRequested || subsetIds (firstComp (mk root anc n).preds).succs comps)
        then CDict.addTo d (firstComp (mk root anc n).preds) (mk root anc n)
      else CDict.set d (mk root anc n) [] := by
  have hlen : (mk root anc n).preds.length = 1 := by cases anc <;> rfl
  simp only [Extracted.GraphLoops.mfcStep, mk_cat, fallbackPrimaryCat, pairRequiresAllRequested, hlen, subsetIds,
    beq_self_eq_true, Bool.true_and, Bool.not_true, Bool.false_or]
  split
  · rfl
  · split <;> split <;> simp_all

/-- what `_get_metric_fallback_components` enters for a component that is not paired with its predecessor -/
def ownEntry (x : Comp) : Comp × List Comp := (x, if x.cat == Cat.meter then S.meterFallbackComponents x else [])

theorem has_append (d : CDict) (k : Comp) (e : Comp × List Comp) :
    CDict.has (d ++ [e]) k = (CDict.has d k || e.1.id == k.id) := by
  simp [CDict.has, List.any_append]

/-- **`_get_metric_fallback_components`** on components with pairwise distinct ids none of which forms a
primary/fallback pair with its predecessor: one entry per component, in order (no merging, no overwriting). -/
theorem mfc_fold (comps : List Comp) :
    ∀ (l : List Comp) (d : CDict), (l.map Comp.id).Nodup → (∀ x ∈ l, CDict.has d x = false) →
    (∀ x ∈ l, x.cat ≠ Cat.meter → S.isPrimaryFallbackPair (firstComp x.preds) x = false) →
    l.foldl (S.mfcStep comps) d = d ++ l.map ownEntry := by
  intro l
  induction l with
  | nil => intro d _ _ _; simp
  | cons x l ih =>
    intro d hn hd hp
    simp only [List.map_cons, List.nodup_cons, List.mem_map, not_exists, not_and] at hn
    have hx : CDict.has d x = false := hd x (by simp)
    have hstep : S.mfcStep comps d x = d ++ [ownEntry x] := by
      by_cases hm : x.cat = Cat.meter
      · simp [Extracted.GraphLoops.mfcStep, ownEntry, hm, CDict.set, hx]
      · have := hp x (by simp) hm
        simp [Extracted.GraphLoops.mfcStep, ownEntry, hm, CDict.set, hx, this]
    rw [List.foldl_cons, hstep, ih (d ++ [ownEntry x]) hn.2
      (by
        intro y hy
        rw [has_append, hd y (by simp [hy])]
        simp only [ownEntry, Bool.false_or, beq_eq_false_iff_ne, ne_eq]
        intro h; exact hn.1 y hy h.symm)
      (fun y hy => hp y (by simp [hy]))]
    simp

theorem mfc_eq (l : List Comp) (hn : (l.map Comp.id).Nodup)
    (hp : ∀ x ∈ l, x.cat ≠ Cat.meter → S.isPrimaryFallbackPair (firstComp x.preds) x = false) :
    S.metricFallbackComponents l = l.map ownEntry := by
  simpa [Extracted.GraphLoops.metricFallbackComponents] using mfc_fold l l [] hn (by simp [CDict.has]) hp

/-! ## The generators -/

/-- `_get_grid_component`: the first component of category GRID is the root. -/
theorem grid_first (g : Grid) :
    firstComp (g.comps.filter (fun x => x.cat == Cat.grid)) = g.comp
    ∧ (g.comps.all (fun x => !(x.cat == Cat.grid))) = false := by
  simp [Grid.comps, Grid.comp, Comp.cat, firstComp, List.filter_cons]

theorem grid_succs (g : Grid) : g.comp.succs = g.succ.map (mk g []) := rfl

theorem top_preds (g : Grid) (n : Node) : firstComp (mk g [] n).preds = g.comp := rfl

/-- what the generators push for one entry of the fallback map -/
def entryTerm (neg : Bool) (e : Comp × List Comp) : Term :=
  ⟨neg, e.1.id, !(e.1.cat == Cat.meter),
    if e.2.isEmpty then [] else e.2.map (fun c => (c.id, !(c.cat == Cat.meter)))⟩

theorem entryTerm_own (neg : Bool) (root : Grid) (anc : List Node) (n : Node) (nz : Naz) (hnz : nz = .notCat .meter)
    (parent : Option (Node × Pos)) (hpar : ∀ p ppos, parent = some (p, ppos) → Graph.isPrimaryFallbackPair ppos p n = false) :
    entryTerm neg (ownEntry (mk root anc n)) = mkTerm neg nz simpleNaz (primaryOf ⟨n, posOf root anc, parent⟩) := by
  subst hnz
  by_cases hm : n.cat = Cat.meter
  · simp only [entryTerm, ownEntry, mk_cat, hm, beq_self_eq_true, if_true, meterFallback_tie, mkTerm, primaryOf,
      fallbackPrimaryCat, nazEval, simpleNaz, mk_id, List.map_map, Function.comp_def, List.isEmpty_map]
    split <;> simp_all [bne]
  · have hm' : (n.cat == Cat.meter) = false := by simpa using hm
    cases parent with
    | none => simp [entryTerm, ownEntry, hm', mkTerm, primaryOf, fallbackPrimaryCat, nazEval, bne]
    | some pp =>
      obtain ⟨p, ppos⟩ := pp
      simp [entryTerm, ownEntry, hm', mkTerm, primaryOf, fallbackPrimaryCat, nazEval, bne, hpar p ppos rfl]

theorem all3_filter (l : List Node) :
    (l.all (fun n => !(n.cat == Cat.evCharger)) && l.all (fun n => !(n.cat == Cat.inverter))
      && l.all (fun n => !(n.cat == Cat.meter))) = (l.filter (fun n => gridSuccessorCats.contains n.cat)).isEmpty := by
  induction l with
  | nil => rfl
  | cons n ns ih =>
    simp only [List.all_cons, List.filter_cons]
    cases h : n.cat <;> simp_all [gridSuccessorCats] <;> grind

/-- **`GridPowerFormula.generate()`** (with fallbacks, as the model has it) is the model's `gridFormula`, on every
graph whose grid successors have pairwise distinct ids. -/
theorem grid_tie (g : Grid) (hn : (g.succ.map Node.id).Nodup) : S.gridFormula g true = Graph.gridFormula g := by
  obtain ⟨hf, ha⟩ := grid_first g
  have hfil : ∀ (q : Comp → Bool), (g.succ.map (mk g [])).filter q = (g.succ.filter (fun n => q (mk g [] n))).map (mk g []) := by
    intro q; rw [List.filter_map]; rfl
  simp only [Extracted.GraphLoops.gridFormula, Graph.gridFormula, hf, ha, grid_succs, List.isEmpty_map, Bool.or_false,
    List.all_map, Function.comp_def, mk_cat, hfil, if_true]
  by_cases he : g.succ.isEmpty = true
  · simp [he]
  · have he' : g.succ.isEmpty = false := by simpa using he
    simp only [he', Bool.false_or, Bool.false_eq_true, if_false]
    have hcats : ∀ n : Node, ((n.cat == Cat.evCharger) || (n.cat == Cat.inverter) || (n.cat == Cat.meter))
        = gridSuccessorCats.contains n.cat := by
      intro n; cases n.cat <;> decide
    simp only [hcats]
    have hempty := all3_filter g.succ
    rw [hempty]
    by_cases hc : (g.succ.filter (fun n => gridSuccessorCats.contains n.cat)).isEmpty = true
    · rw [if_pos hc, if_pos hc]
    · rw [if_neg hc, if_neg hc]
      have hsub : ((g.succ.filter (fun n => gridSuccessorCats.contains n.cat)).map Node.id).Nodup :=
        List.Nodup.sublist ((List.filter_sublist).map _) hn
      rw [mfc_eq _ (by simpa [List.map_map, Function.comp_def] using hsub)
        (by
          intro x hx _
          obtain ⟨n, _, rfl⟩ := List.mem_map.mp hx
          rw [top_preds]; exact pair_grid g _)]
      congr 1
      rw [List.map_map, List.map_map]
      apply List.map_congr_left
      intro n _
      exact entryTerm_own false g [] n gridNaz rfl none (by intro p ppos h; cases h)

theorem isMeter_of_cat (n : Node) (h : n.cat ≠ Cat.meter) : n.isMeter = false := by
  cases n <;> simp_all [Node.cat, Node.isMeter]

theorem parentOf_cons (g : Grid) (p : Node) (rest : List Node) :
    parentOf g (p :: rest) = some (p, posOf g rest) := rfl

theorem parentOf_nil (g : Grid) : parentOf g [] = none := rfl

/-- **the terms pushed for the components found by `dfs`**: `_get_metric_fallback_components` +
`_get_fallback_formulas` + the push loop, against the model's `mkTerm … (primaryOf f)`.  `hpair` is the property of
the search condition that a device it accepts below a node it rejects is not paired with that node (`CondSpec.pair`). -/
theorem found_terms (g : Grid) (condM : Pos → Node → Bool) (neg : Bool) (nz : Naz) (hnz : nz = .notCat .meter)
    (hpair : ∀ ppos p pos c, condM ppos p = false → condM pos c = true → c.isMeter = false →
      Graph.isPrimaryFallbackPair ppos p c = false)
    (l : List Comp) (hN : (l.map Comp.id).Nodup) (hL : ∀ x ∈ l, FoundAt g condM x) :
    (S.metricFallbackComponents l).map (entryTerm neg)
      = (l.map Comp.found).map (fun f => mkTerm neg nz simpleNaz (primaryOf f)) := by
  have hp : ∀ x ∈ l, x.cat ≠ Cat.meter → S.isPrimaryFallbackPair (firstComp x.preds) x = false := by
    intro x hx hm
    obtain ⟨anc, n, rfl, hcn, hpar⟩ := hL x hx
    cases anc with
    | nil => exact pair_grid g _
    | cons p rest =>
      have : firstComp (mk g (p :: rest) n).preds = mk g rest p := rfl
      rw [this, pair_tie]
      exact hpair _ p _ n (hpar p rest rfl) hcn (isMeter_of_cat n (by simpa using hm))
  rw [mfc_eq l hN hp, List.map_map, List.map_map]
  apply List.map_congr_left
  intro x hx
  obtain ⟨anc, n, rfl, hcn, hpar⟩ := hL x hx
  simp only [Function.comp_def, found_mk]
  refine entryTerm_own neg g anc n nz hnz (parentOf g anc) ?_
  intro p ppos h
  cases anc with
  | nil => rw [parentOf_nil] at h; cases h
  | cons q rest =>
    rw [parentOf_cons] at h
    cases h
    by_cases hm : n.cat = Cat.meter
    · cases n <;> simp_all [Node.cat, Graph.isPrimaryFallbackPair, primaryFallbackPairs, leafTest, Leaf.test,
        pvInverterTest, batteryInverterTest, evChargerTest, chpTest, Node.ityp]
    · exact hpair _ p _ n (hpar p rest rfl) hcn (isMeter_of_cat n hm)

/-- the side conditions on the ids of a graph under which the ties of the generators hold: grid, meters and devices
pairwise distinct, and no battery id equal to one of them (batteries MAY be shared between inverters) -/
def DistinctIds (g : Grid) : Prop :=
  (g.id :: nodeIdsL g.succ).Nodup ∧ ∀ b ∈ allBatsL g.succ, b ∉ g.id :: nodeIdsL g.succ

/-- every `is_*` of the translation rejects batteries and the grid (they have no dedicated-meter shape) -/
theorem chains_bat (b : Nat) (anc : List Node) (root : Grid) :
    S.isPvChain ⟨.bat b, anc, root⟩ = false ∧ S.isBatteryChain ⟨.bat b, anc, root⟩ = false
    ∧ S.isEvChargerChain ⟨.bat b, anc, root⟩ = false ∧ S.isChpChain ⟨.bat b, anc, root⟩ = false := by
  simp [Extracted.GraphLoops.isPvChain, Extracted.GraphLoops.isBatteryChain, Extracted.GraphLoops.isEvChargerChain,
    Extracted.GraphLoops.isChpChain, Extracted.GraphLoops.isPvInverter, Extracted.GraphLoops.isBatteryInverter,
    Extracted.GraphLoops.isEvCharger, Extracted.GraphLoops.isChp, Extracted.GraphLoops.isPvMeter,
    Extracted.GraphLoops.isBatteryMeter, Extracted.GraphLoops.isEvChargerMeter, Extracted.GraphLoops.isChpMeter, Comp.cat]

theorem chains_grid (g : Grid) :
    S.isPvChain g.comp = false ∧ S.isBatteryChain g.comp = false
    ∧ S.isEvChargerChain g.comp = false ∧ S.isChpChain g.comp = false := by
  simp [Extracted.GraphLoops.isPvChain, Extracted.GraphLoops.isBatteryChain, Extracted.GraphLoops.isEvChargerChain,
    Extracted.GraphLoops.isChpChain, Extracted.GraphLoops.isPvInverter, Extracted.GraphLoops.isBatteryInverter,
    Extracted.GraphLoops.isEvCharger, Extracted.GraphLoops.isChp, Extracted.GraphLoops.isPvMeter,
    Extracted.GraphLoops.isBatteryMeter, Extracted.GraphLoops.isEvChargerMeter, Extracted.GraphLoops.isChpMeter, Comp.cat,
    Grid.comp]

/-- equality of generated formulas up to the order of the terms (Python iterates over sets) -/
def FormulaEquiv : Formula → Formula → Prop
  | .ok a, .ok b => a.Perm b
  | .error e, .error e' => e = e'
  | _, _ => False

theorem FormulaEquiv.of_eq {a b : Formula} (h : a = b) : FormulaEquiv a b := by
  subst h; cases a <;> simp [FormulaEquiv]

theorem isEmpty_of_perm {α : Type} {a b : List α} (h : a.Perm b) : a.isEmpty = b.isEmpty := by
  have := h.length_eq
  cases a <;> cases b <;> simp_all

/-- what the generators need to know about the translated `dfs`: from the grid, and from every grid successor with
the results joined, it finds the components of the model's search (as a set: in some order, without duplicates),
each a node that satisfies the condition below a node that does not. -/
structure DfsFacts : Prop where
  fromGrid : ∀ (g : Grid) (condS : Comp → Bool) (condM : Pos → Node → Bool),
    (∀ anc n, condS (mk g anc n) = condM (posOf g anc) n) → (∀ b anc, condS ⟨.bat b, anc, g⟩ = false) →
    condS g.comp = false → DistinctIds g →
    ((S.dfs g.fuel g.comp [] condS).2.map Comp.found).Perm (dfsFromGrid condM g)
      ∧ ((S.dfs g.fuel g.comp [] condS).2.map Comp.id).Nodup
      ∧ (∀ x ∈ (S.dfs g.fuel g.comp [] condS).2, FoundAt g condM x)
  fromTop : ∀ (g : Grid) (condS : Comp → Bool) (condM : Pos → Node → Bool),
    (∀ anc n, condS (mk g anc n) = condM (posOf g anc) n) → (∀ b anc, condS ⟨.bat b, anc, g⟩ = false) →
    DistinctIds g →
    (((g.succ.map (mk g [])).flatMap (fun x => (S.dfs g.fuel x [] condS).2)).map Comp.found).Perm (dfsFromGrid condM g)
      ∧ (((g.succ.map (mk g [])).flatMap (fun x => (S.dfs g.fuel x [] condS).2)).map Comp.id).Nodup
      ∧ (∀ x ∈ (g.succ.map (mk g [])).flatMap (fun x => (S.dfs g.fuel x [] condS).2), FoundAt g condM x)

/-- **`ProducerPowerFormula.generate()`** is the model's `producerFormula`. -/
theorem producer_tie (F : DfsFacts) (g : Grid) (hd : DistinctIds g) :
    FormulaEquiv (S.producerFormula g true) (Graph.producerFormula g) := by
  obtain ⟨hf, ha⟩ := grid_first g
  have hc : ∀ anc n, (fun x => S.isChpChain x || S.isPvChain x) (mk g anc n) = producerCond (posOf g anc) n := by
    intro anc n
    simp only [isChpChain_mk, isPvChain_mk, producerCond, anyChain, producerChains, List.any_cons, List.any_nil,
      Bool.or_false]
    cases chain Chain.chp (posOf g anc) n <;> cases chain Chain.pv (posOf g anc) n <;> rfl
  obtain ⟨d1, d2, d3⟩ := F.fromGrid g (fun x => S.isChpChain x || S.isPvChain x) producerCond hc
    (by intro b anc; simp [chains_bat]) (by simp [chains_grid]) hd
  have hterms := found_terms g producerCond false producerNaz rfl
    (fun ppos p pos c => (condSpec_anyChain producerChains).pair ppos p pos c) _ d2 d3
  simp only [Extracted.GraphLoops.producerFormula, Graph.producerFormula, hf, ha, Bool.false_eq_true, if_false, if_true]
  rw [← isEmpty_of_perm d1, List.isEmpty_map]
  split
  · simp [nonExisting, producerNoneNaz, nazEval, FormulaEquiv]
  · simp only [FormulaEquiv]
    exact (List.Perm.of_eq hterms).trans (d1.map _)

/-- `dfs(grid_meter, set(), condition)` from every grid successor, the results joined (consumer formula with grid
meters): the model's search from the grid. -/
theorem flat_top (hrec : IsRec) (g : Grid) (condS : Comp → Bool) (condM : Pos → Node → Bool)
    (hc : ∀ anc n, condS (mk g anc n) = condM (posOf g anc) n) (hb : ∀ b anc, condS ⟨.bat b, anc, g⟩ = false)
    (fuel : Nat) :
    ∀ ns : List Node, szL ns ≤ fuel → (nodeIdsL ns).Nodup → (∀ b ∈ allBatsL ns, b ∉ nodeIdsL ns) →
      ((ns.map (mk g [])).flatMap (fun x => (S.dfs fuel x [] condS).2)).map Comp.found = dfsL condM (topPos g) none ns
      ∧ (((ns.map (mk g [])).flatMap (fun x => (S.dfs fuel x [] condS).2)).map Comp.id).Nodup
      ∧ (∀ x ∈ (ns.map (mk g [])).flatMap (fun x => (S.dfs fuel x [] condS).2), FoundAt g condM x ∧ x.id ∈ nodeIdsL ns) := by
  intro ns
  induction ns with
  | nil => intro _ _ _; simp [dfsL]
  | cons n ns ih =>
    intro hf hn hbn
    simp only [nodeIdsL, List.nodup_append] at hn
    simp only [szL] at hf
    obtain ⟨a1, -, a3, a4, a5⟩ := ref_node g condS condM hc hb n [] fuel [] (by omega) (by simp) hn.1
      (fun b hb' h => hbn b (by simp [allBatsL, hb']) (by simp [nodeIdsL, h])) (by intro p rest h; cases h)
    obtain ⟨i1, i2, i3⟩ := ih (by omega) hn.2.1 (fun b hb' h => hbn b (by simp [allBatsL, hb']) (by simp [nodeIdsL, h]))
    simp only [List.map_cons, List.flatMap_cons, List.map_append, hrec _ _ _ _] at i1 i2 i3 ⊢
    refine ⟨?_, ?_, ?_⟩
    · rw [a1, i1]; rfl
    · rw [List.nodup_append]
      refine ⟨a4, i2, ?_⟩
      intro i hi j hj hij
      obtain ⟨x, hx, rfl⟩ := List.mem_map.mp hi
      obtain ⟨y, hy, rfl⟩ := List.mem_map.mp hj
      exact hn.2.2 _ (a3 x hx) _ (i3 y hy).2 hij
    · intro x hx
      rcases List.mem_append.mp hx with h | h
      · exact ⟨a5 x h, by simp [nodeIdsL, a3 x h]⟩
      · exact ⟨(i3 x h).1, by simp [nodeIdsL, (i3 x h).2]⟩

/-- a device is never a consumer component: inverters of the model are battery or PV inverters -/
theorem consumerCond_device (pos : Pos) (c : Node) (h : consumerCond pos c = true) (hm : c.isMeter = false) : False := by
  cases c <;>
    simp_all [consumerCond, consumerCats, consumerNotChains, anyChain, chain, Chain.parts, leafTest, Leaf.test,
      pvInverterTest, batteryInverterTest, evChargerTest, chpTest, Node.cat, Node.ityp, Node.isMeter]

/-- **`ConsumerPowerFormula.generate()`** (both branches) is the model's `consumerFormula`. -/
theorem consumer_tie (F : DfsFacts) (g : Grid) (hd : DistinctIds g) :
    FormulaEquiv (S.consumerFormula g true) (Graph.consumerFormula g) := by
  obtain ⟨hf, ha⟩ := grid_first g
  have hd' := hd
  obtain ⟨hN, hB⟩ := hd
  rw [List.nodup_cons] at hN
  -- the two conditions handed to dfs
  have hcN : ∀ anc n, (fun x => S.isBatteryChain x || S.isChpChain x || S.isEvChargerChain x || S.isPvChain x) (mk g anc n)
      = nonConsumerCond (posOf g anc) n := by
    intro anc n
    simp only [isChpChain_mk, isPvChain_mk, isBatteryChain_mk, isEvChargerChain_mk, nonConsumerCond, anyChain,
      nonConsumerChains, List.any_cons, List.any_nil, Bool.or_false]
    cases chain Chain.chp (posOf g anc) n <;> cases chain Chain.pv (posOf g anc) n <;>
      cases chain Chain.battery (posOf g anc) n <;> cases chain Chain.evCharger (posOf g anc) n <;> rfl
  have hcC : ∀ anc n,
      (fun x : Comp => ((x.cat == Cat.inverter) && (!(S.isBatteryChain x)) && (!(S.isChpChain x)) && (!(S.isEvChargerChain x))
          && (!(S.isPvChain x))) || ((x.cat == Cat.meter) && (!(S.isBatteryChain x)) && (!(S.isChpChain x))
          && (!(S.isEvChargerChain x)) && (!(S.isPvChain x)))) (mk g anc n) = consumerCond (posOf g anc) n := by
    intro anc n
    simp only [isChpChain_mk, isPvChain_mk, isBatteryChain_mk, isEvChargerChain_mk, mk_cat, consumerCond, anyChain,
      consumerNotChains, consumerCats, List.any_cons, List.any_nil, Bool.or_false]
    cases n.cat <;> cases chain Chain.chp (posOf g anc) n <;> cases chain Chain.pv (posOf g anc) n <;>
      cases chain Chain.battery (posOf g anc) n <;> cases chain Chain.evCharger (posOf g anc) n <;> decide
  have hgm : (((g.succ.map (mk g [])).all (fun x => x.cat == Cat.meter))
      && ((g.succ.map (mk g [])).all (fun x => !(S.isBatteryChain x))) && ((g.succ.map (mk g [])).all (fun x => !(S.isChpChain x)))
      && ((g.succ.map (mk g [])).all (fun x => !(S.isEvChargerChain x))) && ((g.succ.map (mk g [])).all (fun x => !(S.isPvChain x))))
      = areGridMeters g := by
    simp only [List.all_map, Function.comp_def, isChpChain_mk, isPvChain_mk, isBatteryChain_mk, isEvChargerChain_mk, mk_cat,
      areGridMeters, areGridMetersCat, areGridMetersNotChains, anyChain, List.any_cons, List.any_nil, Bool.or_false]
    have : posOf g [] = topPos g := rfl
    rw [this]
    induction g.succ with
    | nil => rfl
    | cons n ns ih =>
      simp only [List.all_cons, ← ih]
      cases n.cat == Cat.meter <;> cases chain Chain.chp (topPos g) n <;> cases chain Chain.pv (topPos g) n <;>
        cases chain Chain.battery (topPos g) n <;> cases chain Chain.evCharger (topPos g) n <;> simp
  simp only [Extracted.GraphLoops.consumerFormula, Graph.consumerFormula, hf, ha, grid_succs, List.isEmpty_map,
    Bool.or_false, hgm, Bool.false_eq_true, if_false, if_true]
  split
  · simp [FormulaEquiv]
  · split
    · -- with grid meters
      obtain ⟨f1, f2, f3⟩ := F.fromTop g
        (fun x => S.isBatteryChain x || S.isChpChain x || S.isEvChargerChain x || S.isPvChain x) nonConsumerCond hcN
        (by intro b anc; simp [chains_bat]) hd'
      have hterms := found_terms g nonConsumerCond true consumerWithNaz rfl
        (fun ppos p pos c => (condSpec_anyChain nonConsumerChains).pair ppos p pos c) _ f2 f3
      simp only [FormulaEquiv]
      refine List.Perm.append ?_ ((List.Perm.of_eq hterms).trans (f1.map _))
      rw [List.map_map]
      refine List.Perm.of_eq (List.map_congr_left ?_)
      intro n _
      simp [consumerGridMeterNaz, nazEval]
    · -- without grid meter
      obtain ⟨d1, d2, d3⟩ := F.fromGrid g
        (fun x : Comp => ((x.cat == Cat.inverter) && (!(S.isBatteryChain x)) && (!(S.isChpChain x)) && (!(S.isEvChargerChain x))
          && (!(S.isPvChain x))) || ((x.cat == Cat.meter) && (!(S.isBatteryChain x)) && (!(S.isChpChain x))
          && (!(S.isEvChargerChain x)) && (!(S.isPvChain x)))) consumerCond hcC
        (by intro b anc; simp [chains_bat, Comp.cat]) (by simp [chains_grid, Grid.comp, Comp.cat]) hd'
      have hterms := found_terms g consumerCond false consumerWithoutNaz rfl
        (fun ppos p pos c _ hcn hm => (consumerCond_device pos c hcn hm).elim) _ d2 d3
      rw [← isEmpty_of_perm d1, List.isEmpty_map]
      split
      · simp [nonExisting, consumerNoneNaz, nazEval, FormulaEquiv]
      · simp only [FormulaEquiv]
        exact (List.Perm.of_eq hterms).trans (d1.map _)

/-- the facts about `dfs` when the source is the recursive function -/
theorem facts_of_rec (hrec : IsRec) : DfsFacts where
  fromGrid g condS condM hc hb hg hd := by
    obtain ⟨a, b, c⟩ := dfs_from_grid hrec g condS condM hc hb hg hd.1 hd.2
    exact ⟨List.Perm.of_eq a, b, c⟩
  fromTop g condS condM hc hb hd := by
    obtain ⟨hN, hB⟩ := hd
    rw [List.nodup_cons] at hN
    obtain ⟨f1, f2, f3⟩ := flat_top hrec g condS condM hc hb g.fuel g.succ
      (by have := szL_le g.succ; simp only [Grid.fuel]; omega) hN.2 (fun b hb' h => hB b hb' (by simp [h]))
    exact ⟨List.Perm.of_eq f1, f2, fun x hx => (f3 x hx).1⟩

/-! ## An iterative `dfs` (explicit stack)

`refWork` is the worklist loop written down once by hand (the translation of a `while pending:` loop equals it by
unfolding).  It pops the LAST pushed component first, so it meets the successors of a node in reverse order; the set of
components found is the same: `work_spec` proves, for a stack of components with pairwise disjoint subtrees, that the
components found are a permutation of what the model's `dfs` finds below the stack's components. -/

def refWork (cond : Comp → Bool) : Nat → List Comp → List Comp → List Comp → List Comp × List Comp × List Comp
  | 0, vis, m, p => (vis, m, p)
  | fuel + 1, vis, m, p =>
    if !p.isEmpty then
      if memIds (lastComp p) vis then refWork cond fuel vis m p.dropLast
      else if cond (lastComp p) then refWork cond fuel (unionIds vis [lastComp p]) (unionIds m [lastComp p]) p.dropLast
      else refWork cond fuel (unionIds vis [lastComp p]) m (p.dropLast ++ (lastComp p).succs)
    else (vis, m, p)

/-- the same loop on a stack whose top is the head of the list -/
def workR (cond : Comp → Bool) : Nat → List Comp → List Comp → List Comp → List Comp × List Comp
  | 0, vis, m, _ => (vis, m)
  | _ + 1, vis, m, [] => (vis, m)
  | fuel + 1, vis, m, x :: s =>
    if memIds x vis then workR cond fuel vis m s
    else if cond x then workR cond fuel (unionIds vis [x]) (unionIds m [x]) s
    else workR cond fuel (unionIds vis [x]) m (x.succs.reverse ++ s)

theorem work_rev (cond : Comp → Bool) : ∀ (fuel : Nat) (vis m s : List Comp),
    ((refWork cond fuel vis m s.reverse).1, (refWork cond fuel vis m s.reverse).2.1) = workR cond fuel vis m s := by
  intro fuel
  induction fuel with
  | zero => intro vis m s; simp [refWork, workR]
  | succ fuel ih =>
    intro vis m s
    cases s with
    | nil => simp [refWork, workR]
    | cons x s =>
      have hl : lastComp (s.reverse ++ [x]) = x := by simp [lastComp]
      have hd : (s.reverse ++ [x]).dropLast = s.reverse := by simp
      have he : (!(s.reverse ++ [x]).isEmpty) = true := by simp
      simp only [List.reverse_cons, refWork, workR, hl, hd, he, if_true]
      by_cases h1 : memIds x vis = true
      · simp only [h1, if_true]; exact ih vis m s
      · simp only [h1, Bool.false_eq_true, if_false]
        by_cases h2 : cond x = true
        · simp only [h2, if_true]; exact ih _ _ s
        · simp only [h2, Bool.false_eq_true, if_false]
          have : s.reverse ++ x.succs = (x.succs.reverse ++ s).reverse := by simp
          rw [this]; exact ih _ _ _

mutual
/-- number of pops the subtree causes -/
def szW : Node → Nat
  | .meter _ cs => szWL cs + 1
  | .batInv _ bs => bs.length + 1
  | .pvInv _ => 1
  | .ev _ => 1
  | .chp _ => 1
def szWL : List Node → Nat
  | [] => 0
  | n :: ns => szW n + szWL ns
end

mutual
theorem szW_le : (n : Node) → szW n ≤ n.allIds.length
  | .meter _ cs => by have := szWL_le cs; simp [szW, Node.allIds]; omega
  | .batInv _ _ => by simp [szW, Node.allIds]
  | .pvInv _ => by simp [szW, Node.allIds]
  | .ev _ => by simp [szW, Node.allIds]
  | .chp _ => by simp [szW, Node.allIds]
theorem szWL_le : (ns : List Node) → szWL ns ≤ (allIdsL ns).length
  | [] => by simp [szWL, allIdsL]
  | n :: ns => by have := szW_le n; have := szWL_le ns; simp [szWL, allIdsL]; omega
end

theorem szW_pos (n : Node) : 1 ≤ szW n := by cases n <;> simp [szW]

/-- what is on the stack: a node at its place, or a battery -/
inductive Item where
  | node (anc : List Node) (n : Node)
  | bat (b : Nat) (anc : List Node)

namespace Item
def comp (root : Grid) : Item → Comp
  | node anc n => mk root anc n
  | bat b anc => ⟨.bat b, anc, root⟩
def ids : Item → List Nat
  | node _ n => nodeIds n
  | bat _ _ => []
def bats : Item → List Nat
  | node _ n => n.allBats
  | bat b _ => [b]
def size : Item → Nat
  | node _ n => szW n
  | bat _ _ => 1
def mres (root : Grid) (condM : Pos → Node → Bool) : Item → List Found
  | node anc n => Graph.dfs condM (posOf root anc) (parentOf root anc) n
  | bat _ _ => []
def parOk (root : Grid) (condM : Pos → Node → Bool) : Item → Prop
  | node anc _ => ∀ p rest, anc = p :: rest → condM (posOf root rest) p = false
  | bat _ _ => True
end Item

theorem dfs_of_true (condM : Pos → Node → Bool) (pos : Pos) (parent : Option (Node × Pos)) (n : Node)
    (h : condM pos n = true) : Graph.dfs condM pos parent n = [⟨n, pos, parent⟩] := by
  cases n <;> simp [Graph.dfs, h]

theorem dfsL_flatMap (condM : Pos → Node → Bool) (pos : Pos) (parent : Option (Node × Pos)) :
    ∀ ns : List Node, dfsL condM pos parent ns = ns.flatMap (Graph.dfs condM pos parent) := by
  intro ns; induction ns with
  | nil => simp [dfsL]
  | cons n ns ih => simp [dfsL, ih]

theorem nodeIdsL_flatMap : ∀ ns : List Node, nodeIdsL ns = ns.flatMap nodeIds := by
  intro ns; induction ns with
  | nil => simp [nodeIdsL]
  | cons n ns ih => simp [nodeIdsL, ih]

theorem allBatsL_flatMap : ∀ ns : List Node, allBatsL ns = ns.flatMap Node.allBats := by
  intro ns; induction ns with
  | nil => simp [allBatsL]
  | cons n ns ih => simp [allBatsL, ih]

theorem sum_map_reverse {α : Type} (f : α → Nat) : ∀ l : List α, (l.reverse.map f).sum = (l.map f).sum := by
  intro l; induction l with
  | nil => rfl
  | cons a l ih => simp [List.sum_append, ih, Nat.add_comm]

theorem szWL_sum : ∀ ns : List Node, szWL ns = (ns.map szW).sum := by
  intro ns; induction ns with
  | nil => simp [szWL]
  | cons n ns ih => simp [szWL, ih]

section work
variable (root : Grid) (condS : Comp → Bool) (condM : Pos → Node → Bool)
variable (hc : ∀ anc n, condS (mk root anc n) = condM (posOf root anc) n)
variable (hb : ∀ b anc, condS ⟨.bat b, anc, root⟩ = false)

include hc hb in
/-- the worklist on a stack of components with pairwise disjoint subtrees -/
theorem work_spec : ∀ (fuel : Nat) (items : List Item) (vis m : List Comp),
    (items.map Item.size).sum ≤ fuel → (items.flatMap Item.ids).Nodup →
    (∀ x ∈ vis, x.id ∉ items.flatMap Item.ids) → (∀ b ∈ items.flatMap Item.bats, b ∉ items.flatMap Item.ids) →
    (∀ x ∈ m, x.id ∉ items.flatMap Item.ids) → (∀ it ∈ items, it.parOk root condM) →
    ∃ R, (workR condS fuel vis m (items.map (Item.comp root))).2 = m ++ R
      ∧ (R.map Comp.found).Perm (items.flatMap (Item.mres root condM))
      ∧ (R.map Comp.id).Nodup
      ∧ (∀ x ∈ R, FoundAt root condM x ∧ x.id ∈ items.flatMap Item.ids) := by
  intro fuel
  induction fuel with
  | zero =>
    intro items vis m hf _ _ _ _ _
    cases items with
    | nil => exact ⟨[], by simp [workR], by simp, by simp, by simp⟩
    | cons it rest =>
      exfalso
      simp only [List.map_cons, List.sum_cons] at hf
      have : 1 ≤ it.size := by cases it <;> simp [Item.size, szW_pos]
      omega
  | succ fuel ih =>
    intro items vis m hf hn hv hbt hm hp
    cases items with
    | nil => exact ⟨[], by simp [workR], by simp, by simp, by simp⟩
    | cons it rest =>
      simp only [List.map_cons, List.sum_cons, List.flatMap_cons] at hf hn hv hbt hm
      cases it with
      | bat b anc =>
        -- a battery: never a match, no successors
        simp only [Item.ids, Item.bats, Item.size, List.nil_append, List.singleton_append] at hf hn hv hbt hm
        have hsucc : (⟨.bat b, anc, root⟩ : Comp).succs = [] := rfl
        have key : ∀ vis', (∀ x ∈ vis', x.id ∉ rest.flatMap Item.ids) →
            ∃ R, (workR condS fuel vis' m (rest.map (Item.comp root))).2 = m ++ R
              ∧ (R.map Comp.found).Perm (rest.flatMap (Item.mres root condM)) ∧ (R.map Comp.id).Nodup
              ∧ (∀ x ∈ R, FoundAt root condM x ∧ x.id ∈ rest.flatMap Item.ids) :=
          fun vis' hv' => ih rest vis' m (by omega) hn hv' (fun b' hb' => hbt b' (by simp [hb'])) hm
            (fun it hit => hp it (by simp [hit]))
        simp only [List.map_cons, Item.comp, workR, hb, Bool.false_eq_true, if_false, hsucc, List.reverse_nil,
          List.nil_append, List.flatMap_cons, Item.mres, Item.ids]
        split
        · exact key vis hv
        · refine key _ ?_
          intro x hx
          rcases mem_unionIds hx with h | h
          · exact hv x h
          · simp at h; subst h; exact hbt b (by simp)
      | node anc n =>
        simp only [Item.ids, Item.bats, Item.size] at hf hn hv hbt hm
        rw [List.nodup_append] at hn
        obtain ⟨hn1, hn2, hdisj⟩ := hn
        have hpar := hp (.node anc n) (by simp)
        have hmem : memIds (mk root anc n) vis = false :=
          memIds_false _ _ (fun x hx h => hv x hx (by
            have : n.id ∈ nodeIds n := by cases n <;> simp [nodeIds, Node.id]
            simp [h, this]))
        have hidn : n.id ∈ nodeIds n := by cases n <;> simp [nodeIds, Node.id]
        by_cases hcond : condM (posOf root anc) n = true
        · -- a match: recorded, not descended
          have hcs : condS (mk root anc n) = true := by rw [hc]; exact hcond
          have hu : unionIds m [mk root anc n] = m ++ [mk root anc n] :=
            unionIds_disjoint _ _ (by
              intro x hx y hy h; simp at hx; subst hx
              exact hm y hy (by simp [h, hidn]))
          obtain ⟨R, r1, r2, r3, r4⟩ := ih rest (unionIds vis [mk root anc n]) (m ++ [mk root anc n]) (by have := szW_pos n; omega) hn2
            (by
              intro x hx hmem'
              rcases mem_unionIds hx with h | h
              · exact hv x h (by simp [hmem'])
              · simp at h; subst h; exact hdisj _ hidn _ hmem' rfl)
            (fun b' hb' h => hbt b' (by simp [hb']) (by simp [h]))
            (by
              intro x hx hmem'
              rcases List.mem_append.mp hx with h | h
              · exact hm x h (by simp [hmem'])
              · simp at h; subst h; exact hdisj _ hidn _ hmem' rfl)
            (fun it hit => hp it (by simp [hit]))
          refine ⟨mk root anc n :: R, ?_, ?_, ?_, ?_⟩
          · simp only [List.map_cons, Item.comp, workR, hmem, Bool.false_eq_true, if_false, hcs, if_true, hu, r1]
            simp
          · simp only [List.map_cons, List.flatMap_cons, Item.mres, dfs_of_true condM _ _ n hcond, found_mk,
              List.singleton_append]
            exact r2.cons _
          · simp only [List.map_cons, List.nodup_cons, mk_id]
            refine ⟨?_, r3⟩
            intro hin
            obtain ⟨y, hy, hyid⟩ := List.mem_map.mp hin
            exact hdisj _ hidn _ (r4 y hy).2 hyid.symm
          · intro x hx
            rcases List.mem_cons.mp hx with h | h
            · subst h; exact ⟨⟨anc, n, rfl, hcond, hpar⟩, by simp [List.flatMap_cons, Item.ids, hidn]⟩
            · exact ⟨(r4 x h).1, by simp only [List.flatMap_cons, List.mem_append]; exact Or.inr (r4 x h).2⟩
        · -- no match: the successors go on the stack
          have hcond' : condM (posOf root anc) n = false := by simpa using hcond
          have hcs : condS (mk root anc n) = false := by rw [hc]; exact hcond'
          have hvis' : ∀ x ∈ unionIds vis [mk root anc n], x ∈ vis ∨ x.id = n.id := by
            intro x hx
            rcases mem_unionIds hx with h | h
            · exact Or.inl h
            · simp at h; subst h; exact Or.inr rfl
          cases n with
          | meter id cs =>
            have hsucc : (mk root anc (.meter id cs)).succs = cs.map (mk root (.meter id cs :: anc)) := rfl
            simp only [nodeIds, List.nodup_cons] at hn1
            have hrevids : ((cs.reverse.map (Item.node (.meter id cs :: anc))).flatMap Item.ids).Perm (nodeIdsL cs) := by
              rw [nodeIdsL_flatMap, List.flatMap_map]
              exact (List.reverse_perm cs).flatMap_right _
            have hrevbats : ((cs.reverse.map (Item.node (.meter id cs :: anc))).flatMap Item.bats).Perm (allBatsL cs) := by
              rw [allBatsL_flatMap, List.flatMap_map]
              exact (List.reverse_perm cs).flatMap_right _
            obtain ⟨R, r1, r2, r3, r4⟩ := ih (cs.reverse.map (Item.node (.meter id cs :: anc)) ++ rest)
              (unionIds vis [mk root anc (.meter id cs)]) m
              (by
                simp only [List.map_append, List.map_map, List.sum_append, Function.comp_def, Item.size]
                have : (cs.reverse.map (fun x => szW x)).sum = szWL cs := by
                  rw [szWL_sum]; exact sum_map_reverse szW cs
                simp only [szW] at hf
                omega)
              (by
                rw [List.flatMap_append, List.nodup_append]
                refine ⟨hrevids.nodup_iff.mpr hn1.2, hn2, ?_⟩
                intro a ha b' hb'
                exact hdisj a (by simp [nodeIds, hrevids.mem_iff.mp ha]) b' hb')
              (by
                intro x hx hmem'
                rw [List.flatMap_append, List.mem_append] at hmem'
                rcases hvis' x hx with h | h
                · rcases hmem' with h' | h'
                  · exact hv x h (by simp [nodeIds, hrevids.mem_iff.mp h'])
                  · exact hv x h (by simp [h'])
                · rcases hmem' with h' | h'
                  · rw [h] at h'; exact hn1.1 (hrevids.mem_iff.mp h')
                  · rw [h] at h'; exact hdisj _ (by simp [nodeIds, Node.id]) _ h' rfl)
              (by
                intro b' hb' hmem'
                rw [List.flatMap_append, List.mem_append] at hb' hmem'
                have hb'' : b' ∈ (Node.meter id cs).allBats ++ rest.flatMap Item.bats := by
                  rcases hb' with h | h
                  · simp [Node.allBats, hrevbats.mem_iff.mp h]
                  · simp [h]
                refine hbt b' hb'' ?_
                rcases hmem' with h | h
                · simp [nodeIds, hrevids.mem_iff.mp h]
                · simp [h])
              (by
                intro x hx hmem'
                rw [List.flatMap_append, List.mem_append] at hmem'
                rcases hmem' with h | h
                · exact hm x hx (by simp [nodeIds, hrevids.mem_iff.mp h])
                · exact hm x hx (by simp [h]))
              (by
                intro it hit
                rcases List.mem_append.mp hit with h | h
                · obtain ⟨c, _, rfl⟩ := List.mem_map.mp h
                  intro p rest' e; cases e; exact hcond'
                · exact hp it (by simp [h]))
            refine ⟨R, ?_, ?_, r3, ?_⟩
            · simp only [List.map_cons, Item.comp, workR, hmem, Bool.false_eq_true, if_false, hcs, hsucc]
              rw [← r1]
              simp [List.map_append, List.map_reverse, List.map_map, Function.comp_def, Item.comp]
            · refine r2.trans ?_
              simp only [List.flatMap_append, List.flatMap_cons, Item.mres, Graph.dfs, hcond', Bool.false_eq_true,
                if_false, dfsL_flatMap, List.flatMap_map]
              exact List.Perm.append_right _ ((List.reverse_perm cs).flatMap_right _)
            · intro x hx
              refine ⟨(r4 x hx).1, ?_⟩
              have := (r4 x hx).2
              rw [List.flatMap_append, List.mem_append] at this
              simp only [List.flatMap_cons, List.mem_append, Item.ids]
              rcases this with h | h
              · left; simp [nodeIds, hrevids.mem_iff.mp h]
              · right; exact h
          | batInv id bs =>
            have hsucc : (mk root anc (.batInv id bs)).succs
                = bs.map (fun b => (⟨.bat b, .batInv id bs :: anc, root⟩ : Comp)) := rfl
            have hids0 : (bs.reverse.map (fun b => Item.bat b (.batInv id bs :: anc))).flatMap Item.ids = [] := by
              induction bs.reverse with
              | nil => rfl
              | cons b l ih' => simpa [Item.ids] using ih'
            have hbats0 : ∀ b', b' ∈ (bs.reverse.map (fun b => Item.bat b (.batInv id bs :: anc))).flatMap Item.bats → b' ∈ bs := by
              intro b' h
              obtain ⟨it, hit, hb'⟩ := List.mem_flatMap.mp h
              obtain ⟨b, hb2, rfl⟩ := List.mem_map.mp hit
              simp [Item.bats] at hb'; subst hb'; simpa using hb2
            obtain ⟨R, r1, r2, r3, r4⟩ := ih (bs.reverse.map (fun b => Item.bat b (.batInv id bs :: anc)) ++ rest)
              (unionIds vis [mk root anc (.batInv id bs)]) m
              (by
                simp only [List.map_append, List.map_map, List.sum_append, Function.comp_def, Item.size]
                have : ((bs.reverse.map (fun _ => 1)).sum) = bs.length := by
                  rw [sum_map_reverse]
                  clear hsucc hids0 hbats0 hcs hcond hcond' hvis' hidn hmem hpar hdisj hn1 hm hbt hv hf hp
                  induction bs with
                  | nil => rfl
                  | cons b l ih' => simp only [List.map_cons, List.sum_cons, List.length_cons, ih']; omega
                simp only [szW] at hf
                omega)
              (by rw [List.flatMap_append, hids0]; simpa using hn2)
              (by
                intro x hx hmem'
                rw [List.flatMap_append, hids0, List.nil_append] at hmem'
                rcases hvis' x hx with h | h
                · exact hv x h (by simp [hmem'])
                · rw [h] at hmem'; exact hdisj _ (by simp [nodeIds, Node.id]) _ hmem' rfl)
              (by
                intro b' hb' hmem'
                rw [List.flatMap_append, hids0, List.nil_append] at hmem'
                rw [List.flatMap_append, List.mem_append] at hb'
                refine hbt b' ?_ (by simp [hmem'])
                rcases hb' with h | h
                · simp [Node.allBats, hbats0 b' h]
                · simp [h])
              (by
                intro x hx hmem'
                rw [List.flatMap_append, hids0, List.nil_append] at hmem'
                exact hm x hx (by simp [hmem']))
              (by
                intro it hit
                rcases List.mem_append.mp hit with h | h
                · obtain ⟨c, _, rfl⟩ := List.mem_map.mp h
                  trivial
                · exact hp it (by simp [h]))
            have hmres0 : (bs.reverse.map (fun b => Item.bat b (.batInv id bs :: anc))).flatMap (Item.mres root condM) = [] := by
              induction bs.reverse with
              | nil => rfl
              | cons b l ih' => simpa [Item.mres] using ih'
            refine ⟨R, ?_, ?_, r3, ?_⟩
            · simp only [List.map_cons, Item.comp, workR, hmem, Bool.false_eq_true, if_false, hcs, hsucc]
              rw [← r1]
              simp [List.map_append, List.map_reverse, List.map_map, Function.comp_def, Item.comp]
            · refine r2.trans ?_
              rw [List.flatMap_append, hmres0]
              simp [Item.mres, Graph.dfs, hcond']
            · intro x hx
              refine ⟨(r4 x hx).1, ?_⟩
              have := (r4 x hx).2
              rw [List.flatMap_append, hids0, List.nil_append] at this
              simp [this]
          | pvInv id =>
            have hsucc : (mk root anc (.pvInv id)).succs = [] := rfl
            obtain ⟨R, r1, r2, r3, r4⟩ := ih rest (unionIds vis [mk root anc (.pvInv id)]) m (by simp only [szW] at hf; omega) hn2
              (by
                intro x hx hmem'
                rcases hvis' x hx with h | h
                · exact hv x h (by simp [hmem'])
                · rw [h] at hmem'; exact hdisj _ (by simp [nodeIds, Node.id]) _ hmem' rfl)
              (fun b' hb' h => hbt b' (by simp [hb']) (by simp [h]))
              (fun x hx h => hm x hx (by simp [h]))
              (fun it hit => hp it (by simp [hit]))
            refine ⟨R, ?_, ?_, r3, fun x hx => ⟨(r4 x hx).1, by simp [(r4 x hx).2]⟩⟩
            · simp only [List.map_cons, Item.comp, workR, hmem, Bool.false_eq_true, if_false, hcs, hsucc,
                List.reverse_nil, List.nil_append]
              exact r1
            · simpa [Item.mres, Graph.dfs, hcond'] using r2
          | ev id =>
            have hsucc : (mk root anc (.ev id)).succs = [] := rfl
            obtain ⟨R, r1, r2, r3, r4⟩ := ih rest (unionIds vis [mk root anc (.ev id)]) m (by simp only [szW] at hf; omega) hn2
              (by
                intro x hx hmem'
                rcases hvis' x hx with h | h
                · exact hv x h (by simp [hmem'])
                · rw [h] at hmem'; exact hdisj _ (by simp [nodeIds, Node.id]) _ hmem' rfl)
              (fun b' hb' h => hbt b' (by simp [hb']) (by simp [h]))
              (fun x hx h => hm x hx (by simp [h]))
              (fun it hit => hp it (by simp [hit]))
            refine ⟨R, ?_, ?_, r3, fun x hx => ⟨(r4 x hx).1, by simp [(r4 x hx).2]⟩⟩
            · simp only [List.map_cons, Item.comp, workR, hmem, Bool.false_eq_true, if_false, hcs, hsucc,
                List.reverse_nil, List.nil_append]
              exact r1
            · simpa [Item.mres, Graph.dfs, hcond'] using r2
          | chp id =>
            have hsucc : (mk root anc (.chp id)).succs = [] := rfl
            obtain ⟨R, r1, r2, r3, r4⟩ := ih rest (unionIds vis [mk root anc (.chp id)]) m (by simp only [szW] at hf; omega) hn2
              (by
                intro x hx hmem'
                rcases hvis' x hx with h | h
                · exact hv x h (by simp [hmem'])
                · rw [h] at hmem'; exact hdisj _ (by simp [nodeIds, Node.id]) _ hmem' rfl)
              (fun b' hb' h => hbt b' (by simp [hb']) (by simp [h]))
              (fun x hx h => hm x hx (by simp [h]))
              (fun it hit => hp it (by simp [hit]))
            refine ⟨R, ?_, ?_, r3, fun x hx => ⟨(r4 x hx).1, by simp [(r4 x hx).2]⟩⟩
            · simp only [List.map_cons, Item.comp, workR, hmem, Bool.false_eq_true, if_false, hcs, hsucc,
                List.reverse_nil, List.nil_append]
              exact r1
            · simpa [Item.mres, Graph.dfs, hcond'] using r2

end work

/-- the translation of an iterative `dfs` is the worklist `refWork` started with the node on the stack -/
def IsWork : Prop := ∀ (fuel : Nat) (c : Comp) (vis : List Comp) (cond : Comp → Bool),
  S.dfs (fuel + 1) c vis cond = ((refWork cond fuel vis [] [c]).1, (refWork cond fuel vis [] [c]).2.1)

theorem work_one (hw : IsWork) (fuel : Nat) (c : Comp) (vis : List Comp) (cond : Comp → Bool) :
    S.dfs (fuel + 1) c vis cond = workR cond fuel vis [] [c] := by
  rw [hw]; exact work_rev cond fuel vis [] [c]

theorem flatMap_reverse_perm {α β : Type} (f : α → List β) (l : List α) : (l.reverse.flatMap f).Perm (l.flatMap f) :=
  (List.reverse_perm l).flatMap_right f

/-- the worklist started with one top-level node -/
theorem work_top (hw : IsWork) (g : Grid) (condS : Comp → Bool) (condM : Pos → Node → Bool)
    (hc : ∀ anc n, condS (mk g anc n) = condM (posOf g anc) n) (hb : ∀ b anc, condS ⟨.bat b, anc, g⟩ = false)
    (fuel : Nat) (n : Node) (hf : szW n ≤ fuel) (hn : (nodeIds n).Nodup) (hbn : ∀ b ∈ n.allBats, b ∉ nodeIds n) :
    ((S.dfs (fuel + 1) (mk g [] n) [] condS).2.map Comp.found).Perm (Graph.dfs condM (topPos g) none n)
      ∧ ((S.dfs (fuel + 1) (mk g [] n) [] condS).2.map Comp.id).Nodup
      ∧ (∀ x ∈ (S.dfs (fuel + 1) (mk g [] n) [] condS).2, FoundAt g condM x ∧ x.id ∈ nodeIds n) := by
  rw [work_one hw]
  obtain ⟨R, r1, r2, r3, r4⟩ := work_spec g condS condM hc hb fuel [Item.node [] n] [] []
    (by simpa [Item.size] using hf) (by simpa [Item.ids] using hn) (by simp)
    (by simpa [Item.ids, Item.bats] using hbn) (by simp) (by intro it hit; simp at hit; subst hit; intro p rest h; cases h)
  simp only [List.map_cons, List.map_nil, Item.comp, List.nil_append] at r1
  rw [r1]
  refine ⟨?_, r3, ?_⟩
  · have e1 : posOf g [] = topPos g := rfl
    have e2 : parentOf g [] = none := rfl
    simpa [Item.mres, e1, e2] using r2
  · intro x hx; simpa [Item.ids] using r4 x hx

theorem facts_of_work (hw : IsWork) : DfsFacts where
  fromGrid g condS condM hc hb hg hd := by
    obtain ⟨hN, hB⟩ := hd
    rw [List.nodup_cons] at hN
    have hfuel : g.fuel = ((2 * (allIdsL g.succ).length) + 1) + 1 := rfl
    rw [hfuel, work_one hw]
    have hsucc : g.comp.succs = g.succ.map (mk g []) := rfl
    have hstep : workR condS (2 * (allIdsL g.succ).length + 1) [] [] [g.comp]
        = workR condS (2 * (allIdsL g.succ).length) (unionIds [] [g.comp]) []
            ((g.succ.reverse.map (Item.node [])).map (Item.comp g)) := by
      simp [workR, memIds, hg, hsucc, List.map_reverse, Item.comp, Function.comp_def]
    rw [hstep]
    obtain ⟨R, r1, r2, r3, r4⟩ := work_spec g condS condM hc hb (2 * (allIdsL g.succ).length)
      (g.succ.reverse.map (Item.node [])) (unionIds [] [g.comp]) []
      (by
        have h1 := szWL_le g.succ
        have h2 : ((g.succ.reverse.map (Item.node [])).map Item.size).sum = szWL g.succ := by
          rw [List.map_map, szWL_sum]; exact sum_map_reverse _ g.succ
        omega)
      (by
        rw [List.flatMap_map]
        exact (flatMap_reverse_perm _ _).nodup_iff.mpr (by simpa [nodeIdsL_flatMap, Item.ids] using hN.2))
      (by
        intro x hx hmem
        rcases mem_unionIds hx with h | h
        · simp at h
        · simp at h; subst h
          rw [List.flatMap_map] at hmem
          exact hN.1 (by rw [nodeIdsL_flatMap]; exact (flatMap_reverse_perm _ _).mem_iff.mp hmem))
      (by
        intro b hb' hmem
        rw [List.flatMap_map] at hb' hmem
        refine hB b ?_ ?_
        · rw [allBatsL_flatMap]; exact (flatMap_reverse_perm _ _).mem_iff.mp hb'
        · right; rw [nodeIdsL_flatMap]; exact (flatMap_reverse_perm _ _).mem_iff.mp hmem)
      (by simp)
      (by
        intro it hit
        obtain ⟨n, _, rfl⟩ := List.mem_map.mp hit
        intro p rest h; cases h)
    simp only [List.nil_append] at r1
    rw [r1]
    refine ⟨?_, r3, fun x hx => (r4 x hx).1⟩
    refine r2.trans ?_
    rw [List.flatMap_map]
    refine (flatMap_reverse_perm _ _).trans ?_
    rw [show dfsFromGrid condM g = dfsL condM (topPos g) none g.succ from rfl, dfsL_flatMap]
    exact List.Perm.of_eq rfl
  fromTop g condS condM hc hb hd := by
    obtain ⟨hN, hB⟩ := hd
    rw [List.nodup_cons] at hN
    have hfuel : g.fuel = ((2 * (allIdsL g.succ).length) + 1) + 1 := rfl
    rw [hfuel]
    have key : ∀ ns : List Node, szWL ns ≤ 2 * (allIdsL g.succ).length + 1 → (nodeIdsL ns).Nodup →
        (∀ b ∈ allBatsL ns, b ∉ nodeIdsL ns) →
        (((ns.map (mk g [])).flatMap (fun x => (S.dfs (2 * (allIdsL g.succ).length + 1 + 1) x [] condS).2)).map Comp.found).Perm
            (dfsL condM (topPos g) none ns)
          ∧ (((ns.map (mk g [])).flatMap (fun x => (S.dfs (2 * (allIdsL g.succ).length + 1 + 1) x [] condS).2)).map Comp.id).Nodup
          ∧ (∀ x ∈ (ns.map (mk g [])).flatMap (fun x => (S.dfs (2 * (allIdsL g.succ).length + 1 + 1) x [] condS).2),
              FoundAt g condM x ∧ x.id ∈ nodeIdsL ns) := by
      intro ns
      induction ns with
      | nil => intro _ _ _; simp [dfsL]
      | cons n ns ih =>
        intro hf hn hbn
        simp only [nodeIdsL, List.nodup_append] at hn
        simp only [szWL] at hf
        obtain ⟨a1, a2, a3⟩ := work_top hw g condS condM hc hb (2 * (allIdsL g.succ).length + 1) n (by omega) hn.1
          (fun b hb' h => hbn b (by simp [allBatsL, hb']) (by simp [nodeIdsL, h]))
        obtain ⟨i1, i2, i3⟩ := ih (by omega) hn.2.1 (fun b hb' h => hbn b (by simp [allBatsL, hb']) (by simp [nodeIdsL, h]))
        simp only [List.map_cons, List.flatMap_cons, List.map_append]
        refine ⟨?_, ?_, ?_⟩
        · simp only [dfsL]; exact a1.append i1
        · rw [List.nodup_append]
          refine ⟨a2, i2, ?_⟩
          intro i hi j hj hij
          obtain ⟨x, hx, rfl⟩ := List.mem_map.mp hi
          obtain ⟨y, hy, rfl⟩ := List.mem_map.mp hj
          exact hn.2.2 _ (a3 x hx).2 _ (i3 y hy).2 hij
        · intro x hx
          rcases List.mem_append.mp hx with h | h
          · exact ⟨(a3 x h).1, by simp [nodeIdsL, (a3 x h).2]⟩
          · exact ⟨(i3 x h).1, by simp [nodeIdsL, (i3 x h).2]⟩
    obtain ⟨k1, k2, k3⟩ := key g.succ (by have := szWL_le g.succ; omega) hN.2 (fun b hb' h => hB b hb' (by simp [h]))
    exact ⟨k1, k2, fun x hx => (k3 x hx).1⟩

/-- **the facts about the translated `dfs`**, whichever way the source is written: recursive (the translation equals
`refDfs` by unfolding) or iterative with an explicit stack (its `while` loop equals `refWork` by unfolding). -/
theorem dfs_facts : DfsFacts := by
  first
  | (refine facts_of_rec ?_
     intro fuel
     induction fuel with
     | zero => intro c vis cond; simp [Extracted.GraphLoops.dfs, refDfs]
     | succ fuel ih =>
       intro c vis cond
       simp only [Extracted.GraphLoops.dfs, refDfs, ih]
       repeat' split
       all_goals first | rfl | (simp_all; done))
  | (refine facts_of_work ?_
     have hl : ∀ (cond : Comp → Bool) (fuel : Nat) (a b c : List Comp),
         Extracted.GraphLoops.dfsLoop cond fuel a b c = refWork cond fuel a b c := by
       intro cond fuel
       induction fuel with
       | zero => intro a b c; simp [Extracted.GraphLoops.dfsLoop, refWork]
       | succ fuel ih => intro a b c; simp only [Extracted.GraphLoops.dfsLoop, refWork, ih]
     intro fuel c vis cond
     simp only [Extracted.GraphLoops.dfs, hl])

end GraphTie
