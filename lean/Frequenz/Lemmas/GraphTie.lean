/-
The hand-written model of `component_graph.py` and of the formula generators (`Frequenz.Model.Graph`) is EQUAL to the
machine translation of the current source text (`Frequenz.Extracted.GraphLoops`, regenerated on every run by
`tools/extractors/graph_loops.py`).

The translation works on `Comp` (a node with its place in the tree); the model on `(pos, node)`.  The proofs unfold both
sides, split on the constructors / categories that occur and close the leaves by simplification, so a
behaviour-preserving rewrite of the Python (which yields the same or an equivalent term) still goes through while a
semantic change leaves a false leaf.
-/
import Frequenz.Model.Graph
import Frequenz.Lemmas.Graph
import Frequenz.Extracted.GraphLoops
import Mathlib.Tactic.SplitIfs
import Mathlib.Data.List.Perm.Basic
import Mathlib.Data.List.Nodup
import Mathlib.Data.List.Induction

set_option linter.unusedTactic false
set_option linter.unusedSimpArgs false
set_option linter.unusedSectionVars false

namespace GraphTie

open Graph Extracted.Graph
namespace S
export Extracted.GraphLoops (isGridMeter isPvInverter isBatteryInverter isEvCharger isChp isPvMeter isBatteryMeter
  isEvChargerMeter isChpMeter isPvChain isBatteryChain isEvChargerChain isChpChain dfs meterFallbackComponents
  isPrimaryFallbackPair mfcStep metricFallbackComponents gridFormula producerFormula consumerFormula
  batteryFormulaNoFallback evFormula chpFormula pvFormula inverterBatteries batteryFormula)
end S

/-- the component for a node at a place -/
abbrev mk (root : Grid) (anc : List Node) (n : Node) : Comp := ⟨.node n, anc, root⟩

@[simp] theorem mk_cat (root anc n) : (mk root anc n).cat = n.cat := rfl
@[simp] theorem mk_typ (root anc n) : (mk root anc n).typ = n.ityp := rfl
@[simp] theorem mk_id (root anc n) : (mk root anc n).id = n.id := rfl
@[simp] theorem mk_node (root anc n) : (mk root anc n).node = n := rfl

/-- close a Boolean leaf: enumerate the category / inverter type of the node, then propositional reasoning -/
macro "bool_leaf" n:term : tactic =>
  `(tactic| (first
    | done
    | (simp; done)
    | (cases hcat : Node.cat $n <;> cases htyp : Node.ityp $n <;> simp_all <;> done)
    | (cases hcat : Node.cat $n <;> cases htyp : Node.ityp $n <;> simp_all <;> grind)
    | grind))

theorem isGridMeter_tie (root : Grid) (anc : List Node) (n : Node) :
    S.isGridMeter (mk root anc n) = Graph.isGridMeter (mk root anc n).pos n := by
  unfold Extracted.GraphLoops.isGridMeter Graph.isGridMeter
  cases anc with
  | nil =>
    simp [mk, Comp.preds, Comp.pos, Comp.cat, firstComp, Grid.comp, Comp.succs, topPos, gridMeterSpec]
    all_goals bool_leaf n
  | cons p rest =>
    cases p <;>
      simp [mk, Comp.preds, Comp.pos, Comp.cat, firstComp, Comp.succs, gridMeterSpec, Node.cat] <;>
      bool_leaf n

theorem leaf_tie (root : Grid) (anc : List Node) (n : Node) :
    S.isPvInverter (mk root anc n) = leafTest .pvInverter n
    ∧ S.isBatteryInverter (mk root anc n) = leafTest .batteryInverter n
    ∧ S.isEvCharger (mk root anc n) = leafTest .evCharger n
    ∧ S.isChp (mk root anc n) = leafTest .chp n := by
  refine ⟨?_, ?_, ?_, ?_⟩ <;>
    simp [Extracted.GraphLoops.isPvInverter, Extracted.GraphLoops.isBatteryInverter, Extracted.GraphLoops.isEvCharger,
      Extracted.GraphLoops.isChp, leafTest, Leaf.test, pvInverterTest, batteryInverterTest, evChargerTest, chpTest] <;>
    bool_leaf n

@[simp] theorem isPvInverter_mk (root anc n) : S.isPvInverter (mk root anc n) = leafTest .pvInverter n := (leaf_tie root anc n).1
@[simp] theorem isBatteryInverter_mk (root anc n) : S.isBatteryInverter (mk root anc n) = leafTest .batteryInverter n :=
  (leaf_tie root anc n).2.1
@[simp] theorem isEvCharger_mk (root anc n) : S.isEvCharger (mk root anc n) = leafTest .evCharger n := (leaf_tie root anc n).2.2.1
@[simp] theorem isChp_mk (root anc n) : S.isChp (mk root anc n) = leafTest .chp n := (leaf_tie root anc n).2.2.2

/-- the four `is_*_meter` -/
theorem meter_tie (root : Grid) (anc : List Node) (n : Node) :
    S.isPvMeter (mk root anc n) = meterPred .pvMeter (mk root anc n).pos n
    ∧ S.isBatteryMeter (mk root anc n) = meterPred .batteryMeter (mk root anc n).pos n
    ∧ S.isEvChargerMeter (mk root anc n) = meterPred .evChargerMeter (mk root anc n).pos n
    ∧ S.isChpMeter (mk root anc n) = meterPred .chpMeter (mk root anc n).pos n := by
  have hg := isGridMeter_tie root anc n
  refine ⟨?_, ?_, ?_, ?_⟩ <;>
    cases n <;>
    simp [Extracted.GraphLoops.isPvMeter, Extracted.GraphLoops.isBatteryMeter, Extracted.GraphLoops.isEvChargerMeter,
      Extracted.GraphLoops.isChpMeter, meterPred, MeterPred.spec, pvMeterSpec, batteryMeterSpec, evChargerMeterSpec,
      chpMeterSpec, hg, Comp.succs, Comp.cat, Node.cat, Node.children, List.all_map, Function.comp_def] <;>
    grind

/-- the four `is_*_chain` -/
theorem chain_tie (root : Grid) (anc : List Node) (n : Node) :
    S.isPvChain (mk root anc n) = chain .pv (mk root anc n).pos n
    ∧ S.isBatteryChain (mk root anc n) = chain .battery (mk root anc n).pos n
    ∧ S.isEvChargerChain (mk root anc n) = chain .evCharger (mk root anc n).pos n
    ∧ S.isChpChain (mk root anc n) = chain .chp (mk root anc n).pos n := by
  obtain ⟨h1, h2, h3, h4⟩ := meter_tie root anc n
  refine ⟨?_, ?_, ?_, ?_⟩ <;>
    simp [Extracted.GraphLoops.isPvChain, Extracted.GraphLoops.isBatteryChain, Extracted.GraphLoops.isEvChargerChain,
      Extracted.GraphLoops.isChpChain, chain, Chain.parts, h1, h2, h3, h4] <;>
    grind

/-! ## `dfs`

`refDfs` is the Python function written down once by hand over `Comp` (recursion bounded by fuel).  (1) the machine
translation equals it (a proof by unfolding that does not depend on how the translation is phrased); (2) on a tree whose
node ids are pairwise distinct and distinct from the battery ids, started with a `visited` set that contains none of
the ids of the subtree, with fuel at least the size of the subtree, it returns exactly the components of the model's
`dfs` (`Comp.found` forgets the place but for `pos` and `parent`). -/

def refDfs : Nat → Comp → List Comp → (Comp → Bool) → List Comp × List Comp
  | 0, _, vis, _ => (vis, [])
  | fuel + 1, c, vis, cond =>
    if memIds c vis then (vis, [])
    else if cond c then (unionIds vis [c], [c])
    else c.succs.foldl (fun st x => ((refDfs fuel x st.1 cond).1, unionIds st.2 (refDfs fuel x st.1 cond).2))
      (unionIds vis [c], [])

/-- the translation of the recursive `dfs` is `refDfs` (used as a hypothesis: it is established by unfolding where the
source IS recursive; an iterative `dfs` goes through `refWork` below) -/
def IsRec : Prop := ∀ (fuel : Nat) (c : Comp) (vis : List Comp) (cond : Comp → Bool),
  S.dfs fuel c vis cond = refDfs fuel c vis cond

mutual
/-- ids of the meters and devices (batteries excluded: a battery may hang on several inverters) -/
def nodeIds : Node → List Nat
  | .meter id cs => id :: nodeIdsL cs
  | .batInv id _ => [id]
  | .pvInv id => [id]
  | .ev id => [id]
  | .chp id => [id]
def nodeIdsL : List Node → List Nat
  | [] => []
  | n :: ns => nodeIds n ++ nodeIdsL ns
end

mutual
def sz : Node → Nat
  | .meter _ cs => szL cs + 1
  | .batInv _ _ => 2
  | .pvInv _ => 1
  | .ev _ => 1
  | .chp _ => 1
def szL : List Node → Nat
  | [] => 0
  | n :: ns => sz n + szL ns
end

theorem memIds_false (c : Comp) (vis : List Comp) (h : ∀ x ∈ vis, x.id ≠ c.id) : memIds c vis = false := by
  simp only [memIds, List.any_eq_false, beq_iff_eq]
  intro x hx; exact h x hx

theorem unionIds_disjoint (a b : List Comp) (h : ∀ x ∈ b, ∀ y ∈ a, y.id ≠ x.id) : unionIds a b = a ++ b := by
  unfold unionIds
  congr 1
  rw [List.filter_eq_self]
  intro x hx
  simp [memIds_false x a (h x hx)]

theorem mem_unionIds {a b : List Comp} {x : Comp} (h : x ∈ unionIds a b) : x ∈ a ∨ x ∈ b := by
  unfold unionIds at h
  rcases List.mem_append.mp h with h | h
  · exact Or.inl h
  · exact Or.inr (List.mem_filter.mp h).1

/-- `pos` / `parent` of every component whose ancestors are `anc` -/
def posOf (root : Grid) (anc : List Node) : Pos := (mk root anc default).pos
def parentOf (root : Grid) (anc : List Node) : Option (Node × Pos) := (mk root anc default).parentInfo

theorem found_mk (root anc n) : (mk root anc n).found = ⟨n, posOf root anc, parentOf root anc⟩ := rfl

/-- the loop over the batteries of an inverter: nothing is found -/
theorem ref_bats (root : Grid) (condS : Comp → Bool) (hb : ∀ b anc, condS ⟨.bat b, anc, root⟩ = false)
    (fuel : Nat) (anc : List Node) :
    ∀ (bs : List Nat) (vis acc : List Comp),
      let r := (bs.map (fun b => (⟨.bat b, anc, root⟩ : Comp))).foldl
        (fun st x => ((refDfs (fuel + 1) x st.1 condS).1, unionIds st.2 (refDfs (fuel + 1) x st.1 condS).2)) (vis, acc)
      r.2 = acc ∧ ∀ x ∈ r.1, x ∈ vis ∨ x.id ∈ bs := by
  intro bs
  induction bs with
  | nil => intro vis acc; simp
  | cons b bs ih =>
    intro vis acc
    simp only [List.map_cons, List.foldl_cons]
    have h1 : (refDfs (fuel + 1) ⟨.bat b, anc, root⟩ vis condS).2 = [] := by
      simp only [refDfs, hb]
      split <;> simp [Comp.succs]
    have h2 : ∀ x ∈ (refDfs (fuel + 1) ⟨.bat b, anc, root⟩ vis condS).1, x ∈ vis ∨ x.id = b := by
      simp only [refDfs, hb]
      split
      · intro x hx; exact Or.inl hx
      · simp only [Bool.false_eq_true, if_false, Comp.succs, List.foldl_nil]
        intro x hx
        rcases mem_unionIds hx with h | h
        · exact Or.inl h
        · right; simp at h; subst h; rfl
    obtain ⟨a1, a2⟩ := ih (refDfs (fuel + 1) ⟨.bat b, anc, root⟩ vis condS).1
      (unionIds acc (refDfs (fuel + 1) ⟨.bat b, anc, root⟩ vis condS).2)
    refine ⟨?_, ?_⟩
    · rw [a1, h1]; simp [unionIds]
    · intro x hx
      rcases a2 x hx with h | h
      · rcases h2 x h with h' | h'
        · exact Or.inl h'
        · right; simp [h']
      · right; simp [h]

section tree
variable (root : Grid) (condS : Comp → Bool) (condM : Pos → Node → Bool)
variable (hc : ∀ anc n, condS (mk root anc n) = condM (posOf root anc) n)
variable (hb : ∀ b anc, condS ⟨.bat b, anc, root⟩ = false)

/-- one step of the loop over the successors -/
abbrev stepS (fuel : Nat) (st : List Comp × List Comp) (x : Comp) : List Comp × List Comp :=
  ((refDfs fuel x st.1 condS).1, unionIds st.2 (refDfs fuel x st.1 condS).2)

/-- a component found by the search: a node that satisfies the condition, below a node that does not -/
def FoundAt (x : Comp) : Prop :=
  ∃ anc n, x = mk root anc n ∧ condM (posOf root anc) n = true
    ∧ ∀ p rest, anc = p :: rest → condM (posOf root rest) p = false

include hc hb in
mutual
theorem ref_node :
    (n : Node) → (anc : List Node) → (fuel : Nat) → (vis : List Comp) →
    sz n ≤ fuel → (∀ x ∈ vis, x.id ∉ nodeIds n) → (nodeIds n).Nodup → (∀ b ∈ n.allBats, b ∉ nodeIds n) →
    (∀ p rest, anc = p :: rest → condM (posOf root rest) p = false) →
    (refDfs fuel (mk root anc n) vis condS).2.map Comp.found = Graph.dfs condM (posOf root anc) (parentOf root anc) n
      ∧ (∀ x ∈ (refDfs fuel (mk root anc n) vis condS).1, x ∈ vis ∨ x.id ∈ nodeIds n ∨ x.id ∈ n.allBats)
      ∧ (∀ x ∈ (refDfs fuel (mk root anc n) vis condS).2, x.id ∈ nodeIds n)
      ∧ ((refDfs fuel (mk root anc n) vis condS).2.map Comp.id).Nodup
      ∧ (∀ x ∈ (refDfs fuel (mk root anc n) vis condS).2, FoundAt root condM x)
  | .meter id cs, anc, fuel, vis, hf, hv, hn, hbn, hpar => by
    obtain ⟨fuel, rfl⟩ : ∃ f, fuel = f + 1 := ⟨fuel - 1, by simp [sz] at hf; omega⟩
    have hmem : memIds (mk root anc (.meter id cs)) vis = false :=
      memIds_false _ _ (fun x hx h => hv x hx (by simp [nodeIds, Node.id, h]))
    simp only [nodeIds, List.nodup_cons] at hn
    by_cases hcond : condM (posOf root anc) (.meter id cs) = true
    · have hcs : condS (mk root anc (.meter id cs)) = true := by rw [hc]; exact hcond
      simp only [refDfs, hmem, Bool.false_eq_true, if_false, hcs, if_true, Graph.dfs, hcond, List.map_cons,
        List.map_nil, found_mk, true_and]
      refine ⟨?_, ?_, by simp, ?_⟩
      · intro x hx
        rcases mem_unionIds hx with h | h
        · exact Or.inl h
        · simp at h; subst h; right; left; simp [nodeIds, Node.id]
      · intro x hx; simp at hx; subst hx; simp [nodeIds, Node.id]
      · intro x hx; simp at hx; subst hx; exact ⟨anc, _, rfl, hcond, hpar⟩
    · have hcond' : condM (posOf root anc) (.meter id cs) = false := by simpa using hcond
      have hcs : condS (mk root anc (.meter id cs)) = false := by rw [hc]; exact hcond'
      have hsucc : (mk root anc (.meter id cs)).succs = cs.map (mk root (.meter id cs :: anc)) := rfl
      obtain ⟨res, r1, r2, r3, r4, r5, r6⟩ := ref_list cs (.meter id cs :: anc) fuel
        (unionIds vis [mk root anc (.meter id cs)]) []
        (by simp [sz] at hf; omega)
        (by
          intro x hx hmem'
          rcases mem_unionIds hx with h | h
          · exact hv x h (by simp [nodeIds, hmem'])
          · simp at h; subst h; exact hn.1 hmem')
        hn.2
        (by intro b hb' hmem'; exact hbn b (by simpa [Node.allBats] using hb') (by simp [nodeIds, hmem']))
        (by simp)
        (by intro p rest h; cases h; exact hcond')
      simp only [refDfs, hmem, Bool.false_eq_true, if_false, hcs, hsucc, Graph.dfs, hcond']
      simp only [List.nil_append] at r1
      refine ⟨?_, ?_, ?_, ?_, ?_⟩
      · rw [r1]; exact r2
      · intro x hx
        rcases r3 x hx with h | h | h
        · rcases mem_unionIds h with h' | h'
          · exact Or.inl h'
          · simp at h'; subst h'; right; left; simp [nodeIds, Node.id]
        · right; left; simp [nodeIds, Node.id, h]
        · right; right; simpa [Node.allBats] using h
      · intro x hx; rw [r1] at hx; simp [nodeIds, Node.id, r4 x hx]
      · rw [r1]; exact r5
      · intro x hx; rw [r1] at hx; exact r6 x hx
  | .batInv id bs, anc, fuel, vis, hf, hv, _, _, hpar => by
    obtain ⟨fuel, rfl⟩ : ∃ f, fuel = f + 2 := ⟨fuel - 2, by simp [sz] at hf; omega⟩
    have hmem : memIds (mk root anc (.batInv id bs)) vis = false :=
      memIds_false _ _ (fun x hx h => hv x hx (by simp [nodeIds, Node.id, h]))
    by_cases hcond : condM (posOf root anc) (.batInv id bs) = true
    · have hcs : condS (mk root anc (.batInv id bs)) = true := by rw [hc]; exact hcond
      simp only [refDfs, hmem, Bool.false_eq_true, if_false, hcs, if_true, Graph.dfs, hcond, List.map_cons,
        List.map_nil, found_mk, true_and]
      refine ⟨?_, ?_, by simp, ?_⟩
      · intro x hx
        rcases mem_unionIds hx with h | h
        · exact Or.inl h
        · simp at h; subst h; right; left; simp [nodeIds, Node.id]
      · intro x hx; simp at hx; subst hx; simp [nodeIds, Node.id]
      · intro x hx; simp at hx; subst hx; exact ⟨anc, _, rfl, hcond, hpar⟩
    · have hcond' : condM (posOf root anc) (.batInv id bs) = false := by simpa using hcond
      have hcs : condS (mk root anc (.batInv id bs)) = false := by rw [hc]; exact hcond'
      have hsucc : (mk root anc (.batInv id bs)).succs
          = bs.map (fun b => (⟨.bat b, .batInv id bs :: anc, root⟩ : Comp)) := rfl
      obtain ⟨b1, b2⟩ := ref_bats root condS hb fuel (.batInv id bs :: anc) bs
        (unionIds vis [mk root anc (.batInv id bs)]) []
      simp only [refDfs, hmem, Bool.false_eq_true, if_false, hcs, hsucc, Graph.dfs, hcond'] at b1 b2 ⊢
      refine ⟨by rw [b1]; rfl, ?_, by rw [b1]; simp, by rw [b1]; simp, by rw [b1]; simp⟩
      intro x hx
      rcases b2 x hx with h | h
      · rcases mem_unionIds h with h' | h'
        · exact Or.inl h'
        · simp at h'; subst h'; right; left; simp [nodeIds, Node.id]
      · right; right; simpa [Node.allBats] using h
  | .pvInv id, anc, fuel, vis, hf, hv, _, _, hpar => by
    obtain ⟨fuel, rfl⟩ : ∃ f, fuel = f + 1 := ⟨fuel - 1, by simp [sz] at hf; omega⟩
    have hmem : memIds (mk root anc (.pvInv id)) vis = false :=
      memIds_false _ _ (fun x hx h => hv x hx (by simp [nodeIds, Node.id, h]))
    have hsucc : (mk root anc (.pvInv id)).succs = [] := rfl
    simp only [refDfs, hmem, Bool.false_eq_true, if_false, hc, hsucc, List.foldl_nil, Graph.dfs]
    split
    · rename_i hcond
      refine ⟨by simp [found_mk], ?_, by simp [nodeIds, Node.id], by simp, ?_⟩
      · intro x hx; rcases mem_unionIds hx with h | h
        · exact Or.inl h
        · simp at h; subst h; right; left; simp [nodeIds, Node.id]
      · intro x hx; simp at hx; subst hx; exact ⟨anc, _, rfl, hcond, hpar⟩
    · refine ⟨by simp, ?_, by simp, by simp, by simp⟩
      intro x hx; rcases mem_unionIds hx with h | h
      · exact Or.inl h
      · simp at h; subst h; right; left; simp [nodeIds, Node.id]
  | .ev id, anc, fuel, vis, hf, hv, _, _, hpar => by
    obtain ⟨fuel, rfl⟩ : ∃ f, fuel = f + 1 := ⟨fuel - 1, by simp [sz] at hf; omega⟩
    have hmem : memIds (mk root anc (.ev id)) vis = false :=
      memIds_false _ _ (fun x hx h => hv x hx (by simp [nodeIds, Node.id, h]))
    have hsucc : (mk root anc (.ev id)).succs = [] := rfl
    simp only [refDfs, hmem, Bool.false_eq_true, if_false, hc, hsucc, List.foldl_nil, Graph.dfs]
    split
    · rename_i hcond
      refine ⟨by simp [found_mk], ?_, by simp [nodeIds, Node.id], by simp, ?_⟩
      · intro x hx; rcases mem_unionIds hx with h | h
        · exact Or.inl h
        · simp at h; subst h; right; left; simp [nodeIds, Node.id]
      · intro x hx; simp at hx; subst hx; exact ⟨anc, _, rfl, hcond, hpar⟩
    · refine ⟨by simp, ?_, by simp, by simp, by simp⟩
      intro x hx; rcases mem_unionIds hx with h | h
      · exact Or.inl h
      · simp at h; subst h; right; left; simp [nodeIds, Node.id]
  | .chp id, anc, fuel, vis, hf, hv, _, _, hpar => by
    obtain ⟨fuel, rfl⟩ : ∃ f, fuel = f + 1 := ⟨fuel - 1, by simp [sz] at hf; omega⟩
    have hmem : memIds (mk root anc (.chp id)) vis = false :=
      memIds_false _ _ (fun x hx h => hv x hx (by simp [nodeIds, Node.id, h]))
    have hsucc : (mk root anc (.chp id)).succs = [] := rfl
    simp only [refDfs, hmem, Bool.false_eq_true, if_false, hc, hsucc, List.foldl_nil, Graph.dfs]
    split
    · rename_i hcond
      refine ⟨by simp [found_mk], ?_, by simp [nodeIds, Node.id], by simp, ?_⟩
      · intro x hx; rcases mem_unionIds hx with h | h
        · exact Or.inl h
        · simp at h; subst h; right; left; simp [nodeIds, Node.id]
      · intro x hx; simp at hx; subst hx; exact ⟨anc, _, rfl, hcond, hpar⟩
    · refine ⟨by simp, ?_, by simp, by simp, by simp⟩
      intro x hx; rcases mem_unionIds hx with h | h
      · exact Or.inl h
      · simp at h; subst h; right; left; simp [nodeIds, Node.id]
theorem ref_list :
    (ns : List Node) → (anc : List Node) → (fuel : Nat) → (vis acc : List Comp) →
    szL ns ≤ fuel → (∀ x ∈ vis, x.id ∉ nodeIdsL ns) → (nodeIdsL ns).Nodup →
    (∀ b ∈ allBatsL ns, b ∉ nodeIdsL ns) → (∀ x ∈ acc, x.id ∉ nodeIdsL ns) →
    (∀ p rest, anc = p :: rest → condM (posOf root rest) p = false) →
    ∃ res, ((ns.map (mk root anc)).foldl (stepS condS fuel) (vis, acc)).2 = acc ++ res
      ∧ res.map Comp.found = dfsL condM (posOf root anc) (parentOf root anc) ns
      ∧ (∀ x ∈ ((ns.map (mk root anc)).foldl (stepS condS fuel) (vis, acc)).1,
          x ∈ vis ∨ x.id ∈ nodeIdsL ns ∨ x.id ∈ allBatsL ns)
      ∧ (∀ x ∈ res, x.id ∈ nodeIdsL ns)
      ∧ (res.map Comp.id).Nodup
      ∧ (∀ x ∈ res, FoundAt root condM x)
  | [], _, _, vis, acc, _, _, _, _, _, _ =>
    ⟨[], by simp, by simp [dfsL], by intro x hx; exact Or.inl hx, by simp, by simp, by simp⟩
  | n :: ns, anc, fuel, vis, acc, hf, hv, hn, hbn, hacc, hpar => by
    simp only [nodeIdsL, List.nodup_append] at hn
    obtain ⟨hn1, hn2, hdisj⟩ := hn
    simp only [szL] at hf
    obtain ⟨a1, a2, a3, a4, a5⟩ := ref_node n anc fuel vis (by omega)
      (fun x hx h => hv x hx (by simp [nodeIdsL, h])) hn1
      (fun b hb' h => hbn b (by simp [allBatsL, hb']) (by simp [nodeIdsL, h])) hpar
    have hu : unionIds acc (refDfs fuel (mk root anc n) vis condS).2 = acc ++ (refDfs fuel (mk root anc n) vis condS).2 :=
      unionIds_disjoint _ _ (fun x hx y hy h => hacc y hy (by simp [nodeIdsL, h, a3 x hx]))
    obtain ⟨res, r1, r2, r3, r4, r5, r6⟩ := ref_list ns anc fuel (refDfs fuel (mk root anc n) vis condS).1
      (acc ++ (refDfs fuel (mk root anc n) vis condS).2) (by omega)
      (by
        intro x hx hmem
        rcases a2 x hx with h | h | h
        · exact hv x h (by simp [nodeIdsL, hmem])
        · exact hdisj _ h _ hmem rfl
        · exact hbn x.id (by simp [allBatsL, h]) (by simp [nodeIdsL, hmem]))
      hn2
      (fun b hb' h => hbn b (by simp [allBatsL, hb']) (by simp [nodeIdsL, h]))
      (by
        intro x hx hmem
        rcases List.mem_append.mp hx with h | h
        · exact hacc x h (by simp [nodeIdsL, hmem])
        · exact hdisj _ (a3 x h) _ hmem rfl)
      hpar
    refine ⟨(refDfs fuel (mk root anc n) vis condS).2 ++ res, ?_, ?_, ?_, ?_, ?_, ?_⟩
    · simp only [List.map_cons, List.foldl_cons, stepS, hu]
      rw [r1, List.append_assoc]
    · simp only [List.map_append, a1, r2, dfsL]
    · intro x hx
      simp only [List.map_cons, List.foldl_cons, stepS, hu] at hx
      rcases r3 x hx with h | h | h
      · rcases a2 x h with h' | h' | h'
        · exact Or.inl h'
        · right; left; simp [nodeIdsL, h']
        · right; right; simp [allBatsL, h']
      · right; left; simp [nodeIdsL, h]
      · right; right; simp [allBatsL, h]
    · intro x hx
      rcases List.mem_append.mp hx with h | h
      · simp [nodeIdsL, a3 x h]
      · simp [nodeIdsL, r4 x h]
    · rw [List.map_append, List.nodup_append]
      refine ⟨a4, r5, ?_⟩
      intro i hi j hj hij
      obtain ⟨x, hx, rfl⟩ := List.mem_map.mp hi
      obtain ⟨y, hy, rfl⟩ := List.mem_map.mp hj
      exact hdisj _ (a3 x hx) _ (r4 y hy) hij
    · intro x hx
      rcases List.mem_append.mp hx with h | h
      · exact a5 x h
      · exact r6 x h
end

end tree

mutual
theorem sz_le : (n : Node) → sz n ≤ 2 * n.allIds.length
  | .meter _ cs => by have := szL_le cs; simp [sz, Node.allIds]; omega
  | .batInv _ _ => by simp [sz, Node.allIds]; omega
  | .pvInv _ => by simp [sz, Node.allIds]
  | .ev _ => by simp [sz, Node.allIds]
  | .chp _ => by simp [sz, Node.allIds]
theorem szL_le : (ns : List Node) → szL ns ≤ 2 * (allIdsL ns).length
  | [] => by simp [szL, allIdsL]
  | n :: ns => by have := sz_le n; have := szL_le ns; simp [szL, allIdsL]; omega
end

/-- **`dfs(grid, set(), condition)`** as the generators call it: on a tree whose grid / meter / device ids are
pairwise distinct and differ from the battery ids, for a condition that agrees with the model's condition on the
meters and devices and rejects the grid and the batteries, the machine-translated `dfs` (with the fuel the
translation passes) returns exactly the components of the model's `dfsFromGrid`; they have distinct ids and each
is a node that satisfies the condition below a node that does not. -/
theorem dfs_from_grid (hrec : IsRec) (g : Grid) (condS : Comp → Bool) (condM : Pos → Node → Bool)
    (hc : ∀ anc n, condS (mk g anc n) = condM (posOf g anc) n)
    (hb : ∀ b anc, condS ⟨.bat b, anc, g⟩ = false) (hgrid : condS g.comp = false)
    (hn : (g.id :: nodeIdsL g.succ).Nodup) (hbn : ∀ b ∈ allBatsL g.succ, b ∉ g.id :: nodeIdsL g.succ) :
    (S.dfs g.fuel g.comp [] condS).2.map Comp.found = dfsFromGrid condM g
      ∧ ((S.dfs g.fuel g.comp [] condS).2.map Comp.id).Nodup
      ∧ (∀ x ∈ (S.dfs g.fuel g.comp [] condS).2, FoundAt g condM x) := by
  rw [hrec]
  have hfuel : g.fuel = (2 * (allIdsL g.succ).length + 1) + 1 := rfl
  have hsucc : g.comp.succs = g.succ.map (mk g []) := rfl
  rw [hfuel, refDfs]
  simp only [memIds, List.any_nil, Bool.false_eq_true, if_false, hgrid, hsucc]
  rw [List.nodup_cons] at hn
  obtain ⟨res, r1, r2, -, -, r5, r6⟩ := ref_list g condS condM hc hb g.succ [] (2 * (allIdsL g.succ).length + 1)
    (unionIds [] [g.comp]) [] (by have := szL_le g.succ; omega)
    (by
      intro x hx hmem
      rcases mem_unionIds hx with h | h
      · simp at h
      · simp at h; subst h; exact hn.1 hmem)
    hn.2 (fun b hb' h => hbn b hb' (by simp [h])) (by simp) (by intro p rest h; cases h)
  simp only [List.nil_append] at r1
  rw [r1]
  exact ⟨by rw [r2]; rfl, r5, r6⟩

/-! ## Primary / fallback selection (`_formula_generator.py`) -/

@[simp] theorem isPvMeter_mk (root anc n) : S.isPvMeter (mk root anc n) = meterPred .pvMeter (posOf root anc) n :=
  (meter_tie root anc n).1
@[simp] theorem isBatteryMeter_mk (root anc n) :
    S.isBatteryMeter (mk root anc n) = meterPred .batteryMeter (posOf root anc) n := (meter_tie root anc n).2.1
@[simp] theorem isEvChargerMeter_mk (root anc n) :
    S.isEvChargerMeter (mk root anc n) = meterPred .evChargerMeter (posOf root anc) n := (meter_tie root anc n).2.2.1
@[simp] theorem isChpMeter_mk (root anc n) : S.isChpMeter (mk root anc n) = meterPred .chpMeter (posOf root anc) n :=
  (meter_tie root anc n).2.2.2
@[simp] theorem isPvChain_mk (root anc n) : S.isPvChain (mk root anc n) = chain .pv (posOf root anc) n := (chain_tie root anc n).1
@[simp] theorem isBatteryChain_mk (root anc n) : S.isBatteryChain (mk root anc n) = chain .battery (posOf root anc) n :=
  (chain_tie root anc n).2.1
@[simp] theorem isEvChargerChain_mk (root anc n) :
    S.isEvChargerChain (mk root anc n) = chain .evCharger (posOf root anc) n := (chain_tie root anc n).2.2.1
@[simp] theorem isChpChain_mk (root anc n) : S.isChpChain (mk root anc n) = chain .chp (posOf root anc) n :=
  (chain_tie root anc n).2.2.2

/-- `_is_primary_fallback_pair` -/
theorem pair_tie (root : Grid) (ancp anc : List Node) (p n : Node) :
    S.isPrimaryFallbackPair (mk root ancp p) (mk root anc n) = Graph.isPrimaryFallbackPair (posOf root ancp) p n := by
  simp only [Extracted.GraphLoops.isPrimaryFallbackPair, Graph.isPrimaryFallbackPair, primaryFallbackPairs,
    isPvInverter_mk, isBatteryInverter_mk, isEvCharger_mk, isChp_mk, isPvMeter_mk, isBatteryMeter_mk,
    isEvChargerMeter_mk, isChpMeter_mk, List.any_cons, List.any_nil, Bool.or_false]
  generalize leafTest .pvInverter n = a1; generalize leafTest .batteryInverter n = a2
  generalize leafTest .evCharger n = a3; generalize leafTest .chp n = a4
  generalize meterPred .pvMeter (posOf root ancp) p = b1; generalize meterPred .batteryMeter (posOf root ancp) p = b2
  generalize meterPred .evChargerMeter (posOf root ancp) p = b3; generalize meterPred .chpMeter (posOf root ancp) p = b4
  revert a1 a2 a3 a4 b1 b2 b3 b4
  decide

/-- the grid is nobody's primary -/
theorem pair_grid (root : Grid) (c : Comp) : S.isPrimaryFallbackPair root.comp c = false := by
  simp [Extracted.GraphLoops.isPrimaryFallbackPair, Extracted.GraphLoops.isPvMeter, Extracted.GraphLoops.isBatteryMeter,
    Extracted.GraphLoops.isEvChargerMeter, Extracted.GraphLoops.isChpMeter, Grid.comp, Comp.cat]

/-- `_get_meter_fallback_components` -/
theorem meterFallback_tie (root : Grid) (anc : List Node) (n : Node) :
    S.meterFallbackComponents (mk root anc n) = (meterFallback n).map (mk root (n :: anc)) := by
  cases n with
  | meter id cs =>
    have hs : (mk root anc (.meter id cs)).succs = cs.map (mk root (.meter id cs :: anc)) := rfl
    simp only [Extracted.GraphLoops.meterFallbackComponents, meterFallback, meterFallbackLeaves, hs, List.all_map,
      Function.comp_def, isPvInverter_mk, isBatteryInverter_mk, isEvCharger_mk, isChp_mk, Node.children,
      List.any_cons, List.any_nil, Bool.or_false]
    split <;> split <;> simp_all <;> grind
  | batInv id bs =>
    have hs : (mk root anc (.batInv id bs)).succs = bs.map (fun b => (⟨.bat b, .batInv id bs :: anc, root⟩ : Comp)) := rfl
    simp only [Extracted.GraphLoops.meterFallbackComponents, meterFallback, hs, Node.children]
    cases bs <;> simp [Extracted.GraphLoops.isBatteryInverter, Extracted.GraphLoops.isChp, Extracted.GraphLoops.isEvCharger,
      Extracted.GraphLoops.isPvInverter, Comp.cat] <;> exact ite_self _
  | pvInv id => simp [Extracted.GraphLoops.meterFallbackComponents, meterFallback, Comp.succs, Node.children]; exact ite_self _
  | ev id => simp [Extracted.GraphLoops.meterFallbackComponents, meterFallback, Comp.succs, Node.children]; exact ite_self _
  | chp id => simp [Extracted.GraphLoops.meterFallbackComponents, meterFallback, Comp.succs, Node.children]; exact ite_self _

/-- **one iteration of `_get_metric_fallback_components`**: a component of the primary category is entered with
its meter-fallback components; any other component (it has exactly one predecessor in a tree) is added to the entry
of its predecessor when the two form a primary/fallback pair and — `pairRequiresAllRequested` — all successors of the
predecessor were requested; otherwise it is its own primary without fallback. -/
theorem mfcStep_tie (comps : List Comp) (d : CDict) (root : Grid) (anc : List Node) (n : Node) :
    S.mfcStep comps d (mk root anc n) =
      if n.cat == fallbackPrimaryCat then CDict.set d (mk root anc n) (S.meterFallbackComponents (mk root anc n))
      else if S.isPrimaryFallbackPair (firstComp (mk root anc n).preds) (mk root anc n)
          && (!pairRequiresAllRequested || subsetIds (firstComp (mk root anc n).preds).succs comps)
        then CDict.addTo d (firstComp (mk root anc n).preds) (mk root anc n)
      else CDict.set d (mk root anc n) [] := by
  have hlen : (mk root anc n).preds.length = 1 := by cases anc <;> rfl
  simp only [Extracted.GraphLoops.mfcStep, mk_cat, fallbackPrimaryCat, pairRequiresAllRequested, hlen, subsetIds,
    beq_self_eq_true, Bool.true_and, Bool.not_true, Bool.false_or]
  split
  · rfl
  · split <;> split <;> simp_all

/-- what `_get_metric_fallback_components` enters for a component that is not paired with its predecessor -/
def ownEntry (x : Comp) : Comp × List Comp := (x, if x.cat == Cat.meter then S.meterFallbackComponents x else [])

theorem has_append (d : CDict) (k : Comp) (e : Comp × List Comp) :
    CDict.has (d ++ [e]) k = (CDict.has d k || e.1.id == k.id) := by
  simp [CDict.has, List.any_append]

/-- **`_get_metric_fallback_components`** on components with pairwise distinct ids none of which forms a
primary/fallback pair with its predecessor: one entry per component, in order (no merging, no overwriting). -/
theorem mfc_fold (comps : List Comp) :
    ∀ (l : List Comp) (d : CDict), (l.map Comp.id).Nodup → (∀ x ∈ l, CDict.has d x = false) →
    (∀ x ∈ l, x.cat ≠ Cat.meter → S.isPrimaryFallbackPair (firstComp x.preds) x = false) →
    l.foldl (S.mfcStep comps) d = d ++ l.map ownEntry := by
  intro l
  induction l with
  | nil => intro d _ _ _; simp
  | cons x l ih =>
    intro d hn hd hp
    simp only [List.map_cons, List.nodup_cons, List.mem_map, not_exists, not_and] at hn
    have hx : CDict.has d x = false := hd x (by simp)
    have hstep : S.mfcStep comps d x = d ++ [ownEntry x] := by
      by_cases hm : x.cat = Cat.meter
      · simp [Extracted.GraphLoops.mfcStep, ownEntry, hm, CDict.set, hx]
      · have := hp x (by simp) hm
        simp [Extracted.GraphLoops.mfcStep, ownEntry, hm, CDict.set, hx, this]
    rw [List.foldl_cons, hstep, ih (d ++ [ownEntry x]) hn.2
      (by
        intro y hy
        rw [has_append, hd y (by simp [hy])]
        simp only [ownEntry, Bool.false_or, beq_eq_false_iff_ne, ne_eq]
        intro h; exact hn.1 y hy h.symm)
      (fun y hy => hp y (by simp [hy]))]
    simp

theorem mfc_eq (l : List Comp) (hn : (l.map Comp.id).Nodup)
    (hp : ∀ x ∈ l, x.cat ≠ Cat.meter → S.isPrimaryFallbackPair (firstComp x.preds) x = false) :
    S.metricFallbackComponents l = l.map ownEntry := by
  simpa [Extracted.GraphLoops.metricFallbackComponents] using mfc_fold l l [] hn (by simp [CDict.has]) hp

/-! ## The generators -/

/-- `_get_grid_component`: the first component of category GRID is the root. -/
theorem grid_first (g : Grid) :
    firstComp (g.comps.filter (fun x => x.cat == Cat.grid)) = g.comp
    ∧ (g.comps.all (fun x => !(x.cat == Cat.grid))) = false := by
  simp [Grid.comps, Grid.comp, Comp.cat, firstComp, List.filter_cons]

theorem grid_succs (g : Grid) : g.comp.succs = g.succ.map (mk g []) := rfl

theorem top_preds (g : Grid) (n : Node) : firstComp (mk g [] n).preds = g.comp := rfl

/-- what the generators push for one entry of the fallback map -/
def entryTerm (neg : Bool) (e : Comp × List Comp) : Term :=
  ⟨neg, e.1.id, !(e.1.cat == Cat.meter),
    if e.2.isEmpty then [] else e.2.map (fun c => (c.id, !(c.cat == Cat.meter)))⟩

theorem entryTerm_own (neg : Bool) (root : Grid) (anc : List Node) (n : Node) (nz : Naz) (hnz : nz = .notCat .meter)
    (parent : Option (Node × Pos)) (hpar : ∀ p ppos, parent = some (p, ppos) → Graph.isPrimaryFallbackPair ppos p n = false) :
    entryTerm neg (ownEntry (mk root anc n)) = mkTerm neg nz simpleNaz (primaryOf ⟨n, posOf root anc, parent⟩) := by
  subst hnz
  by_cases hm : n.cat = Cat.meter
  · simp only [entryTerm, ownEntry, mk_cat, hm, beq_self_eq_true, if_true, meterFallback_tie, mkTerm, primaryOf,
      fallbackPrimaryCat, nazEval, simpleNaz, mk_id, List.map_map, Function.comp_def, List.isEmpty_map]
    split <;> simp_all [bne]
  · have hm' : (n.cat == Cat.meter) = false := by simpa using hm
    cases parent with
    | none => simp [entryTerm, ownEntry, hm', mkTerm, primaryOf, fallbackPrimaryCat, nazEval, bne]
    | some pp =>
      obtain ⟨p, ppos⟩ := pp
      simp [entryTerm, ownEntry, hm', mkTerm, primaryOf, fallbackPrimaryCat, nazEval, bne, hpar p ppos rfl]

theorem all3_filter (l : List Node) :
    (l.all (fun n => !(n.cat == Cat.evCharger)) && l.all (fun n => !(n.cat == Cat.inverter))
      && l.all (fun n => !(n.cat == Cat.meter))) = (l.filter (fun n => gridSuccessorCats.contains n.cat)).isEmpty := by
  induction l with
  | nil => rfl
  | cons n ns ih =>
    simp only [List.all_cons, List.filter_cons]
    cases h : n.cat <;> simp_all [gridSuccessorCats] <;> grind

/-- **`GridPowerFormula.generate()`** (with fallbacks, as the model has it) is the model's `gridFormula`, on every
graph whose grid successors have pairwise distinct ids. -/
theorem grid_tie (g : Grid) (hn : (g.succ.map Node.id).Nodup) : S.gridFormula g true = Graph.gridFormula g := by
  obtain ⟨hf, ha⟩ := grid_first g
  have hfil : ∀ (q : Comp → Bool), (g.succ.map (mk g [])).filter q = (g.succ.filter (fun n => q (mk g [] n))).map (mk g []) := by
    intro q; rw [List.filter_map]; rfl
  simp only [Extracted.GraphLoops.gridFormula, Graph.gridFormula, hf, ha, grid_succs, List.isEmpty_map, Bool.or_false,
    List.all_map, Function.comp_def, mk_cat, hfil, if_true]
  by_cases he : g.succ.isEmpty = true
  · simp [he]
  · have he' : g.succ.isEmpty = false := by simpa using he
    simp only [he', Bool.false_or, Bool.false_eq_true, if_false]
    have hcats : ∀ n : Node, ((n.cat == Cat.evCharger) || (n.cat == Cat.inverter) || (n.cat == Cat.meter))
        = gridSuccessorCats.contains n.cat := by
      intro n; cases n.cat <;> decide
    simp only [hcats]
    have hempty := all3_filter g.succ
    rw [hempty]
    by_cases hc : (g.succ.filter (fun n => gridSuccessorCats.contains n.cat)).isEmpty = true
    · rw [if_pos hc, if_pos hc]
    · rw [if_neg hc, if_neg hc]
      have hsub : ((g.succ.filter (fun n => gridSuccessorCats.contains n.cat)).map Node.id).Nodup :=
        List.Nodup.sublist ((List.filter_sublist).map _) hn
      rw [mfc_eq _ (by simpa [List.map_map, Function.comp_def] using hsub)
        (by
          intro x hx _
          obtain ⟨n, _, rfl⟩ := List.mem_map.mp hx
          rw [top_preds]; exact pair_grid g _)]
      congr 1
      rw [List.map_map, List.map_map]
      apply List.map_congr_left
      intro n _
      exact entryTerm_own false g [] n gridNaz rfl none (by intro p ppos h; cases h)

theorem isMeter_of_cat (n : Node) (h : n.cat ≠ Cat.meter) : n.isMeter = false := by
  cases n <;> simp_all [Node.cat, Node.isMeter]

theorem parentOf_cons (g : Grid) (p : Node) (rest : List Node) :
    parentOf g (p :: rest) = some (p, posOf g rest) := rfl

theorem parentOf_nil (g : Grid) : parentOf g [] = none := rfl

/-- **the terms pushed for the components found by `dfs`**: `_get_metric_fallback_components` +
`_get_fallback_formulas` + the push loop, against the model's `mkTerm … (primaryOf f)`.  `hpair` is the property of
the search condition that a device it accepts below a node it rejects is not paired with that node (`CondSpec.pair`). -/
theorem found_terms (g : Grid) (condM : Pos → Node → Bool) (neg : Bool) (nz : Naz) (hnz : nz = .notCat .meter)
    (hpair : ∀ ppos p pos c, condM ppos p = false → condM pos c = true → c.isMeter = false →
      Graph.isPrimaryFallbackPair ppos p c = false)
    (l : List Comp) (hN : (l.map Comp.id).Nodup) (hL : ∀ x ∈ l, FoundAt g condM x) :
    (S.metricFallbackComponents l).map (entryTerm neg)
      = (l.map Comp.found).map (fun f => mkTerm neg nz simpleNaz (primaryOf f)) := by
  have hp : ∀ x ∈ l, x.cat ≠ Cat.meter → S.isPrimaryFallbackPair (firstComp x.preds) x = false := by
    intro x hx hm
    obtain ⟨anc, n, rfl, hcn, hpar⟩ := hL x hx
    cases anc with
    | nil => exact pair_grid g _
    | cons p rest =>
      have : firstComp (mk g (p :: rest) n).preds = mk g rest p := rfl
      rw [this, pair_tie]
      exact hpair _ p _ n (hpar p rest rfl) hcn (isMeter_of_cat n (by simpa using hm))
  rw [mfc_eq l hN hp, List.map_map, List.map_map]
  apply List.map_congr_left
  intro x hx
  obtain ⟨anc, n, rfl, hcn, hpar⟩ := hL x hx
  simp only [Function.comp_def, found_mk]
  refine entryTerm_own neg g anc n nz hnz (parentOf g anc) ?_
  intro p ppos h
  cases anc with
  | nil => rw [parentOf_nil] at h; cases h
  | cons q rest =>
    rw [parentOf_cons] at h
    cases h
    by_cases hm : n.cat = Cat.meter
    · cases n <;> simp_all [Node.cat, Graph.isPrimaryFallbackPair, primaryFallbackPairs, leafTest, Leaf.test,
        pvInverterTest, batteryInverterTest, evChargerTest, chpTest, Node.ityp]
    · exact hpair _ p _ n (hpar p rest rfl) hcn (isMeter_of_cat n hm)

/-- the side conditions on the ids of a graph under which the ties of the generators hold: grid, meters and devices
pairwise distinct, and no battery id equal to one of them (batteries MAY be shared between inverters) -/
def DistinctIds (g : Grid) : Prop :=
  (g.id :: nodeIdsL g.succ).Nodup ∧ ∀ b ∈ allBatsL g.succ, b ∉ g.id :: nodeIdsL g.succ

/-- every `is_*` of the translation rejects batteries and the grid (they have no dedicated-meter shape) -/
theorem chains_bat (b : Nat) (anc : List Node) (root : Grid) :
    S.isPvChain ⟨.bat b, anc, root⟩ = false ∧ S.isBatteryChain ⟨.bat b, anc, root⟩ = false
    ∧ S.isEvChargerChain ⟨.bat b, anc, root⟩ = false ∧ S.isChpChain ⟨.bat b, anc, root⟩ = false := by
  simp [Extracted.GraphLoops.isPvChain, Extracted.GraphLoops.isBatteryChain, Extracted.GraphLoops.isEvChargerChain,
    Extracted.GraphLoops.isChpChain, Extracted.GraphLoops.isPvInverter, Extracted.GraphLoops.isBatteryInverter,
    Extracted.GraphLoops.isEvCharger, Extracted.GraphLoops.isChp, Extracted.GraphLoops.isPvMeter,
    Extracted.GraphLoops.isBatteryMeter, Extracted.GraphLoops.isEvChargerMeter, Extracted.GraphLoops.isChpMeter, Comp.cat]

theorem chains_grid (g : Grid) :
    S.isPvChain g.comp = false ∧ S.isBatteryChain g.comp = false
    ∧ S.isEvChargerChain g.comp = false ∧ S.isChpChain g.comp = false := by
  simp [Extracted.GraphLoops.isPvChain, Extracted.GraphLoops.isBatteryChain, Extracted.GraphLoops.isEvChargerChain,
    Extracted.GraphLoops.isChpChain, Extracted.GraphLoops.isPvInverter, Extracted.GraphLoops.isBatteryInverter,
    Extracted.GraphLoops.isEvCharger, Extracted.GraphLoops.isChp, Extracted.GraphLoops.isPvMeter,
    Extracted.GraphLoops.isBatteryMeter, Extracted.GraphLoops.isEvChargerMeter, Extracted.GraphLoops.isChpMeter, Comp.cat,
    Grid.comp]

/-- equality of generated formulas up to the order of the terms (Python iterates over sets) -/
def FormulaEquiv : Formula → Formula → Prop
  | .ok a, .ok b => a.Perm b
  | .error e, .error e' => e = e'
  | _, _ => False

theorem FormulaEquiv.of_eq {a b : Formula} (h : a = b) : FormulaEquiv a b := by
  subst h; cases a <;> simp [FormulaEquiv]

theorem isEmpty_of_perm {α : Type} {a b : List α} (h : a.Perm b) : a.isEmpty = b.isEmpty := by
  have := h.length_eq
  cases a <;> cases b <;> simp_all

/-- what the generators need to know about the translated `dfs`: from the grid, and from every grid successor with
the results joined, it finds the components of the model's search (as a set: in some order, without duplicates),
each a node that satisfies the condition below a node that does not. -/
structure DfsFacts : Prop where
  fromGrid : ∀ (g : Grid) (condS : Comp → Bool) (condM : Pos → Node → Bool),
    (∀ anc n, condS (mk g anc n) = condM (posOf g anc) n) → (∀ b anc, condS ⟨.bat b, anc, g⟩ = false) →
    condS g.comp = false → DistinctIds g →
    ((S.dfs g.fuel g.comp [] condS).2.map Comp.found).Perm (dfsFromGrid condM g)
      ∧ ((S.dfs g.fuel g.comp [] condS).2.map Comp.id).Nodup
      ∧ (∀ x ∈ (S.dfs g.fuel g.comp [] condS).2, FoundAt g condM x)
  fromTop : ∀ (g : Grid) (condS : Comp → Bool) (condM : Pos → Node → Bool),
    (∀ anc n, condS (mk g anc n) = condM (posOf g anc) n) → (∀ b anc, condS ⟨.bat b, anc, g⟩ = false) →
    DistinctIds g →
    (((g.succ.map (mk g [])).flatMap (fun x => (S.dfs g.fuel x [] condS).2)).map Comp.found).Perm (dfsFromGrid condM g)
      ∧ (((g.succ.map (mk g [])).flatMap (fun x => (S.dfs g.fuel x [] condS).2)).map Comp.id).Nodup
      ∧ (∀ x ∈ (g.succ.map (mk g [])).flatMap (fun x => (S.dfs g.fuel x [] condS).2), FoundAt g condM x)

/-- **`ProducerPowerFormula.generate()`** is the model's `producerFormula`. -/
theorem producer_tie (F : DfsFacts) (g : Grid) (hd : DistinctIds g) :
    FormulaEquiv (S.producerFormula g true) (Graph.producerFormula g) := by
  obtain ⟨hf, ha⟩ := grid_first g
  have hc : ∀ anc n, (fun x => S.isChpChain x || S.isPvChain x) (mk g anc n) = producerCond (posOf g anc) n := by
    intro anc n
    simp only [isChpChain_mk, isPvChain_mk, producerCond, anyChain, producerChains, List.any_cons, List.any_nil,
      Bool.or_false]
    cases chain Chain.chp (posOf g anc) n <;> cases chain Chain.pv (posOf g anc) n <;> rfl
  obtain ⟨d1, d2, d3⟩ := F.fromGrid g (fun x => S.isChpChain x || S.isPvChain x) producerCond hc
    (by intro b anc; simp [chains_bat]) (by simp [chains_grid]) hd
  have hterms := found_terms g producerCond false producerNaz rfl
    (fun ppos p pos c => (condSpec_anyChain producerChains).pair ppos p pos c) _ d2 d3
  simp only [Extracted.GraphLoops.producerFormula, Graph.producerFormula, hf, ha, Bool.false_eq_true, if_false, if_true]
  rw [← isEmpty_of_perm d1, List.isEmpty_map]
  split
  · simp [nonExisting, producerNoneNaz, nazEval, FormulaEquiv]
  · simp only [FormulaEquiv]
    exact (List.Perm.of_eq hterms).trans (d1.map _)

/-- `dfs(grid_meter, set(), condition)` from every grid successor, the results joined (consumer formula with grid
meters): the model's search from the grid. -/
theorem flat_top (hrec : IsRec) (g : Grid) (condS : Comp → Bool) (condM : Pos → Node → Bool)
    (hc : ∀ anc n, condS (mk g anc n) = condM (posOf g anc) n) (hb : ∀ b anc, condS ⟨.bat b, anc, g⟩ = false)
    (fuel : Nat) :
    ∀ ns : List Node, szL ns ≤ fuel → (nodeIdsL ns).Nodup → (∀ b ∈ allBatsL ns, b ∉ nodeIdsL ns) →
      ((ns.map (mk g [])).flatMap (fun x => (S.dfs fuel x [] condS).2)).map Comp.found = dfsL condM (topPos g) none ns
      ∧ (((ns.map (mk g [])).flatMap (fun x => (S.dfs fuel x [] condS).2)).map Comp.id).Nodup
      ∧ (∀ x ∈ (ns.map (mk g [])).flatMap (fun x => (S.dfs fuel x [] condS).2), FoundAt g condM x ∧ x.id ∈ nodeIdsL ns) := by
  intro ns
  induction ns with
  | nil => intro _ _ _; simp [dfsL]
  | cons n ns ih =>
    intro hf hn hbn
    simp only [nodeIdsL, List.nodup_append] at hn
    simp only [szL] at hf
    obtain ⟨a1, -, a3, a4, a5⟩ := ref_node g condS condM hc hb n [] fuel [] (by omega) (by simp) hn.1
      (fun b hb' h => hbn b (by simp [allBatsL, hb']) (by simp [nodeIdsL, h])) (by intro p rest h; cases h)
    obtain ⟨i1, i2, i3⟩ := ih (by omega) hn.2.1 (fun b hb' h => hbn b (by simp [allBatsL, hb']) (by simp [nodeIdsL, h]))
    simp only [List.map_cons, List.flatMap_cons, List.map_append, hrec _ _ _ _] at i1 i2 i3 ⊢
    refine ⟨?_, ?_, ?_⟩
    · rw [a1, i1]; rfl
    · rw [List.nodup_append]
      refine ⟨a4, i2, ?_⟩
      intro i hi j hj hij
      obtain ⟨x, hx, rfl⟩ := List.mem_map.mp hi
      obtain ⟨y, hy, rfl⟩ := List.mem_map.mp hj
      exact hn.2.2 _ (a3 x hx) _ (i3 y hy).2 hij
    · intro x hx
      rcases List.mem_append.mp hx with h | h
      · exact ⟨a5 x h, by simp [nodeIdsL, a3 x h]⟩
      · exact ⟨(i3 x h).1, by simp [nodeIdsL, (i3 x h).2]⟩

/-- a device is never a consumer component: inverters of the model are battery or PV inverters -/
theorem consumerCond_device (pos : Pos) (c : Node) (h : consumerCond pos c = true) (hm : c.isMeter = false) : False := by
  cases c <;>
    simp_all [consumerCond, consumerCats, consumerNotChains, anyChain, chain, Chain.parts, leafTest, Leaf.test,
      pvInverterTest, batteryInverterTest, evChargerTest, chpTest, Node.cat, Node.ityp, Node.isMeter]

/-- **`ConsumerPowerFormula.generate()`** (both branches) is the model's `consumerFormula`. -/
theorem consumer_tie (F : DfsFacts) (g : Grid) (hd : DistinctIds g) :
    FormulaEquiv (S.consumerFormula g true) (Graph.consumerFormula g) := by
  obtain ⟨hf, ha⟩ := grid_first g
  have hd' := hd
  obtain ⟨hN, hB⟩ := hd
  rw [List.nodup_cons] at hN
  -- the two conditions handed to dfs
  have hcN : ∀ anc n, (fun x => S.isBatteryChain x || S.isChpChain x || S.isEvChargerChain x || S.isPvChain x) (mk g anc n)
      = nonConsumerCond (posOf g anc) n := by
    intro anc n
    simp only [isChpChain_mk, isPvChain_mk, isBatteryChain_mk, isEvChargerChain_mk, nonConsumerCond, anyChain,
      nonConsumerChains, List.any_cons, List.any_nil, Bool.or_false]
    cases chain Chain.chp (posOf g anc) n <;> cases chain Chain.pv (posOf g anc) n <;>
      cases chain Chain.battery (posOf g anc) n <;> cases chain Chain.evCharger (posOf g anc) n <;> rfl
  have hcC : ∀ anc n,
      (fun x : Comp => ((x.cat == Cat.inverter) && (!(S.isBatteryChain x)) && (!(S.isChpChain x)) && (!(S.isEvChargerChain x))
          && (!(S.isPvChain x))) || ((x.cat == Cat.meter) && (!(S.isBatteryChain x)) && (!(S.isChpChain x))
          && (!(S.isEvChargerChain x)) && (!(S.isPvChain x)))) (mk g anc n) = consumerCond (posOf g anc) n := by
    intro anc n
    simp only [isChpChain_mk, isPvChain_mk, isBatteryChain_mk, isEvChargerChain_mk, mk_cat, consumerCond, anyChain,
      consumerNotChains, consumerCats, List.any_cons, List.any_nil, Bool.or_false]
    cases n.cat <;> cases chain Chain.chp (posOf g anc) n <;> cases chain Chain.pv (posOf g anc) n <;>
      cases chain Chain.battery (posOf g anc) n <;> cases chain Chain.evCharger (posOf g anc) n <;> decide
  have hgm : (((g.succ.map (mk g [])).all (fun x => x.cat == Cat.meter))
      && ((g.succ.map (mk g [])).all (fun x => !(S.isBatteryChain x))) && ((g.succ.map (mk g [])).all (fun x => !(S.isChpChain x)))
      && ((g.succ.map (mk g [])).all (fun x => !(S.isEvChargerChain x))) && ((g.succ.map (mk g [])).all (fun x => !(S.isPvChain x))))
      = areGridMeters g := by
    simp only [List.all_map, Function.comp_def, isChpChain_mk, isPvChain_mk, isBatteryChain_mk, isEvChargerChain_mk, mk_cat,
      areGridMeters, areGridMetersCat, areGridMetersNotChains, anyChain, List.any_cons, List.any_nil, Bool.or_false]
    have : posOf g [] = topPos g := rfl
    rw [this]
    induction g.succ with
    | nil => rfl
    | cons n ns ih =>
      simp only [List.all_cons, ← ih]
      cases n.cat == Cat.meter <;> cases chain Chain.chp (topPos g) n <;> cases chain Chain.pv (topPos g) n <;>
        cases chain Chain.battery (topPos g) n <;> cases chain Chain.evCharger (topPos g) n <;> simp
  simp only [Extracted.GraphLoops.consumerFormula, Graph.consumerFormula, hf, ha, grid_succs, List.isEmpty_map,
    Bool.or_false, hgm, Bool.false_eq_true, if_false, if_true]
  split
  · simp [FormulaEquiv]
  · split
    · -- with grid meters
      obtain ⟨f1, f2, f3⟩ := F.fromTop g
        (fun x => S.isBatteryChain x || S.isChpChain x || S.isEvChargerChain x || S.isPvChain x) nonConsumerCond hcN
        (by intro b anc; simp [chains_bat]) hd'
      have hterms := found_terms g nonConsumerCond true consumerWithNaz rfl
        (fun ppos p pos c => (condSpec_anyChain nonConsumerChains).pair ppos p pos c) _ f2 f3
      simp only [FormulaEquiv]
      refine List.Perm.append ?_ ((List.Perm.of_eq hterms).trans (f1.map _))
      rw [List.map_map]
      refine List.Perm.of_eq (List.map_congr_left ?_)
      intro n _
      simp [consumerGridMeterNaz, nazEval]
    · -- without grid meter
      obtain ⟨d1, d2, d3⟩ := F.fromGrid g
        (fun x : Comp => ((x.cat == Cat.inverter) && (!(S.isBatteryChain x)) && (!(S.isChpChain x)) && (!(S.isEvChargerChain x))
          && (!(S.isPvChain x))) || ((x.cat == Cat.meter) && (!(S.isBatteryChain x)) && (!(S.isChpChain x))
          && (!(S.isEvChargerChain x)) && (!(S.isPvChain x)))) consumerCond hcC
        (by intro b anc; simp [chains_bat, Comp.cat]) (by simp [chains_grid, Grid.comp, Comp.cat]) hd'
      have hterms := found_terms g consumerCond false consumerWithoutNaz rfl
        (fun ppos p pos c _ hcn hm => (consumerCond_device pos c hcn hm).elim) _ d2 d3
      rw [← isEmpty_of_perm d1, List.isEmpty_map]
      split
      · simp [nonExisting, consumerNoneNaz, nazEval, FormulaEquiv]
      · simp only [FormulaEquiv]
        exact (List.Perm.of_eq hterms).trans (d1.map _)

/-- the facts about `dfs` when the source is the recursive function -/
theorem facts_of_rec (hrec : IsRec) : DfsFacts where
  fromGrid g condS condM hc hb hg hd := by
    obtain ⟨a, b, c⟩ := dfs_from_grid hrec g condS condM hc hb hg hd.1 hd.2
    exact ⟨List.Perm.of_eq a, b, c⟩
  fromTop g condS condM hc hb hd := by
    obtain ⟨hN, hB⟩ := hd
    rw [List.nodup_cons] at hN
    obtain ⟨f1, f2, f3⟩ := flat_top hrec g condS condM hc hb g.fuel g.succ
      (by have := szL_le g.succ; simp only [Grid.fuel]; omega) hN.2 (fun b hb' h => hB b hb' (by simp [h]))
    exact ⟨List.Perm.of_eq f1, f2, fun x hx => (f3 x hx).1⟩

/-! ## An iterative `dfs` (explicit stack)

`refWork` is the worklist loop written down once by hand (the translation of a `while pending:` loop equals it by
unfolding).  It pops the LAST pushed component first, so it meets the successors of a node in reverse order; the set of
components found is the same: `work_spec` proves, for a stack of components with pairwise disjoint subtrees, that the
components found are a permutation of what the model's `dfs` finds below the stack's components. -/

def refWork (cond : Comp → Bool) : Nat → List Comp → List Comp → List Comp → List Comp × List Comp × List Comp
  | 0, vis, m, p => (vis, m, p)
  | fuel + 1, vis, m, p =>
    if !p.isEmpty then
      if memIds (lastComp p) vis then refWork cond fuel vis m p.dropLast
      else if cond (lastComp p) then refWork cond fuel (unionIds vis [lastComp p]) (unionIds m [lastComp p]) p.dropLast
      else refWork cond fuel (unionIds vis [lastComp p]) m (p.dropLast ++ (lastComp p).succs)
    else (vis, m, p)

/-- the same loop on a stack whose top is the head of the list -/
def workR (cond : Comp → Bool) : Nat → List Comp → List Comp → List Comp → List Comp × List Comp
  | 0, vis, m, _ => (vis, m)
  | _ + 1, vis, m, [] => (vis, m)
  | fuel + 1, vis, m, x :: s =>
    if memIds x vis then workR cond fuel vis m s
    else if cond x then workR cond fuel (unionIds vis [x]) (unionIds m [x]) s
    else workR cond fuel (unionIds vis [x]) m (x.succs.reverse ++ s)

theorem work_rev (cond : Comp → Bool) : ∀ (fuel : Nat) (vis m s : List Comp),
    ((refWork cond fuel vis m s.reverse).1, (refWork cond fuel vis m s.reverse).2.1) = workR cond fuel vis m s := by
  intro fuel
  induction fuel with
  | zero => intro vis m s; simp [refWork, workR]
  | succ fuel ih =>
    intro vis m s
    cases s with
    | nil => simp [refWork, workR]
    | cons x s =>
      have hl : lastComp (s.reverse ++ [x]) = x := by simp [lastComp]
      have hd : (s.reverse ++ [x]).dropLast = s.reverse := by simp
      have he : (!(s.reverse ++ [x]).isEmpty) = true := by simp
      simp only [List.reverse_cons, refWork, workR, hl, hd, he, if_true]
      by_cases h1 : memIds x vis = true
      · simp only [h1, if_true]; exact ih vis m s
      · simp only [h1, Bool.false_eq_true, if_false]
        by_cases h2 : cond x = true
        · simp only [h2, if_true]; exact ih _ _ s
        · simp only [h2, Bool.false_eq_true, if_false]
          have : s.reverse ++ x.succs = (x.succs.reverse ++ s).reverse := by simp
          rw [this]; exact ih _ _ _

mutual
/-- number of pops the subtree causes -/
def szW : Node → Nat
  | .meter _ cs => szWL cs + 1
  | .batInv _ bs => bs.length + 1
  | .pvInv _ => 1
  | .ev _ => 1
  | .chp _ => 1
def szWL : List Node → Nat
  | [] => 0
  | n :: ns => szW n + szWL ns
end

mutual
theorem szW_le : (n : Node) → szW n ≤ n.allIds.length
  | .meter _ cs => by have := szWL_le cs; simp [szW, Node.allIds]; omega
  | .batInv _ _ => by simp [szW, Node.allIds]
  | .pvInv _ => by simp [szW, Node.allIds]
  | .ev _ => by simp [szW, Node.allIds]
  | .chp _ => by simp [szW, Node.allIds]
theorem szWL_le : (ns : List Node) → szWL ns ≤ (allIdsL ns).length
  | [] => by simp [szWL, allIdsL]
  | n :: ns => by have := szW_le n; have := szWL_le ns; simp [szWL, allIdsL]; omega
end

theorem szW_pos (n : Node) : 1 ≤ szW n := by cases n <;> simp [szW]

/-- what is on the stack: a node at its place, or a battery -/
inductive Item where
  | node (anc : List Node) (n : Node)
  | bat (b : Nat) (anc : List Node)

namespace Item
def comp (root : Grid) : Item → Comp
  | node anc n => mk root anc n
  | bat b anc => ⟨.bat b, anc, root⟩
def ids : Item → List Nat
  | node _ n => nodeIds n
  | bat _ _ => []
def bats : Item → List Nat
  | node _ n => n.allBats
  | bat b _ => [b]
def size : Item → Nat
  | node _ n => szW n
  | bat _ _ => 1
def mres (root : Grid) (condM : Pos → Node → Bool) : Item → List Found
  | node anc n => Graph.dfs condM (posOf root anc) (parentOf root anc) n
  | bat _ _ => []
def parOk (root : Grid) (condM : Pos → Node → Bool) : Item → Prop
  | node anc _ => ∀ p rest, anc = p :: rest → condM (posOf root rest) p = false
  | bat _ _ => True
end Item

theorem dfs_of_true (condM : Pos → Node → Bool) (pos : Pos) (parent : Option (Node × Pos)) (n : Node)
    (h : condM pos n = true) : Graph.dfs condM pos parent n = [⟨n, pos, parent⟩] := by
  cases n <;> simp [Graph.dfs, h]

theorem dfsL_flatMap (condM : Pos → Node → Bool) (pos : Pos) (parent : Option (Node × Pos)) :
    ∀ ns : List Node, dfsL condM pos parent ns = ns.flatMap (Graph.dfs condM pos parent) := by
  intro ns; induction ns with
  | nil => simp [dfsL]
  | cons n ns ih => simp [dfsL, ih]

theorem nodeIdsL_flatMap : ∀ ns : List Node, nodeIdsL ns = ns.flatMap nodeIds := by
  intro ns; induction ns with
  | nil => simp [nodeIdsL]
  | cons n ns ih => simp [nodeIdsL, ih]

theorem allBatsL_flatMap : ∀ ns : List Node, allBatsL ns = ns.flatMap Node.allBats := by
  intro ns; induction ns with
  | nil => simp [allBatsL]
  | cons n ns ih => simp [allBatsL, ih]

theorem sum_map_reverse {α : Type} (f : α → Nat) : ∀ l : List α, (l.reverse.map f).sum = (l.map f).sum := by
  intro l; induction l with
  | nil => rfl
  | cons a l ih => simp [List.sum_append, ih, Nat.add_comm]

theorem szWL_sum : ∀ ns : List Node, szWL ns = (ns.map szW).sum := by
  intro ns; induction ns with
  | nil => simp [szWL]
  | cons n ns ih => simp [szWL, ih]

section work
variable (root : Grid) (condS : Comp → Bool) (condM : Pos → Node → Bool)
variable (hc : ∀ anc n, condS (mk root anc n) = condM (posOf root anc) n)
variable (hb : ∀ b anc, condS ⟨.bat b, anc, root⟩ = false)

include hc hb in
/-- the worklist on a stack of components with pairwise disjoint subtrees -/
theorem work_spec : ∀ (fuel : Nat) (items : List Item) (vis m : List Comp),
    (items.map Item.size).sum ≤ fuel → (items.flatMap Item.ids).Nodup →
    (∀ x ∈ vis, x.id ∉ items.flatMap Item.ids) → (∀ b ∈ items.flatMap Item.bats, b ∉ items.flatMap Item.ids) →
    (∀ x ∈ m, x.id ∉ items.flatMap Item.ids) → (∀ it ∈ items, it.parOk root condM) →
    ∃ R, (workR condS fuel vis m (items.map (Item.comp root))).2 = m ++ R
      ∧ (R.map Comp.found).Perm (items.flatMap (Item.mres root condM))
      ∧ (R.map Comp.id).Nodup
      ∧ (∀ x ∈ R, FoundAt root condM x ∧ x.id ∈ items.flatMap Item.ids) := by
  intro fuel
  induction fuel with
  | zero =>
    intro items vis m hf _ _ _ _ _
    cases items with
    | nil => exact ⟨[], by simp [workR], by simp, by simp, by simp⟩
    | cons it rest =>
      exfalso
      simp only [List.map_cons, List.sum_cons] at hf
      have : 1 ≤ it.size := by cases it <;> simp [Item.size, szW_pos]
      omega
  | succ fuel ih =>
    intro items vis m hf hn hv hbt hm hp
    cases items with
    | nil => exact ⟨[], by simp [workR], by simp, by simp, by simp⟩
    | cons it rest =>
      simp only [List.map_cons, List.sum_cons, List.flatMap_cons] at hf hn hv hbt hm
      cases it with
      | bat b anc =>
        -- a battery: never a match, no successors
        simp only [Item.ids, Item.bats, Item.size, List.nil_append, List.singleton_append] at hf hn hv hbt hm
        have hsucc : (⟨.bat b, anc, root⟩ : Comp).succs = [] := rfl
        have key : ∀ vis', (∀ x ∈ vis', x.id ∉ rest.flatMap Item.ids) →
            ∃ R, (workR condS fuel vis' m (rest.map (Item.comp root))).2 = m ++ R
              ∧ (R.map Comp.found).Perm (rest.flatMap (Item.mres root condM)) ∧ (R.map Comp.id).Nodup
              ∧ (∀ x ∈ R, FoundAt root condM x ∧ x.id ∈ rest.flatMap Item.ids) :=
          fun vis' hv' => ih rest vis' m (by omega) hn hv' (fun b' hb' => hbt b' (by simp [hb'])) hm
            (fun it hit => hp it (by simp [hit]))
        simp only [List.map_cons, Item.comp, workR, hb, Bool.false_eq_true, if_false, hsucc, List.reverse_nil,
          List.nil_append, List.flatMap_cons, Item.mres, Item.ids]
        split
        · exact key vis hv
        · refine key _ ?_
          intro x hx
          rcases mem_unionIds hx with h | h
          · exact hv x h
          · simp at h; subst h; exact hbt b (by simp)
      | node anc n =>
        simp only [Item.ids, Item.bats, Item.size] at hf hn hv hbt hm
        rw [List.nodup_append] at hn
        obtain ⟨hn1, hn2, hdisj⟩ := hn
        have hpar := hp (.node anc n) (by simp)
        have hmem : memIds (mk root anc n) vis = false :=
          memIds_false _ _ (fun x hx h => hv x hx (by
            have : n.id ∈ nodeIds n := by cases n <;> simp [nodeIds, Node.id]
            simp [h, this]))
        have hidn : n.id ∈ nodeIds n := by cases n <;> simp [nodeIds, Node.id]
        by_cases hcond : condM (posOf root anc) n = true
        · -- a match: recorded, not descended
          have hcs : condS (mk root anc n) = true := by rw [hc]; exact hcond
          have hu : unionIds m [mk root anc n] = m ++ [mk root anc n] :=
            unionIds_disjoint _ _ (by
              intro x hx y hy h; simp at hx; subst hx
              exact hm y hy (by simp [h, hidn]))
          obtain ⟨R, r1, r2, r3, r4⟩ := ih rest (unionIds vis [mk root anc n]) (m ++ [mk root anc n]) (by have := szW_pos n; omega) hn2
            (by
              intro x hx hmem'
              rcases mem_unionIds hx with h | h
              · exact hv x h (by simp [hmem'])
              · simp at h; subst h; exact hdisj _ hidn _ hmem' rfl)
            (fun b' hb' h => hbt b' (by simp [hb']) (by simp [h]))
            (by
              intro x hx hmem'
              rcases List.mem_append.mp hx with h | h
              · exact hm x h (by simp [hmem'])
              · simp at h; subst h; exact hdisj _ hidn _ hmem' rfl)
            (fun it hit => hp it (by simp [hit]))
          refine ⟨mk root anc n :: R, ?_, ?_, ?_, ?_⟩
          · simp only [List.map_cons, Item.comp, workR, hmem, Bool.false_eq_true, if_false, hcs, if_true, hu, r1]
            simp
          · simp only [List.map_cons, List.flatMap_cons, Item.mres, dfs_of_true condM _ _ n hcond, found_mk,
              List.singleton_append]
            exact r2.cons _
          · simp only [List.map_cons, List.nodup_cons, mk_id]
            refine ⟨?_, r3⟩
            intro hin
            obtain ⟨y, hy, hyid⟩ := List.mem_map.mp hin
            exact hdisj _ hidn _ (r4 y hy).2 hyid.symm
          · intro x hx
            rcases List.mem_cons.mp hx with h | h
            · subst h; exact ⟨⟨anc, n, rfl, hcond, hpar⟩, by simp [List.flatMap_cons, Item.ids, hidn]⟩
            · exact ⟨(r4 x h).1, by simp only [List.flatMap_cons, List.mem_append]; exact Or.inr (r4 x h).2⟩
        · -- no match: the successors go on the stack
          have hcond' : condM (posOf root anc) n = false := by simpa using hcond
          have hcs : condS (mk root anc n) = false := by rw [hc]; exact hcond'
          have hvis' : ∀ x ∈ unionIds vis [mk root anc n], x ∈ vis ∨ x.id = n.id := by
            intro x hx
            rcases mem_unionIds hx with h | h
            · exact Or.inl h
            · simp at h; subst h; exact Or.inr rfl
          cases n with
          | meter id cs =>
            have hsucc : (mk root anc (.meter id cs)).succs = cs.map (mk root (.meter id cs :: anc)) := rfl
            simp only [nodeIds, List.nodup_cons] at hn1
            have hrevids : ((cs.reverse.map (Item.node (.meter id cs :: anc))).flatMap Item.ids).Perm (nodeIdsL cs) := by
              rw [nodeIdsL_flatMap, List.flatMap_map]
              exact (List.reverse_perm cs).flatMap_right _
            have hrevbats : ((cs.reverse.map (Item.node (.meter id cs :: anc))).flatMap Item.bats).Perm (allBatsL cs) := by
              rw [allBatsL_flatMap, List.flatMap_map]
              exact (List.reverse_perm cs).flatMap_right _
            obtain ⟨R, r1, r2, r3, r4⟩ := ih (cs.reverse.map (Item.node (.meter id cs :: anc)) ++ rest)
              (unionIds vis [mk root anc (.meter id cs)]) m
              (by
                simp only [List.map_append, List.map_map, List.sum_append, Function.comp_def, Item.size]
                have : (cs.reverse.map (fun x => szW x)).sum = szWL cs := by
                  rw [szWL_sum]; exact sum_map_reverse szW cs
                simp only [szW] at hf
                omega)
              (by
                rw [List.flatMap_append, List.nodup_append]
                refine ⟨hrevids.nodup_iff.mpr hn1.2, hn2, ?_⟩
                intro a ha b' hb'
                exact hdisj a (by simp [nodeIds, hrevids.mem_iff.mp ha]) b' hb')
              (by
                intro x hx hmem'
                rw [List.flatMap_append, List.mem_append] at hmem'
                rcases hvis' x hx with h | h
                · rcases hmem' with h' | h'
                  · exact hv x h (by simp [nodeIds, hrevids.mem_iff.mp h'])
                  · exact hv x h (by simp [h'])
                · rcases hmem' with h' | h'
                  · rw [h] at h'; exact hn1.1 (hrevids.mem_iff.mp h')
                  · rw [h] at h'; exact hdisj _ (by simp [nodeIds, Node.id]) _ h' rfl)
              (by
                intro b' hb' hmem'
                rw [List.flatMap_append, List.mem_append] at hb' hmem'
                have hb'' : b' ∈ (Node.meter id cs).allBats ++ rest.flatMap Item.bats := by
                  rcases hb' with h | h
                  · simp [Node.allBats, hrevbats.mem_iff.mp h]
                  · simp [h]
                refine hbt b' hb'' ?_
                rcases hmem' with h | h
                · simp [nodeIds, hrevids.mem_iff.mp h]
                · simp [h])
              (by
                intro x hx hmem'
                rw [List.flatMap_append, List.mem_append] at hmem'
                rcases hmem' with h | h
                · exact hm x hx (by simp [nodeIds, hrevids.mem_iff.mp h])
                · exact hm x hx (by simp [h]))
              (by
                intro it hit
                rcases List.mem_append.mp hit with h | h
                · obtain ⟨c, _, rfl⟩ := List.mem_map.mp h
                  intro p rest' e; cases e; exact hcond'
                · exact hp it (by simp [h]))
            refine ⟨R, ?_, ?_, r3, ?_⟩
            · simp only [List.map_cons, Item.comp, workR, hmem, Bool.false_eq_true, if_false, hcs, hsucc]
              rw [← r1]
              simp [List.map_append, List.map_reverse, List.map_map, Function.comp_def, Item.comp]
            · refine r2.trans ?_
              simp only [List.flatMap_append, List.flatMap_cons, Item.mres, Graph.dfs, hcond', Bool.false_eq_true,
                if_false, dfsL_flatMap, List.flatMap_map]
              exact List.Perm.append_right _ ((List.reverse_perm cs).flatMap_right _)
            · intro x hx
              refine ⟨(r4 x hx).1, ?_⟩
              have := (r4 x hx).2
              rw [List.flatMap_append, List.mem_append] at this
              simp only [List.flatMap_cons, List.mem_append, Item.ids]
              rcases this with h | h
              · left; simp [nodeIds, hrevids.mem_iff.mp h]
              · right; exact h
          | batInv id bs =>
            have hsucc : (mk root anc (.batInv id bs)).succs
                = bs.map (fun b => (⟨.bat b, .batInv id bs :: anc, root⟩ : Comp)) := rfl
            have hids0 : (bs.reverse.map (fun b => Item.bat b (.batInv id bs :: anc))).flatMap Item.ids = [] := by
              induction bs.reverse with
              | nil => rfl
              | cons b l ih' => simpa [Item.ids] using ih'
            have hbats0 : ∀ b', b' ∈ (bs.reverse.map (fun b => Item.bat b (.batInv id bs :: anc))).flatMap Item.bats → b' ∈ bs := by
              intro b' h
              obtain ⟨it, hit, hb'⟩ := List.mem_flatMap.mp h
              obtain ⟨b, hb2, rfl⟩ := List.mem_map.mp hit
              simp [Item.bats] at hb'; subst hb'; simpa using hb2
            obtain ⟨R, r1, r2, r3, r4⟩ := ih (bs.reverse.map (fun b => Item.bat b (.batInv id bs :: anc)) ++ rest)
              (unionIds vis [mk root anc (.batInv id bs)]) m
              (by
                simp only [List.map_append, List.map_map, List.sum_append, Function.comp_def, Item.size]
                have : ((bs.reverse.map (fun _ => 1)).sum) = bs.length := by
                  rw [sum_map_reverse]
                  clear hsucc hids0 hbats0 hcs hcond hcond' hvis' hidn hmem hpar hdisj hn1 hm hbt hv hf hp
                  induction bs with
                  | nil => rfl
                  | cons b l ih' => simp only [List.map_cons, List.sum_cons, List.length_cons, ih']; omega
                simp only [szW] at hf
                omega)
              (by rw [List.flatMap_append, hids0]; simpa using hn2)
              (by
                intro x hx hmem'
                rw [List.flatMap_append, hids0, List.nil_append] at hmem'
                rcases hvis' x hx with h | h
                · exact hv x h (by simp [hmem'])
                · rw [h] at hmem'; exact hdisj _ (by simp [nodeIds, Node.id]) _ hmem' rfl)
              (by
                intro b' hb' hmem'
                rw [List.flatMap_append, hids0, List.nil_append] at hmem'
                rw [List.flatMap_append, List.mem_append] at hb'
                refine hbt b' ?_ (by simp [hmem'])
                rcases hb' with h | h
                · simp [Node.allBats, hbats0 b' h]
                · simp [h])
              (by
                intro x hx hmem'
                rw [List.flatMap_append, hids0, List.nil_append] at hmem'
                exact hm x hx (by simp [hmem']))
              (by
                intro it hit
                rcases List.mem_append.mp hit with h | h
                · obtain ⟨c, _, rfl⟩ := List.mem_map.mp h
                  trivial
                · exact hp it (by simp [h]))
            have hmres0 : (bs.reverse.map (fun b => Item.bat b (.batInv id bs :: anc))).flatMap (Item.mres root condM) = [] := by
              induction bs.reverse with
              | nil => rfl
              | cons b l ih' => simpa [Item.mres] using ih'
            refine ⟨R, ?_, ?_, r3, ?_⟩
            · simp only [List.map_cons, Item.comp, workR, hmem, Bool.false_eq_true, if_false, hcs, hsucc]
              rw [← r1]
              simp [List.map_append, List.map_reverse, List.map_map, Function.comp_def, Item.comp]
            · refine r2.trans ?_
              rw [List.flatMap_append, hmres0]
              simp [Item.mres, Graph.dfs, hcond']
            · intro x hx
              refine ⟨(r4 x hx).1, ?_⟩
              have := (r4 x hx).2
              rw [List.flatMap_append, hids0, List.nil_append] at this
              simp [this]
          | pvInv id =>
            have hsucc : (mk root anc (.pvInv id)).succs = [] := rfl
            obtain ⟨R, r1, r2, r3, r4⟩ := ih rest (unionIds vis [mk root anc (.pvInv id)]) m (by simp only [szW] at hf; omega) hn2
              (by
                intro x hx hmem'
                rcases hvis' x hx with h | h
                · exact hv x h (by simp [hmem'])
                · rw [h] at hmem'; exact hdisj _ (by simp [nodeIds, Node.id]) _ hmem' rfl)
              (fun b' hb' h => hbt b' (by simp [hb']) (by simp [h]))
              (fun x hx h => hm x hx (by simp [h]))
              (fun it hit => hp it (by simp [hit]))
            refine ⟨R, ?_, ?_, r3, fun x hx => ⟨(r4 x hx).1, by simp [(r4 x hx).2]⟩⟩
            · simp only [List.map_cons, Item.comp, workR, hmem, Bool.false_eq_true, if_false, hcs, hsucc,
                List.reverse_nil, List.nil_append]
              exact r1
            · simpa [Item.mres, Graph.dfs, hcond'] using r2
          | ev id =>
            have hsucc : (mk root anc (.ev id)).succs = [] := rfl
            obtain ⟨R, r1, r2, r3, r4⟩ := ih rest (unionIds vis [mk root anc (.ev id)]) m (by simp only [szW] at hf; omega) hn2
              (by
                intro x hx hmem'
                rcases hvis' x hx with h | h
                · exact hv x h (by simp [hmem'])
                · rw [h] at hmem'; exact hdisj _ (by simp [nodeIds, Node.id]) _ hmem' rfl)
              (fun b' hb' h => hbt b' (by simp [hb']) (by simp [h]))
              (fun x hx h => hm x hx (by simp [h]))
              (fun it hit => hp it (by simp [hit]))
            refine ⟨R, ?_, ?_, r3, fun x hx => ⟨(r4 x hx).1, by simp [(r4 x hx).2]⟩⟩
            · simp only [List.map_cons, Item.comp, workR, hmem, Bool.false_eq_true, if_false, hcs, hsucc,
                List.reverse_nil, List.nil_append]
              exact r1
            · simpa [Item.mres, Graph.dfs, hcond'] using r2
          | chp id =>
            have hsucc : (mk root anc (.chp id)).succs = [] := rfl
            obtain ⟨R, r1, r2, r3, r4⟩ := ih rest (unionIds vis [mk root anc (.chp id)]) m (by simp only [szW] at hf; omega) hn2
              (by
                intro x hx hmem'
                rcases hvis' x hx with h | h
                · exact hv x h (by simp [hmem'])
                · rw [h] at hmem'; exact hdisj _ (by simp [nodeIds, Node.id]) _ hmem' rfl)
              (fun b' hb' h => hbt b' (by simp [hb']) (by simp [h]))
              (fun x hx h => hm x hx (by simp [h]))
              (fun it hit => hp it (by simp [hit]))
            refine ⟨R, ?_, ?_, r3, fun x hx => ⟨(r4 x hx).1, by simp [(r4 x hx).2]⟩⟩
            · simp only [List.map_cons, Item.comp, workR, hmem, Bool.false_eq_true, if_false, hcs, hsucc,
                List.reverse_nil, List.nil_append]
              exact r1
            · simpa [Item.mres, Graph.dfs, hcond'] using r2

end work

/-- the translation of an iterative `dfs` is the worklist `refWork` started with the node on the stack -/
def IsWork : Prop := ∀ (fuel : Nat) (c : Comp) (vis : List Comp) (cond : Comp → Bool),
  S.dfs (fuel + 1) c vis cond = ((refWork cond fuel vis [] [c]).1, (refWork cond fuel vis [] [c]).2.1)

theorem work_one (hw : IsWork) (fuel : Nat) (c : Comp) (vis : List Comp) (cond : Comp → Bool) :
    S.dfs (fuel + 1) c vis cond = workR cond fuel vis [] [c] := by
  rw [hw]; exact work_rev cond fuel vis [] [c]

theorem flatMap_reverse_perm {α β : Type} (f : α → List β) (l : List α) : (l.reverse.flatMap f).Perm (l.flatMap f) :=
  (List.reverse_perm l).flatMap_right f

/-- the worklist started with one top-level node -/
theorem work_top (hw : IsWork) (g : Grid) (condS : Comp → Bool) (condM : Pos → Node → Bool)
    (hc : ∀ anc n, condS (mk g anc n) = condM (posOf g anc) n) (hb : ∀ b anc, condS ⟨.bat b, anc, g⟩ = false)
    (fuel : Nat) (n : Node) (hf : szW n ≤ fuel) (hn : (nodeIds n).Nodup) (hbn : ∀ b ∈ n.allBats, b ∉ nodeIds n) :
    ((S.dfs (fuel + 1) (mk g [] n) [] condS).2.map Comp.found).Perm (Graph.dfs condM (topPos g) none n)
      ∧ ((S.dfs (fuel + 1) (mk g [] n) [] condS).2.map Comp.id).Nodup
      ∧ (∀ x ∈ (S.dfs (fuel + 1) (mk g [] n) [] condS).2, FoundAt g condM x ∧ x.id ∈ nodeIds n) := by
  rw [work_one hw]
  obtain ⟨R, r1, r2, r3, r4⟩ := work_spec g condS condM hc hb fuel [Item.node [] n] [] []
    (by simpa [Item.size] using hf) (by simpa [Item.ids] using hn) (by simp)
    (by simpa [Item.ids, Item.bats] using hbn) (by simp) (by intro it hit; simp at hit; subst hit; intro p rest h; cases h)
  simp only [List.map_cons, List.map_nil, Item.comp, List.nil_append] at r1
  rw [r1]
  refine ⟨?_, r3, ?_⟩
  · have e1 : posOf g [] = topPos g := rfl
    have e2 : parentOf g [] = none := rfl
    simpa [Item.mres, e1, e2] using r2
  · intro x hx; simpa [Item.ids] using r4 x hx

theorem facts_of_work (hw : IsWork) : DfsFacts where
  fromGrid g condS condM hc hb hg hd := by
    obtain ⟨hN, hB⟩ := hd
    rw [List.nodup_cons] at hN
    have hfuel : g.fuel = ((2 * (allIdsL g.succ).length) + 1) + 1 := rfl
    rw [hfuel, work_one hw]
    have hsucc : g.comp.succs = g.succ.map (mk g []) := rfl
    have hstep : workR condS (2 * (allIdsL g.succ).length + 1) [] [] [g.comp]
        = workR condS (2 * (allIdsL g.succ).length) (unionIds [] [g.comp]) []
            ((g.succ.reverse.map (Item.node [])).map (Item.comp g)) := by
      simp [workR, memIds, hg, hsucc, List.map_reverse, Item.comp, Function.comp_def]
    rw [hstep]
    obtain ⟨R, r1, r2, r3, r4⟩ := work_spec g condS condM hc hb (2 * (allIdsL g.succ).length)
      (g.succ.reverse.map (Item.node [])) (unionIds [] [g.comp]) []
      (by
        have h1 := szWL_le g.succ
        have h2 : ((g.succ.reverse.map (Item.node [])).map Item.size).sum = szWL g.succ := by
          rw [List.map_map, szWL_sum]; exact sum_map_reverse _ g.succ
        omega)
      (by
        rw [List.flatMap_map]
        exact (flatMap_reverse_perm _ _).nodup_iff.mpr (by simpa [nodeIdsL_flatMap, Item.ids] using hN.2))
      (by
        intro x hx hmem
        rcases mem_unionIds hx with h | h
        · simp at h
        · simp at h; subst h
          rw [List.flatMap_map] at hmem
          exact hN.1 (by rw [nodeIdsL_flatMap]; exact (flatMap_reverse_perm _ _).mem_iff.mp hmem))
      (by
        intro b hb' hmem
        rw [List.flatMap_map] at hb' hmem
        refine hB b ?_ ?_
        · rw [allBatsL_flatMap]; exact (flatMap_reverse_perm _ _).mem_iff.mp hb'
        · right; rw [nodeIdsL_flatMap]; exact (flatMap_reverse_perm _ _).mem_iff.mp hmem)
      (by simp)
      (by
        intro it hit
        obtain ⟨n, _, rfl⟩ := List.mem_map.mp hit
        intro p rest h; cases h)
    simp only [List.nil_append] at r1
    rw [r1]
    refine ⟨?_, r3, fun x hx => (r4 x hx).1⟩
    refine r2.trans ?_
    rw [List.flatMap_map]
    refine (flatMap_reverse_perm _ _).trans ?_
    rw [show dfsFromGrid condM g = dfsL condM (topPos g) none g.succ from rfl, dfsL_flatMap]
    exact List.Perm.of_eq rfl
  fromTop g condS condM hc hb hd := by
    obtain ⟨hN, hB⟩ := hd
    rw [List.nodup_cons] at hN
    have hfuel : g.fuel = ((2 * (allIdsL g.succ).length) + 1) + 1 := rfl
    rw [hfuel]
    have key : ∀ ns : List Node, szWL ns ≤ 2 * (allIdsL g.succ).length + 1 → (nodeIdsL ns).Nodup →
        (∀ b ∈ allBatsL ns, b ∉ nodeIdsL ns) →
        (((ns.map (mk g [])).flatMap (fun x => (S.dfs (2 * (allIdsL g.succ).length + 1 + 1) x [] condS).2)).map Comp.found).Perm
            (dfsL condM (topPos g) none ns)
          ∧ (((ns.map (mk g [])).flatMap (fun x => (S.dfs (2 * (allIdsL g.succ).length + 1 + 1) x [] condS).2)).map Comp.id).Nodup
          ∧ (∀ x ∈ (ns.map (mk g [])).flatMap (fun x => (S.dfs (2 * (allIdsL g.succ).length + 1 + 1) x [] condS).2),
              FoundAt g condM x ∧ x.id ∈ nodeIdsL ns) := by
      intro ns
      induction ns with
      | nil => intro _ _ _; simp [dfsL]
      | cons n ns ih =>
        intro hf hn hbn
        simp only [nodeIdsL, List.nodup_append] at hn
        simp only [szWL] at hf
        obtain ⟨a1, a2, a3⟩ := work_top hw g condS condM hc hb (2 * (allIdsL g.succ).length + 1) n (by omega) hn.1
          (fun b hb' h => hbn b (by simp [allBatsL, hb']) (by simp [nodeIdsL, h]))
        obtain ⟨i1, i2, i3⟩ := ih (by omega) hn.2.1 (fun b hb' h => hbn b (by simp [allBatsL, hb']) (by simp [nodeIdsL, h]))
        simp only [List.map_cons, List.flatMap_cons, List.map_append]
        refine ⟨?_, ?_, ?_⟩
        · simp only [dfsL]; exact a1.append i1
        · rw [List.nodup_append]
          refine ⟨a2, i2, ?_⟩
          intro i hi j hj hij
          obtain ⟨x, hx, rfl⟩ := List.mem_map.mp hi
          obtain ⟨y, hy, rfl⟩ := List.mem_map.mp hj
          exact hn.2.2 _ (a3 x hx).2 _ (i3 y hy).2 hij
        · intro x hx
          rcases List.mem_append.mp hx with h | h
          · exact ⟨(a3 x h).1, by simp [nodeIdsL, (a3 x h).2]⟩
          · exact ⟨(i3 x h).1, by simp [nodeIdsL, (i3 x h).2]⟩
    obtain ⟨k1, k2, k3⟩ := key g.succ (by have := szWL_le g.succ; omega) hN.2 (fun b hb' h => hB b hb' (by simp [h]))
    exact ⟨k1, k2, fun x hx => (k3 x hx).1⟩

/-- **the facts about the translated `dfs`**, whichever way the source is written: recursive (the translation equals
`refDfs` by unfolding) or iterative with an explicit stack (its `while` loop equals `refWork` by unfolding). -/
theorem dfs_facts : DfsFacts := by
  first
  | (refine facts_of_rec ?_
     intro fuel
     induction fuel with
     | zero => intro c vis cond; simp [Extracted.GraphLoops.dfs, refDfs]
     | succ fuel ih =>
       intro c vis cond
       simp only [Extracted.GraphLoops.dfs, refDfs, ih]
       repeat' split
       all_goals first | rfl | (simp_all; done))
  | (refine facts_of_work ?_
     have hl : ∀ (cond : Comp → Bool) (fuel : Nat) (a b c : List Comp),
         Extracted.GraphLoops.dfsLoop cond fuel a b c = refWork cond fuel a b c := by
       intro cond fuel
       induction fuel with
       | zero => intro a b c; simp [Extracted.GraphLoops.dfsLoop, refWork]
       | succ fuel ih => intro a b c; simp only [Extracted.GraphLoops.dfsLoop, refWork, ih]
     intro fuel c vis cond
     simp only [Extracted.GraphLoops.dfs, hl])

/-! ## EV chargers, PV (search path) -/

/-- **`EVChargerPowerFormula.generate()`** -/
theorem ev_tie (g : Grid) (ids : List Nat) : S.evFormula g ids = Graph.evFormula ids := by
  simp [Extracted.GraphLoops.evFormula, Graph.evFormula, nonExisting, evNoneNaz, evNaz, nazEval]

/-- **`PVPowerFormula.generate()` without component ids** (search from the grid) -/
theorem pv_dfs_tie (F : DfsFacts) (g : Grid) (hd : DistinctIds g) :
    FormulaEquiv (S.pvFormula g true []) (Graph.pvFormula g none) := by
  obtain ⟨hf, ha⟩ := grid_first g
  have hc : ∀ anc n, (fun x => S.isPvChain x) (mk g anc n) = anyChain pvDfsChains (posOf g anc) n := by
    intro anc n
    simp [anyChain, pvDfsChains]
  obtain ⟨d1, d2, d3⟩ := F.fromGrid g (fun x => S.isPvChain x) (anyChain pvDfsChains) hc
    (by intro b anc; simp [chains_bat]) (by simp [chains_grid]) hd
  have hterms := found_terms g (anyChain pvDfsChains) false pvNaz rfl
    (fun ppos p pos c => (condSpec_anyChain pvDfsChains).pair ppos p pos c) _ d2 d3
  simp only [Extracted.GraphLoops.pvFormula, Graph.pvFormula, Graph.pvFormulaR, hf, ha, Bool.false_eq_true, if_false,
    if_true, List.isEmpty_nil]
  rw [show dfsFromGrid (anyChain pvDfsChains) g = dfsFromGrid (anyChain pvDfsChains) g from rfl,
    ← isEmpty_of_perm d1, List.isEmpty_map]
  split
  · simp [nonExisting, pvNoneNaz, nazEval, FormulaEquiv]
  · simp only [FormulaEquiv, List.map_map]
    refine (List.Perm.of_eq hterms).trans ?_
    have := d1.map (fun f => mkTerm false pvNaz simpleNaz (primaryOf f))
    refine this.trans (List.Perm.of_eq ?_)
    apply List.map_congr_left
    intro f _
    simp [mkTerm, pvNazNoFallback, simpleNaz]

/-! ## The components of the graph as a list (`graph.components()`)

`enum g` lists the meters and devices of the tree in preorder, each with its ancestors; the machine translation
quantifies over `g.comps` (grid, nodes, batteries), the model recurses over the tree: both are related through `enum`. -/

mutual
def nodesWith (anc : List Node) : Node → List (List Node × Node)
  | .meter id cs => (anc, .meter id cs) :: nodesWithL (.meter id cs :: anc) cs
  | .batInv id bs => [(anc, .batInv id bs)]
  | .pvInv id => [(anc, .pvInv id)]
  | .ev id => [(anc, .ev id)]
  | .chp id => [(anc, .chp id)]
def nodesWithL (anc : List Node) : List Node → List (List Node × Node)
  | [] => []
  | n :: ns => nodesWith anc n ++ nodesWithL anc ns
end

def enum (g : Grid) : List (List Node × Node) := nodesWithL [] g.succ

/-- the component of an enumerated node -/
abbrev cmp (g : Grid) (p : List Node × Node) : Comp := mk g p.1 p.2

mutual
theorem all_comps_node (root : Grid) (f : Comp → Bool) (hbat : ∀ b anc, f ⟨.bat b, anc, root⟩ = true) :
    (anc : List Node) → (n : Node) → (n.comps root anc).all f = (nodesWith anc n).all (fun p => f (cmp root p))
  | anc, .meter id cs => by
    simp only [Node.comps, nodesWith, List.all_cons, all_comps_list root f hbat (.meter id cs :: anc) cs]
  | anc, .batInv id bs => by
    simp only [Node.comps, nodesWith, List.all_cons, List.all_nil, Bool.and_true, List.all_map, Function.comp_def, hbat]
    simp
  | anc, .pvInv id => by simp [Node.comps, nodesWith]
  | anc, .ev id => by simp [Node.comps, nodesWith]
  | anc, .chp id => by simp [Node.comps, nodesWith]
theorem all_comps_list (root : Grid) (f : Comp → Bool) (hbat : ∀ b anc, f ⟨.bat b, anc, root⟩ = true) :
    (anc : List Node) → (ns : List Node) → (compsL root anc ns).all f = (nodesWithL anc ns).all (fun p => f (cmp root p))
  | _, [] => by simp [compsL, nodesWithL]
  | anc, n :: ns => by
    simp only [compsL, nodesWithL, List.all_append, all_comps_node root f hbat anc n, all_comps_list root f hbat anc ns]
end

/-- `all(f(c) for c in graph.components())` for an `f` that holds of the grid and of batteries -/
theorem all_comps (g : Grid) (f : Comp → Bool) (hg : f g.comp = true) (hbat : ∀ b anc, f ⟨.bat b, anc, g⟩ = true) :
    g.comps.all f = (enum g).all (fun p => f (cmp g p)) := by
  simp only [Grid.comps, List.all_cons, hg, Bool.true_and, enum, all_comps_list g f hbat [] g.succ]

mutual
theorem filter_comps_node (root : Grid) (q : Comp → Bool) (hbat : ∀ b anc, q ⟨.bat b, anc, root⟩ = false) :
    (anc : List Node) → (n : Node) →
    (n.comps root anc).filter q = ((nodesWith anc n).filter (fun p => q (cmp root p))).map (cmp root)
  | anc, .meter id cs => by
    simp only [Node.comps, nodesWith, List.filter_cons, filter_comps_list root q hbat (.meter id cs :: anc) cs]
    split <;> simp
  | anc, .batInv id bs => by
    have : (bs.map (fun b => (⟨.bat b, .batInv id bs :: anc, root⟩ : Comp))).filter q = [] := by
      simp [List.filter_eq_nil_iff, hbat]
    simp only [Node.comps, nodesWith, List.filter_cons, this, List.filter_nil]
    split <;> simp
  | anc, .pvInv id => by simp only [Node.comps, nodesWith, List.filter_cons, List.filter_nil]; split <;> simp
  | anc, .ev id => by simp only [Node.comps, nodesWith, List.filter_cons, List.filter_nil]; split <;> simp
  | anc, .chp id => by simp only [Node.comps, nodesWith, List.filter_cons, List.filter_nil]; split <;> simp
theorem filter_comps_list (root : Grid) (q : Comp → Bool) (hbat : ∀ b anc, q ⟨.bat b, anc, root⟩ = false) :
    (anc : List Node) → (ns : List Node) →
    (compsL root anc ns).filter q = ((nodesWithL anc ns).filter (fun p => q (cmp root p))).map (cmp root)
  | _, [] => by simp [compsL, nodesWithL]
  | anc, n :: ns => by
    simp only [compsL, nodesWithL, List.filter_append, List.map_append, filter_comps_node root q hbat anc n,
      filter_comps_list root q hbat anc ns]
end

/-- `[c for c in graph.components() if q(c)]` for a `q` that rejects the grid and batteries -/
theorem filter_comps (g : Grid) (q : Comp → Bool) (hg : q g.comp = false) (hbat : ∀ b anc, q ⟨.bat b, anc, g⟩ = false) :
    g.comps.filter q = ((enum g).filter (fun p => q (cmp g p))).map (cmp g) := by
  simp only [Grid.comps, List.filter_cons, hg, Bool.false_eq_true, if_false, enum, filter_comps_list g q hbat [] g.succ]

mutual
theorem enum_ids_node : (anc : List Node) → (n : Node) → (nodesWith anc n).map (fun p => p.2.id) = nodeIds n
  | anc, .meter id cs => by
    have := enum_ids_list (.meter id cs :: anc) cs
    simp only [nodesWith, nodeIds, List.map_cons, this]; rfl
  | _, .batInv _ _ => by simp [nodesWith, nodeIds, Node.id]
  | _, .pvInv _ => by simp [nodesWith, nodeIds, Node.id]
  | _, .ev _ => by simp [nodesWith, nodeIds, Node.id]
  | _, .chp _ => by simp [nodesWith, nodeIds, Node.id]
theorem enum_ids_list : (anc : List Node) → (ns : List Node) → (nodesWithL anc ns).map (fun p => p.2.id) = nodeIdsL ns
  | _, [] => by simp [nodesWithL, nodeIdsL]
  | anc, n :: ns => by simp [nodesWithL, nodeIdsL, enum_ids_node anc n, enum_ids_list anc ns]
end

/-- two enumerated nodes with the same id are the same (distinct ids) -/
theorem enum_inj (g : Grid) (hn : (nodeIdsL g.succ).Nodup) {p q : List Node × Node}
    (hp : p ∈ enum g) (hq : q ∈ enum g) (h : p.2.id = q.2.id) : p = q := by
  have hnd : ((enum g).map (fun p => p.2.id)).Nodup := by rw [enum, enum_ids_list]; exact hn
  exact List.inj_on_of_nodup_map hnd hp hq h

theorem nodup_eraseDups : ∀ (l : List Nat), l.eraseDups.Nodup
  | [] => by simp
  | a :: as => by
    rw [List.eraseDups_cons, List.nodup_cons]
    refine ⟨?_, nodup_eraseDups _⟩
    rw [List.mem_eraseDups]
    simp
termination_by l => l.length
decreasing_by
  simp only [List.length_cons]
  exact Nat.lt_succ_of_le (List.length_filter_le _ _)

/-- the successors of the predecessor of a node with ancestors `a` (its siblings and itself) -/
def sibsOf (g : Grid) : List Node → List Node
  | [] => g.succ
  | p :: _ => p.children

/-- category / id of the predecessor -/
def pcatOf : List Node → Cat
  | [] => .grid
  | p :: _ => p.cat
def pidOf (g : Grid) : List Node → Nat
  | [] => g.id
  | p :: _ => p.id

theorem par_cat (g : Grid) (p : List Node × Node) : (firstComp (cmp g p).preds).cat = pcatOf p.1 := by
  obtain ⟨a, n⟩ := p; cases a <;> rfl

theorem par_id (g : Grid) (p : List Node × Node) : (firstComp (cmp g p).preds).id = pidOf g p.1 := by
  obtain ⟨a, n⟩ := p; cases a <;> rfl

/-- structure of the enumeration: every enumerated node is a successor of the root of the enumeration or a child of an
enumerated meter, and all children of an enumerated meter are enumerated (with the meter as nearest ancestor) -/
structure EnumOK (l : List (List Node × Node)) (anc : List Node) (ns : List Node) : Prop where
  top : ∀ n ∈ ns, (anc, n) ∈ l
  up : ∀ a n, (a, n) ∈ l → (a = anc ∧ n ∈ ns) ∨ ∃ id cs rest, a = .meter id cs :: rest ∧ n ∈ cs ∧ (rest, .meter id cs) ∈ l
  down : ∀ id cs rest, (rest, .meter id cs) ∈ l → ∀ c ∈ cs, (.meter id cs :: rest, c) ∈ l

mutual
theorem enumOK_node : (anc : List Node) → (n : Node) → EnumOK (nodesWith anc n) anc [n]
  | anc, .meter id cs => by
    have ih := enumOK_list (.meter id cs :: anc) cs
    refine ⟨by simp [nodesWith], ?_, ?_⟩
    · intro a n h
      simp only [nodesWith, List.mem_cons] at h
      rcases h with h | h
      · cases h; exact Or.inl ⟨rfl, by simp⟩
      · rcases ih.up a n h with ⟨rfl, hn⟩ | ⟨id', cs', rest, rfl, hn, hm⟩
        · exact Or.inr ⟨id, cs, anc, rfl, hn, by simp [nodesWith]⟩
        · exact Or.inr ⟨id', cs', rest, rfl, hn, by simp [nodesWith, hm]⟩
    · intro id' cs' rest h c hc
      simp only [nodesWith, List.mem_cons] at h ⊢
      rcases h with h | h
      · cases h; exact Or.inr (ih.top c hc)
      · exact Or.inr (ih.down id' cs' rest h c hc)
  | anc, .batInv id bs => ⟨by simp [nodesWith], by intro a n h; simp [nodesWith] at h; exact Or.inl ⟨h.1, by simp [h.2]⟩,
      by intro id' cs' rest h; simp [nodesWith] at h⟩
  | anc, .pvInv id => ⟨by simp [nodesWith], by intro a n h; simp [nodesWith] at h; exact Or.inl ⟨h.1, by simp [h.2]⟩,
      by intro id' cs' rest h; simp [nodesWith] at h⟩
  | anc, .ev id => ⟨by simp [nodesWith], by intro a n h; simp [nodesWith] at h; exact Or.inl ⟨h.1, by simp [h.2]⟩,
      by intro id' cs' rest h; simp [nodesWith] at h⟩
  | anc, .chp id => ⟨by simp [nodesWith], by intro a n h; simp [nodesWith] at h; exact Or.inl ⟨h.1, by simp [h.2]⟩,
      by intro id' cs' rest h; simp [nodesWith] at h⟩
theorem enumOK_list : (anc : List Node) → (ns : List Node) → EnumOK (nodesWithL anc ns) anc ns
  | _, [] => ⟨by simp, by intro a n h; simp [nodesWithL] at h, by intro id cs rest h; simp [nodesWithL] at h⟩
  | anc, n :: ns => by
    have h1 := enumOK_node anc n
    have h2 := enumOK_list anc ns
    refine ⟨?_, ?_, ?_⟩
    · intro m hm
      simp only [nodesWithL, List.mem_append]
      rcases List.mem_cons.mp hm with h | h
      · subst h; exact Or.inl (h1.top _ (by simp))
      · exact Or.inr (h2.top m h)
    · intro a m h
      simp only [nodesWithL, List.mem_append] at h
      rcases h with h | h
      · rcases h1.up a m h with ⟨rfl, hn⟩ | ⟨id', cs', rest, rfl, hn, hm⟩
        · simp at hn; subst hn; exact Or.inl ⟨rfl, by simp⟩
        · exact Or.inr ⟨id', cs', rest, rfl, hn, by simp [nodesWithL, hm]⟩
      · rcases h2.up a m h with ⟨rfl, hn⟩ | ⟨id', cs', rest, rfl, hn, hm⟩
        · exact Or.inl ⟨rfl, by simp [hn]⟩
        · exact Or.inr ⟨id', cs', rest, rfl, hn, by simp [nodesWithL, hm]⟩
    · intro id' cs' rest h c hc
      simp only [nodesWithL, List.mem_append] at h ⊢
      rcases h with h | h
      · exact Or.inl (h1.down id' cs' rest h c hc)
      · exact Or.inr (h2.down id' cs' rest h c hc)
end

theorem enum_ok (g : Grid) : EnumOK (enum g) [] g.succ := enumOK_list [] g.succ

/-- every sibling of an enumerated node is enumerated (at the same place) -/
theorem enum_sibs (g : Grid) {a : List Node} {n : Node} (h : (a, n) ∈ enum g) :
    n ∈ sibsOf g a ∧ ∀ c ∈ sibsOf g a, (a, c) ∈ enum g := by
  rcases (enum_ok g).up a n h with ⟨rfl, hn⟩ | ⟨id, cs, rest, rfl, hn, hm⟩
  · exact ⟨hn, fun c hc => (enum_ok g).top c hc⟩
  · exact ⟨hn, fun c hc => (enum_ok g).down id cs rest hm c hc⟩

theorem par_succs (g : Grid) {a : List Node} {n : Node} (h : (a, n) ∈ enum g) :
    (firstComp (cmp g (a, n)).preds).succs = (sibsOf g a).map (mk g a) := by
  rcases (enum_ok g).up a n h with ⟨rfl, _⟩ | ⟨id, cs, rest, rfl, _, _⟩ <;> rfl

/-! ## CHP (`_chp_power_formula.py`) -/

def isChpN (n : Node) : Bool := n.cat == Cat.chp

theorem isChpN_eq (n : Node) : isChpN n = isChpNode n := rfl

/-- what the CHP generator tests for every component, in terms of the place of the node -/
def chpOk (g : Grid) (p : List Node × Node) : Bool :=
  ((pcatOf p.1 == Cat.meter) || !(isChpN p.2)) && (!(isChpN p.2) || (sibsOf g p.1).all isChpN)

theorem all_not_chp (l : List Node) : l.all (fun c => !(isChpN c)) = !l.any isChpN := by
  induction l with
  | nil => rfl
  | cons c cs ih => simp [List.all_cons, List.any_cons, ih, Bool.not_or]

theorem all_or_all (cs : List Node) :
    cs.all (fun c => !(isChpN c) || cs.all isChpN) = !(cs.any isChpN && !cs.all isChpN) := by
  generalize hb : cs.all isChpN = b
  cases b
  · simp only [Bool.or_false, Bool.not_false, Bool.and_true]
    exact all_not_chp cs
  · simp

theorem chp_meter_false : (Cat.meter == Cat.chp) = false := rfl
theorem chp_inv_false : (Cat.inverter == Cat.chp) = false := rfl
theorem chp_ev_false : (Cat.evCharger == Cat.chp) = false := rfl

mutual
theorem chp_node (g : Grid) : (anc : List Node) → (n : Node) →
    (nodesWith anc n).all (chpOk g)
      = ((!(isChpN n) || ((pcatOf anc == Cat.meter) && (sibsOf g anc).all isChpN)) && !chpErr n)
  | anc, .meter id cs => by
    have ih := chp_list g (.meter id cs :: anc) cs
    have h0 : chpOk g (anc, .meter id cs) = true := by simp [chpOk, isChpN, Node.cat, chp_meter_false]
    have h1 : (pcatOf (Node.meter id cs :: anc) == Cat.meter) = true := rfl
    have h2 : sibsOf g (Node.meter id cs :: anc) = cs := rfl
    simp only [nodesWith, List.all_cons, ih, h0, h1, h2, Bool.true_and, all_or_all, chpErr]
    have hf : (isChpN : Node → Bool) = isChpNode := rfl
    simp [isChpN, Node.cat, chp_meter_false, hf, Bool.not_or]
  | anc, .batInv id bs => by
    simp [nodesWith, chpOk, isChpN, Node.cat, chpErr, chp_inv_false]
  | anc, .pvInv id => by simp [nodesWith, chpOk, isChpN, Node.cat, chpErr, chp_inv_false]
  | anc, .ev id => by simp [nodesWith, chpOk, isChpN, Node.cat, chpErr, chp_ev_false]
  | anc, .chp id => by
    simp only [nodesWith, List.all_cons, List.all_nil, chpOk, isChpN, Node.cat, chpErr, beq_self_eq_true]
    cases pcatOf anc == Cat.meter <;> simp
theorem chp_list (g : Grid) : (anc : List Node) → (ns : List Node) →
    (nodesWithL anc ns).all (chpOk g)
      = (ns.all (fun n => !(isChpN n) || ((pcatOf anc == Cat.meter) && (sibsOf g anc).all isChpN)) && !chpErrL ns)
  | _, [] => by simp [nodesWithL, chpErrL]
  | anc, n :: ns => by
    simp only [nodesWithL, List.all_append, chp_node g anc n, chp_list g anc ns, List.all_cons, chpErrL, Bool.not_or]
    generalize (!(isChpN n) || ((pcatOf anc == Cat.meter) && (sibsOf g anc).all isChpN)) = a
    generalize ns.all (fun n => !(isChpN n) || ((pcatOf anc == Cat.meter) && (sibsOf g anc).all isChpN)) = b
    cases a <;> cases b <;> simp
end

mutual
theorem chpMeters_node : (anc : List Node) → (n : Node) →
    chpMeters n = ((nodesWith anc n).filter (fun p => p.2.children.any isChpN)).map (fun p => p.2)
  | anc, .meter id cs => by
    have hf : (isChpN : Node → Bool) = isChpNode := rfl
    simp only [chpMeters, nodesWith, List.filter_cons, Node.children, chpMetersL_list (.meter id cs :: anc) cs, hf]
    by_cases h : cs.any isChpNode = true
    · simp [h]
    · simp [h]
  | _, .batInv _ _ => by simp [chpMeters, nodesWith, Node.children]
  | _, .pvInv _ => by simp [chpMeters, nodesWith, Node.children]
  | _, .ev _ => by simp [chpMeters, nodesWith, Node.children]
  | _, .chp _ => by simp [chpMeters, nodesWith, Node.children]
theorem chpMetersL_list : (anc : List Node) → (ns : List Node) →
    chpMetersL ns = ((nodesWithL anc ns).filter (fun p => p.2.children.any isChpN)).map (fun p => p.2)
  | _, [] => by simp [chpMetersL, nodesWithL]
  | anc, n :: ns => by
    simp [chpMetersL, nodesWithL, chpMeters_node anc n, chpMetersL_list anc ns]
end

theorem all_congr_mem {α : Type} (l : List α) (f f' : α → Bool) (h : ∀ x ∈ l, f x = f' x) : l.all f = l.all f' := by
  induction l with
  | nil => rfl
  | cons a l ih => simp [List.all_cons, h a (by simp), ih (fun x hx => h x (by simp [hx]))]

theorem all_and {α : Type} (l : List α) (f f' : α → Bool) : (l.all f && l.all f') = l.all (fun x => f x && f' x) := by
  induction l with
  | nil => rfl
  | cons a l ih =>
    simp only [List.all_cons, ← ih]
    cases f a <;> cases f' a <;> cases l.all f <;> cases l.all f' <;> rfl

/-- membership (by id) in the list of the components selected by `q`, for an enumerated node -/
theorem memIds_sel (g : Grid) (hn : (nodeIdsL g.succ).Nodup) (q : List Node × Node → Bool) {p : List Node × Node}
    (hp : p ∈ enum g) : memIds (cmp g p) (((enum g).filter q).map (cmp g)) = q p := by
  rw [Bool.eq_iff_iff]
  simp only [memIds, List.any_map, List.any_eq_true, List.mem_filter, Function.comp_def, beq_iff_eq, mk_id]
  constructor
  · rintro ⟨r, ⟨hr, hqr⟩, hid⟩
    have := enum_inj g hn hr hp hid
    rw [← this]; exact hqr
  · intro h; exact ⟨p, ⟨hp, h⟩, rfl⟩

/-- **`CHPPowerFormula.generate()`** (`_get_chp_meters`: the SET of the meters in front of the CHPs) is the model's
`chpFormula`. -/
theorem chp_tie (g : Grid) (hd : DistinctIds g) : FormulaEquiv (S.chpFormula g) (Graph.chpFormula g) := by
  obtain ⟨hN, _⟩ := hd
  rw [List.nodup_cons] at hN
  have hchps : g.comps.filter (fun x => x.cat == Cat.chp) = ((enum g).filter (fun p => isChpN p.2)).map (cmp g) :=
    filter_comps g _ rfl (fun _ _ => rfl)
  have hc1 : g.comps.all (fun x => ((firstComp x.preds).cat == Cat.meter) || !(x.cat == Cat.chp))
      = (enum g).all (fun p => (pcatOf p.1 == Cat.meter) || !(isChpN p.2)) := by
    rw [all_comps g _ (by simp [Grid.comp, Comp.cat]) (by intro b anc; simp [Comp.cat])]
    exact all_congr_mem _ _ _ (fun p _ => by rw [par_cat]; rfl)
  have hc2 : g.comps.all (fun x => !(x.cat == Cat.chp)
        || ((firstComp x.preds).succs.all (fun y => memIds y (g.comps.filter (fun x => x.cat == Cat.chp)))))
      = (enum g).all (fun p => !(isChpN p.2) || (sibsOf g p.1).all isChpN) := by
    rw [all_comps g _ (by simp [Grid.comp, Comp.cat]) (by intro b anc; simp [Comp.cat])]
    refine all_congr_mem _ _ _ ?_
    intro p hp
    obtain ⟨a, n⟩ := p
    rw [par_succs g hp, hchps, List.all_map]
    congr 1
    refine all_congr_mem _ _ _ ?_
    intro c hc
    exact memIds_sel g hN.2 (fun p => isChpN p.2) ((enum_sibs g hp).2 c hc)
  have hc3 : g.comps.all (fun x => !(x.cat == Cat.chp) || (x.preds.length == 1)) = true := by
    rw [all_comps g _ (by simp [Grid.comp, Comp.cat]) (by intro b anc; simp [Comp.cat])]
    rw [List.all_eq_true]
    intro p _
    obtain ⟨a, n⟩ := p
    cases a <;> simp [Comp.preds]
  have hcond : ((g.comps.all (fun x => ((firstComp x.preds).cat == Cat.meter) || !(x.cat == Cat.chp)))
      && (g.comps.all (fun x => !(x.cat == Cat.chp)
        || ((firstComp x.preds).succs.all (fun y => memIds y (g.comps.filter (fun x => x.cat == Cat.chp))))))
      && (g.comps.all (fun x => !(x.cat == Cat.chp) || (x.preds.length == 1))))
      = !((g.succ.any isChpNode && chpPredecessorCat != .grid) || chpErrL g.succ) := by
    rw [hc1, hc2, hc3, Bool.and_true, all_and]
    have := chp_list g [] g.succ
    unfold chpOk at this
    rw [enum, this]
    have e : (pcatOf [] == Cat.meter) = false := rfl
    simp only [e, Bool.false_and, Bool.or_false, all_not_chp]
    have hf : (isChpN : Node → Bool) = isChpNode := rfl
    have hne : (Cat.meter != Cat.grid) = true := rfl
    simp [hf, chpPredecessorCat, Bool.not_or, hne]
  have hall : g.comps.all (fun x => !(x.cat == Cat.chp)) = (enum g).all (fun p => !(isChpN p.2)) :=
    all_comps g _ (by simp [Grid.comp, Comp.cat]) (by intro b anc; simp [Comp.cat])
  have hms : chpMetersL g.succ = ((enum g).filter (fun p => p.2.children.any isChpN)).map (fun p => p.2) :=
    chpMetersL_list [] g.succ
  simp only [Extracted.GraphLoops.chpFormula, Graph.chpFormula, hcond]
  by_cases herr : ((g.succ.any isChpNode && chpPredecessorCat != .grid) || chpErrL g.succ) = true
  · simp [herr, FormulaEquiv]
  · have herr' : ((g.succ.any isChpNode && chpPredecessorCat != .grid) || chpErrL g.succ) = false := by simpa using herr
    have hok : ∀ p ∈ enum g, chpOk g p = true := by
      have := hcond
      rw [herr', hc1, hc2, hc3, Bool.and_true, all_and, Bool.not_false, List.all_eq_true] at this
      intro p hp; simpa [chpOk] using this p hp
    simp only [herr', Bool.not_false, if_true, Bool.false_eq_true, if_false]
    -- the ids pushed: predecessor ids of the CHPs, without duplicates
    have hids : (g.comps.filter (fun x => x.cat == Cat.chp)).map (fun x => (firstComp x.preds).id)
        = ((enum g).filter (fun p => isChpN p.2)).map (fun p => pidOf g p.1) := by
      rw [hchps, List.map_map]
      exact List.map_congr_left (fun p _ => par_id g p)
    have hmem : ∀ i, i ∈ ((enum g).filter (fun p => isChpN p.2)).map (fun p => pidOf g p.1)
        ↔ i ∈ (chpMetersL g.succ).map Node.id := by
      intro i
      rw [hms, List.map_map]
      simp only [List.mem_map, List.mem_filter, Function.comp_def]
      constructor
      · rintro ⟨⟨a, n⟩, ⟨hp, hchp⟩, rfl⟩
        have h1 := hok _ hp
        simp only [chpOk, hchp, Bool.not_true, Bool.or_false, Bool.true_and, Bool.false_or, Bool.and_eq_true] at h1
        rcases (enum_ok g).up a n hp with ⟨rfl, _⟩ | ⟨id, cs, rest, rfl, hn, hm⟩
        · simp [pcatOf] at h1
        · refine ⟨(rest, .meter id cs), ⟨hm, ?_⟩, rfl⟩
          simp only [Node.children, List.any_eq_true]
          exact ⟨n, hn, hchp⟩
      · rintro ⟨⟨rest, m⟩, ⟨hp, hany⟩, rfl⟩
        cases m with
        | meter id cs =>
          simp only [Node.children, List.any_eq_true] at hany
          obtain ⟨c, hc, hchp⟩ := hany
          exact ⟨(.meter id cs :: rest, c), ⟨(enum_ok g).down id cs rest hp c hc, hchp⟩, rfl⟩
        | batInv _ _ => simp [Node.children] at hany
        | pvInv _ => simp [Node.children] at hany
        | ev _ => simp [Node.children] at hany
        | chp _ => simp [Node.children] at hany
    have hnd : ((chpMetersL g.succ).map Node.id).Nodup := by
      rw [hms, List.map_map]
      have : ((enum g).map (fun p => p.2.id)).Nodup := by rw [enum, enum_ids_list]; exact hN.2
      exact List.Nodup.sublist ((List.filter_sublist).map _) this
    have hperm : ((((enum g).filter (fun p => isChpN p.2)).map (fun p => pidOf g p.1)).eraseDups).Perm
        ((chpMetersL g.succ).map Node.id) :=
      (List.perm_ext_iff_of_nodup (nodup_eraseDups _) hnd).mpr (fun i => by rw [List.mem_eraseDups]; exact hmem i)
    rw [hall, hids]
    by_cases hempty : (enum g).all (fun p => !(isChpN p.2)) = true
    · have h1 : ((enum g).filter (fun p => isChpN p.2)) = [] := by
        rw [List.filter_eq_nil_iff]
        intro p hp
        have := List.all_eq_true.mp hempty p hp
        simpa using this
      have h2 : chpMetersL g.succ = [] := by
        have := hperm
        rw [h1] at this
        simpa using this.symm.eq_nil
      simp [hempty, h2, nonExisting, chpNoneNaz, nazEval, FormulaEquiv]
    · have h1 : ((enum g).filter (fun p => isChpN p.2)) ≠ [] := by
        intro h
        apply hempty
        rw [List.all_eq_true]
        intro p hp
        have := (List.filter_eq_nil_iff.mp h) p hp
        simpa using this
      have h2 : (chpMetersL g.succ).isEmpty = false := by
        cases hm' : chpMetersL g.succ with
        | nil =>
          exfalso
          rw [hm'] at hperm
          have := hperm.eq_nil
          cases hf' : ((enum g).filter (fun p => isChpN p.2)) with
          | nil => exact h1 hf'
          | cons q qs => rw [hf'] at this; simp [List.eraseDups_cons] at this
        | cons _ _ => rfl
      simp only [hempty, Bool.false_eq_true, if_false, h2, FormulaEquiv]
      have := hperm.map (fun i => (⟨false, i, false, []⟩ : Term))
      refine this.trans (List.Perm.of_eq ?_)
      rw [List.map_map]
      apply List.map_congr_left
      intro m _
      simp [chpNaz, nazEval]

/-! ## Battery inverters behind requested batteries (`BatteryPowerFormula`, `allow_fallback=False`) -/

mutual
theorem invsOf_enum (b : Nat) (root : Grid) : (anc : List Node) → (n : Node) →
    n.invsOf b root anc = ((nodesWith anc n).filter (fun p => p.2.bats.contains b)).map (cmp root)
  | anc, .meter id cs => by
    simp [Node.invsOf, nodesWith, List.filter_cons, Node.bats, invsOfL_enum b root (.meter id cs :: anc) cs]
  | anc, .batInv id bs => by
    simp only [Node.invsOf, nodesWith, List.filter_cons, List.filter_nil, Node.bats]
    split <;> simp
  | _, .pvInv _ => by simp [Node.invsOf, nodesWith, Node.bats]
  | _, .ev _ => by simp [Node.invsOf, nodesWith, Node.bats]
  | _, .chp _ => by simp [Node.invsOf, nodesWith, Node.bats]
theorem invsOfL_enum (b : Nat) (root : Grid) : (anc : List Node) → (ns : List Node) →
    invsOfL b root anc ns = ((nodesWithL anc ns).filter (fun p => p.2.bats.contains b)).map (cmp root)
  | _, [] => by simp [invsOfL, nodesWithL]
  | anc, n :: ns => by
    simp [invsOfL, nodesWithL, invsOf_enum b root anc n, invsOfL_enum b root anc ns]
end

mutual
theorem batErr_enum (S' : List Nat) : (anc : List Node) → (n : Node) →
    batErr S' n = (nodesWith anc n).any (fun p => batSel S' p.2 && !(p.2.bats.all (fun b => S'.contains b)))
  | anc, .meter id cs => by
    simp [batErr, nodesWith, batErrL_enum S' (.meter id cs :: anc) cs, batSel, Node.bats]
  | _, .batInv _ _ => by simp [batErr, nodesWith, Node.bats]
  | _, .pvInv _ => by simp [batErr, nodesWith, batSel, Node.bats]
  | _, .ev _ => by simp [batErr, nodesWith, batSel, Node.bats]
  | _, .chp _ => by simp [batErr, nodesWith, batSel, Node.bats]
theorem batErrL_enum (S' : List Nat) : (anc : List Node) → (ns : List Node) →
    batErrL S' ns = (nodesWithL anc ns).any (fun p => batSel S' p.2 && !(p.2.bats.all (fun b => S'.contains b)))
  | _, [] => by simp [batErrL, nodesWithL]
  | anc, n :: ns => by
    simp [batErrL, nodesWithL, List.any_append, batErr_enum S' anc n, batErrL_enum S' anc ns]
end

mutual
theorem allBats_enum : (anc : List Node) → (n : Node) → n.allBats = (nodesWith anc n).flatMap (fun p => p.2.bats)
  | anc, .meter id cs => by simp [Node.allBats, nodesWith, Node.bats, allBatsL_enum (.meter id cs :: anc) cs]
  | _, .batInv _ _ => by simp [Node.allBats, nodesWith, Node.bats]
  | _, .pvInv _ => by simp [Node.allBats, nodesWith, Node.bats]
  | _, .ev _ => by simp [Node.allBats, nodesWith, Node.bats]
  | _, .chp _ => by simp [Node.allBats, nodesWith, Node.bats]
theorem allBatsL_enum : (anc : List Node) → (ns : List Node) → allBatsL ns = (nodesWithL anc ns).flatMap (fun p => p.2.bats)
  | _, [] => by simp [allBatsL, nodesWithL]
  | anc, n :: ns => by simp [allBatsL, nodesWithL, allBats_enum anc n, allBatsL_enum anc ns]
end

/-- only battery inverters list batteries -/
theorem batSel_eq (S' : List Nat) (n : Node) : batSel S' n = n.bats.any (fun b => S'.contains b) := by
  cases n <;> simp [batSel, Node.bats, leafTest, Leaf.test, batteryInverterLeaf, batteryInverterTest, Node.cat, Node.ityp]

theorem isBI_of_bats (root : Grid) (p : List Node × Node) (b : Nat) (h : p.2.bats.contains b = true) :
    S.isBatteryInverter (cmp root p) = true := by
  obtain ⟨a, n⟩ := p
  cases n <;> simp_all [Node.bats, leafTest, Leaf.test, batteryInverterTest, Node.cat, Node.ityp]

theorem succs_bats (root : Grid) (ids : List Nat) (p : List Node × Node) :
    (cmp root p).succs.all (fun x => ids.contains x.id) = p.2.bats.all (fun b => ids.contains b)
      ∨ p.2.bats = [] := by
  obtain ⟨a, n⟩ := p
  cases n with
  | batInv id bs => left; simp [Comp.succs, Node.bats, List.all_map, Function.comp_def, Comp.id]
  | _ => right; rfl

/-- ids of the keys of a dict -/
def keyIds (d : CDict) : List Nat := d.map (fun e => e.1.id)

theorem has_keyIds (d : CDict) (k : Comp) : CDict.has d k = (keyIds d).contains k.id := by
  simp only [CDict.has, keyIds, List.contains_eq_any_beq, List.any_map, Function.comp_def]
  congr 1; funext e; exact Bool.beq_comm

theorem keyIds_set (d : CDict) (k : Comp) (v : List Comp) :
    keyIds (CDict.set d k v) = if (keyIds d).contains k.id then keyIds d else keyIds d ++ [k.id] := by
  unfold CDict.set
  rw [has_keyIds]
  split
  · simp only [keyIds, List.map_map]
    apply List.map_congr_left
    intro e _
    simp only [Function.comp_def]
    split <;> rfl
  · simp [keyIds]

/-- a loop that enters (or overwrites) one key per element that passes a test -/
theorem fold_set_keys (t : Comp → Bool) (v : Comp → List Comp) : ∀ (xs : List Comp) (d : CDict), (keyIds d).Nodup →
    (keyIds (xs.foldl (fun d x => if t x then CDict.set d x (v x) else d) d)).Nodup
      ∧ ∀ i, i ∈ keyIds (xs.foldl (fun d x => if t x then CDict.set d x (v x) else d) d)
          ↔ i ∈ keyIds d ∨ ∃ x ∈ xs, t x = true ∧ x.id = i := by
  intro xs
  induction xs with
  | nil => intro d hd; exact ⟨hd, by simp⟩
  | cons x xs ih =>
    intro d hd
    simp only [List.foldl_cons]
    by_cases ht : t x = true
    · simp only [ht, if_true]
      have hk := keyIds_set d x (v x)
      have hd' : (keyIds (CDict.set d x (v x))).Nodup := by
        rw [hk]; split
        · exact hd
        · rename_i hc
          rw [List.nodup_append]
          refine ⟨hd, by simp, ?_⟩
          intro a ha b hb hab
          simp at hb; subst hb; subst hab
          exact hc (by simpa using ha)
      obtain ⟨i1, i2⟩ := ih _ hd'
      refine ⟨i1, fun i => ?_⟩
      rw [i2, hk]
      constructor
      · rintro (h | ⟨y, hy, hty, rfl⟩)
        · split at h
          · exact Or.inl h
          · rcases List.mem_append.mp h with h' | h'
            · exact Or.inl h'
            · simp at h'; subst h'; exact Or.inr ⟨x, by simp, ht, rfl⟩
        · exact Or.inr ⟨y, by simp [hy], hty, rfl⟩
      · rintro (h | ⟨y, hy, hty, rfl⟩)
        · left; split
          · exact h
          · exact List.mem_append.mpr (Or.inl h)
        · rcases List.mem_cons.mp hy with rfl | hy'
          · left; split
            · rename_i hc; simpa using hc
            · simp
          · exact Or.inr ⟨y, hy', hty, rfl⟩
    · have ht' : t x = false := by simpa using ht
      simp only [ht', Bool.false_eq_true, if_false]
      obtain ⟨i1, i2⟩ := ih d hd
      refine ⟨i1, fun i => ?_⟩
      rw [i2]
      constructor
      · rintro (h | ⟨y, hy, hty, rfl⟩)
        · exact Or.inl h
        · exact Or.inr ⟨y, by simp [hy], hty, rfl⟩
      · rintro (h | ⟨y, hy, hty, rfl⟩)
        · exact Or.inl h
        · rcases List.mem_cons.mp hy with rfl | hy'
          · rw [ht'] at hty; cases hty
          · exact Or.inr ⟨y, hy', hty, rfl⟩

/-- the model's account of the battery formula without fallback: the inverters that list a requested battery
(`batSel`), an error when one of them also has a battery that is not requested (`batErrL`) -/
def batSelRef (g : Grid) (ids : List Nat) : Formula :=
  if ids.isEmpty then .ok [nonExisting batteryNoneNaz]
  else if batErrL ids g.succ then .error .formulaGenerationError
  else .ok (((enum g).filter (fun p => batSel ids p.2)).map (fun p => (⟨false, p.2.id, true, []⟩ : Term)))

/-- the nested loops of `BatteryPowerFormula.generate` that fill `inv_bat_mapping` -/
theorem fold_fold_keys (P : Nat → List Comp) (c : Nat → Bool) (t : Comp → Bool) (v : Comp → List Comp) :
    ∀ (bs : List Nat) (d : CDict), (keyIds d).Nodup →
    (keyIds (bs.foldl (fun d b => if c b then (P b).foldl (fun d x => if t x then CDict.set d x (v x) else d) d else d) d)).Nodup
      ∧ ∀ i, i ∈ keyIds (bs.foldl (fun d b => if c b then (P b).foldl (fun d x => if t x then CDict.set d x (v x) else d) d else d) d)
          ↔ i ∈ keyIds d ∨ ∃ b ∈ bs, c b = true ∧ ∃ x ∈ P b, t x = true ∧ x.id = i := by
  intro bs
  induction bs with
  | nil => intro d hd; exact ⟨hd, by simp⟩
  | cons b bs ih =>
    intro d hd
    simp only [List.foldl_cons]
    by_cases hc : c b = true
    · simp only [hc, if_true]
      obtain ⟨f1, f2⟩ := fold_set_keys t v (P b) d hd
      obtain ⟨i1, i2⟩ := ih _ f1
      refine ⟨i1, fun i => ?_⟩
      rw [i2, f2]
      constructor
      · rintro ((h | ⟨x, hx, htx, rfl⟩) | ⟨b', hb', hcb', x, hx, htx, rfl⟩)
        · exact Or.inl h
        · exact Or.inr ⟨b, by simp, hc, x, hx, htx, rfl⟩
        · exact Or.inr ⟨b', by simp [hb'], hcb', x, hx, htx, rfl⟩
      · rintro (h | ⟨b', hb', hcb', x, hx, htx, rfl⟩)
        · exact Or.inl (Or.inl h)
        · rcases List.mem_cons.mp hb' with rfl | hb''
          · exact Or.inl (Or.inr ⟨x, hx, htx, rfl⟩)
          · exact Or.inr ⟨b', hb'', hcb', x, hx, htx, rfl⟩
    · have hc' : c b = false := by simpa using hc
      simp only [hc', Bool.false_eq_true, if_false]
      obtain ⟨i1, i2⟩ := ih d hd
      refine ⟨i1, fun i => ?_⟩
      rw [i2]
      constructor
      · rintro (h | ⟨b', hb', hcb', rest⟩)
        · exact Or.inl h
        · exact Or.inr ⟨b', by simp [hb'], hcb', rest⟩
      · rintro (h | ⟨b', hb', hcb', rest⟩)
        · exact Or.inl h
        · rcases List.mem_cons.mp hb' with rfl | hb''
          · rw [hc'] at hcb'; cases hcb'
          · exact Or.inr ⟨b', hb'', hcb', rest⟩

/-- **`BatteryPowerFormula.generate()` with `allow_fallback=False`** (also the fallback formula of a battery meter):
which inverters are selected, and the error for a partially requested inverter, are the model's `batSel` / `batErrL`
— for requested ids that are battery ids of the graph. -/
theorem battery_sel_tie (g : Grid) (ids : List Nat) (hd : DistinctIds g) (hids : ∀ b ∈ ids, b ∈ allBatsL g.succ) :
    FormulaEquiv (S.batteryFormulaNoFallback g ids) (batSelRef g ids) := by
  obtain ⟨hN, _⟩ := hd
  rw [List.nodup_cons] at hN
  have hP : ∀ b, g.predsOfBat b = ((enum g).filter (fun p => p.2.bats.contains b)).map (cmp g) :=
    fun b => invsOfL_enum b g [] g.succ
  have hBI : ∀ b, ∀ x ∈ g.predsOfBat b, S.isBatteryInverter x = true := by
    intro b x hx
    rw [hP] at hx
    obtain ⟨p, hp, rfl⟩ := List.mem_map.mp hx
    exact isBI_of_bats g p b (List.mem_filter.mp hp).2
  have hA : ∀ b ∈ ids, (g.predsOfBat b).all (fun x => !(S.isBatteryInverter x)) = false := by
    intro b hb
    have := hids b hb
    rw [allBatsL_enum [] g.succ, List.mem_flatMap] at this
    obtain ⟨p, hp, hbp⟩ := this
    have hx : cmp g p ∈ g.predsOfBat b := by
      rw [hP]; exact List.mem_map.mpr ⟨p, List.mem_filter.mpr ⟨hp, by simpa using hbp⟩, rfl⟩
    rw [Bool.eq_false_iff]
    intro hall
    have := List.all_eq_true.mp hall _ hx
    simp [hBI b _ hx] at this
  have hB : ∀ b, (g.predsOfBat b).all (fun x => (x.succs.all (fun y => ids.contains y.id)) || !(S.isBatteryInverter x))
      = ((enum g).filter (fun p => p.2.bats.contains b)).all (fun p => p.2.bats.all (fun b' => ids.contains b')) := by
    intro b
    rw [hP, List.all_map]
    refine all_congr_mem _ _ _ ?_
    intro p hp
    have hpb := (List.mem_filter.mp hp).2
    simp only [Function.comp_def, isBI_of_bats g p b hpb, Bool.not_true, Bool.or_false]
    rcases succs_bats g ids p with h | h
    · exact h
    · rw [h] at hpb; simp at hpb
  have hfge : ids.all (fun b => ((g.predsOfBat b).all (fun x => !(S.isBatteryInverter x)))
        || ((g.predsOfBat b).all (fun x => (x.succs.all (fun y => ids.contains y.id)) || !(S.isBatteryInverter x))))
      = !(batErrL ids g.succ) := by
    have h1 : ids.all (fun b => ((g.predsOfBat b).all (fun x => !(S.isBatteryInverter x)))
          || ((g.predsOfBat b).all (fun x => (x.succs.all (fun y => ids.contains y.id)) || !(S.isBatteryInverter x))))
        = ids.all (fun b => ((enum g).filter (fun p => p.2.bats.contains b)).all
            (fun p => p.2.bats.all (fun b' => ids.contains b'))) :=
      all_congr_mem _ _ _ (fun b hb => by simp only [hA b hb, Bool.false_or, hB b])
    rw [h1, batErrL_enum ids [] g.succ, Bool.eq_iff_iff, Bool.not_eq_true', List.all_eq_true, List.any_eq_false]
    constructor
    · intro h p hp hsel
      rw [Bool.and_eq_true] at hsel
      obtain ⟨hs1, hs2⟩ := hsel
      rw [batSel_eq, List.any_eq_true] at hs1
      obtain ⟨b, hb, hbi⟩ := hs1
      have hbi' : b ∈ ids := by simpa using hbi
      have := List.all_eq_true.mp (h b hbi') p (List.mem_filter.mpr ⟨hp, by simpa using hb⟩)
      rw [this] at hs2; cases hs2
    · intro h b hb
      rw [List.all_eq_true]
      intro p hp
      obtain ⟨hp1, hp2⟩ := List.mem_filter.mp hp
      have hsel : batSel ids p.2 = true := by
        rw [batSel_eq, List.any_eq_true]
        exact ⟨b, by simpa using hp2, by simpa using hb⟩
      have := h p hp1
      rw [hsel, Bool.true_and] at this
      simpa using this
  simp only [Extracted.GraphLoops.batteryFormulaNoFallback, Extracted.GraphLoops.inverterBatteries, batSelRef]
  by_cases he : ids.isEmpty = true
  · simp [he, nonExisting, batteryNoneNaz, nazEval, FormulaEquiv]
  · simp only [he, Bool.false_eq_true, if_false]
    have hcnf : ids.all (fun b => !((g.predsOfBat b).all (fun x => !(S.isBatteryInverter x)))) = true := by
      rw [List.all_eq_true]; intro b hb; simp [hA b hb]
    rw [if_pos hcnf, hfge]
    by_cases herr : batErrL ids g.succ = true
    · simp [herr, FormulaEquiv]
    · have herr' : batErrL ids g.succ = false := by simpa using herr
      simp only [herr', Bool.not_false, if_true, Bool.false_eq_true, if_false, FormulaEquiv]
      -- the keys of the mapping
      obtain ⟨k1, k2⟩ := fold_fold_keys (fun b => (g.predsOfBat b).filter (fun x => S.isBatteryInverter x))
        (fun b => ((g.predsOfBat b).all (fun x => (x.succs.all (fun y => ids.contains y.id)) || !(S.isBatteryInverter x)))
          && !((g.predsOfBat b).all (fun x => !(S.isBatteryInverter x))))
        (fun x => x.succs.all (fun y => ids.contains y.id)) (fun x => x.succs) ids [] (by simp [keyIds])
      have hnd : (((enum g).filter (fun p => batSel ids p.2)).map (fun p => p.2.id)).Nodup := by
        have : ((enum g).map (fun p => p.2.id)).Nodup := by rw [enum, enum_ids_list]; exact hN.2
        exact List.Nodup.sublist ((List.filter_sublist).map _) this
      have hok : ∀ b ∈ ids, ∀ p ∈ enum g, p.2.bats.contains b = true → p.2.bats.all (fun b' => ids.contains b') = true := by
        intro b hb p hp hpb
        have := hfge
        rw [herr', Bool.not_false, List.all_eq_true] at this
        have h1 := this b hb
        rw [hA b hb, Bool.false_or, hB, List.all_eq_true] at h1
        exact h1 p (List.mem_filter.mpr ⟨hp, hpb⟩)
      have hmem : ∀ i, i ∈ keyIds (ids.foldl (fun d b =>
            if (((g.predsOfBat b).all (fun x => (x.succs.all (fun y => ids.contains y.id)) || !(S.isBatteryInverter x)))
              && !((g.predsOfBat b).all (fun x => !(S.isBatteryInverter x)))) then
              ((g.predsOfBat b).filter (fun x => S.isBatteryInverter x)).foldl
                (fun d x => if x.succs.all (fun y => ids.contains y.id) then CDict.set d x x.succs else d) d
            else d) [])
          ↔ i ∈ ((enum g).filter (fun p => batSel ids p.2)).map (fun p => p.2.id) := by
        intro i
        rw [k2]
        simp only [keyIds, List.map_nil, List.not_mem_nil, false_or]
        constructor
        · rintro ⟨b, hb, _, x, hx, _, rfl⟩
          have hx' := (List.mem_filter.mp hx).1
          rw [hP] at hx'
          obtain ⟨p, hp, rfl⟩ := List.mem_map.mp hx'
          obtain ⟨hp1, hp2⟩ := List.mem_filter.mp hp
          refine List.mem_map.mpr ⟨p, List.mem_filter.mpr ⟨hp1, ?_⟩, rfl⟩
          rw [batSel_eq, List.any_eq_true]
          exact ⟨b, by simpa using hp2, by simpa using hb⟩
        · intro hi
          obtain ⟨p, hp, rfl⟩ := List.mem_map.mp hi
          obtain ⟨hp1, hp2⟩ := List.mem_filter.mp hp
          rw [batSel_eq, List.any_eq_true] at hp2
          obtain ⟨b, hb, hbi⟩ := hp2
          have hbi' : b ∈ ids := by simpa using hbi
          have hpb : p.2.bats.contains b = true := by simpa using hb
          have hx : cmp g p ∈ g.predsOfBat b := by
            rw [hP]; exact List.mem_map.mpr ⟨p, List.mem_filter.mpr ⟨hp1, hpb⟩, rfl⟩
          have hall := hok b hbi' p hp1 hpb
          have hsucc : (cmp g p).succs.all (fun y => ids.contains y.id) = true := by
            rcases succs_bats g ids p with h | h
            · rw [h]; exact hall
            · rw [h] at hpb; simp at hpb
          refine ⟨b, hbi', ?_, cmp g p, List.mem_filter.mpr ⟨hx, hBI b _ hx⟩, hsucc, rfl⟩
          rw [hA b hbi', Bool.not_false, Bool.and_true, hB, List.all_eq_true]
          intro q hq
          obtain ⟨hq1, hq2⟩ := List.mem_filter.mp hq
          exact hok b hbi' q hq1 hq2
      have hperm := (List.perm_ext_iff_of_nodup k1 hnd).mpr hmem
      have := hperm.map (fun i => (⟨false, i, true, []⟩ : Term))
      simp only [keyIds, List.map_map, Function.comp_def] at this
      exact this

/-! ## The whole loop of `_get_metric_fallback_components`, with pairs (pool formulas)

Dicts are compared up to the order of their entries (`List.Perm`): the loop's operations respect it. -/

theorem has_perm {d1 d2 : CDict} (h : d1.Perm d2) (k : Comp) : CDict.has d1 k = CDict.has d2 k := by
  simp only [CDict.has]
  rw [Bool.eq_iff_iff, List.any_eq_true, List.any_eq_true]
  exact ⟨fun ⟨e, he, hk⟩ => ⟨e, h.mem_iff.mp he, hk⟩, fun ⟨e, he, hk⟩ => ⟨e, h.mem_iff.mpr he, hk⟩⟩

theorem set_perm {d1 d2 : CDict} (h : d1.Perm d2) (k : Comp) (v : List Comp) :
    (CDict.set d1 k v).Perm (CDict.set d2 k v) := by
  simp only [CDict.set, has_perm h k]
  split
  · exact h.map _
  · exact h.append_right _

theorem addTo_perm {d1 d2 : CDict} (h : d1.Perm d2) (k x : Comp) :
    (CDict.addTo d1 k x).Perm (CDict.addTo d2 k x) := by
  simp only [CDict.addTo, has_perm h k]
  split
  · exact h.map _
  · exact h.append_right _

theorem keyIds_perm {d1 d2 : CDict} (h : d1.Perm d2) : (keyIds d1).Perm (keyIds d2) := h.map _

theorem set_fresh (d : CDict) (k : Comp) (v : List Comp) (h : k.id ∉ keyIds d) : CDict.set d k v = d ++ [(k, v)] := by
  have : CDict.has d k = false := by rw [has_keyIds]; simpa using h
  simp [CDict.set, this]

theorem addTo_fresh (d : CDict) (k x : Comp) (h : k.id ∉ keyIds d) : CDict.addTo d k x = d ++ [(k, [x])] := by
  have : CDict.has d k = false := by rw [has_keyIds]; simpa using h
  simp [CDict.addTo, this]

/-- adding to the entry of `k` commutes with an unrelated entry at the end -/
theorem addTo_append_other (d : CDict) (e : Comp × List Comp) (k x : Comp) (h : e.1.id ≠ k.id) :
    (CDict.addTo (d ++ [e]) k x).Perm (CDict.addTo d k x ++ [e]) := by
  have hh : CDict.has (d ++ [e]) k = CDict.has d k := by
    rw [has_append]; simp [h]
  simp only [CDict.addTo, hh]
  split
  · simp only [List.map_append, List.map_cons, List.map_nil]
    have : (e.1.id == k.id) = false := by simpa using h
    simp [this]
  · simp only [List.append_assoc]
    exact List.Perm.append_left _ (List.Perm.swap _ _ _)

/-- several components added to the entry of one key -/
def addMany (d : CDict) (k : Comp) (vs : List Comp) : CDict := vs.foldl (fun d x => CDict.addTo d k x) d

theorem addMany_perm {d1 d2 : CDict} (h : d1.Perm d2) (k : Comp) : ∀ vs, (addMany d1 k vs).Perm (addMany d2 k vs) := by
  intro vs
  induction vs generalizing d1 d2 with
  | nil => exact h
  | cons x vs ih => exact ih (addTo_perm h k x)

theorem addMany_append_other (k : Comp) (e : Comp × List Comp) (h : e.1.id ≠ k.id) :
    ∀ (vs : List Comp) (d : CDict), (addMany (d ++ [e]) k vs).Perm (addMany d k vs ++ [e]) := by
  intro vs
  induction vs with
  | nil => intro d; exact List.Perm.refl _
  | cons x vs ih =>
    intro d
    simp only [addMany, List.foldl_cons]
    exact (addMany_perm (addTo_append_other d e k x h) k vs).trans (ih _)

theorem addMany_append_others (k : Comp) : ∀ (es : CDict), (∀ e ∈ es, e.1.id ≠ k.id) → ∀ (vs : List Comp) (d : CDict),
    (addMany (d ++ es) k vs).Perm (addMany d k vs ++ es) := by
  intro es
  induction es using List.reverseRecOn with
  | nil => intro _ vs d; simp
  | append_singleton es e ih =>
    intro h vs d
    rw [← List.append_assoc]
    refine (addMany_append_other k e (h e (by simp)) vs (d ++ es)).trans ?_
    rw [← List.append_assoc]
    exact List.Perm.append_right _ (ih (fun e' he' => h e' (by simp [he'])) vs d)

theorem addMany_fresh (d : CDict) (k : Comp) (h : k.id ∉ keyIds d) : ∀ (x : Comp) (vs : List Comp),
    addMany d k (x :: vs) = d ++ [(k, x :: vs)] := by
  intro x vs
  simp only [addMany, List.foldl_cons, addTo_fresh d k x h]
  induction vs using List.reverseRecOn with
  | nil => rfl
  | append_singleton vs y ih =>
    rw [List.foldl_append, ih]
    simp only [List.foldl_cons, List.foldl_nil, CDict.addTo]
    have : CDict.has (d ++ [(k, x :: vs)]) k = true := by rw [has_append]; simp
    simp only [this, if_true, List.map_append, List.map_cons, List.map_nil, beq_self_eq_true]
    have hd : d.map (fun e => if e.1.id == k.id then (e.1, e.2 ++ [y]) else e) = d := by
      conv_rhs => rw [← List.map_id d]
      apply List.map_congr_left
      intro e he
      have : e.1.id ≠ k.id := fun hk => h (by rw [← hk]; exact List.mem_map.mpr ⟨e, he, rfl⟩)
      simp [this]
    rw [hd]
    simp

section pool
variable (g : Grid) (sel : Node → Bool)

/-- the predecessor of the nodes whose ancestors are `anc` -/
def parComp : List Node → Comp
  | [] => g.comp
  | m :: rest => mk g rest m

theorem parComp_eq (p : List Node × Node) : firstComp (cmp g p).preds = parComp g p.1 := by
  obtain ⟨a, n⟩ := p; cases a <;> rfl

theorem parComp_id (anc : List Node) : (parComp g anc).id = pidOf g anc := by cases anc <;> rfl

/-- the pairing test of `_get_metric_fallback_components` in terms of the tree: the node and its predecessor are a
primary/fallback pair and all successors of the predecessor are selected -/
def pairedM (p : List Node × Node) : Bool :=
  (match p.1 with
    | [] => false
    | m :: rest => Graph.isPrimaryFallbackPair (posOf g rest) m p.2) && (sibsOf g p.1).all sel

mutual
/-- the entries the loop makes inside the subtree of a node (apart from what it adds to the entry of the node's
predecessor) -/
def wNode (anc : List Node) : Node → CDict
  | .meter id cs =>
    (if (cs.filter (fun c => sel c && pairedM g sel (.meter id cs :: anc, c))).isEmpty then []
      else [(mk g anc (.meter id cs),
        (cs.filter (fun c => sel c && pairedM g sel (.meter id cs :: anc, c))).map (mk g (.meter id cs :: anc)))])
      ++ wList (.meter id cs :: anc) cs
  | .batInv id bs =>
    if sel (.batInv id bs) && !pairedM g sel (anc, .batInv id bs) then [(mk g anc (.batInv id bs), [])] else []
  | .pvInv id => if sel (.pvInv id) && !pairedM g sel (anc, .pvInv id) then [(mk g anc (.pvInv id), [])] else []
  | .ev id => if sel (.ev id) && !pairedM g sel (anc, .ev id) then [(mk g anc (.ev id), [])] else []
  | .chp id => if sel (.chp id) && !pairedM g sel (anc, .chp id) then [(mk g anc (.chp id), [])] else []
def wList (anc : List Node) : List Node → CDict
  | [] => []
  | n :: ns => wNode anc n ++ wList anc ns
end

/-- the selected successors that join the entry of their predecessor -/
def pvList (anc : List Node) (ns : List Node) : List Comp :=
  (ns.filter (fun c => sel c && pairedM g sel (anc, c))).map (mk g anc)

mutual
theorem wNode_keys : (anc : List Node) → (n : Node) → ∀ i ∈ keyIds (wNode g sel anc n), i ∈ nodeIds n
  | anc, .meter id cs => by
    intro i hi
    simp only [wNode, keyIds, List.map_append, List.mem_append] at hi
    rcases hi with h | h
    · split at h
      · simp at h
      · simp at h; subst h; simp [nodeIds, Node.id]
    · simp [nodeIds, wList_keys (.meter id cs :: anc) cs i h]
  | anc, .batInv id bs => by intro i hi; simp only [wNode] at hi; split at hi <;> simp_all [keyIds, nodeIds, Node.id]
  | anc, .pvInv id => by intro i hi; simp only [wNode] at hi; split at hi <;> simp_all [keyIds, nodeIds, Node.id]
  | anc, .ev id => by intro i hi; simp only [wNode] at hi; split at hi <;> simp_all [keyIds, nodeIds, Node.id]
  | anc, .chp id => by intro i hi; simp only [wNode] at hi; split at hi <;> simp_all [keyIds, nodeIds, Node.id]
theorem wList_keys : (anc : List Node) → (ns : List Node) → ∀ i ∈ keyIds (wList g sel anc ns), i ∈ nodeIdsL ns
  | _, [] => by intro i hi; simp [wList, keyIds] at hi
  | anc, n :: ns => by
    intro i hi
    simp only [wList, keyIds, List.map_append, List.mem_append] at hi
    rcases hi with h | h
    · simp [nodeIdsL, wNode_keys anc n i h]
    · simp [nodeIdsL, wList_keys anc ns i h]
end

variable (L : List Comp)
variable (hsel : ∀ n, sel n = true → n.isMeter = false)
-- what one iteration of the loop does for a selected, enumerated node
variable (hstep : ∀ p ∈ enum g, sel p.2 = true → ∀ d : CDict,
  S.mfcStep L d (cmp g p) = if pairedM g sel p then CDict.addTo d (parComp g p.1) (cmp g p) else CDict.set d (cmp g p) [])

include hstep in
theorem fold_perm : ∀ (l : List (List Node × Node)), (∀ p ∈ l, p ∈ enum g ∧ sel p.2 = true) →
    ∀ (d1 d2 : CDict), d1.Perm d2 →
    (l.foldl (fun d p => S.mfcStep L d (cmp g p)) d1).Perm (l.foldl (fun d p => S.mfcStep L d (cmp g p)) d2) := by
  intro l
  induction l with
  | nil => intro _ d1 d2 h; exact h
  | cons p l ih =>
    intro hl d1 d2 h
    simp only [List.foldl_cons]
    refine ih (fun q hq => hl q (by simp [hq])) _ _ ?_
    obtain ⟨hp1, hp2⟩ := hl p (by simp)
    rw [hstep p hp1 hp2 d1, hstep p hp1 hp2 d2]
    split
    · exact addTo_perm h _ _
    · exact set_perm h _ _

theorem keyIds_addTo_subset (d : CDict) (k x : Comp) : ∀ i ∈ keyIds (CDict.addTo d k x), i ∈ keyIds d ∨ i = k.id := by
  intro i hi
  simp only [CDict.addTo] at hi
  split at hi
  · left
    simp only [keyIds, List.map_map, List.mem_map, Function.comp_def] at hi ⊢
    obtain ⟨e, he, rfl⟩ := hi
    exact ⟨e, he, by split <;> rfl⟩
  · simp only [keyIds, List.map_append, List.mem_append, List.map_cons, List.map_nil, List.mem_singleton] at hi
    exact hi

include hsel hstep in
mutual
theorem pool_node : (n : Node) → (anc : List Node) → (d : CDict) →
    (∀ p ∈ nodesWith anc n, p ∈ enum g) → (nodeIds n).Nodup → (∀ i ∈ nodeIds n, i ∉ keyIds d) →
    pidOf g anc ∉ nodeIds n →
    (((nodesWith anc n).filter (fun p => sel p.2)).foldl (fun d p => S.mfcStep L d (cmp g p)) d).Perm
      ((if sel n && pairedM g sel (anc, n) then CDict.addTo d (parComp g anc) (mk g anc n) else d) ++ wNode g sel anc n)
  | .meter id cs, anc, d, he, hn, hf, hp => by
    have hsm : sel (.meter id cs) = false := by
      cases h : sel (.meter id cs) with
      | false => rfl
      | true => have := hsel _ h; simp [Node.isMeter] at this
    simp only [nodeIds, List.nodup_cons] at hn
    have ih := pool_list cs (.meter id cs :: anc) d
      (fun p hp' => he p (by simp [nodesWith, hp'])) hn.2
      (fun i hi => hf i (by simp [nodeIds, hi])) (by simpa [pidOf, Node.id] using hn.1)
    simp only [nodesWith, List.filter_cons, hsm, Bool.false_eq_true, if_false, Bool.false_and]
    refine ih.trans ?_
    have hk : (parComp g (.meter id cs :: anc)).id ∉ keyIds d := by
      rw [parComp_id]; exact hf id (by simp [nodeIds])
    simp only [wNode, pvList]
    cases hvs : (cs.filter (fun c => sel c && pairedM g sel (.meter id cs :: anc, c))) with
    | nil => simp [addMany]
    | cons c rest =>
      simp only [List.map_cons, List.isEmpty_cons, Bool.false_eq_true, if_false]
      rw [addMany_fresh d _ hk]
      simp [parComp]
  | .batInv id bs, anc, d, he, _, hf, _ => by
    have hmem := he (anc, .batInv id bs) (by simp [nodesWith])
    simp only [nodesWith, List.filter_cons, List.filter_nil, wNode]
    by_cases hs : sel (.batInv id bs) = true
    · simp only [hs, if_true, List.foldl_cons, List.foldl_nil, Bool.true_and, hstep _ hmem hs]
      by_cases hp' : pairedM g sel (anc, .batInv id bs) = true
      · simp [hp']
      · have hp'' : pairedM g sel (anc, .batInv id bs) = false := by simpa using hp'
        simp only [hp'', Bool.false_eq_true, if_false, Bool.not_false, if_true]
        rw [set_fresh d (mk g anc (.batInv id bs)) [] (hf id (by simp [nodeIds]))]
    · have hs' : sel (.batInv id bs) = false := by simpa using hs
      simp [hs']
  | .pvInv id, anc, d, he, _, hf, _ => by
    have hmem := he (anc, .pvInv id) (by simp [nodesWith])
    simp only [nodesWith, List.filter_cons, List.filter_nil, wNode]
    by_cases hs : sel (.pvInv id) = true
    · simp only [hs, if_true, List.foldl_cons, List.foldl_nil, Bool.true_and, hstep _ hmem hs]
      by_cases hp' : pairedM g sel (anc, .pvInv id) = true
      · simp [hp']
      · have hp'' : pairedM g sel (anc, .pvInv id) = false := by simpa using hp'
        simp only [hp'', Bool.false_eq_true, if_false, Bool.not_false, if_true]
        rw [set_fresh d (mk g anc (.pvInv id)) [] (hf id (by simp [nodeIds]))]
    · have hs' : sel (.pvInv id) = false := by simpa using hs
      simp [hs']
  | .ev id, anc, d, he, _, hf, _ => by
    have hmem := he (anc, .ev id) (by simp [nodesWith])
    simp only [nodesWith, List.filter_cons, List.filter_nil, wNode]
    by_cases hs : sel (.ev id) = true
    · simp only [hs, if_true, List.foldl_cons, List.foldl_nil, Bool.true_and, hstep _ hmem hs]
      by_cases hp' : pairedM g sel (anc, .ev id) = true
      · simp [hp']
      · have hp'' : pairedM g sel (anc, .ev id) = false := by simpa using hp'
        simp only [hp'', Bool.false_eq_true, if_false, Bool.not_false, if_true]
        rw [set_fresh d (mk g anc (.ev id)) [] (hf id (by simp [nodeIds]))]
    · have hs' : sel (.ev id) = false := by simpa using hs
      simp [hs']
  | .chp id, anc, d, he, _, hf, _ => by
    have hmem := he (anc, .chp id) (by simp [nodesWith])
    simp only [nodesWith, List.filter_cons, List.filter_nil, wNode]
    by_cases hs : sel (.chp id) = true
    · simp only [hs, if_true, List.foldl_cons, List.foldl_nil, Bool.true_and, hstep _ hmem hs]
      by_cases hp' : pairedM g sel (anc, .chp id) = true
      · simp [hp']
      · have hp'' : pairedM g sel (anc, .chp id) = false := by simpa using hp'
        simp only [hp'', Bool.false_eq_true, if_false, Bool.not_false, if_true]
        rw [set_fresh d (mk g anc (.chp id)) [] (hf id (by simp [nodeIds]))]
    · have hs' : sel (.chp id) = false := by simpa using hs
      simp [hs']
theorem pool_list : (ns : List Node) → (anc : List Node) → (d : CDict) →
    (∀ p ∈ nodesWithL anc ns, p ∈ enum g) → (nodeIdsL ns).Nodup → (∀ i ∈ nodeIdsL ns, i ∉ keyIds d) →
    pidOf g anc ∉ nodeIdsL ns →
    (((nodesWithL anc ns).filter (fun p => sel p.2)).foldl (fun d p => S.mfcStep L d (cmp g p)) d).Perm
      (addMany d (parComp g anc) (pvList g sel anc ns) ++ wList g sel anc ns)
  | [], _, d, _, _, _, _ => by simp [nodesWithL, pvList, addMany, wList]
  | n :: ns, anc, d, he, hn, hf, hp => by
    simp only [nodeIdsL, List.nodup_append] at hn
    obtain ⟨hn1, hn2, hdisj⟩ := hn
    have h1 := pool_node n anc d (fun p hp' => he p (by simp [nodesWithL, hp'])) hn1
      (fun i hi => hf i (by simp [nodeIdsL, hi])) (fun h => hp (by simp [nodeIdsL, h]))
    simp only [nodesWithL, List.filter_append, List.foldl_append]
    -- the dict after the subtree of n
    let d' := (if sel n && pairedM g sel (anc, n) then CDict.addTo d (parComp g anc) (mk g anc n) else d)
    have hl : ∀ p ∈ (nodesWithL anc ns).filter (fun p => sel p.2), p ∈ enum g ∧ sel p.2 = true := by
      intro p hp'
      obtain ⟨a, b⟩ := List.mem_filter.mp hp'
      exact ⟨he p (by simp [nodesWithL, a]), b⟩
    have h2 := fold_perm g sel L hstep _ hl _ _ h1
    refine h2.trans ?_
    have hfresh : ∀ i ∈ nodeIdsL ns, i ∉ keyIds (d' ++ wNode g sel anc n) := by
      intro i hi hk
      simp only [keyIds, List.map_append, List.mem_append] at hk
      rcases hk with hk | hk
      · have : i ∈ keyIds d ∨ i = (parComp g anc).id := by
          show i ∈ keyIds d ∨ i = (parComp g anc).id
          by_cases hc : (sel n && pairedM g sel (anc, n)) = true
          · simp only [d', hc, if_true] at hk; exact keyIds_addTo_subset d _ _ i hk
          · simp only [d', hc, Bool.false_eq_true, if_false] at hk; exact Or.inl hk
        rcases this with h | h
        · exact hf i (by simp [nodeIdsL, hi]) h
        · rw [parComp_id] at h; subst h; exact hp (by simp [nodeIdsL, hi])
      · exact hdisj _ (wNode_keys g sel anc n i hk) _ hi rfl
    have h3 := pool_list ns anc (d' ++ wNode g sel anc n) (fun p hp' => he p (by simp [nodesWithL, hp'])) hn2 hfresh
      (fun h => hp (by simp [nodeIdsL, h]))
    refine h3.trans ?_
    have hother : ∀ e ∈ wNode g sel anc n, e.1.id ≠ (parComp g anc).id := by
      intro e he' h
      have := wNode_keys g sel anc n e.1.id (List.mem_map.mpr ⟨e, he', rfl⟩)
      rw [h, parComp_id] at this
      exact hp (by simp [nodeIdsL, this])
    have h4 := addMany_append_others (parComp g anc) (wNode g sel anc n) hother (pvList g sel anc ns) d'
    refine (List.Perm.append_right _ h4).trans ?_
    simp only [wList, List.append_assoc]
    refine List.Perm.append_right _ (List.Perm.of_eq ?_)
    simp only [pvList, List.filter_cons, d']
    by_cases hc : (sel n && pairedM g sel (anc, n)) = true
    · simp [hc, addMany]
    · simp [hc]
end

end pool

/-! ### the entries of the loop against the model's `poolTerms` -/

/-- an entry (component, its fallback components) as the model has it (nodes) -/
def toM (e : Comp × List Comp) : Node × List Node := (e.1.node, e.2.map Comp.node)

theorem map_node_mk (g : Grid) (anc : List Node) (l : List Node) : (l.map (mk g anc)).map Comp.node = l := by
  induction l with
  | nil => rfl
  | cons a l ih => simp [ih]

section pool2
variable (g : Grid) (sel : Node → Bool) (hsel : ∀ n, sel n = true → n.isMeter = false)

include hsel in
mutual
theorem wNode_pool : (anc : List Node) → (n : Node) →
    ((wNode g sel anc n).map toM).Perm
      ((if sel n && !pairedM g sel (anc, n) then [(n, [])] else []) ++ poolWalk true sel (posOf g anc) n)
  | anc, .meter id cs => by
    have ih := wList_pool (.meter id cs :: anc) cs
    have hpos : posOf g (.meter id cs :: anc) = belowMeter cs := rfl
    have hsm : sel (.meter id cs) = false := by
      cases h : sel (.meter id cs) with
      | false => rfl
      | true => have := hsel _ h; simp [Node.isMeter] at this
    have hpm : ∀ c, pairedM g sel (.meter id cs :: anc, c)
        = (Graph.isPrimaryFallbackPair (posOf g anc) (.meter id cs) c && (!true || cs.all sel)) := by
      intro c; simp [pairedM, sibsOf, Node.children]
    rw [hpos] at ih
    simp only [wNode, poolWalk, hsm, Bool.false_and, Bool.false_eq_true, if_false, List.nil_append, List.map_append]
    have hf : (fun c => sel c && pairedM g sel (.meter id cs :: anc, c))
        = (fun c => sel c && (Graph.isPrimaryFallbackPair (posOf g anc) (.meter id cs) c && (!true || cs.all sel))) := by
      funext c; rw [hpm]
    have hf' : (fun c => sel c && !pairedM g sel (.meter id cs :: anc, c))
        = (fun c => sel c && !(Graph.isPrimaryFallbackPair (posOf g anc) (.meter id cs) c && (!true || cs.all sel))) := by
      funext c; rw [hpm]
    rw [hf'] at ih
    rw [hf]
    have hhead : ∀ P : List Node, List.map toM (if P.isEmpty then []
          else [(mk g anc (.meter id cs), P.map (mk g (.meter id cs :: anc)))])
        = (if P.isEmpty then [] else [((Node.meter id cs), P)]) := by
      intro P
      have := map_node_mk g (.meter id cs :: anc) P
      rw [List.map_map] at this
      split <;> simp [toM, this]
    rw [hhead, List.append_assoc]
    exact List.Perm.append_left _ ih
  | anc, .batInv id bs => by
    simp only [wNode, poolWalk, List.append_nil]
    split <;> simp [toM]
  | anc, .pvInv id => by
    simp only [wNode, poolWalk, List.append_nil]
    split <;> simp [toM]
  | anc, .ev id => by
    simp only [wNode, poolWalk, List.append_nil]
    split <;> simp [toM]
  | anc, .chp id => by
    simp only [wNode, poolWalk, List.append_nil]
    split <;> simp [toM]
theorem wList_pool : (anc : List Node) → (ns : List Node) →
    ((wList g sel anc ns).map toM).Perm
      ((ns.filter (fun c => sel c && !pairedM g sel (anc, c))).map (fun c => (c, ([] : List Node)))
        ++ poolWalkL true sel (posOf g anc) ns)
  | _, [] => by simp [wList, poolWalkL]
  | anc, n :: ns => by
    have h1 := wNode_pool anc n
    have h2 := wList_pool anc ns
    simp only [wList, List.map_append, List.filter_cons, poolWalkL]
    refine (h1.append h2).trans ?_
    by_cases hc : (sel n && !pairedM g sel (anc, n)) = true
    · simp only [hc, if_true, List.map_cons, List.singleton_append, List.cons_append]
      refine List.Perm.cons _ ?_
      simp only [← List.append_assoc]
      refine List.Perm.append_right _ ?_
      exact List.perm_append_comm.append_right _ |>.trans (by rw [List.append_assoc]) |>.trans
        (List.perm_append_comm.trans (by simp [List.append_assoc]))
    · simp only [hc, Bool.false_eq_true, if_false, List.nil_append]
      simp only [← List.append_assoc]
      refine List.Perm.append_right _ ?_
      exact List.perm_append_comm
end

end pool2

theorem cat_ne_meter (n : Node) (h : n.isMeter = false) : (n.cat == Cat.meter) = false := by
  cases n <;> simp_all [Node.isMeter, Node.cat]

/-- the components the pool formulas start from: the selected nodes, in the order of `graph.components()` -/
def selComps (g : Grid) (sel : Node → Bool) : List Comp := ((enum g).filter (fun p => sel p.2)).map (cmp g)

/-- one iteration of the loop, for a selected node: the tree-level pairing test -/
theorem hstep_of (g : Grid) (sel : Node → Bool) (hsel : ∀ n, sel n = true → n.isMeter = false)
    (hn : (nodeIdsL g.succ).Nodup) :
    ∀ p ∈ enum g, sel p.2 = true → ∀ d : CDict,
      S.mfcStep (selComps g sel) d (cmp g p)
        = if pairedM g sel p then CDict.addTo d (parComp g p.1) (cmp g p) else CDict.set d (cmp g p) [] := by
  intro p hp hs d
  obtain ⟨a, n⟩ := p
  have hcat := cat_ne_meter n (hsel n hs)
  have hsub : subsetIds (firstComp (cmp g (a, n)).preds).succs (selComps g sel) = (sibsOf g a).all sel := by
    rw [par_succs g hp, subsetIds, List.all_map]
    refine all_congr_mem _ _ _ ?_
    intro c hc
    exact memIds_sel g hn (fun p => sel p.2) ((enum_sibs g hp).2 c hc)
  rw [mfcStep_tie, hsub]
  simp only [fallbackPrimaryCat, hcat, Bool.false_eq_true, if_false, pairRequiresAllRequested, Bool.not_true,
    Bool.false_or, pairedM]
  cases a with
  | nil =>
    have hpair : S.isPrimaryFallbackPair (firstComp (cmp g ([], n)).preds) (cmp g ([], n)) = false := pair_grid g _
    simp only [hpair, Bool.false_and, Bool.false_eq_true, if_false]
  | cons m rest =>
    have hpair : S.isPrimaryFallbackPair (firstComp (cmp g (m :: rest, n)).preds) (cmp g (m :: rest, n))
        = Graph.isPrimaryFallbackPair (posOf g rest) m n := pair_tie g rest (m :: rest) m n
    simp only [hpair]
    rfl

/-- **the whole loop of `_get_metric_fallback_components` on the selected components** (devices, in the order of
`graph.components()`): up to the order of the entries it makes the entries of the model's `poolTerms`. -/
theorem pool_loop (g : Grid) (sel : Node → Bool) (hsel : ∀ n, sel n = true → n.isMeter = false) (hd : DistinctIds g) :
    ∃ D : CDict, (S.metricFallbackComponents (selComps g sel)).Perm D
      ∧ (D.map toM).Perm (poolTerms true sel g)
      ∧ D = wList g sel [] g.succ := by
  obtain ⟨hN, _⟩ := hd
  rw [List.nodup_cons] at hN
  refine ⟨wList g sel [] g.succ, ?_, ?_, rfl⟩
  · have h := pool_list g sel (selComps g sel) hsel (hstep_of g sel hsel hN.2) g.succ [] []
      (fun p hp => hp) hN.2 (by simp [keyIds]) (by simpa [pidOf] using hN.1)
    have hpv : pvList g sel [] g.succ = [] := by
      simp [pvList, pairedM]
    rw [hpv] at h
    simp only [addMany, List.foldl_nil, List.nil_append] at h
    simpa [Extracted.GraphLoops.metricFallbackComponents, selComps, List.foldl_map, enum] using h
  · have h := wList_pool g sel hsel [] g.succ
    refine h.trans (List.Perm.of_eq ?_)
    simp only [poolTerms]
    congr 1
    have : (fun c => sel c && !pairedM g sel ([], c)) = sel := by
      funext c; simp [pairedM]
    rw [this]

/-! ## PV pool (`PVPowerFormula` with component ids) -/

mutual
theorem mem_comps_node (root : Grid) : (anc : List Node) → (n : Node) → ∀ x ∈ n.comps root anc,
    (∃ p ∈ nodesWith anc n, x = cmp root p) ∨ (∃ b anc', x = ⟨.bat b, anc', root⟩ ∧ b ∈ n.allBats)
  | anc, .meter id cs => by
    intro x hx
    simp only [Node.comps, List.mem_cons] at hx
    rcases hx with rfl | hx
    · exact Or.inl ⟨(anc, .meter id cs), by simp [nodesWith], rfl⟩
    · rcases mem_comps_list root (.meter id cs :: anc) cs x hx with ⟨p, hp, rfl⟩ | ⟨b, anc', rfl, hb⟩
      · exact Or.inl ⟨p, by simp [nodesWith, hp], rfl⟩
      · exact Or.inr ⟨b, anc', rfl, by simpa [Node.allBats] using hb⟩
  | anc, .batInv id bs => by
    intro x hx
    simp only [Node.comps, List.mem_cons, List.mem_map] at hx
    rcases hx with rfl | ⟨b, hb, rfl⟩
    · exact Or.inl ⟨(anc, .batInv id bs), by simp [nodesWith], rfl⟩
    · exact Or.inr ⟨b, _, rfl, by simpa [Node.allBats] using hb⟩
  | anc, .pvInv id => by
    intro x hx; simp [Node.comps] at hx; subst hx
    exact Or.inl ⟨(anc, .pvInv id), by simp [nodesWith], rfl⟩
  | anc, .ev id => by
    intro x hx; simp [Node.comps] at hx; subst hx
    exact Or.inl ⟨(anc, .ev id), by simp [nodesWith], rfl⟩
  | anc, .chp id => by
    intro x hx; simp [Node.comps] at hx; subst hx
    exact Or.inl ⟨(anc, .chp id), by simp [nodesWith], rfl⟩
theorem mem_comps_list (root : Grid) : (anc : List Node) → (ns : List Node) → ∀ x ∈ compsL root anc ns,
    (∃ p ∈ nodesWithL anc ns, x = cmp root p) ∨ (∃ b anc', x = ⟨.bat b, anc', root⟩ ∧ b ∈ allBatsL ns)
  | _, [] => by intro x hx; simp [compsL] at hx
  | anc, n :: ns => by
    intro x hx
    simp only [compsL, List.mem_append] at hx
    rcases hx with hx | hx
    · rcases mem_comps_node root anc n x hx with ⟨p, hp, rfl⟩ | ⟨b, anc', rfl, hb⟩
      · exact Or.inl ⟨p, by simp [nodesWithL, hp], rfl⟩
      · exact Or.inr ⟨b, anc', rfl, by simp [allBatsL, hb]⟩
    · rcases mem_comps_list root anc ns x hx with ⟨p, hp, rfl⟩ | ⟨b, anc', rfl, hb⟩
      · exact Or.inl ⟨p, by simp [nodesWithL, hp], rfl⟩
      · exact Or.inr ⟨b, anc', rfl, by simp [allBatsL, hb]⟩
end

/-- ids that name meters / devices only (not the grid, not a battery): the components with these ids -/
theorem filter_by_ids (g : Grid) (ids : List Nat) (hg : ids.contains g.id = false)
    (hb : ∀ b ∈ allBatsL g.succ, ids.contains b = false) :
    g.comps.filter (fun x => ids.contains x.id)
      = ((enum g).filter (fun p => ids.contains p.2.id)).map (cmp g) := by
  have h1 : g.comps.filter (fun x => ids.contains x.id) = g.comps.filter (fun x => x.isNode && ids.contains x.id) := by
    apply List.filter_congr
    intro x hx
    simp only [Grid.comps, List.mem_cons] at hx
    rcases hx with rfl | hx
    · have : ids.contains (g.comp).id = false := hg
      simp only [Grid.comp] at this
      simp [Comp.isNode, Grid.comp, List.contains_iff_mem] at this ⊢
      exact this
    · rcases mem_comps_list g [] g.succ x hx with ⟨p, _, rfl⟩ | ⟨b, anc', rfl, hb'⟩
      · simp [Comp.isNode]
      · have : ids.contains (⟨.bat b, anc', g⟩ : Comp).id = false := hb b hb'
        simp [Comp.isNode, List.contains_iff_mem] at this ⊢
        exact this
  rw [h1, filter_comps g _ (by simp [Grid.comp, Comp.isNode]) (by intro b anc; simp [Comp.isNode])]
  congr 1

mutual
theorem wNode_isNode (g : Grid) (sel : Node → Bool) : (anc : List Node) → (n : Node) →
    ∀ e ∈ wNode g sel anc n, e.1.isNode = true ∧ ∀ c ∈ e.2, c.isNode = true
  | anc, .meter id cs => by
    intro e he
    simp only [wNode, List.mem_append] at he
    rcases he with he | he
    · split at he
      · simp at he
      · simp at he; subst he
        refine ⟨rfl, ?_⟩
        intro c hc; obtain ⟨c', _, rfl⟩ := List.mem_map.mp hc; rfl
    · exact wList_isNode g sel (.meter id cs :: anc) cs e he
  | anc, .batInv id bs => by intro e he; simp only [wNode] at he; split at he <;> simp_all [Comp.isNode]
  | anc, .pvInv id => by intro e he; simp only [wNode] at he; split at he <;> simp_all [Comp.isNode]
  | anc, .ev id => by intro e he; simp only [wNode] at he; split at he <;> simp_all [Comp.isNode]
  | anc, .chp id => by intro e he; simp only [wNode] at he; split at he <;> simp_all [Comp.isNode]
theorem wList_isNode (g : Grid) (sel : Node → Bool) : (anc : List Node) → (ns : List Node) →
    ∀ e ∈ wList g sel anc ns, e.1.isNode = true ∧ ∀ c ∈ e.2, c.isNode = true
  | _, [] => by intro e he; simp [wList] at he
  | anc, n :: ns => by
    intro e he
    simp only [wList, List.mem_append] at he
    rcases he with he | he
    · exact wNode_isNode g sel anc n e he
    · exact wList_isNode g sel anc ns e he
end

theorem node_fields (c : Comp) (h : c.isNode = true) : c.id = c.node.id ∧ c.cat = c.node.cat := by
  obtain ⟨k, a, r⟩ := c
  cases k <;> simp_all [Comp.isNode, Comp.id, Comp.cat, Comp.node]

/-- the term pushed for an entry, in the model's terms -/
theorem entryTerm_toM (neg : Bool) (e : Comp × List Comp) (h : e.1.isNode = true ∧ ∀ c ∈ e.2, c.isNode = true) :
    entryTerm neg e = mkTerm neg (.notCat .meter) (.notCat .meter) (toM e) := by
  obtain ⟨h1, h2⟩ := h
  obtain ⟨i1, i2⟩ := node_fields e.1 h1
  simp only [entryTerm, mkTerm, toM, nazEval, i1, i2, List.map_map, Function.comp_def, bne]
  congr 1
  have : e.2.map (fun c => (c.id, !(c.cat == Cat.meter))) = e.2.map (fun c => (c.node.id, !(c.node.cat == Cat.meter))) := by
    apply List.map_congr_left
    intro c hc
    obtain ⟨j1, j2⟩ := node_fields c (h2 c hc)
    rw [j1, j2]
  split
  · rename_i he; simp [List.isEmpty_iff.mp he]
  · exact this

theorem set_ne_nil (d : CDict) (k : Comp) (v : List Comp) : CDict.set d k v ≠ [] := by
  unfold CDict.set
  split
  · rename_i h
    intro hm
    have : d = [] := by simpa using hm
    subst this; simp [CDict.has] at h
  · simp

theorem addTo_ne_nil (d : CDict) (k x : Comp) : CDict.addTo d k x ≠ [] := by
  unfold CDict.addTo
  split
  · rename_i h
    intro hm
    have : d = [] := by simpa using hm
    subst this; simp [CDict.has] at h
  · simp

/-- the loop never empties the dict, and yields entries as soon as there is a component -/
theorem fold_ne_nil (g : Grid) (sel : Node → Bool) (L : List Comp)
    (hstep : ∀ p ∈ enum g, sel p.2 = true → ∀ d : CDict,
      S.mfcStep L d (cmp g p) = if pairedM g sel p then CDict.addTo d (parComp g p.1) (cmp g p) else CDict.set d (cmp g p) []) :
    ∀ (l : List (List Node × Node)), (∀ p ∈ l, p ∈ enum g ∧ sel p.2 = true) → ∀ d : CDict, (d ≠ [] ∨ l ≠ []) →
    l.foldl (fun d p => S.mfcStep L d (cmp g p)) d ≠ [] := by
  intro l
  induction l with
  | nil => intro _ d h; rcases h with h | h; exact h; exact absurd rfl h
  | cons p l ih =>
    intro hl d _
    simp only [List.foldl_cons]
    refine ih (fun q hq => hl q (by simp [hq])) _ (Or.inl ?_)
    obtain ⟨h1, h2⟩ := hl p (by simp)
    rw [hstep p h1 h2]
    split
    · exact addTo_ne_nil _ _ _
    · exact set_ne_nil _ _ _

/-- the side condition of the pool formulas: the requested ids are ids of the pool's devices only -/
def IdsOf (g : Grid) (ids : List Nat) (kind : Node → Bool) : Prop :=
  ids.contains g.id = false ∧ (∀ b ∈ allBatsL g.succ, ids.contains b = false)
    ∧ ∀ p ∈ enum g, ids.contains p.2.id = true → kind p.2 = true

/-- **`PVPowerFormula.generate()` with component ids** (`PVPool`, also for a part of the inverters): the components
with the requested ids, `_get_metric_fallback_components` with its pairs, the fallback formulas — the model's
`pvFormula g (some ids)` (`poolWalk`). -/
theorem pv_pool_tie (g : Grid) (i : Nat) (is : List Nat) (hd : DistinctIds g) (hids : IdsOf g (i :: is) Node.isPv) :
    FormulaEquiv (S.pvFormula g true (i :: is)) (Graph.pvFormula g (some (i :: is))) := by
  obtain ⟨hg, hb, hk⟩ := hids
  have hsel : ∀ n, pvSel (i :: is) n = true → n.isMeter = false := by
    intro n h
    simp only [pvSel, Bool.and_eq_true] at h
    exact leafTest_isMeter _ n h.1
  have hL : g.comps.filter (fun x => (i :: is).contains x.id) = selComps g (pvSel (i :: is)) := by
    rw [filter_by_ids g _ hg hb, selComps]
    congr 1
    apply List.filter_congr
    intro p hp
    simp only [pvSel, leafTest_pv]
    by_cases hc : (i :: is).contains p.2.id = true
    · simp [hc, hk p hp hc]
    · have : (i :: is).contains p.2.id = false := by simpa using hc
      simp only [this, Bool.and_false]
  have hall : g.comps.all (fun x => !((i :: is).contains x.id)) = (selComps g (pvSel (i :: is))).isEmpty := by
    rw [← hL, Bool.eq_iff_iff, List.all_eq_true, List.isEmpty_iff, List.filter_eq_nil_iff]
    simp
  obtain ⟨D, p1, p2, rfl⟩ := pool_loop g (pvSel (i :: is)) hsel hd
  have hN := hd.1
  rw [List.nodup_cons] at hN
  simp only [Extracted.GraphLoops.pvFormula, Graph.pvFormula, Graph.pvFormulaR, pairRequiresAllRequested,
    List.isEmpty_cons, Bool.false_eq_true, if_false, if_true, hall, hL]
  have hterms : ((S.metricFallbackComponents (selComps g (pvSel (i :: is)))).map (entryTerm false)).Perm
      ((poolTerms true (pvSel (i :: is)) g).map (mkTerm false pvNaz pvNazNoFallback)) := by
    refine (p1.map _).trans ?_
    have : (wList g (pvSel (i :: is)) [] g.succ).map (entryTerm false)
        = ((wList g (pvSel (i :: is)) [] g.succ).map toM).map (mkTerm false pvNaz pvNazNoFallback) := by
      rw [List.map_map]
      apply List.map_congr_left
      intro e he
      exact entryTerm_toM false e (wList_isNode g _ [] g.succ e he)
    rw [this]
    exact p2.map _
  have hemp : (selComps g (pvSel (i :: is))).isEmpty = (poolTerms true (pvSel (i :: is)) g).isEmpty := by
    have hlen := (p1.trans (List.Perm.of_eq rfl)).length_eq
    have hlen2 := p2.length_eq
    rw [List.length_map] at hlen2
    cases hs : selComps g (pvSel (i :: is)) with
    | nil =>
      rw [hs] at hlen
      simp only [Extracted.GraphLoops.metricFallbackComponents, List.foldl_nil, List.length_nil] at hlen
      have : (poolTerms true (pvSel (i :: is)) g).length = 0 := by omega
      simp [List.length_eq_zero_iff.mp this]
    | cons x xs =>
      have hne : S.metricFallbackComponents (selComps g (pvSel (i :: is))) ≠ [] := by
        have := fold_ne_nil g (pvSel (i :: is)) (selComps g (pvSel (i :: is)))
          (hstep_of g _ hsel hN.2) ((enum g).filter (fun p => pvSel (i :: is) p.2))
          (fun p hp => ⟨(List.mem_filter.mp hp).1, (List.mem_filter.mp hp).2⟩) [] (Or.inr (by
            intro h
            rw [selComps, h] at hs
            simp at hs))
        simpa [Extracted.GraphLoops.metricFallbackComponents, selComps, List.foldl_map] using this
      have : (poolTerms true (pvSel (i :: is)) g) ≠ [] := by
        intro h
        rw [h] at hlen2
        have : (S.metricFallbackComponents (selComps g (pvSel (i :: is)))).length = 0 := by
          rw [hlen]; simpa using hlen2
        exact hne (List.length_eq_zero_iff.mp this)
      cases hpt : poolTerms true (pvSel (i :: is)) g with
      | nil => exact absurd hpt this
      | cons _ _ => rfl
  rw [hemp]
  by_cases he : (poolTerms true (pvSel (i :: is)) g).isEmpty = true
  · simp [he, nonExisting, pvNoneNaz, nazEval, FormulaEquiv]
  · have he' : (poolTerms true (pvSel (i :: is)) g).isEmpty = false := by simpa using he
    simp only [he', Bool.false_eq_true, if_false, FormulaEquiv]
    exact hterms

/-! ## Battery pool (`BatteryPowerFormula` with fallbacks): which primary components are pushed -/

/-- the key components of a dict -/
def keyComps (d : CDict) : List Comp := d.map (fun e => e.1)

theorem keyComps_set (d : CDict) (k : Comp) (v : List Comp) :
    ∀ x ∈ keyComps (CDict.set d k v), x ∈ keyComps d ∨ x = k := by
  intro x hx
  unfold CDict.set at hx
  split at hx
  · left
    simp only [keyComps, List.map_map, List.mem_map, Function.comp_def] at hx ⊢
    obtain ⟨e, he, rfl⟩ := hx
    exact ⟨e, he, by split <;> rfl⟩
  · simp only [keyComps, List.map_append, List.mem_append, List.map_cons, List.map_nil, List.mem_singleton] at hx
    exact hx

theorem keyComps_addTo (d : CDict) (k y : Comp) :
    ∀ x ∈ keyComps (CDict.addTo d k y), x ∈ keyComps d ∨ x = k := by
  intro x hx
  unfold CDict.addTo at hx
  split at hx
  · left
    simp only [keyComps, List.map_map, List.mem_map, Function.comp_def] at hx ⊢
    obtain ⟨e, he, rfl⟩ := hx
    exact ⟨e, he, by split <;> rfl⟩
  · simp only [keyComps, List.map_append, List.mem_append, List.map_cons, List.map_nil, List.mem_singleton] at hx
    exact hx

theorem keyIds_addTo (d : CDict) (k y : Comp) :
    keyIds (CDict.addTo d k y) = if (keyIds d).contains k.id then keyIds d else keyIds d ++ [k.id] := by
  unfold CDict.addTo
  rw [has_keyIds]
  split
  · simp only [keyIds, List.map_map]
    apply List.map_congr_left
    intro e _
    simp only [Function.comp_def]
    split <;> rfl
  · simp [keyIds]

theorem keyIds_eq (d : CDict) : keyIds d = (keyComps d).map Comp.id := by simp [keyIds, keyComps]

/-- the nested loops that fill `inv_bat_mapping`: every key is one of the inverters looked at -/
theorem fold_fold_keycomps (P : Nat → List Comp) (c : Nat → Bool) (t : Comp → Bool) (v : Comp → List Comp) :
    ∀ (bs : List Nat) (d : CDict),
    ∀ x ∈ keyComps (bs.foldl (fun d b => if c b then (P b).foldl (fun d x => if t x then CDict.set d x (v x) else d) d else d) d),
      x ∈ keyComps d ∨ ∃ b ∈ bs, x ∈ P b := by
  have inner : ∀ (xs : List Comp) (d : CDict),
      ∀ x ∈ keyComps (xs.foldl (fun d x => if t x then CDict.set d x (v x) else d) d), x ∈ keyComps d ∨ x ∈ xs := by
    intro xs
    induction xs with
    | nil => intro d x hx; exact Or.inl hx
    | cons y xs ih =>
      intro d x hx
      simp only [List.foldl_cons] at hx
      rcases ih _ x hx with h | h
      · split at h
        · rcases keyComps_set d y (v y) x h with h' | h'
          · exact Or.inl h'
          · exact Or.inr (by simp [h'])
        · exact Or.inl h
      · exact Or.inr (by simp [h])
  intro bs
  induction bs with
  | nil => intro d x hx; exact Or.inl hx
  | cons b bs ih =>
    intro d x hx
    simp only [List.foldl_cons] at hx
    rcases ih _ x hx with h | ⟨b', hb', hx'⟩
    · split at h
      · rcases inner (P b) d x h with h' | h'
        · exact Or.inl h'
        · exact Or.inr ⟨b, by simp, h'⟩
      · exact Or.inl h
    · exact Or.inr ⟨b', by simp [hb'], hx'⟩

/-- the inverters entered into `inv_bat_mapping`: exactly the selected ones (`batSel`), each once -/
theorem invbat_keys (g : Grid) (ids : List Nat) (hd : DistinctIds g) (hids : ∀ b ∈ ids, b ∈ allBatsL g.succ)
    (herr' : batErrL ids g.succ = false) :
    (keyIds (S.inverterBatteries g ids)).Nodup
      ∧ (∀ i, i ∈ keyIds (S.inverterBatteries g ids) ↔ i ∈ ((enum g).filter (fun p => batSel ids p.2)).map (fun p => p.2.id))
      ∧ (∀ x ∈ keyComps (S.inverterBatteries g ids), ∃ p ∈ enum g, x = cmp g p)
      ∧ (ids.all (fun b => !((g.predsOfBat b).all (fun x => !(S.isBatteryInverter x)))) = true)
      ∧ (ids.all (fun b => ((g.predsOfBat b).all (fun x => !(S.isBatteryInverter x)))
          || ((g.predsOfBat b).all (fun x => (x.succs.all (fun y => ids.contains y.id)) || !(S.isBatteryInverter x)))) = true) := by
  obtain ⟨hN, _⟩ := hd
  rw [List.nodup_cons] at hN
  have hP : ∀ b, g.predsOfBat b = ((enum g).filter (fun p => p.2.bats.contains b)).map (cmp g) :=
    fun b => invsOfL_enum b g [] g.succ
  have hBI : ∀ b, ∀ x ∈ g.predsOfBat b, S.isBatteryInverter x = true := by
    intro b x hx
    rw [hP] at hx
    obtain ⟨p, hp, rfl⟩ := List.mem_map.mp hx
    exact isBI_of_bats g p b (List.mem_filter.mp hp).2
  have hA : ∀ b ∈ ids, (g.predsOfBat b).all (fun x => !(S.isBatteryInverter x)) = false := by
    intro b hb
    have := hids b hb
    rw [allBatsL_enum [] g.succ, List.mem_flatMap] at this
    obtain ⟨p, hp, hbp⟩ := this
    have hx : cmp g p ∈ g.predsOfBat b := by
      rw [hP]; exact List.mem_map.mpr ⟨p, List.mem_filter.mpr ⟨hp, by simpa using hbp⟩, rfl⟩
    rw [Bool.eq_false_iff]
    intro hall
    have := List.all_eq_true.mp hall _ hx
    simp [hBI b _ hx] at this
  have hB : ∀ b, (g.predsOfBat b).all (fun x => (x.succs.all (fun y => ids.contains y.id)) || !(S.isBatteryInverter x))
      = ((enum g).filter (fun p => p.2.bats.contains b)).all (fun p => p.2.bats.all (fun b' => ids.contains b')) := by
    intro b
    rw [hP, List.all_map]
    refine all_congr_mem _ _ _ ?_
    intro p hp
    have hpb := (List.mem_filter.mp hp).2
    simp only [Function.comp_def, isBI_of_bats g p b hpb, Bool.not_true, Bool.or_false]
    rcases succs_bats g ids p with h | h
    · exact h
    · rw [h] at hpb; simp at hpb
  have hfge : ids.all (fun b => ((g.predsOfBat b).all (fun x => !(S.isBatteryInverter x)))
        || ((g.predsOfBat b).all (fun x => (x.succs.all (fun y => ids.contains y.id)) || !(S.isBatteryInverter x))))
      = !(batErrL ids g.succ) := by
    have h1 : ids.all (fun b => ((g.predsOfBat b).all (fun x => !(S.isBatteryInverter x)))
          || ((g.predsOfBat b).all (fun x => (x.succs.all (fun y => ids.contains y.id)) || !(S.isBatteryInverter x))))
        = ids.all (fun b => ((enum g).filter (fun p => p.2.bats.contains b)).all
            (fun p => p.2.bats.all (fun b' => ids.contains b'))) :=
      all_congr_mem _ _ _ (fun b hb => by simp only [hA b hb, Bool.false_or, hB b])
    rw [h1, batErrL_enum ids [] g.succ, Bool.eq_iff_iff, Bool.not_eq_true', List.all_eq_true, List.any_eq_false]
    constructor
    · intro h p hp hsel
      rw [Bool.and_eq_true] at hsel
      obtain ⟨hs1, hs2⟩ := hsel
      rw [batSel_eq, List.any_eq_true] at hs1
      obtain ⟨b, hb, hbi⟩ := hs1
      have hbi' : b ∈ ids := by simpa using hbi
      have := List.all_eq_true.mp (h b hbi') p (List.mem_filter.mpr ⟨hp, by simpa using hb⟩)
      rw [this] at hs2; cases hs2
    · intro h b hb
      rw [List.all_eq_true]
      intro p hp
      obtain ⟨hp1, hp2⟩ := List.mem_filter.mp hp
      have hsel : batSel ids p.2 = true := by
        rw [batSel_eq, List.any_eq_true]
        exact ⟨b, by simpa using hp2, by simpa using hb⟩
      have := h p hp1
      rw [hsel, Bool.true_and] at this
      simpa using this
  have hcnf : ids.all (fun b => !((g.predsOfBat b).all (fun x => !(S.isBatteryInverter x)))) = true := by
    rw [List.all_eq_true]; intro b hb; simp [hA b hb]
  simp only [Extracted.GraphLoops.inverterBatteries]
  -- the keys of the mapping
  obtain ⟨k1, k2⟩ := fold_fold_keys (fun b => (g.predsOfBat b).filter (fun x => S.isBatteryInverter x))
    (fun b => ((g.predsOfBat b).all (fun x => (x.succs.all (fun y => ids.contains y.id)) || !(S.isBatteryInverter x)))
      && !((g.predsOfBat b).all (fun x => !(S.isBatteryInverter x))))
    (fun x => x.succs.all (fun y => ids.contains y.id)) (fun x => x.succs) ids [] (by simp [keyIds])
  have hnd : (((enum g).filter (fun p => batSel ids p.2)).map (fun p => p.2.id)).Nodup := by
    have : ((enum g).map (fun p => p.2.id)).Nodup := by rw [enum, enum_ids_list]; exact hN.2
    exact List.Nodup.sublist ((List.filter_sublist).map _) this
  have hok : ∀ b ∈ ids, ∀ p ∈ enum g, p.2.bats.contains b = true → p.2.bats.all (fun b' => ids.contains b') = true := by
    intro b hb p hp hpb
    have := hfge
    rw [herr', Bool.not_false, List.all_eq_true] at this
    have h1 := this b hb
    rw [hA b hb, Bool.false_or, hB, List.all_eq_true] at h1
    exact h1 p (List.mem_filter.mpr ⟨hp, hpb⟩)
  have hmem : ∀ i, i ∈ keyIds (ids.foldl (fun d b =>
        if (((g.predsOfBat b).all (fun x => (x.succs.all (fun y => ids.contains y.id)) || !(S.isBatteryInverter x)))
          && !((g.predsOfBat b).all (fun x => !(S.isBatteryInverter x)))) then
          ((g.predsOfBat b).filter (fun x => S.isBatteryInverter x)).foldl
            (fun d x => if x.succs.all (fun y => ids.contains y.id) then CDict.set d x x.succs else d) d
        else d) [])
      ↔ i ∈ ((enum g).filter (fun p => batSel ids p.2)).map (fun p => p.2.id) := by
    intro i
    rw [k2]
    simp only [keyIds, List.map_nil, List.not_mem_nil, false_or]
    constructor
    · rintro ⟨b, hb, _, x, hx, _, rfl⟩
      have hx' := (List.mem_filter.mp hx).1
      rw [hP] at hx'
      obtain ⟨p, hp, rfl⟩ := List.mem_map.mp hx'
      obtain ⟨hp1, hp2⟩ := List.mem_filter.mp hp
      refine List.mem_map.mpr ⟨p, List.mem_filter.mpr ⟨hp1, ?_⟩, rfl⟩
      rw [batSel_eq, List.any_eq_true]
      exact ⟨b, by simpa using hp2, by simpa using hb⟩
    · intro hi
      obtain ⟨p, hp, rfl⟩ := List.mem_map.mp hi
      obtain ⟨hp1, hp2⟩ := List.mem_filter.mp hp
      rw [batSel_eq, List.any_eq_true] at hp2
      obtain ⟨b, hb, hbi⟩ := hp2
      have hbi' : b ∈ ids := by simpa using hbi
      have hpb : p.2.bats.contains b = true := by simpa using hb
      have hx : cmp g p ∈ g.predsOfBat b := by
        rw [hP]; exact List.mem_map.mpr ⟨p, List.mem_filter.mpr ⟨hp1, hpb⟩, rfl⟩
      have hall := hok b hbi' p hp1 hpb
      have hsucc : (cmp g p).succs.all (fun y => ids.contains y.id) = true := by
        rcases succs_bats g ids p with h | h
        · rw [h]; exact hall
        · rw [h] at hpb; simp at hpb
      refine ⟨b, hbi', ?_, cmp g p, List.mem_filter.mpr ⟨hx, hBI b _ hx⟩, hsucc, rfl⟩
      rw [hA b hbi', Bool.not_false, Bool.and_true, hB, List.all_eq_true]
      intro q hq
      obtain ⟨hq1, hq2⟩ := List.mem_filter.mp hq
      exact hok b hbi' q hq1 hq2
  refine ⟨k1, hmem, ?_, hcnf, by rw [hfge, herr']; rfl⟩
  intro x hx
  rcases fold_fold_keycomps (fun b => (g.predsOfBat b).filter (fun x => S.isBatteryInverter x))
      (fun b => ((g.predsOfBat b).all (fun x => (x.succs.all (fun y => ids.contains y.id)) || !(S.isBatteryInverter x)))
        && !((g.predsOfBat b).all (fun x => !(S.isBatteryInverter x))))
      (fun x => x.succs.all (fun y => ids.contains y.id)) (fun x => x.succs) ids [] x hx with h | ⟨b, _, hb⟩
  · simp [keyComps] at h
  · have := (List.mem_filter.mp hb).1
    rw [hP] at this
    obtain ⟨p, hp, rfl⟩ := List.mem_map.mp this
    exact ⟨p, (List.mem_filter.mp hp).1, rfl⟩

theorem memIds_perm {l1 l2 : List Comp} (h : l1.Perm l2) (x : Comp) : memIds x l1 = memIds x l2 := by
  simp only [memIds]
  rw [Bool.eq_iff_iff, List.any_eq_true, List.any_eq_true]
  exact ⟨fun ⟨e, he, hk⟩ => ⟨e, h.mem_iff.mp he, hk⟩, fun ⟨e, he, hk⟩ => ⟨e, h.mem_iff.mpr he, hk⟩⟩

theorem subsetIds_perm {l1 l2 : List Comp} (h : l1.Perm l2) (a : List Comp) : subsetIds a l1 = subsetIds a l2 := by
  simp only [subsetIds]
  exact all_congr_mem _ _ _ (fun x _ => memIds_perm h x)

/-- the loop looks at the requested components as a set only -/
theorem mfcStep_comps_perm {l1 l2 : List Comp} (h : l1.Perm l2) (d : CDict) (root : Grid) (anc : List Node) (n : Node) :
    S.mfcStep l1 d (mk root anc n) = S.mfcStep l2 d (mk root anc n) := by
  rw [mfcStep_tie, mfcStep_tie, subsetIds_perm h]

/-- the key under which the loop files a component -/
def keyOfC (L : List Comp) (x : Comp) : Comp :=
  if S.isPrimaryFallbackPair (firstComp x.preds) x && subsetIds (firstComp x.preds).succs L then firstComp x.preds else x

theorem keyOfC_perm {l1 l2 : List Comp} (h : l1.Perm l2) (x : Comp) : keyOfC l1 x = keyOfC l2 x := by
  simp only [keyOfC, subsetIds_perm h]

/-- one iteration for a device (not a meter): its key gets an entry, or its entry grows -/
theorem step_device (L : List Comp) (d : CDict) (root : Grid) (anc : List Node) (n : Node) (hm : n.isMeter = false) :
    keyIds (S.mfcStep L d (mk root anc n))
        = (if (keyIds d).contains (keyOfC L (mk root anc n)).id then keyIds d else keyIds d ++ [(keyOfC L (mk root anc n)).id])
      ∧ ∀ x ∈ keyComps (S.mfcStep L d (mk root anc n)), x ∈ keyComps d ∨ x = keyOfC L (mk root anc n) := by
  rw [mfcStep_tie]
  simp only [fallbackPrimaryCat, cat_ne_meter n hm, Bool.false_eq_true, if_false, pairRequiresAllRequested, Bool.not_true,
    Bool.false_or, keyOfC]
  split
  · exact ⟨keyIds_addTo _ _ _, keyComps_addTo _ _ _⟩
  · exact ⟨keyIds_set _ _ _, keyComps_set _ _ _⟩

/-- the keys after the loop over devices, in whatever order they are visited -/
theorem fold_keys (L : List Comp) (root : Grid) : ∀ (l : List Comp),
    (∀ x ∈ l, ∃ anc n, x = mk root anc n ∧ n.isMeter = false) → ∀ (d : CDict), (keyIds d).Nodup →
    (keyIds (l.foldl (S.mfcStep L) d)).Nodup
      ∧ (∀ i, i ∈ keyIds (l.foldl (S.mfcStep L) d) ↔ i ∈ keyIds d ∨ ∃ x ∈ l, (keyOfC L x).id = i)
      ∧ (∀ k ∈ keyComps (l.foldl (S.mfcStep L) d), k ∈ keyComps d ∨ ∃ x ∈ l, k = keyOfC L x) := by
  intro l
  induction l with
  | nil => intro _ d hd; exact ⟨hd, by simp, fun k hk => Or.inl hk⟩
  | cons y l ih =>
    intro hl d hd
    obtain ⟨anc, n, rfl, hm⟩ := hl y (by simp)
    obtain ⟨s1, s2⟩ := step_device L d root anc n hm
    have hd' : (keyIds (S.mfcStep L d (mk root anc n))).Nodup := by
      rw [s1]; split
      · exact hd
      · rename_i hc
        rw [List.nodup_append]
        refine ⟨hd, by simp, ?_⟩
        intro a ha b hb hab
        simp at hb; subst hb; subst hab
        exact hc (by simpa using ha)
    obtain ⟨i1, i2, i3⟩ := ih (fun x hx => hl x (by simp [hx])) _ hd'
    simp only [List.foldl_cons]
    refine ⟨i1, ?_, ?_⟩
    · intro i
      rw [i2, s1]
      constructor
      · rintro (h | ⟨x, hx, rfl⟩)
        · split at h
          · exact Or.inl h
          · rcases List.mem_append.mp h with h' | h'
            · exact Or.inl h'
            · simp at h'; exact Or.inr ⟨_, by simp, h'.symm⟩
        · exact Or.inr ⟨x, by simp [hx], rfl⟩
      · rintro (h | ⟨x, hx, rfl⟩)
        · left; split
          · exact h
          · exact List.mem_append.mpr (Or.inl h)
        · rcases List.mem_cons.mp hx with rfl | hx'
          · left; split
            · rename_i hc; simpa using hc
            · simp
          · exact Or.inr ⟨x, hx', rfl⟩
    · intro k hk
      rcases i3 k hk with h | ⟨x, hx, rfl⟩
      · rcases s2 k h with h' | h'
        · exact Or.inl h'
        · exact Or.inr ⟨_, by simp, h'⟩
      · exact Or.inr ⟨x, by simp [hx], rfl⟩

/-- the two error conditions of `BatteryPowerFormula.generate` -/
theorem battery_conds (g : Grid) (ids : List Nat) (hd : DistinctIds g) (hids : ∀ b ∈ ids, b ∈ allBatsL g.succ) :
    (ids.all (fun b => !((g.predsOfBat b).all (fun x => !(S.isBatteryInverter x)))) = true)
      ∧ (ids.all (fun b => ((g.predsOfBat b).all (fun x => !(S.isBatteryInverter x)))
          || ((g.predsOfBat b).all (fun x => (x.succs.all (fun y => ids.contains y.id)) || !(S.isBatteryInverter x))))
        = !(batErrL ids g.succ)) := by
  obtain ⟨hN, _⟩ := hd
  rw [List.nodup_cons] at hN
  have hP : ∀ b, g.predsOfBat b = ((enum g).filter (fun p => p.2.bats.contains b)).map (cmp g) :=
    fun b => invsOfL_enum b g [] g.succ
  have hBI : ∀ b, ∀ x ∈ g.predsOfBat b, S.isBatteryInverter x = true := by
    intro b x hx
    rw [hP] at hx
    obtain ⟨p, hp, rfl⟩ := List.mem_map.mp hx
    exact isBI_of_bats g p b (List.mem_filter.mp hp).2
  have hA : ∀ b ∈ ids, (g.predsOfBat b).all (fun x => !(S.isBatteryInverter x)) = false := by
    intro b hb
    have := hids b hb
    rw [allBatsL_enum [] g.succ, List.mem_flatMap] at this
    obtain ⟨p, hp, hbp⟩ := this
    have hx : cmp g p ∈ g.predsOfBat b := by
      rw [hP]; exact List.mem_map.mpr ⟨p, List.mem_filter.mpr ⟨hp, by simpa using hbp⟩, rfl⟩
    rw [Bool.eq_false_iff]
    intro hall
    have := List.all_eq_true.mp hall _ hx
    simp [hBI b _ hx] at this
  have hB : ∀ b, (g.predsOfBat b).all (fun x => (x.succs.all (fun y => ids.contains y.id)) || !(S.isBatteryInverter x))
      = ((enum g).filter (fun p => p.2.bats.contains b)).all (fun p => p.2.bats.all (fun b' => ids.contains b')) := by
    intro b
    rw [hP, List.all_map]
    refine all_congr_mem _ _ _ ?_
    intro p hp
    have hpb := (List.mem_filter.mp hp).2
    simp only [Function.comp_def, isBI_of_bats g p b hpb, Bool.not_true, Bool.or_false]
    rcases succs_bats g ids p with h | h
    · exact h
    · rw [h] at hpb; simp at hpb
  have hfge : ids.all (fun b => ((g.predsOfBat b).all (fun x => !(S.isBatteryInverter x)))
        || ((g.predsOfBat b).all (fun x => (x.succs.all (fun y => ids.contains y.id)) || !(S.isBatteryInverter x))))
      = !(batErrL ids g.succ) := by
    have h1 : ids.all (fun b => ((g.predsOfBat b).all (fun x => !(S.isBatteryInverter x)))
          || ((g.predsOfBat b).all (fun x => (x.succs.all (fun y => ids.contains y.id)) || !(S.isBatteryInverter x))))
        = ids.all (fun b => ((enum g).filter (fun p => p.2.bats.contains b)).all
            (fun p => p.2.bats.all (fun b' => ids.contains b'))) :=
      all_congr_mem _ _ _ (fun b hb => by simp only [hA b hb, Bool.false_or, hB b])
    rw [h1, batErrL_enum ids [] g.succ, Bool.eq_iff_iff, Bool.not_eq_true', List.all_eq_true, List.any_eq_false]
    constructor
    · intro h p hp hsel
      rw [Bool.and_eq_true] at hsel
      obtain ⟨hs1, hs2⟩ := hsel
      rw [batSel_eq, List.any_eq_true] at hs1
      obtain ⟨b, hb, hbi⟩ := hs1
      have hbi' : b ∈ ids := by simpa using hbi
      have := List.all_eq_true.mp (h b hbi') p (List.mem_filter.mpr ⟨hp, by simpa using hb⟩)
      rw [this] at hs2; cases hs2
    · intro h b hb
      rw [List.all_eq_true]
      intro p hp
      obtain ⟨hp1, hp2⟩ := List.mem_filter.mp hp
      have hsel : batSel ids p.2 = true := by
        rw [batSel_eq, List.any_eq_true]
        exact ⟨b, by simpa using hp2, by simpa using hb⟩
      have := h p hp1
      rw [hsel, Bool.true_and] at this
      simpa using this
  refine ⟨?_, hfge⟩
  rw [List.all_eq_true]; intro b hb; simp [hA b hb]


/-- sign, id and `nones_are_zeros` of a term -/
def primary (t : Term) : Bool × Nat × Bool := (t.neg, t.id, t.naz)

/-- equality of formulas in which primary components are pushed with which sign / `nones_are_zeros` (the fallback
formulas attached to the terms are not compared) -/
def FormulaEquivPrimary : Formula → Formula → Prop
  | .ok a, .ok b => (a.map primary).Perm (b.map primary)
  | .error e, .error e' => e = e'
  | _, _ => False

theorem keyOfC_enum (g : Grid) (L : List Comp) (p : List Node × Node) (hp : p ∈ enum g) :
    ∃ q ∈ enum g, keyOfC L (cmp g p) = cmp g q := by
  unfold keyOfC
  split
  · rename_i h
    obtain ⟨a, n⟩ := p
    rcases (enum_ok g).up a n hp with ⟨rfl, _⟩ | ⟨id, cs, rest, rfl, _, hm⟩
    · rw [Bool.and_eq_true] at h
      have : S.isPrimaryFallbackPair (firstComp (cmp g ([], n)).preds) (cmp g ([], n)) = false := pair_grid g _
      rw [this] at h; exact absurd h.1 (by simp)
    · exact ⟨(rest, .meter id cs), hm, rfl⟩
  · exact ⟨p, hp, rfl⟩

/-- **`BatteryPowerFormula.generate()` with fallbacks** (`BatteryPool`, also for a part of the batteries, also with
batteries that hang on several inverters): the error conditions, and which primary components (inverters, or the
battery meters that stand in for them — `_get_metric_fallback_components` with its pairs) are pushed with which sign and
`nones_are_zeros`, are the model's `batteryFormula` (`batErrL`, `poolWalk`). -/
theorem battery_primary_tie (g : Grid) (ids : List Nat) (hd : DistinctIds g) (hids : ∀ b ∈ ids, b ∈ allBatsL g.succ) :
    FormulaEquivPrimary (S.batteryFormula g ids) (Graph.batteryFormula g ids) := by
  obtain ⟨hcnf, hfge⟩ := battery_conds g ids hd hids
  have hN := hd.1
  rw [List.nodup_cons] at hN
  simp only [Extracted.GraphLoops.batteryFormula, Graph.batteryFormula, Graph.batteryFormulaR, pairRequiresAllRequested]
  by_cases he : ids.isEmpty = true
  · simp [he, nonExisting, batteryNoneNaz, nazEval, FormulaEquivPrimary, primary]
  · simp only [he, Bool.false_eq_true, if_false]
    rw [if_pos hcnf, hfge]
    by_cases herr : batErrL ids g.succ = true
    · simp [herr, FormulaEquivPrimary]
    · have herr' : batErrL ids g.succ = false := by simpa using herr
      simp only [herr', Bool.not_false, if_true, Bool.false_eq_true, if_false, FormulaEquivPrimary]
      obtain ⟨k1, k2, k3, -, -⟩ := invbat_keys g ids hd hids herr'
      have hsel : ∀ n, batSel ids n = true → n.isMeter = false := by
        intro n h
        simp only [batSel, Bool.and_eq_true] at h
        exact leafTest_isMeter _ n h.1
      -- the inverters the loop starts from, and the model's selection in the order of the components
      let LB := (S.inverterBatteries g ids).map (fun e => e.1)
      let SC := selComps g (batSel ids)
      have hLBid : LB.map Comp.id = keyIds (S.inverterBatteries g ids) := by simp [LB, keyIds]
      have hSCid : SC.map Comp.id = ((enum g).filter (fun p => batSel ids p.2)).map (fun p => p.2.id) := by
        simp [SC, selComps, List.map_map, Function.comp_def]
      have hndE : ((enum g).map (fun p => p.2.id)).Nodup := by rw [enum, enum_ids_list]; exact hN.2
      have hSCnd : (SC.map Comp.id).Nodup := by
        rw [hSCid]; exact List.Nodup.sublist ((List.filter_sublist).map _) hndE
      have hLBnd : (LB.map Comp.id).Nodup := by rw [hLBid]; exact k1
      have hperm : LB.Perm SC := by
        refine (List.perm_ext_iff_of_nodup (List.Nodup.of_map _ hLBnd) (List.Nodup.of_map _ hSCnd)).mpr ?_
        intro x
        constructor
        · intro hx
          obtain ⟨p, hp, rfl⟩ := k3 x (by simpa [keyComps, LB] using hx)
          have : (cmp g p).id ∈ keyIds (S.inverterBatteries g ids) := by
            rw [← hLBid]; exact List.mem_map.mpr ⟨_, hx, rfl⟩
          rw [k2] at this
          obtain ⟨q, hq, hqid⟩ := List.mem_map.mp this
          obtain ⟨hq1, hq2⟩ := List.mem_filter.mp hq
          have := enum_inj g hN.2 hq1 hp hqid
          subst this
          exact List.mem_map.mpr ⟨q, hq, rfl⟩
        · intro hx
          obtain ⟨p, hp, rfl⟩ := List.mem_map.mp hx
          have : p.2.id ∈ keyIds (S.inverterBatteries g ids) := by
            rw [k2]; exact List.mem_map.mpr ⟨p, hp, rfl⟩
          rw [← hLBid] at this
          obtain ⟨z, hz, hzid⟩ := List.mem_map.mp this
          obtain ⟨q, hq, rfl⟩ := k3 z (by simpa [keyComps, LB] using hz)
          have := enum_inj g hN.2 hq (List.mem_filter.mp hp).1 hzid
          subst this
          exact hz
      -- the devices the loops run over
      have hdev : ∀ (l : List Comp), l.Perm SC → ∀ x ∈ l, ∃ anc n, x = mk g anc n ∧ n.isMeter = false := by
        intro l hl x hx
        obtain ⟨p, hp, rfl⟩ := List.mem_map.mp (hl.mem_iff.mp hx)
        exact ⟨p.1, p.2, rfl, hsel _ (List.mem_filter.mp hp).2⟩
      obtain ⟨a1, a2, a3⟩ := fold_keys LB g LB (hdev LB hperm) [] (by simp [keyIds])
      obtain ⟨b1, b2, b3⟩ := fold_keys SC g SC (hdev SC (List.Perm.refl _)) [] (by simp [keyIds])
      have hkeys : (keyComps (S.metricFallbackComponents LB)).Perm (keyComps (S.metricFallbackComponents SC)) := by
        simp only [Extracted.GraphLoops.metricFallbackComponents]
        refine (List.perm_ext_iff_of_nodup (List.Nodup.of_map Comp.id (by rw [← keyIds_eq]; exact a1))
          (List.Nodup.of_map Comp.id (by rw [← keyIds_eq]; exact b1))).mpr ?_
        have key : ∀ (l1 l2 : List Comp), l1.Perm l2 → l2.Perm SC →
            (∀ k ∈ keyComps (l1.foldl (S.mfcStep l1) []), k ∈ keyComps ([] : CDict) ∨ ∃ x ∈ l1, k = keyOfC l1 x) →
            (∀ i, i ∈ keyIds (l2.foldl (S.mfcStep l2) []) ↔ i ∈ keyIds ([] : CDict) ∨ ∃ x ∈ l2, (keyOfC l2 x).id = i) →
            (∀ k ∈ keyComps (l2.foldl (S.mfcStep l2) []), k ∈ keyComps ([] : CDict) ∨ ∃ x ∈ l2, k = keyOfC l2 x) →
            ∀ k ∈ keyComps (l1.foldl (S.mfcStep l1) []), k ∈ keyComps (l2.foldl (S.mfcStep l2) []) := by
          intro l1 l2 h12 h2 c1 c2 c3 k hk
          rcases c1 k hk with h | ⟨x, hx, rfl⟩
          · simp [keyComps] at h
          · have hx2 : x ∈ l2 := h12.mem_iff.mp hx
            have hid : (keyOfC l2 x).id ∈ keyIds (l2.foldl (S.mfcStep l2) []) := (c2 _).mpr (Or.inr ⟨x, hx2, rfl⟩)
            rw [keyIds_eq] at hid
            obtain ⟨z, hz, hzid⟩ := List.mem_map.mp hid
            rcases c3 z hz with h | ⟨w, hw, rfl⟩
            · simp [keyComps] at h
            · obtain ⟨p, hp, rfl⟩ := List.mem_map.mp (h2.mem_iff.mp hx2)
              obtain ⟨pw, hpw, rfl⟩ := List.mem_map.mp (h2.mem_iff.mp hw)
              obtain ⟨q1, hq1, e1⟩ := keyOfC_enum g l2 p (List.mem_filter.mp hp).1
              obtain ⟨q2, hq2, e2⟩ := keyOfC_enum g l2 pw (List.mem_filter.mp hpw).1
              rw [keyOfC_perm h12, e1]
              rw [e2] at hz
              rw [e1, e2] at hzid
              have := enum_inj g hN.2 hq2 hq1 hzid
              subst this
              exact hz
        intro k
        exact ⟨key LB SC hperm (List.Perm.refl _) a3 b2 b3 k, key SC LB hperm.symm hperm b3 a2 a3 k⟩
      obtain ⟨D, p1, p2, rfl⟩ := pool_loop g (batSel ids) hsel hd
      -- assemble
      have hL : ((S.metricFallbackComponents LB).map (fun e =>
            primary (⟨false, e.1.id, !(e.1.cat == Cat.meter),
              if e.2.isEmpty then [] else fbPairs (S.batteryFormulaNoFallback g
                ((e.2.flatMap (fun x => CDict.get (S.inverterBatteries g ids) x)).map (fun x => x.id)))⟩ : Term)))
          = (keyComps (S.metricFallbackComponents LB)).map (fun k => (false, k.id, !(k.cat == Cat.meter))) := by
        simp [keyComps, primary, List.map_map, Function.comp_def]
      rw [List.map_map]
      refine (List.Perm.of_eq hL).trans ?_
      refine (hkeys.map _).trans ?_
      have h3 : (keyComps (S.metricFallbackComponents SC)).Perm (keyComps (wList g (batSel ids) [] g.succ)) := p1.map _
      refine (h3.map _).trans ?_
      have h4 : (keyComps (wList g (batSel ids) [] g.succ)).map (fun k => (false, k.id, !(k.cat == Cat.meter)))
          = ((wList g (batSel ids) [] g.succ).map toM).map (fun pf => primary (mkTerm false batteryNaz batteryNazNoFallback pf)) := by
        simp only [keyComps, List.map_map]
        apply List.map_congr_left
        intro e he'
        obtain ⟨i1, i2⟩ := node_fields e.1 (wList_isNode g _ [] g.succ e he').1
        simp [primary, mkTerm, toM, batteryNaz, nazEval, i1, i2, bne]
      rw [h4]
      have := p2.map (fun pf => primary (mkTerm false batteryNaz batteryNazNoFallback pf))
      refine this.trans (List.Perm.of_eq ?_)
      rw [List.map_map]; rfl

end GraphTie
