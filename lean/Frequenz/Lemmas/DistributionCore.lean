/-
Assembly of the stage lemmas into a specification of one run of `_distribute_power` (`CoreSpec`) and of
one group going through the per-inverter split.  Serves C01, C02.
-/
import Frequenz.Lemmas.Distribution
open Dist Extracted.Dist

namespace DistLemmas

theorem All2.and {α β : Type} {R S : α → β → Prop} : ∀ {xs : List α} {ys : List β}, All2 R xs ys → All2 S xs ys →
    All2 (fun a b => R a b ∧ S a b) xs ys
  | _, _, .nil, .nil => .nil
  | _, _, .cons h1 t1, .cons h2 t2 => .cons ⟨h1, h2⟩ (t1.and t2)

theorem All2.map_left {α β γ : Type} {R : γ → β → Prop} (f : α → γ) : ∀ {xs : List α} {ys : List β},
    All2 (fun a b => R (f a) b) xs ys → All2 R (xs.map f) ys
  | _, _, .nil => .nil
  | _, _, .cons h t => .cons h (t.map_left f)

theorem All2.of_forall {α : Type} {R : α → α → Prop} (h : ∀ a, R a a) : ∀ xs : List α, All2 R xs xs
  | [] => .nil
  | x :: xs => .cons (h x) (All2.of_forall h xs)

theorem All2.imp {α β : Type} {R S : α → β → Prop} (h : ∀ a b, R a b → S a b) : ∀ {xs : List α} {ys : List β},
    All2 R xs ys → All2 S xs ys
  | _, _, .nil => .nil
  | _, _, .cons h1 t => .cons (h _ _ h1) (t.imp h)

theorem All2.mem_left_of {α β : Type} {R : α → β → Prop} {P : α → Prop} : ∀ {xs : List α} {ys : List β},
    All2 R xs ys → (∀ x ∈ xs, P x) → All2 (fun a b => P a ∧ R a b) xs ys
  | _, _, .nil, _ => .nil
  | _, _, .cons h t, hp => .cons ⟨hp _ List.mem_cons_self, h⟩ (t.mem_left_of fun x hx => hp x (List.mem_cons_of_mem _ hx))

/-- Facts about a group's numbers that follow from consistent component data. -/
def ItemOK (it : Item) : Prop :=
  0 ≤ it.minP ∧ it.minP ≤ it.ub ∧ it.ng.batExcl ≤ it.minP ∧ it.ub ≤ it.ng.batIncl ∧
  (∀ ib, it.ng.invs = [ib] → ib.excl ≤ it.minP ∧ it.ub ≤ ib.incl) ∧
  (∀ ib ∈ it.ng.invs, 0 ≤ ib.excl ∧ 0 ≤ ib.incl ∧ (ib.excl ≤ ib.incl ∨ ib.incl = it.ng.batIncl))

/-- State of a group's slot when it is handed to the per-inverter split.
`lower` = "no isclose shortcut and left_over ≥ 0". -/
def SlotFin (lower : Prop) (s : Slot) : Prop :=
  (s.en.active = false ∧ s.p = 0) ∨
  (s.en.active = true ∧ s.p ≤ s.en.it.ub ∧ (lower → s.en.it.minP ≤ s.p) ∧
    (s.en.it.ratio = 0 → s.en.it.minP = 0 → 0 ≤ s.en.it.ub → s.p = 0))

/-- slot before the greedy step -/
def Slot0 (a : Bool) (s : Slot) : Prop :=
  (s.en.active = false ∧ s.p = 0 ∧ s.ub = 0) ∨
  (s.en.active = true ∧ s.ub = s.en.it.ub ∧ (s.en.it.minP ≤ s.en.it.ub → s.p ≤ s.ub) ∧
    (a = false → s.en.it.minP ≤ s.en.it.ub → s.en.it.minP ≤ s.p) ∧
    (s.en.it.ratio = 0 → s.en.it.minP = 0 → 0 ≤ s.en.it.ub → s.p = 0))

theorem slotOf_en (e : Entry) : (slotOf e).en = e := rfl
theorem slotOf_ub (e : Entry) : (slotOf e).ub = e.ub := rfl

theorem slot0_of_rel (a : Bool) (e0 e : Entry) (h0 : EntryInit e0) (hr : EnRel a e0 e) : Slot0 a (slotOf e) := by
  obtain ⟨r1, r2, r3, r4, r5, r6, r7⟩ := hr
  unfold Slot0
  simp only [slotOf_en, slotOf_ub, slotOf_p, r1, r2, r3, r4]
  rcases h0 with ⟨i1, i2, i3, i4, i5, i6⟩ | ⟨i1, i2, i3, i4, i5, i6⟩
  · left
    rw [i5] at r7
    cases hx : e.exc with
    | some y => rw [hx] at r7; exact absurd r7 (by simp [ExcRel])
    | none => exact ⟨i1, by rw [i3]; grind, i2⟩
  · right
    refine ⟨i1, i2, ?_⟩
    rw [i2, i3]
    rcases i5 with ⟨x, x1, x2, x3, x4⟩ | ⟨d, d1, d2⟩
    · rw [x1] at r7
      cases hx : e.exc with
      | none => rw [hx] at r7; exact absurd r7 (by simp [ExcRel])
      | some y =>
        rw [hx] at r7
        obtain ⟨q1, q2, q3⟩ := r7
        refine ⟨by intro; simp only []; grind, by intro ha hm; have := q3 ha (x4 hm); simp only []; grind, ?_⟩
        intro h1 h2 h3
        have := i6 h1 h2 h3
        rw [x1] at this
        have hx0 : x = 0 := by simpa using this
        have := q2 hx0
        simp only []; grind
    · rw [d2] at r7
      cases hx : e.exc with
      | some y => rw [hx] at r7; exact absurd r7 (by simp [ExcRel])
      | none =>
        refine ⟨by intro; simp only []; grind, by intro _ _; simp only []; grind, ?_⟩
        intro h1 h2 h3
        have := i6 h1 h2 h3
        rw [d2] at this; exact absurd this (by simp)


theorem greedy_rel (L : Rat) (ss : List Slot) : All2 GRel ss (greedy L ss).1 := by
  unfold greedy; split_ifs
  · exact All2.of_forall (fun s => ⟨rfl, rfl, fun h => h, fun _ => rfl⟩) ss
  · exact greedyGo_rel ss L

theorem greedy_sum (L : Rat) (ss : List Slot) :
    sumL ((greedy L ss).1.map (·.p)) + (greedy L ss).2 = sumL (ss.map (·.p)) + L := by
  unfold greedy; split_ifs
  · rfl
  · exact greedyGo_sum ss L

theorem greedy_mono (L : Rat) (ss : List Slot) (hL : 0 ≤ L) (hs : ∀ s ∈ ss, s.p ≤ s.ub) :
    All2 (fun s s' : Slot => s.p ≤ s'.p) ss (greedy L ss).1 ∧ 0 ≤ (greedy L ss).2 ∧ (greedy L ss).2 ≤ L := by
  unfold greedy; split_ifs
  · exact ⟨All2.of_forall (fun s => by grind) ss, hL, by grind⟩
  · exact greedyGo_mono ss L hL hs

theorem slotFin_of (a : Bool) (L : Rat) (s0 s : Slot) (h0 : Slot0 a s0) (hm : s0.en.it.minP ≤ s0.en.it.ub)
    (hr : GRel s0 s) (hmono : 0 ≤ L → s0.p ≤ s.p) : SlotFin (a = false ∧ 0 ≤ L) s := by
  obtain ⟨g1, g2, g3, g4⟩ := hr
  unfold SlotFin
  rw [g1]
  rcases h0 with ⟨a1, a2, a3⟩ | ⟨a1, a2, a3, a4, a5⟩
  · left; exact ⟨a1, by rw [g4 (a2 ▸ close_zero)]; exact a2⟩
  · right
    refine ⟨a1, ?_, ?_, ?_⟩
    · have := g3 (a3 hm); rw [a2] at this; exact this
    · intro ⟨ha, hL⟩; have := a4 ha hm; have := hmono hL; grind
    · intro h1 h2 h3; have hp := a5 h1 h2 h3; rw [g4 (hp ▸ close_zero)]; exact hp

theorem splitGo_zero_eq : ∀ (ibs : List IB) (rem : Rat), isCloseToZero rem →
    splitGo rem ibs = (ibs.map fun ib => (ib, (0 : Rat)), rem)
  | [], _, _ => rfl
  | ib :: ibs, rem, hc => by
    rw [splitGo_cons]
    have ht : ¬ splitTake rem ib.excl := fun ht => ht.1 hc
    simp only [ht, if_false, splitGo_zero_eq ibs rem hc, List.map_cons]

theorem zeroGroup_eq (it : Item) : zeroGroup it = splitGroup { en := tailEntry it, ub := 0, p := 0 } := by
  unfold zeroGroup splitGroup
  simp only [tailEntry]
  split
  · next ib h => simp only [h, List.map_cons, List.map_nil, splitSingle]
  · simp only [splitStart, splitGo_zero_eq _ _ close_zero]


theorem sumL_nonneg : ∀ l : List Rat, (∀ x ∈ l, 0 ≤ x) → 0 ≤ sumL l
  | [], _ => by simp only [sumL_nil]; grind
  | x :: l, h => by
    have := sumL_nonneg l (fun y hy => h y (List.mem_cons_of_mem _ hy))
    have := h x List.mem_cons_self
    simp only [sumL_cons]; grind

theorem sumL_map_zero {α : Type} (f : α → Rat) : ∀ l : List α, (∀ x ∈ l, f x = 0) → sumL (l.map f) = 0
  | [], _ => rfl
  | x :: l, h => by
    have := sumL_map_zero f l (fun y hy => h y (List.mem_cons_of_mem _ hy))
    have := h x List.mem_cons_self
    simp only [List.map_cons, sumL_cons]; grind

theorem sumL_map_congr {α : Type} (f g : α → Rat) : ∀ l : List α, (∀ x ∈ l, f x = g x) → sumL (l.map f) = sumL (l.map g)
  | [], _ => rfl
  | x :: l, h => by
    have := sumL_map_congr f g l (fun y hy => h y (List.mem_cons_of_mem _ hy))
    have := h x List.mem_cons_self
    simp only [List.map_cons, sumL_cons]; grind

/-- Everything the property theorems need to know about one run of `_distribute_power`. -/
structure CoreSpec (P : Rat) (items : List Item) (c : CoreOut) (slots : List Slot) : Prop where
  groups : c.groups = slots.map splitGroup
  ens : slots.map (·.en) = c.entries
  its : c.entries.map (·.it) = items
  sum : sumL (slots.map (·.p)) + c.rem = P - sumL c.adjs
  tracked : c.tracked = sumL ((c.entries.map slotOf).map (·.p)) + sumL c.adjs
  fin : (∀ it ∈ items, it.minP ≤ it.ub) → ∀ s ∈ slots, SlotFin (c.approx = false ∧ 0 ≤ c.left) s
  rem : (∀ it ∈ items, 0 ≤ it.minP ∧ it.minP ≤ it.ub) → c.approx = false → 0 ≤ c.left → c.adjs = [] → 0 ≤ P →
    0 ≤ c.rem ∧ c.rem ≤ P

theorem core_exit_spec (P S : Rat) (items : List Item) (hS : isCloseToZero S) :
    CoreSpec P items (core P S items) (items.map fun it => { en := tailEntry it, ub := 0, p := 0 }) := by
  have hc : core P S items = ⟨items.map zeroGroup, P, 0, [], P, false, items.map tailEntry⟩ := by
    unfold core; simp only [hS, if_true]
  rw [hc]
  refine ⟨?_, ?_, ?_, ?_, ?_, ?_, ?_⟩
  · simp only [List.map_map]; apply List.map_congr_left; intro it _; exact zeroGroup_eq it
  · simp only [List.map_map]; apply List.map_congr_left; intro it _; rfl
  · simp only [List.map_map]; conv => rhs; rw [← List.map_id items]
    apply List.map_congr_left; intro it _; rfl
  · simp only [List.map_map, sumL_nil]
    have := sumL_map_zero ((fun x : Slot => x.p) ∘ fun it => { en := tailEntry it, ub := 0, p := 0 }) items
      (fun _ _ => rfl)
    rw [this]; grind
  · simp only [List.map_map, sumL_nil]
    have := sumL_map_zero ((fun x : Slot => x.p) ∘ slotOf ∘ tailEntry) items (fun _ _ => rfl)
    rw [this]; grind
  · intro _ s hs
    obtain ⟨it, _, rfl⟩ := List.mem_map.mp hs
    exact Or.inl ⟨rfl, rfl⟩
  · intro _ _ _ _ hP; exact ⟨hP, by grind⟩


theorem core_main_spec (P S : Rat) (items : List Item) (hS : ¬ isCloseToZero S) :
    CoreSpec P items (core P S items)
      (greedy (finalLeftOver P ((cover P (reserve P S 0 0 S items)).D + excessTotal (cover P (reserve P S 0 0 S items)).es))
        ((cover P (reserve P S 0 0 S items)).es.map slotOf)).1 := by
  have hes0 := reserve_init P S items 0 0 S
  have hits := reserve_its P S items 0 0 S
  have inv := cover_inv P (reserve P S 0 0 S items)
  generalize hE : reserve P S 0 0 S items = es0 at *
  generalize hC : cover P es0 = cs at *
  obtain ⟨hrel, hD⟩ := inv
  have hc : core P S items = ⟨(greedy (finalLeftOver P (cs.D + excessTotal cs.es)) (cs.es.map slotOf)).1.map splitGroup,
      (greedy (finalLeftOver P (cs.D + excessTotal cs.es)) (cs.es.map slotOf)).2, cs.D + excessTotal cs.es, cs.adjs,
      finalLeftOver P (cs.D + excessTotal cs.es), cs.approx, cs.es⟩ := by
    unfold core; simp only [hS, if_false, hE, hC]
  rw [hc]
  generalize hL : finalLeftOver P (cs.D + excessTotal cs.es) = L
  have hLdef : L = P - (cs.D + excessTotal cs.es) := by rw [← hL]; rfl
  have grel := greedy_rel L (cs.es.map slotOf)
  have gsum := greedy_sum L (cs.es.map slotOf)
  -- bookkeeping identities
  have hbase : sumL (cs.es.map (·.base)) = sumL (es0.map (·.dInc)) := by
    rw [← hrel.map_eq (·.base) (·.base) (fun x y h => h.2.2.2.1.symm)]
    apply sumL_map_congr
    intro en hen
    rcases hes0 en hen with ⟨_, _, h3, h4, _⟩ | ⟨_, _, h3, h4, _⟩ <;> rw [h3, h4]
  have hslots := slot_sum cs.es
  have hits' : cs.es.map (·.it) = items := by
    rw [← hrel.map_eq (·.it) (·.it) (fun x y h => h.1.symm)]; exact hits
  -- per-slot facts before the greedy step
  have hslot0 : ∀ s0 ∈ cs.es.map slotOf, Slot0 cs.approx s0 ∧ s0.en.it ∈ items := by
    intro s0 hs0
    obtain ⟨e, he, rfl⟩ := List.mem_map.mp hs0
    obtain ⟨e0, he0, hr⟩ := hrel.mem_right e he
    refine ⟨slot0_of_rel _ e0 e (hes0 e0 he0) hr, ?_⟩
    rw [slotOf_en, ← hits']
    exact List.mem_map_of_mem he
  refine ⟨rfl, ?_, hits', ?_, ?_, ?_, ?_⟩
  · rw [← grel.map_eq (·.en) (·.en) (fun x y h => h.1.symm)]
    simp only [List.map_map]; conv => rhs; rw [← List.map_id cs.es]
    apply List.map_congr_left; intro e _; rfl
  · simp only []; grind
  · simp only []; grind
  · intro hok s hs
    have hle : ∀ s0 ∈ cs.es.map slotOf, s0.p ≤ s0.ub := by
      intro s0 hs0
      obtain ⟨h0, hit⟩ := hslot0 s0 hs0
      rcases h0 with ⟨_, a2, a3⟩ | ⟨_, _, a3, _⟩
      · rw [a2, a3]; grind
      · exact a3 (hok _ hit)
    have hmono : All2 (fun s0 s' : Slot => 0 ≤ L → s0.p ≤ s'.p) (cs.es.map slotOf) (greedy L (cs.es.map slotOf)).1 := by
      by_cases h : 0 ≤ L
      · exact (greedy_mono L _ h hle).1.imp (fun _ _ h _ => h)
      · exact grel.imp (fun _ _ _ h' => absurd h' h)
    obtain ⟨s0, hs0, ⟨h0, hit⟩, hg, hm⟩ := ((grel.and hmono).mem_left_of hslot0).mem_right s hs
    exact slotFin_of cs.approx L s0 s h0 (hok _ hit) hg hm
  · intro hok ha hL0 hadj hP
    simp only [] at ha hL0 hadj ⊢
    have hle : ∀ s0 ∈ cs.es.map slotOf, s0.p ≤ s0.ub := by
      intro s0 hs0
      obtain ⟨h0, hit⟩ := hslot0 s0 hs0
      rcases h0 with ⟨_, a2, a3⟩ | ⟨_, _, a3, _⟩
      · rw [a2, a3]; grind
      · exact a3 (hok _ hit).2
    obtain ⟨_, r1, r2⟩ := greedy_mono L _ hL0 hle
    refine ⟨r1, ?_⟩
    have hnn : 0 ≤ sumL ((cs.es.map slotOf).map (·.p)) := by
      apply sumL_nonneg
      intro x hx
      obtain ⟨s0, hs0, rfl⟩ := List.mem_map.mp hx
      obtain ⟨h0, hit⟩ := hslot0 s0 hs0
      rcases h0 with ⟨_, a2, _⟩ | ⟨_, _, _, a4, _⟩
      · rw [a2]; grind
      · have := a4 ha (hok _ hit).2; have := (hok _ hit).1; grind
    rw [hadj, sumL_nil] at hD
    grind

theorem core_spec (P S : Rat) (items : List Item) : ∃ slots, CoreSpec P items (core P S items) slots := by
  by_cases hS : isCloseToZero S
  · exact ⟨_, core_exit_spec P S items hS⟩
  · exact ⟨_, core_main_spec P S items hS⟩


/-! ## one group through the per-inverter split -/


theorem splitGroup_cases (s : Slot) :
    (∃ ib, s.en.it.ng.invs = [ib] ∧ splitGroup s = ⟨s, [(ib, s.p)], 0⟩) ∨
    ((∀ ib, s.en.it.ng.invs ≠ [ib]) ∧
      splitGroup s = ⟨s, (splitGo s.p s.en.it.ng.invs).1, (splitGo s.p s.en.it.ng.invs).2⟩) := by
  unfold splitGroup
  split
  · next ib h => exact Or.inl ⟨ib, h, rfl⟩
  · next h => exact Or.inr ⟨fun ib hib => h ib hib, rfl⟩

theorem splitGroup_slot (s : Slot) : (splitGroup s).slot = s := by
  rcases splitGroup_cases s with ⟨ib, _, h⟩ | ⟨_, h⟩ <;> rw [h]

theorem splitGroup_sum (s : Slot) : (splitGroup s).total + (splitGroup s).residual = s.p := by
  unfold GOut.total
  rcases splitGroup_cases s with ⟨ib, _, h⟩ | ⟨_, h⟩ <;> rw [h] <;> simp only []
  · simp only [List.map_cons, List.map_nil, sumL_cons, sumL_nil]; grind
  · exact splitGo_sum _ _

theorem splitGroup_fst (s : Slot) : (splitGroup s).sps.map (·.1) = s.en.it.ng.invs := by
  rcases splitGroup_cases s with ⟨ib, hi, h⟩ | ⟨_, h⟩ <;> rw [h] <;> simp only []
  · rw [hi]; rfl
  · exact splitGo_fst _ _

theorem splitGroup_zero (s : Slot) (hp : s.p = 0) : ∀ x ∈ (splitGroup s).sps, x.2 = 0 := by
  rcases splitGroup_cases s with ⟨ib, hi, h⟩ | ⟨_, h⟩ <;> rw [h] <;> simp only []
  · intro x hx; rw [List.mem_singleton.mp hx]; exact hp
  · rw [hp]; exact splitGo_zero _ _ close_zero

theorem slotFin_le_ub {lower : Prop} (s : Slot) (hok : ItemOK s.en.it) (hf : SlotFin lower s) : s.p ≤ s.en.it.ub := by
  obtain ⟨o1, o2, _⟩ := hok
  rcases hf with ⟨_, h⟩ | ⟨_, h, _⟩
  · rw [h]; grind
  · exact h

theorem slotFin_lower {lower : Prop} (s : Slot) (hf : SlotFin lower s) (hl : lower) : s.p = 0 ∨ s.en.it.minP ≤ s.p := by
  rcases hf with ⟨_, h⟩ | ⟨_, _, h, _⟩
  · exact Or.inl h
  · exact Or.inr (h hl)

theorem splitGroup_upper {lower : Prop} (s : Slot) (hok : ItemOK s.en.it) (hf : SlotFin lower s) :
    ∀ x ∈ (splitGroup s).sps, x.2 ≤ x.1.incl := by
  have hp := slotFin_le_ub s hok hf
  obtain ⟨o1, o2, o3, o4, o5, o6⟩ := hok
  rcases splitGroup_cases s with ⟨ib, hi, h⟩ | ⟨_, h⟩ <;> rw [h] <;> simp only []
  · intro x hx; rw [List.mem_singleton.mp hx]; have := (o5 ib hi).2; simp only []; grind
  · intro x hx
    have hmem : x.1 ∈ s.en.it.ng.invs := by
      rw [← splitGo_fst s.en.it.ng.invs s.p]; exact List.mem_map_of_mem hx
    have := (o6 x.1 hmem).2.1
    rcases splitGo_upper _ _ x hx with h0 | h1
    · rw [h0]; exact this
    · exact h1

theorem splitGroup_lower {lower : Prop} (s : Slot) (hok : ItemOK s.en.it) (hf : SlotFin lower s) (hl : lower) :
    ∀ x ∈ (splitGroup s).sps, x.2 = 0 ∨ x.1.excl ≤ x.2 := by
  have hp := slotFin_le_ub s hok hf
  have hlo := slotFin_lower s hf hl
  obtain ⟨o1, o2, o3, o4, o5, o6⟩ := hok
  rcases splitGroup_cases s with ⟨ib, hi, h⟩ | ⟨_, h⟩ <;> rw [h] <;> simp only []
  · intro x hx; rw [List.mem_singleton.mp hx]; have := (o5 ib hi).1; simp only []
    rcases hlo with h0 | h1
    · exact Or.inl h0
    · exact Or.inr (by grind)
  · intro x hx
    rcases splitGo_bounds s.en.it.ng.batIncl _ s.p (fun ib hib => ⟨(o6 ib hib).1, (o6 ib hib).2.2⟩) (by grind) x hx
      with h0 | h1
    · exact Or.inl h0
    · exact Or.inr h1.1

theorem splitGroup_nonneg {lower : Prop} (s : Slot) (hok : ItemOK s.en.it) (hf : SlotFin lower s) (hl : lower) :
    ∀ x ∈ (splitGroup s).sps, 0 ≤ x.2 := by
  intro x hx
  have hmem : x.1 ∈ s.en.it.ng.invs := by
    rw [← splitGroup_fst s]; exact List.mem_map_of_mem hx
  have := (hok.2.2.2.2.2 x.1 hmem).1
  rcases splitGroup_lower s hok hf hl x hx with h | h <;> grind

theorem splitGroup_total_upper {lower : Prop} (s : Slot) (hok : ItemOK s.en.it) (hf : SlotFin lower s) :
    (splitGroup s).total ≤ s.en.it.ng.batIncl := by
  have hp := slotFin_le_ub s hok hf
  have hsum := splitGroup_sum s
  obtain ⟨o1, o2, o3, o4, o5, o6⟩ := hok
  rcases splitGroup_cases s with ⟨ib, hi, h⟩ | ⟨_, h⟩
  · rw [h] at hsum ⊢; simp only [] at hsum; grind
  · rw [h] at hsum ⊢
    simp only [] at hsum
    have hres := splitGo_residual s.en.it.ng.invs s.p (fun ib hib => (o6 ib hib).1)
    by_cases hneg : s.p < 0
    · have := hres.2 hneg; grind
    · have := hres.1 (by grind); grind

theorem splitGroup_total_lower {lower : Prop} (s : Slot) (hok : ItemOK s.en.it) (hf : SlotFin lower s) (hl : lower)
    (hres : (splitGroup s).residual = 0) : (splitGroup s).total = 0 ∨ s.en.it.ng.batExcl ≤ (splitGroup s).total := by
  have hsum := splitGroup_sum s
  rw [hres] at hsum
  have hlo := slotFin_lower s hf hl
  have := hok.2.2.1
  rcases hlo with h | h
  · left; grind
  · right; grind

end DistLemmas
