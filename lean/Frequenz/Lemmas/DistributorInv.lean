/-
The invariant behind C14 (serves: C14): for every admissible history and every group, the model state
of the group is determined by the observable trace.
-/
import Frequenz.Lemmas.Distributor

namespace Distributor

/-- State of group `g` after `es`, expressed through the trace. -/
structure Inv (es : List Event) (g : Group) : Prop where
  flight : inFlight g (trace es) = if ((final es).processing g).isSome then 1 else 0
  pend : (final es).pending g = (waitingOf g (trace es)).getLast?
  idle : (final es).processing g = none → waitingOf g (trace es) = []
  proc : (final es).processing g ≠ none → (final es).processing g = (startsOf g (trace es)).getLast?
  split : ∃ A, arrivalsOf g (trace es) = A ++ waitingOf g (trace es) ∧ (startsOf g (trace es)).Sublist A ∧
      (startsOf g (trace es)).getLast? = A.getLast?

theorem inv_nil (g : Group) : Inv [] g := by
  refine ⟨by simp [inFlight, startsOf, completesOf, init], by simp [waitingOf, init], by simp [waitingOf],
    by simp [init], ⟨[], by simp [arrivalsOf, waitingOf, startsOf]⟩⟩

/-- A step of another group preserves the invariant of `g`. -/
theorem inv_other (es : List Event) (e : Event) (g : Group) (h : e.group ≠ g) (ih : Inv es g) :
    Inv (es ++ [e]) g := by
  obtain ⟨h1, h2, h3⟩ := step_other (final es) e g h
  have ha : arrivalReq g e = none := by
    cases e with
    | arrive g' r => simp [arrivalReq]; intro h'; exact h (by simp [Event.group, h'])
    | complete g' o => rfl
  have hc : isCompleteOf g e = false := by
    cases e with
    | arrive g' r => rfl
    | complete g' o => simp [isCompleteOf]; intro h'; exact h (by simp [Event.group, h'])
  have hs : startsOf g (trace (es ++ [e])) = startsOf g (trace es) := by
    simp [trace_snoc, startsOf_snoc, h3]
  have hw : waitingOf g (trace (es ++ [e])) = waitingOf g (trace es) := by
    simp [trace_snoc, waitingOf_snoc, waitingStep, h3, ha]
  have har : arrivalsOf g (trace (es ++ [e])) = arrivalsOf g (trace es) := by
    simp [trace_snoc, arrivalsOf_snoc, ha]
  have hf : inFlight g (trace (es ++ [e])) = inFlight g (trace es) := by
    simp [trace_snoc, inFlight_snoc, h3, hc]
  refine ⟨?_, ?_, ?_, ?_, ?_⟩
  · rw [hf, final_snoc, h1]; exact ih.flight
  · rw [hw, final_snoc, h2]; exact ih.pend
  · rw [hw, final_snoc, h1]; exact ih.idle
  · rw [hs, final_snoc, h1]; exact ih.proc
  · rw [hs, hw, har]; exact ih.split

theorem inv_arrive (es : List Event) (g : Group) (r : Req) (ih : Inv es g) :
    Inv (es ++ [Event.arrive g r]) g := by
  cases hp : (final es).processing g with
  | none =>
    have hst := step_arrive_idle (final es) g r hp
    have hw0 : waitingOf g (trace es) = [] := ih.idle hp
    have hs : startsOf g (trace (es ++ [Event.arrive g r])) = startsOf g (trace es) ++ [r] := by
      simp [trace_snoc, startsOf_snoc, hst, outReq]
    have hw : waitingOf g (trace (es ++ [Event.arrive g r])) = [] := by
      simp [trace_snoc, waitingOf_snoc, waitingStep, hst, outReq]
    have har : arrivalsOf g (trace (es ++ [Event.arrive g r])) = arrivalsOf g (trace es) ++ [r] := by
      simp [trace_snoc, arrivalsOf_snoc, arrivalReq]
    have hf : inFlight g (trace (es ++ [Event.arrive g r])) = inFlight g (trace es) + 1 := by
      simp [trace_snoc, inFlight_snoc, hst, outReq, isCompleteOf]
    have hproc : (final (es ++ [Event.arrive g r])).processing g = some r := by
      simp [final_snoc, hst]
    have hpend : (final (es ++ [Event.arrive g r])).pending g = (final es).pending g := by
      simp [final_snoc, hst]
    refine ⟨?_, ?_, ?_, ?_, ?_⟩
    · rw [hf, hproc, ih.flight, hp]; simp
    · rw [hw, hpend, ih.pend, hw0]
    · intro h; rw [hproc] at h; cases h
    · intro _; rw [hproc, hs]; simp
    · obtain ⟨A, hA1, hA2, hA3⟩ := ih.split
      refine ⟨A ++ [r], ?_, ?_, ?_⟩
      · rw [har, hw, hA1, hw0]; simp
      · rw [hs]; exact List.Sublist.append hA2 (List.Sublist.refl _)
      · rw [hs]; simp
  | some r0 =>
    have hst := step_arrive_busy (final es) g r r0 hp
    have hs : startsOf g (trace (es ++ [Event.arrive g r])) = startsOf g (trace es) := by
      simp [trace_snoc, startsOf_snoc, hst]
    have hw : waitingOf g (trace (es ++ [Event.arrive g r])) = waitingOf g (trace es) ++ [r] := by
      simp [trace_snoc, waitingOf_snoc, waitingStep, hst, arrivalReq]
    have har : arrivalsOf g (trace (es ++ [Event.arrive g r])) = arrivalsOf g (trace es) ++ [r] := by
      simp [trace_snoc, arrivalsOf_snoc, arrivalReq]
    have hf : inFlight g (trace (es ++ [Event.arrive g r])) = inFlight g (trace es) := by
      simp [trace_snoc, inFlight_snoc, hst, isCompleteOf]
    have hproc : (final (es ++ [Event.arrive g r])).processing g = some r0 := by
      simp [final_snoc, hst, hp]
    have hpend : (final (es ++ [Event.arrive g r])).pending g = some r := by
      simp [final_snoc, hst]
    refine ⟨?_, ?_, ?_, ?_, ?_⟩
    · rw [hf, hproc, ih.flight, hp]
    · rw [hw, hpend]; simp
    · intro h; rw [hproc] at h; cases h
    · intro _; rw [hproc, hs, ← hp]; exact ih.proc (by rw [hp]; simp)
    · obtain ⟨A, hA1, hA2, hA3⟩ := ih.split
      refine ⟨A, ?_, ?_, ?_⟩
      · rw [har, hw, hA1]; simp
      · rw [hs]; exact hA2
      · rw [hs]; exact hA3

theorem inv_complete (es : List Event) (g : Group) (o : Outcome) (ih : Inv es g)
    (hfl : 1 ≤ inFlight g (trace es)) : Inv (es ++ [Event.complete g o]) g := by
  have hbusy : ((final es).processing g).isSome = true := by
    have := ih.flight
    cases h : ((final es).processing g).isSome with
    | true => rfl
    | false => rw [h] at this; simp at this; omega
  cases hq : (final es).pending g with
  | some r =>
    have hst := step_complete_pending (final es) g o r hq
    have hlast : (waitingOf g (trace es)).getLast? = some r := by rw [← ih.pend]; exact hq
    have hs : startsOf g (trace (es ++ [Event.complete g o])) = startsOf g (trace es) ++ [r] := by
      simp [trace_snoc, startsOf_snoc, hst, outReq]
    have hw : waitingOf g (trace (es ++ [Event.complete g o])) = [] := by
      simp [trace_snoc, waitingOf_snoc, waitingStep, hst, outReq]
    have har : arrivalsOf g (trace (es ++ [Event.complete g o])) = arrivalsOf g (trace es) := by
      simp [trace_snoc, arrivalsOf_snoc, arrivalReq]
    have hf : inFlight g (trace (es ++ [Event.complete g o])) = inFlight g (trace es) := by
      simp [trace_snoc, inFlight_snoc, hst, outReq, isCompleteOf]
    have hproc : (final (es ++ [Event.complete g o])).processing g = some r := by
      simp [final_snoc, hst]
    have hpend : (final (es ++ [Event.complete g o])).pending g = none := by
      simp [final_snoc, hst]
    refine ⟨?_, ?_, ?_, ?_, ?_⟩
    · rw [hf, hproc, ih.flight, hbusy]; simp
    · rw [hw, hpend]; simp
    · intro h; rw [hproc] at h; cases h
    · intro _; rw [hproc, hs]; simp
    · obtain ⟨A, hA1, hA2, hA3⟩ := ih.split
      have hmem : r ∈ waitingOf g (trace es) := List.mem_of_getLast? hlast
      have hne : waitingOf g (trace es) ≠ [] := List.ne_nil_of_mem hmem
      refine ⟨A ++ waitingOf g (trace es), ?_, ?_, ?_⟩
      · rw [har, hw, hA1]; simp
      · rw [hs]; exact List.Sublist.append hA2 (List.singleton_sublist.mpr hmem)
      · rw [hs, List.getLast?_append, List.getLast?_append, hlast]; simp
  | none =>
    obtain ⟨a1, a2, a3, _⟩ := step_complete_nopending (final es) g o hq
    have hw0 : waitingOf g (trace es) = [] := by
      have := ih.pend; rw [hq] at this
      exact List.getLast?_eq_none_iff.mp this.symm
    have hs : startsOf g (trace (es ++ [Event.complete g o])) = startsOf g (trace es) := by
      simp [trace_snoc, startsOf_snoc, a1]
    have hw : waitingOf g (trace (es ++ [Event.complete g o])) = waitingOf g (trace es) := by
      simp [trace_snoc, waitingOf_snoc, waitingStep, a1, arrivalReq]
    have har : arrivalsOf g (trace (es ++ [Event.complete g o])) = arrivalsOf g (trace es) := by
      simp [trace_snoc, arrivalsOf_snoc, arrivalReq]
    have hf : inFlight g (trace (es ++ [Event.complete g o])) = inFlight g (trace es) - 1 := by
      simp [trace_snoc, inFlight_snoc, a1, isCompleteOf]
    have hproc : (final (es ++ [Event.complete g o])).processing g = none := by
      rw [final_snoc]; exact a3
    have hpend : (final (es ++ [Event.complete g o])).pending g = none := by
      rw [final_snoc, a2]; exact hq
    refine ⟨?_, ?_, ?_, ?_, ?_⟩
    · rw [hf, hproc, ih.flight, hbusy]; simp
    · rw [hw, hpend, hw0]; simp
    · intro _; rw [hw]; exact hw0
    · intro h; exact absurd hproc h
    · rw [hs, hw, har]; exact ih.split

theorem inv_of_admissible {es : List Event} (h : Admissible es) : ∀ g, Inv es g := by
  induction h with
  | nil => exact inv_nil
  | @arrive es g' r _ ih =>
    intro g
    by_cases hg : g' = g
    · subst hg; exact inv_arrive es g' r (ih g')
    · exact inv_other es _ g (by simpa [Event.group] using hg) (ih g)
  | @complete es g' o _ hfl ih =>
    intro g
    by_cases hg : g' = g
    · subst hg; exact inv_complete es g' o (ih g') hfl
    · exact inv_other es _ g (by simpa [Event.group] using hg) (ih g)

end Distributor
