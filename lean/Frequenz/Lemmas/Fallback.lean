/-
Invariant of the fallback metric fetcher model (C19), "alive" part: everything about the rounds that read a
primary sample.  Serves Props/C19.lean.
-/
import Frequenz.Model.Fallback
import Frequenz.Lemmas.EvaluatorList

namespace Fallback

open QList

/-- Admissible delivery: the primary stream is gap-free from tick `p0`, the fallback source gap-free from `g0`. -/
def AdmEv (p0 g0 : Int) (σ : St) : Ev → Prop
  | .dP s => s.ts = p0 + σ.pAll.length
  | .dF s => s.ts = g0 + σ.fAll.length
  | _ => True

instance (p0 g0 : Int) (σ : St) (e : Ev) : Decidable (AdmEv p0 g0 σ e) := by
  cases e <;> unfold AdmEv <;> infer_instance

/-- Admissible schedule from state `σ`. -/
def AdmFrom (p0 g0 : Int) : St → List Ev → Prop
  | _, [] => True
  | σ, e :: es => AdmEv p0 g0 σ e ∧ AdmFrom p0 g0 (step σ e) es

instance (p0 g0 : Int) : ∀ (σ : St) (es : List Ev), Decidable (AdmFrom p0 g0 σ es)
  | _, [] => by unfold AdmFrom; infer_instance
  | σ, e :: es => by
      unfold AdmFrom
      have := instDecidableAdmFrom p0 g0 (step σ e) es
      infer_instance

/-- Position of the fallback receiver relative to the rounds, while the primary is still being read. -/
def FPos (p0 : Int) (σ : St) : Prop :=
  (σ.latest = none ∧ σ.fq = σ.acc) ∨
  (∃ (j : Nat) (l : Sample), σ.latest = some l ∧ σ.acc[j]? = some l ∧ σ.fq = σ.acc.drop (j + 1) ∧ 1 ≤ σ.out.length ∧
      ((j = 0 ∧ l.ts > p0 + σ.out.length - 1) ∨ l.ts = p0 + σ.out.length - 1 ∨
       (l.ts < p0 + σ.out.length - 1 ∧ σ.fq = [] ∧ σ.fClosed = true)))

/-- What round `k` may return while the primary sample `p` of that round exists: a valid primary sample as is;
for an invalid one the fallback sample of the same tick — or the invalid primary sample itself, but only at the
first failure, while the primary is still behind the first sample the fallback receiver saw, or after the fallback
stream failed. -/
def Clause (σ : St) (k : Nat) (res : Res) : Prop :=
  ∃ p, σ.pAll[k]? = some p ∧
    (p.val.isSome = true → res = .sample p) ∧
    (p.val = none →
      (∃ (s : Sample) (j : Nat), σ.acc[j]? = some s ∧ s.ts = p.ts ∧ res = .sample s) ∨
      (res = .sample p ∧
        ((∀ (i : Nat) (q : Sample), i < k → σ.pAll[i]? = some q → q.val.isSome = true) ∨
         (∃ a0, σ.acc[0]? = some a0 ∧ p.ts < a0.ts) ∨ σ.fClosed = true)))

structure Inv (p0 g0 : Int) (σ : St) : Prop where
  pts : ∀ (i : Nat) (s : Sample), σ.pAll[i]? = some s → s.ts = p0 + i
  accTs : ∃ m : Nat, m + σ.acc.length = σ.fAll.length ∧ ∀ (i : Nat) (s : Sample), σ.acc[i]? = some s → s.ts = g0 + m + i
  pq_eq : σ.pq = σ.pAll.drop σ.out.length
  closedPhase : σ.pAll.length < σ.out.length → σ.pClosed = true ∧ σ.running = true
  closedStable : σ.pClosed = true → σ.pq = [] → σ.pAll.length ≤ σ.out.length
  notRunning : σ.running = false →
      σ.acc = [] ∧ σ.fq = [] ∧ σ.latest = none ∧
      (∀ (i : Nat) (q : Sample), i < σ.out.length → σ.pAll[i]? = some q → q.val.isSome = true)
  runningWhy : σ.running = true →
      (∃ (i : Nat) (q : Sample), i < σ.out.length ∧ σ.pAll[i]? = some q ∧ q.val = none) ∨ σ.pAll.length < σ.out.length
  fpos : σ.running = true → σ.out.length ≤ σ.pAll.length → FPos p0 σ
  results : ∀ (k : Nat) (res : Res), σ.out[k]? = some res → k < σ.pAll.length → Clause σ k res

theorem inv_init (p0 g0 : Int) : Inv p0 g0 St.init := by
  refine ⟨?_, ?_, ?_, ?_, ?_, ?_, ?_, ?_, ?_⟩ <;> simp [St.init]

/-- The loop of `_synchronize_and_fetch_fallback` on a gap-free queue that is not ahead of the primary. -/
theorem syncLoop_spec (acc : List Sample) (c : Int) (hts : ∀ (i : Nat) (s : Sample), acc[i]? = some s → s.ts = c + i)
    (pts : Int) (closed : Bool) :
    ∀ (fq : List Sample) (l : Sample) (j : Nat), acc[j]? = some l → fq = acc.drop (j + 1) → l.ts ≤ pts →
      match syncLoop pts l fq closed with
      | .done l' fq' => ∃ j', acc[j']? = some l' ∧ fq' = acc.drop (j' + 1) ∧ l'.ts = pts
      | .err l' => ∃ j', acc[j']? = some l' ∧ l'.ts < pts ∧ acc.drop (j' + 1) = [] ∧ closed = true
      | .block => True
  | [], l, j, hl, hfq, hle => by
      unfold syncLoop
      by_cases h : pts > l.ts
      · simp only [h, if_true]
        cases closed
        · simp
        · simp only [if_true]; exact ⟨j, hl, h, hfq.symm, trivial⟩
      · simp only [h, if_false]
        exact ⟨j, hl, hfq, by omega⟩
  | s :: r, l, j, hl, hfq, hle => by
      unfold syncLoop
      have hd := drop_eq_cons acc (j + 1) s r hfq.symm
      by_cases h : pts > l.ts
      · simp only [h, if_true]
        have h1 := hts j l hl
        have h2 := hts (j + 1) s hd.1
        exact syncLoop_spec acc c hts pts closed r s (j + 1) hd.1 hd.2.symm (by push_cast at h2; omega)
      · simp only [h, if_false]
        exact ⟨j, hl, hfq, by omega⟩

theorem Clause.mono {σ σ' : St} {k : Nat} {res : Res} (h : Clause σ k res)
    (hp : ∃ t, σ'.pAll = σ.pAll ++ t) (ha : ∃ t, σ'.acc = σ.acc ++ t)
    (hc : σ.fClosed = true → σ'.fClosed = true) : Clause σ' k res := by
  obtain ⟨tp, hp⟩ := hp
  obtain ⟨ta, ha⟩ := ha
  obtain ⟨p, hpk, h1, h2⟩ := h
  have hk := lt_length_of_getElem? _ _ _ hpk
  refine ⟨p, ?_, h1, ?_⟩
  · rw [hp, List.getElem?_append_left hk]; exact hpk
  · intro hv
    rcases h2 hv with ⟨s, j, hj, hts, hres⟩ | ⟨hres, h3⟩
    · refine Or.inl ⟨s, j, ?_, hts, hres⟩
      rw [ha, List.getElem?_append_left (lt_length_of_getElem? _ _ _ hj)]; exact hj
    · refine Or.inr ⟨hres, ?_⟩
      rcases h3 with h | ⟨a0, ha0, hlt⟩ | h
      · left
        intro i q hik hq
        rw [hp, List.getElem?_append_left (by omega)] at hq
        exact h i q hik hq
      · right; left
        refine ⟨a0, ?_, hlt⟩
        rw [ha, List.getElem?_append_left (lt_length_of_getElem? _ _ _ ha0)]; exact ha0
      · right; right; exact hc h

theorem step_dP (σ : St) (s : Sample) : step σ (.dP s) =
    if σ.pClosed then σ else { σ with pq := σ.pq ++ [s], pAll := σ.pAll ++ [s] } := rfl
theorem step_cP (σ : St) : step σ .cP = { σ with pClosed := true } := rfl
theorem step_cF (σ : St) : step σ .cF = { σ with fClosed := true } := rfl
theorem step_dF (σ : St) (s : Sample) : step σ (.dF s) =
    if σ.fClosed then σ
    else if σ.running then { σ with fq := σ.fq ++ [s], fAll := σ.fAll ++ [s], acc := σ.acc ++ [s] }
    else { σ with fAll := σ.fAll ++ [s] } := rfl
theorem step_round (σ : St) : step σ .round = (round σ).getD σ := rfl

theorem inv_dP {p0 g0 : Int} {σ : St} (h : Inv p0 g0 σ) (s : Sample) (hs : s.ts = p0 + σ.pAll.length) :
    Inv p0 g0 (step σ (.dP s)) := by
  rw [step_dP]
  by_cases hc : σ.pClosed = true
  · rw [if_pos hc]; exact h
  · rw [if_neg hc]
    have hn : σ.out.length ≤ σ.pAll.length := by
      rcases Nat.lt_or_ge σ.pAll.length σ.out.length with h' | h'
      · exact absurd (h.closedPhase h').1 hc
      · exact h'
    refine ⟨?_, ?_, ?_, ?_, ?_, ?_, ?_, ?_, ?_⟩ <;> dsimp only
    · intro i x hx
      rcases getElem?_append_cases _ _ _ _ hx with hx | ⟨rfl, rfl⟩
      · exact h.pts i x hx
      · exact hs
    · exact h.accTs
    · rw [drop_append_single _ _ _ hn, h.pq_eq]
    · intro hlt
      simp only [List.length_append, List.length_cons, List.length_nil] at hlt
      exact h.closedPhase (by omega)
    · intro hcl; exact absurd hcl hc
    · intro hr
      obtain ⟨h1, h2, h3, h4⟩ := h.notRunning hr
      refine ⟨h1, h2, h3, ?_⟩
      intro i q hi hq
      rw [List.getElem?_append_left (by omega)] at hq
      exact h4 i q hi hq
    · intro hr
      rcases h.runningWhy hr with ⟨i, q, hi, hq, hv⟩ | h'
      · exact Or.inl ⟨i, q, hi, getElem?_append_some _ _ _ _ hq, hv⟩
      · omega
    · intro hr _
      exact h.fpos hr hn
    · intro k res hk _
      have hkn : k < σ.out.length := lt_length_of_getElem? _ _ _ hk
      exact (h.results k res hk (by omega)).mono ⟨[s], rfl⟩ ⟨[], by simp⟩ id

theorem inv_cP {p0 g0 : Int} {σ : St} (h : Inv p0 g0 σ) : Inv p0 g0 (step σ .cP) := by
  rw [step_cP]
  refine ⟨?_, ?_, ?_, ?_, ?_, ?_, ?_, ?_, ?_⟩ <;> dsimp only
  · exact h.pts
  · exact h.accTs
  · exact h.pq_eq
  · intro hlt; exact ⟨rfl, (h.closedPhase hlt).2⟩
  · intro _ hq
    have := h.pq_eq
    rw [hq] at this
    exact (drop_eq_nil_iff _ _).mp this.symm
  · exact h.notRunning
  · exact h.runningWhy
  · exact h.fpos
  · intro k res hk hlt
    exact (h.results k res hk hlt).mono ⟨[], by simp⟩ ⟨[], by simp⟩ id

theorem inv_cF {p0 g0 : Int} {σ : St} (h : Inv p0 g0 σ) : Inv p0 g0 (step σ .cF) := by
  rw [step_cF]
  refine ⟨?_, ?_, ?_, ?_, ?_, ?_, ?_, ?_, ?_⟩ <;> dsimp only
  · exact h.pts
  · exact h.accTs
  · exact h.pq_eq
  · exact h.closedPhase
  · exact h.closedStable
  · exact h.notRunning
  · exact h.runningWhy
  · intro hr hn
    rcases h.fpos hr hn with h1 | ⟨j, l, h1, h2, h3, h4, h5⟩
    · exact Or.inl h1
    · refine Or.inr ⟨j, l, h1, h2, h3, h4, ?_⟩
      rcases h5 with h5 | h5 | ⟨h5, h6, _⟩
      · exact Or.inl h5
      · exact Or.inr (Or.inl h5)
      · exact Or.inr (Or.inr ⟨h5, h6, rfl⟩)
  · intro k res hk hlt
    exact (h.results k res hk hlt).mono ⟨[], by simp⟩ ⟨[], by simp⟩ (fun _ => rfl)

theorem inv_dF {p0 g0 : Int} {σ : St} (h : Inv p0 g0 σ) (s : Sample) (hs : s.ts = g0 + σ.fAll.length) :
    Inv p0 g0 (step σ (.dF s)) := by
  rw [step_dF]
  by_cases hc : σ.fClosed = true
  · rw [if_pos hc]; exact h
  · rw [if_neg hc]
    by_cases hr : σ.running = true
    · rw [if_pos hr]
      obtain ⟨m, hm, hts⟩ := h.accTs
      refine ⟨?_, ⟨m, ?_, ?_⟩, ?_, ?_, ?_, ?_, ?_, ?_, ?_⟩ <;> dsimp only
      · exact h.pts
      · simp only [List.length_append, List.length_cons, List.length_nil]; omega
      · intro i x hx
        rcases getElem?_append_cases _ _ _ _ hx with hx | ⟨rfl, rfl⟩
        · exact hts i x hx
        · rw [hs]; omega
      · exact h.pq_eq
      · exact h.closedPhase
      · exact h.closedStable
      · intro hr'; rw [hr] at hr'; cases hr'
      · exact h.runningWhy
      · intro _ hn
        rcases h.fpos hr hn with ⟨h1, h2⟩ | ⟨j, l, h1, h2, h3, h4, h5⟩
        · exact Or.inl ⟨h1, by rw [h2]⟩
        · refine Or.inr ⟨j, l, h1, getElem?_append_some _ _ _ _ h2, ?_, h4, ?_⟩
          · rw [drop_append_single _ _ _ (lt_length_of_getElem? _ _ _ h2), h3]
          · rcases h5 with h5 | h5 | ⟨_, _, h7⟩
            · exact Or.inl h5
            · exact Or.inr (Or.inl h5)
            · exact absurd h7 hc
      · intro k res hk hlt
        exact (h.results k res hk hlt).mono ⟨[], by simp⟩ ⟨[s], rfl⟩ id
    · rw [if_neg hr]
      have hr' : σ.running = false := by cases hrr : σ.running <;> simp_all
      obtain ⟨h1, h2, h3, h4⟩ := h.notRunning hr'
      refine ⟨?_, ⟨σ.fAll.length + 1, ?_, ?_⟩, ?_, ?_, ?_, ?_, ?_, ?_, ?_⟩ <;> dsimp only
      · exact h.pts
      · rw [h1]; simp
      · intro i x hx
        rw [h1] at hx; simp at hx
      · exact h.pq_eq
      · exact h.closedPhase
      · exact h.closedStable
      · exact h.notRunning
      · exact h.runningWhy
      · exact h.fpos
      · intro k res hk hlt
        exact (h.results k res hk hlt).mono ⟨[], by simp⟩ ⟨[], by simp⟩ id

/-- Facts about the head of the primary queue. -/
theorem head_facts {p0 g0 : Int} {σ : St} (h : Inv p0 g0 σ) {p : Sample} {pr : List Sample}
    (hpq : σ.pq = p :: pr) :
    σ.pAll[σ.out.length]? = some p ∧ pr = σ.pAll.drop (σ.out.length + 1) ∧
      σ.out.length < σ.pAll.length ∧ p.ts = p0 + σ.out.length := by
  have h1 := h.pq_eq
  rw [hpq] at h1
  have h2 := drop_eq_cons _ _ _ _ h1.symm
  exact ⟨h2.1, h2.2.symm, lt_length_of_getElem? _ _ _ h2.1, h.pts _ _ h2.1⟩

/-- A round that reads one primary sample: what remains to be shown is the new fallback position and the clause
of the new result. -/
theorem inv_consume {p0 g0 : Int} {σ : St} (h : Inv p0 g0 σ) {p : Sample} {pr : List Sample}
    (hpq : σ.pq = p :: pr) (run' : Bool) (lat' : Option Sample) (fq' : List Sample) (res : Res)
    (hrun : σ.running = true → run' = true)
    (hnr : run' = false → fq' = [] ∧ lat' = none ∧ p.val.isSome = true)
    (hwhy : run' = true → σ.running = true ∨ p.val = none)
    (hfpos : run' = true →
      FPos p0 { σ with pq := pr, running := run', latest := lat', fq := fq', out := σ.out ++ [res] })
    (hclause : Clause σ σ.out.length res) :
    Inv p0 g0 { σ with pq := pr, running := run', latest := lat', fq := fq', out := σ.out ++ [res] } := by
  obtain ⟨hp, hpr, hlt, hts⟩ := head_facts h hpq
  refine ⟨?_, ?_, ?_, ?_, ?_, ?_, ?_, ?_, ?_⟩ <;> dsimp only
  · exact h.pts
  · exact h.accTs
  · simp only [List.length_append, List.length_cons, List.length_nil]; exact hpr
  · intro hn
    simp only [List.length_append, List.length_cons, List.length_nil] at hn
    omega
  · intro _ hq
    simp only [List.length_append, List.length_cons, List.length_nil]
    rw [hpr] at hq
    exact (drop_eq_nil_iff _ _).mp hq
  · intro hr
    have hr0 : σ.running = false := by
      cases hrr : σ.running
      · rfl
      · have := hrun hrr; rw [hr] at this; cases this
    obtain ⟨h1, _, _, h4⟩ := h.notRunning hr0
    obtain ⟨g1, g2, g3⟩ := hnr hr
    refine ⟨h1, g1, g2, ?_⟩
    intro i q hi hq
    simp only [List.length_append, List.length_cons, List.length_nil] at hi
    rcases Nat.lt_or_ge i σ.out.length with hi' | hi'
    · exact h4 i q hi' hq
    · have : i = σ.out.length := by omega
      subst this
      rw [hp] at hq; cases hq; exact g3
  · intro hr
    simp only [List.length_append, List.length_cons, List.length_nil]
    rcases hwhy hr with hr0 | hv
    · rcases h.runningWhy hr0 with ⟨i, q, hi, hq, hv⟩ | h'
      · exact Or.inl ⟨i, q, by omega, hq, hv⟩
      · omega
    · exact Or.inl ⟨σ.out.length, p, by omega, hp, hv⟩
  · intro hr _; exact hfpos hr
  · intro k res' hk hkN
    rcases getElem?_append_cases _ _ _ _ hk with hk | ⟨rfl, rfl⟩
    · exact (h.results k res' hk hkN).mono ⟨[], by simp⟩ ⟨[], by simp⟩ id
    · exact hclause.mono ⟨[], by simp⟩ ⟨[], by simp⟩ id

/-- A round after the primary was closed and drained. -/
theorem inv_errround {p0 g0 : Int} {σ : St} (h : Inv p0 g0 σ) (hpq : σ.pq = []) (hc : σ.pClosed = true)
    (fq' : List Sample) (res : Res) :
    Inv p0 g0 { σ with running := true, fq := fq', out := σ.out ++ [res] } := by
  have hN := h.closedStable hc hpq
  refine ⟨?_, ?_, ?_, ?_, ?_, ?_, ?_, ?_, ?_⟩ <;> dsimp only
  · exact h.pts
  · exact h.accTs
  · rw [hpq]; symm; apply (drop_eq_nil_iff _ _).mpr
    simp only [List.length_append, List.length_cons, List.length_nil]; omega
  · intro _; exact ⟨hc, rfl⟩
  · intro _ _; simp only [List.length_append, List.length_cons, List.length_nil]; omega
  · intro hr; cases hr
  · intro _; right; simp only [List.length_append, List.length_cons, List.length_nil]; omega
  · intro _ hn; simp only [List.length_append, List.length_cons, List.length_nil] at hn; omega
  · intro k res' hk hkN
    rcases getElem?_append_cases _ _ _ _ hk with hk | ⟨rfl, rfl⟩
    · exact (h.results k res' hk hkN).mono ⟨[], by simp⟩ ⟨[], by simp⟩ id
    · omega

theorem inv_withLatest {p0 g0 : Int} {σ : St} (h : Inv p0 g0 σ) (hrun : σ.running = true)
    {p : Sample} {pr : List Sample} (hpq : σ.pq = p :: pr) (l : Sample) (fq0 : List Sample) (j : Nat)
    (hl : σ.acc[j]? = some l) (hfq : fq0 = σ.acc.drop (j + 1)) (hahead : p.ts < l.ts → j = 0)
    (σ' : St) (hσ' : withLatest σ p pr l fq0 = some σ') : Inv p0 g0 σ' := by
  obtain ⟨hp, hpr, hlt, hts⟩ := head_facts h hpq
  obtain ⟨m, hm, hacc⟩ := h.accTs
  unfold withLatest at hσ'
  by_cases ha : p.ts < l.ts
  · rw [if_pos ha] at hσ'
    cases hσ'
    have hj := hahead ha
    subst hj
    refine inv_consume h hpq σ.running (some l) fq0 (.sample p) id ?_ (fun _ => Or.inl hrun) ?_ ?_
    · intro hr; rw [hrun] at hr; cases hr
    · intro _
      refine Or.inr ⟨0, l, rfl, hl, hfq, ?_, Or.inl ⟨rfl, ?_⟩⟩ <;> dsimp only <;>
        simp only [List.length_append, List.length_cons, List.length_nil]
      · omega
      · push_cast; omega
    · refine ⟨p, hp, fun _ => rfl, fun _ => Or.inr ⟨rfl, Or.inr (Or.inl ⟨l, hl, ha⟩)⟩⟩
  · rw [if_neg ha] at hσ'
    have spec := syncLoop_spec σ.acc (g0 + m) (by intro i s hs; have := hacc i s hs; omega) p.ts σ.fClosed
      fq0 l j hl hfq (by omega)
    cases hsl : syncLoop p.ts l fq0 σ.fClosed with
    | done l' fq' =>
      rw [hsl] at spec hσ'
      obtain ⟨j', hj', hfq', hts'⟩ := spec
      cases hσ'
      refine inv_consume h hpq σ.running (some l') fq' _ id ?_ (fun _ => Or.inl hrun) ?_ ?_
      · intro hr; rw [hrun] at hr; cases hr
      · intro _
        refine Or.inr ⟨j', l', rfl, hj', hfq', ?_, Or.inr (Or.inl ?_)⟩ <;> dsimp only <;>
          simp only [List.length_append, List.length_cons, List.length_nil]
        · omega
        · push_cast; omega
      · refine ⟨p, hp, fun hv => by rw [if_pos hv], fun hv => Or.inl ⟨l', j', hj', hts', ?_⟩⟩
        rw [if_neg (by rw [hv]; simp)]
    | err l' =>
      rw [hsl] at spec hσ'
      obtain ⟨j', hj', hlt', hdrop, hcl⟩ := spec
      cases hσ'
      refine inv_consume h hpq σ.running (some l') [] (.sample p) id ?_ (fun _ => Or.inl hrun) ?_ ?_
      · intro hr; rw [hrun] at hr; cases hr
      · intro _
        refine Or.inr ⟨j', l', rfl, hj', hdrop.symm, ?_, Or.inr (Or.inr ⟨?_, rfl, hcl⟩)⟩ <;> dsimp only <;>
          simp only [List.length_append, List.length_cons, List.length_nil]
        · omega
        · push_cast; omega
      · refine ⟨p, hp, fun _ => rfl, fun _ => Or.inr ⟨rfl, Or.inr (Or.inr hcl)⟩⟩
    | block =>
      rw [hsl] at hσ'
      cases hσ'

theorem inv_round {p0 g0 : Int} {σ σ' : St} (h : Inv p0 g0 σ) (hσ' : round σ = some σ') : Inv p0 g0 σ' := by
  unfold round at hσ'
  by_cases hr : σ.running = false
  · rw [if_pos hr] at hσ'
    cases hpq : σ.pq with
    | nil =>
      rw [hpq] at hσ'
      dsimp only at hσ'
      by_cases hc : σ.pClosed = true
      · rw [if_pos hc] at hσ'
        cases hσ'
        have := inv_errround h hpq hc σ.fq .none
        rw [hpq] at this
        exact this
      · rw [if_neg hc] at hσ'; cases hσ'
    | cons p pr =>
      rw [hpq] at hσ'
      dsimp only at hσ'
      obtain ⟨hp, hpr, hlt, hts⟩ := head_facts h hpq
      obtain ⟨h1, h2, h3, h4⟩ := h.notRunning hr
      by_cases hv : p.val.isSome = true
      · rw [if_pos hv] at hσ'
        cases hσ'
        have := inv_consume h hpq σ.running σ.latest σ.fq (.sample p) id (fun _ => ⟨h2, h3, hv⟩)
          (fun hr' => by rw [hr] at hr'; cases hr') (fun hr' => by rw [hr] at hr'; cases hr')
          ⟨p, hp, fun _ => rfl, fun hn => by rw [hn] at hv; cases hv⟩
        exact this
      · rw [if_neg hv] at hσ'
        cases hσ'
        have hn : p.val = none := by cases hpv : p.val <;> simp_all
        have := inv_consume h hpq true σ.latest σ.fq (.sample p) (fun _ => rfl)
          (fun hr' => by cases hr') (fun _ => Or.inr hn)
          (fun _ => Or.inl ⟨h3, by dsimp only; rw [h2, h1]⟩)
          ⟨p, hp, fun hv' => absurd hv' hv, fun _ => Or.inr ⟨rfl, Or.inl h4⟩⟩
        exact this
  · rw [if_neg hr] at hσ'
    have hrun : σ.running = true := by cases hrr : σ.running <;> simp_all
    cases hpq : σ.pq with
    | nil =>
      rw [hpq] at hσ'
      dsimp only at hσ'
      by_cases hc : σ.pClosed = true
      · rw [if_pos hc] at hσ'
        cases hfq : σ.fq with
        | nil =>
          rw [hfq] at hσ'
          dsimp only at hσ'
          by_cases hfc : σ.fClosed = true
          · rw [if_pos hfc] at hσ'
            cases hσ'
            have := inv_errround h hpq hc σ.fq .raised
            rw [hpq, hfq] at this
            rw [hrun]
            exact this
          · rw [if_neg hfc] at hσ'; cases hσ'
        | cons s r =>
          rw [hfq] at hσ'
          dsimp only at hσ'
          cases hσ'
          have := inv_errround h hpq hc r (.sample s)
          rw [hpq] at this
          rw [hrun]
          exact this
      · rw [if_neg hc] at hσ'; cases hσ'
    | cons p pr =>
      rw [hpq] at hσ'
      dsimp only at hσ'
      obtain ⟨hp, hpr, hlt, hts⟩ := head_facts h hpq
      have hfp := h.fpos hrun (by omega)
      unfold withFallback at hσ'
      rcases hfp with ⟨hlat, hfq⟩ | ⟨j, l, hlat, hl, hfq, hn1, hpos⟩
      · rw [hlat] at hσ'
        dsimp only at hσ'
        cases hfq0 : σ.fq with
        | nil =>
          rw [hfq0] at hσ'
          dsimp only at hσ'
          by_cases hfc : σ.fClosed = true
          · rw [if_pos hfc] at hσ'
            cases hσ'
            have := inv_consume h hpq σ.running σ.latest σ.fq (.sample p) id
              (fun hr' => by rw [hrun] at hr'; cases hr') (fun _ => Or.inl hrun)
              (fun _ => Or.inl ⟨hlat, hfq⟩)
              ⟨p, hp, fun _ => rfl, fun _ => Or.inr ⟨rfl, Or.inr (Or.inr hfc)⟩⟩
            rw [hlat, hfq0] at this
            exact this
          · rw [if_neg hfc] at hσ'; cases hσ'
        | cons s r =>
          rw [hfq0] at hσ'
          dsimp only at hσ'
          rw [hfq0] at hfq
          have hd := drop_eq_cons σ.acc 0 s r (by simpa using hfq.symm)
          exact inv_withLatest h hrun hpq s r 0 hd.1 (by simpa using hd.2.symm) (fun _ => rfl) σ' hσ'
      · rw [hlat] at hσ'
        dsimp only at hσ'
        refine inv_withLatest h hrun hpq l σ.fq j hl hfq ?_ σ' hσ'
        intro ha
        rcases hpos with ⟨hj, _⟩ | hs | ⟨hd, _, _⟩
        · exact hj
        · omega
        · omega

theorem inv_step {p0 g0 : Int} {σ : St} (h : Inv p0 g0 σ) (e : Ev) (ha : AdmEv p0 g0 σ e) :
    Inv p0 g0 (step σ e) := by
  cases e with
  | dP s => exact inv_dP h s ha
  | cP => exact inv_cP h
  | dF s => exact inv_dF h s ha
  | cF => exact inv_cF h
  | round =>
    rw [step_round]
    cases hr : round σ with
    | none => exact h
    | some σ' => exact inv_round h hr

theorem inv_foldl {p0 g0 : Int} : ∀ (es : List Ev) (σ : St), Inv p0 g0 σ → AdmFrom p0 g0 σ es →
    Inv p0 g0 (es.foldl step σ)
  | [], _, h, _ => h
  | e :: es, σ, h, ha => inv_foldl es (step σ e) (inv_step h e ha.1) ha.2

theorem inv_run {p0 g0 : Int} (es : List Ev) (ha : AdmFrom p0 g0 St.init es) : Inv p0 g0 (run es) :=
  inv_foldl es St.init (inv_init p0 g0) ha

end Fallback
