/-
Model of `src/frequenz/sdk/microgrid/_data_sourcing/microgrid_api_source.py` (`MicrogridApiSource`, driven by
`DataSourcingActor._run`) for property C20.

The metric tables and the category dispatch are NOT written here: they are regenerated from the Python
source on every run (`Frequenz.Extracted.DataSourcing`).

One `Comp` per component id:
  * `subs`    = `_req_streaming_metrics[cid]` — a dict `metric ↦ [request]` in insertion order;
  * `hasRecv` = `cid ∈ comp_data_receivers` (the API stream receiver, created by the first streaming task and then
                shared by all later ones);
  * `queue`   = the messages buffered in that receiver and not yet taken by a streaming task;
  * `pending` = a streaming task has been created by `_update_streams` and has not run yet;
  * `active`  = the `stream_senders` snapshot of the running streaming task (`none`: no task is past its prologue).

Atomic events (a schedule is a `List Event`, any interleaving):
  * `request r`    `add_metric(r)` runs to completion (it has no suspension point once the category is cached):
                   unknown component / metric not provided by the category ⇒ ignored; channel name already
                   registered ⇒ ignored; otherwise the request is appended and the streaming task is cancelled and
                   re-created (`active := none`, `pending := true`);
  * `message c m`  the microgrid API produces `m` on the stream of component `c`; it is buffered iff the receiver exists;
  * `start c`      the pending task of `c` runs its prologue: opens the API stream if needed, snapshots the senders;
  * `take c`       the running task of `c` takes the oldest buffered message and fans it out to its snapshot — one
                   `Sample(msg.timestamp, extractor(msg))` per sender, metrics in dict order, senders in list order.

The `take` event assumes that the streaming task hands EVERY message it receives to the fan-out, whatever the message
contains (timestamps and values are opaque: they may repeat, decrease, coincide across components), and that the
fan-out sends one `Sample(msg.timestamp, Quantity(extractor(msg)))` per sender.  That assumption is read off the
current source by the extractor (`messagePath`, `fanoutBody`: taint analysis of the `async for` loop body and of
`process_msg`) and checked by `takeFaithful` below / `C20_message_path_unconditional`.

Not modelled (trusted, sampled by the harness): asyncio delivers the cancellation before the new task first polls
the shared receiver; a cancelled `ready()` leaves the message in the receiver; the detached `process_msg` / `send`
tasks run in creation order (FIFO ready queue), so a fan-out is observed as one atomic step per channel; the
receiver's capacity (oldest dropped beyond 50 buffered messages) is never exceeded.
-/
import Frequenz.Model.Prelude
import Frequenz.Extracted.DataSourcing

namespace DataSourcing

open Extracted.DataSourcing

abbrev Metric := String
abbrev Category := String

/-- Association-list lookup with string keys (first match wins, like a Python `dict` literal read in order
with distinct keys — the extractor refuses duplicate keys). -/
def assoc {β : Type} : List (String × β) → String → Option β
  | [], _ => none
  | (k, v) :: l, a => if k = a then some v else assoc l a

/-- A component data message: timestamp (µs) and its numeric attributes; a scalar attribute is a singleton list,
a per-phase attribute a list of three; `none` = NaN. -/
structure Msg where
  ts : Int
  fields : List (String × List (Option Rat))
deriving Repr

/-- Evaluate the extraction lambda on a message. -/
def readField (f : FieldRef) (m : Msg) : Option Rat :=
  match assoc m.fields f.attr with
  | none => none
  | some vs => (vs[f.idx.getD 0]?).join

/-- `_get_data_extraction_method(category, metric)` (`none` = `KeyError`/`ValueError`). -/
def fieldOf (cat : Category) (μ : Metric) : Option FieldRef :=
  match assoc extractionDispatch cat with
  | none => none
  | some tbl => assoc tbl μ

def supported (cat : Category) (μ : Metric) : Bool := (fieldOf cat μ).isSome

/-- The value put into the sample: `extractor(data)`; the category may be unknown (`none`). -/
def extract (cat : Option Category) (μ : Metric) (m : Msg) : Option Rat :=
  match cat with
  | none => none
  | some k => match fieldOf k μ with
    | none => none
    | some f => readField f m

/-- A `ComponentMetricRequest`, identified with its registry channel — what a subscriber listens on:
`get_channel_name()` is built from exactly these four fields, `start` being the RENDERED `start_time` (`str(datetime)`,
`none` for `None`): the same instant written with another UTC offset is another channel, the same rendering is the same
channel.  Requests are deduplicated by that name. -/
structure Chan where
  ns : String
  cid : Nat
  metric : Metric
  start : Option String
deriving DecidableEq, Repr

structure Sample where
  ts : Int
  value : Option Rat
deriving DecidableEq, Repr

/-- `_req_streaming_metrics[cid]`. -/
abbrev Subs := List (Metric × List Chan)

/-- `requests[metric]` (empty when the key is absent). -/
def Subs.get : Subs → Metric → List Chan
  | [], _ => []
  | (k, cs) :: g, μ => if k = μ then cs else Subs.get g μ

/-- `requests.setdefault(r.metric, []).append(r)`. -/
def Subs.add : Subs → Chan → Subs
  | [], r => [(r.metric, [r])]
  | (k, cs) :: g, r => if k = r.metric then (k, cs ++ [r]) :: g else (k, cs) :: Subs.add g r

/-- All registered channels of the component. -/
def Subs.chans (g : Subs) : List Chan := g.flatMap (·.2)

structure Comp where
  subs : Subs := []
  hasRecv : Bool := false
  queue : List Msg := []
  pending : Bool := false
  active : Option Subs := none

structure State where
  comps : Nat → Comp

def State.init : State := ⟨fun _ => {}⟩

def State.set (s : State) (cid : Nat) (c : Comp) : State :=
  ⟨fun i => if i = cid then c else s.comps i⟩

/-- The result of `api_client.components()`: component id ↦ category name. -/
structure Config where
  components : List (Nat × Category)

def Config.category (cfg : Config) (cid : Nat) : Option Category :=
  match cfg.components.find? (fun p => p.1 = cid) with
  | none => none
  | some p => some p.2

inductive Event where
  | request (r : Chan)
  | message (cid : Nat) (m : Msg)
  | start (cid : Nat)
  | take (cid : Nat)
deriving Repr

/-- One sample sent on one registry channel. -/
structure Out where
  chan : Chan
  sample : Sample
deriving Repr

/-- `process_msg(data)`: for every `(extractor, senders)` of the snapshot, one sample per sender. -/
def fanout (cat : Option Category) (snap : Subs) (m : Msg) : List Out :=
  snap.flatMap fun p => p.2.map fun c => ⟨c, ⟨m.ts, extract cat p.1 m⟩⟩

def step (cfg : Config) (s : State) : Event → State × List Out
  | .request r =>
    match cfg.category r.cid with
    | none => (s, [])
    | some cat =>
      if supported cat r.metric = false then (s, [])
      else if r ∈ (s.comps r.cid).subs.get r.metric then (s, [])
      else
        (s.set r.cid { s.comps r.cid with
            subs := (s.comps r.cid).subs.add r, pending := true, active := none }, [])
  | .message cid m =>
    if (s.comps cid).hasRecv = true then
      (s.set cid { s.comps cid with queue := (s.comps cid).queue ++ [m] }, [])
    else (s, [])
  | .start cid =>
    if (s.comps cid).pending = true then
      (s.set cid { s.comps cid with
          hasRecv := true, pending := false, active := some (s.comps cid).subs }, [])
    else (s, [])
  | .take cid =>
    match (s.comps cid).active, (s.comps cid).queue with
    | some snap, m :: q =>
      (s.set cid { s.comps cid with queue := q }, fanout (cfg.category cid) snap m)
    | _, _ => (s, [])

/-- Run a schedule from a state: final state and everything sent, in order. -/
def exec (cfg : Config) (s : State) : List Event → State × List Out
  | [] => (s, [])
  | e :: es => ((exec cfg (step cfg s e).1 es).1, (step cfg s e).2 ++ (exec cfg (step cfg s e).1 es).2)

def final (cfg : Config) (s : State) (es : List Event) : State := (exec cfg s es).1
def trace (cfg : Config) (s : State) (es : List Event) : List Out := (exec cfg s es).2

/-- What a receiver of channel `ch` sees. -/
def delivered (ch : Chan) (os : List Out) : List Sample :=
  (os.filter (fun o => o.chan = ch)).map (·.sample)

/-- The sample the property demands on `ch` for message `m`: the message's timestamp and the value of the
channel's metric in the message. -/
def sampleOf (cfg : Config) (ch : Chan) (m : Msg) : Sample :=
  ⟨m.ts, extract (cfg.category ch.cid) ch.metric m⟩

/-- The messages the API produces for component `cid` during a schedule. -/
def msgsOf (cid : Nat) : List Event → List Msg
  | [] => []
  | .message c m :: es => if c = cid then m :: msgsOf cid es else msgsOf cid es
  | _ :: es => msgsOf cid es

/-- The messages of component `cid` that the SDK receives from the API during a schedule started in `s`: those
produced while the component's API stream is open (before the first streaming task has opened it nobody listens). -/
def received (cfg : Config) (s : State) (cid : Nat) : List Event → List Msg
  | [] => []
  | e :: es =>
    (match e with
      | .message c m => if c = cid ∧ (s.comps cid).hasRecv = true then [m] else []
      | _ => []) ++ received cfg (step cfg s e).1 cid es

/-- `ch` is registered (its request was accepted). -/
def Subscribed (s : State) (ch : Chan) : Prop := ch ∈ (s.comps ch.cid).subs.chans

/-- `ch` is registered and the API stream of its component is open. -/
def Live (s : State) (ch : Chan) : Prop := Subscribed s ch ∧ (s.comps ch.cid).hasRecv = true

/-- Number of events of a schedule that were no-ops because their guard was false (`take` with nothing to
take or no running task, `start` without a pending task).  Used by the driver: a trace observed on the real code
must replay without any. -/
def stuck (cfg : Config) (s : State) : List Event → Nat
  | [] => 0
  | e :: es =>
    (match e with
      | .take cid => (match (s.comps cid).active, (s.comps cid).queue with
          | some _, _ :: _ => 0
          | _, _ => 1)
      | .start cid => if (s.comps cid).pending = true then 0 else 1
      | _ => 0) + stuck cfg (step cfg s e).1 es

/-! ### The source's per-message path is the `take` event -/

/-- A branch on the per-message path that the `take` event tolerates: it neither reads message content (of this or
an earlier message) nor can skip / end the path (logging under a level test, say). -/
def guardBenign (g : Guard) : Bool := !g.readsMessage && !g.canSkip

/-- The extracted facts about the streaming loop and the fan-out function say what `take` / `fanout` model: the raw
API stream is iterated; every received message — the received object itself — is handed to the fan-out exactly once,
unconditionally, followed by an `await`; no branch on the way reads message content or can skip; the fan-out sends
once per sender of the snapshot the sample `(msg.timestamp, Quantity(extractor(msg)))`, again without any
content-dependent or skipping branch. -/
def takeFaithful (p : MessagePath) (f : FanoutBody) : Bool :=
  p.streamUnfiltered && p.schedulesOnce && p.passesReceivedMessage && p.awaitsAfterScheduling &&
  p.guards.all guardBenign &&
  f.onePerSender && decide (f.sampleTimestamp = .msgAttr "timestamp") &&
  decide (f.sampleValue = .quantityOfExtractor) && f.guards.all guardBenign

/-- `Chan` identifies a request with its registry channel: the channel name must be a function of the CURRENT values
of exactly the four fields of `Chan` (namespace, component id, metric, rendered start time) — recomputed on every call,
so that an object that is copied / mutated and submitted again names the channel of its new field values. -/
def chanIsChannelName (c : ChannelName) : Bool :=
  c.pure && decide (c.fields = ["namespace", "component_id", "metric_id.name", "start_time"])

/-! ### What a metric id means (specification side, independent of the source tables) -/

def lowerChar (c : Char) : Char := if 'A' ≤ c ∧ c ≤ 'Z' then Char.ofNat (c.toNat + 32) else c
def lowerStr (s : String) : String := String.ofList (s.toList.map lowerChar)

/-- `ComponentMetricId.FOO_PHASE_k` is element `k-1` of the message attribute `foo_per_phase`; any other
`ComponentMetricId.FOO` is the message attribute `foo`. -/
def canonicalField (μ : Metric) : FieldRef :=
  let cs := μ.toList
  let pre := cs.take (cs.length - 8)
  let suf := cs.drop (cs.length - 8)
  if suf = "_PHASE_1".toList then ⟨lowerStr (String.ofList pre) ++ "_per_phase", some 0⟩
  else if suf = "_PHASE_2".toList then ⟨lowerStr (String.ofList pre) ++ "_per_phase", some 1⟩
  else if suf = "_PHASE_3".toList then ⟨lowerStr (String.ofList pre) ++ "_per_phase", some 2⟩
  else ⟨lowerStr μ, none⟩

/-- The component categories that have a data stream, and the API client method that opens it. -/
def dataCategories : List (Category × String) :=
  [("METER", "meter_data"), ("INVERTER", "inverter_data"), ("BATTERY", "battery_data"),
   ("EV_CHARGER", "ev_charger_data")]

end DataSourcing
