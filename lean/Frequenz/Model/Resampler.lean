/-
Model of the tick machine of `Resampler` (`src/frequenz/sdk/timeseries/_resampling.py`): `__init__`
(first window end, hand-aligned timer), `add_timeseries` / `remove_timeseries`, and the loop of `resample()`.

Time is `Int` microseconds.  The arithmetic (`calculateWindowEnd`, `firstTickTime`, `advanceWindowEnd`) and the
fact whether `resample()` re-reads the live series dict after the gather (`gatherOverSnapshot`) are NOT written
here: they are regenerated from the Python source on every run (`Frequenz.Extracted.Resampling`).

One iteration of the `async for drift in self._timer` loop is split at its only await point into two atomic
events, `tickStart` (timer fired: the gather is created over the series registered *now*, every one of them is
handed `Sample(window_end, …)`) and `tickEnd` (all sinks returned: `window_end += period`, the error map is
built).  `add`/`remove` may occur anywhere, in particular between the two.  A schedule is a `List Event`.
-/
import Frequenz.Extracted.Resampling

namespace Resampler

open Extracted.Resampling

/-- Series are identified by a number (the `Source` object used as dict key). -/
abbrev SeriesId := Nat

inductive Event where
  | tickStart
  | tickEnd
  | add (s : SeriesId)
  | remove (s : SeriesId)
deriving Repr, DecidableEq

/-- What the sinks observe at one tick: the timestamp and the series that received it, in gather order. -/
structure Tick where
  ts : Int
  recipients : List SeriesId
deriving Repr, DecidableEq

structure State where
  /-- `self._window_end` -/
  windowEnd : Int
  /-- keys of `self._resamplers` in insertion order -/
  series : List SeriesId
  /-- `some n`: a gather over `n` series is in flight -/
  inflight : Option Nat
  /-- the `resample()` task ended with an exception that is not a `ResamplingError` -/
  dead : Bool
deriving Repr, DecidableEq

def init (w0 : Int) : State := { windowEnd := w0, series := [], inflight := none, dead := false }

/-- `add_timeseries`: refused when the source is already registered; otherwise appended (dict insertion order). -/
def addSeries (l : List SeriesId) (s : SeriesId) : List SeriesId := if s ∈ l then l else l ++ [s]

/-- `remove_timeseries`: `del self._resamplers[source]`. -/
def removeSeries (l : List SeriesId) (s : SeriesId) : List SeriesId := l.filter (· ≠ s)

/-- One atomic step.  `snap = true`: the gather results are matched with the snapshot they were computed for;
`snap = false` (pinned tree): `results[i] for i, source in enumerate(self._resamplers)` over the *current* dict —
an `IndexError` escapes as soon as the dict is longer than the result list. -/
def stepWith (snap : Bool) (period : Int) (st : State) (e : Event) : State × List Tick :=
  match e with
  | .add s => ({ st with series := addSeries st.series s }, [])
  | .remove s => ({ st with series := removeSeries st.series s }, [])
  | .tickStart =>
    if st.dead then (st, [])
    else if st.inflight.isSome then (st, [])
    else ({ st with inflight := some st.series.length }, [{ ts := st.windowEnd, recipients := st.series }])
  | .tickEnd =>
    if st.dead then (st, [])
    else
      match st.inflight with
      | none => (st, [])
      | some n =>
        let st' := { st with windowEnd := advanceWindowEnd st.windowEnd period, inflight := none }
        if snap then (st', [])
        else if n < st.series.length then ({ st' with dead := true }, [])
        else (st', [])

/-- Run a schedule, collecting what the sinks saw. -/
def runWith (snap : Bool) (period : Int) : State → List Event → State × List Tick
  | st, [] => (st, [])
  | st, e :: es =>
    let r := stepWith snap period st e
    let r' := runWith snap period r.1 es
    (r'.1, r.2 ++ r'.2)

/-- The machine of the source tree being checked. -/
def step (period : Int) (st : State) (e : Event) : State × List Tick := stepWith gatherOverSnapshot period st e

def run (period : Int) (st : State) (es : List Event) : State × List Tick := runWith gatherOverSnapshot period st es

/-- Specification side, independent of the machine: series `s` is registered after a schedule when the last
`add`/`remove` that mentions it is an `add`. -/
def regStep (s : SeriesId) (b : Bool) (e : Event) : Bool :=
  match e with
  | .add s' => if s' = s then true else b
  | .remove s' => if s' = s then false else b
  | _ => b

def registered (s : SeriesId) (es : List Event) : Bool := es.foldl (regStep s) false

/-! ### Timed simulation (used by the driver only)

The loop clock `t` (µs) is added on top of the machine: the `Timer(period, TriggerAllMissed)` is due at
`nextTick` and re-arms at `nextTick + period` on every fire, so missed ticks fire back to back; a gather lasts as
long as the slowest sink of its snapshot; a `hog` blocks the loop (everything due meanwhile runs when it ends). -/

inductive Action where
  | add (s : SeriesId) (lat : Int)
  | remove (s : SeriesId)
  | lat (s : SeriesId) (d : Int)
  | hog (d : Int)
deriving Repr

structure TickRec where
  fire : Int
  tick : Tick
deriving Repr

structure Sim where
  st : State
  nextTick : Int
  floor : Int
  finishDue : Int
  lat : List (SeriesId × Int)
  out : List TickRec
deriving Repr

def latOf (l : List (SeriesId × Int)) (s : SeriesId) : Int :=
  match l.find? (·.1 = s) with
  | some p => p.2
  | none => 0

def setLat (l : List (SeriesId × Int)) (s : SeriesId) (d : Int) : List (SeriesId × Int) :=
  (s, d) :: l.filter (·.1 ≠ s)

def maxLat (l : List (SeriesId × Int)) (ss : List SeriesId) : Int :=
  ss.foldl (fun m s => if latOf l s > m then latOf l s else m) 0

/-- Let the loop run until (strictly before) loop time `t`. -/
def advanceTo (period : Int) (t : Int) : Nat → Sim → Sim
  | 0, sim => sim
  | fuel + 1, sim =>
    if sim.st.dead then sim
    else if sim.st.inflight.isSome then
      let e := if sim.finishDue > sim.floor then sim.finishDue else sim.floor
      if e < t then
        let r := step period sim.st .tickEnd
        advanceTo period t fuel { sim with st := r.1, floor := e }
      else sim
    else
      let f := if sim.nextTick > sim.floor then sim.nextTick else sim.floor
      if f < t then
        let r := step period sim.st .tickStart
        let recs := r.2.map (fun tk => { fire := f, tick := tk : TickRec })
        advanceTo period t fuel
          { sim with st := r.1, floor := f, nextTick := sim.nextTick + period,
                     finishDue := f + maxLat sim.lat sim.st.series, out := sim.out ++ recs }
      else sim

def fuelFor (period : Int) (t : Int) (sim : Sim) : Nat :=
  if period ≤ 0 then 0 else (2 * ((t - sim.nextTick) / period + 2) + 4).toNat

def applyAction (period : Int) (sim : Sim) (t : Int) (a : Action) : Sim :=
  let sim := advanceTo period t (fuelFor period t sim) sim
  match a with
  | .add s d => { sim with st := (step period sim.st (.add s)).1, lat := setLat sim.lat s d }
  | .remove s => { sim with st := (step period sim.st (.remove s)).1 }
  | .lat s d => { sim with lat := setLat sim.lat s d }
  | .hog d => { sim with floor := if t + d > sim.floor then t + d else sim.floor }

/-- A whole timed case: creation at wall time `now` / loop time `loopNow`, then the actions, then run until `endT`. -/
def simulate (period : Int) (align : Option Int) (now loopNow : Int) (acts : List (Int × Action)) (endT : Int) : Sim :=
  let we := calculateWindowEnd now period align
  let sim0 : Sim := { st := init we.1, nextTick := firstTickTime loopNow period we.2, floor := loopNow,
                      finishDue := loopNow, lat := [], out := [] }
  let sim := acts.foldl (fun sim ta => applyAction period sim ta.1 ta.2) sim0
  advanceTo period endT (fuelFor period endT sim) sim

end Resampler
