/-
Model of the tick machine of `Resampler` (`src/frequenz/sdk/timeseries/_resampling.py`): `__init__`
(first window end, hand-aligned timer), `add_timeseries` / `remove_timeseries`, and the loop of `resample()`.

Time is `Int` microseconds.  The arithmetic (`calculateWindowEnd`, `firstTickTime`, `advanceWindowEnd`) and the
fact whether `resample()` re-reads the live series dict after the gather (`gatherOverSnapshot`) are NOT written
here: they are regenerated from the Python source on every run (`Frequenz.Extracted.Resampling`).

One iteration of the `async for drift in self._timer` loop is split at its only await point into two atomic
events, `tickStart` (timer fired: the gather is created over the series registered *now*, every one of them is
handed `Sample(window_end, …)`) and `tickEnd` (all sinks returned: `window_end += period`, the error map is
built; a `ResamplingError` ends `resample()` when a series of the gather raised).  `add`/`remove`/`fail` may
occur anywhere, in particular between the two; `restart` is the recovery of the resampling actor
(`microgrid/_resampling.py`): remove the failed sources, call `resample()` again.  A schedule is a `List Event`.
-/
import Frequenz.Extracted.Resampling

namespace Resampler

open Extracted.Resampling

/-- Series are identified by a number (the `Source` object used as dict key). -/
abbrev SeriesId := Nat

inductive Event where
  | tickStart
  | tickEnd
  | add (s : SeriesId)
  | remove (s : SeriesId)
  /-- the source of `s` stops / its sink starts raising: from now on `s` fails at every tick -/
  | fail (s : SeriesId)
  /-- what `ComponentMetricsResamplingActor` does after `resample()` raised `ResamplingError`: remove the
  sources named in the error (`rs`) and call `resample()` again -/
  | restart (rs : List SeriesId)
deriving Repr, DecidableEq

/-- What the sinks observe at one tick: the timestamp and the series that received it, in gather order. -/
structure Tick where
  ts : Int
  recipients : List SeriesId
deriving Repr, DecidableEq

structure State where
  /-- `self._window_end` -/
  windowEnd : Int
  /-- keys of `self._resamplers` in insertion order -/
  series : List SeriesId
  /-- registered series whose `_StreamingHelper.resample()` raises (stopped source, failing sink) -/
  failing : List SeriesId
  /-- `some n`: a gather over `n` series is in flight -/
  inflight : Option Nat
  /-- the series of the gather in flight that raised -/
  raised : List SeriesId
  /-- `resample()` ended with a `ResamplingError`; nothing happens until it is called again -/
  stopped : Bool
  /-- the `resample()` task ended with an exception that is not a `ResamplingError` -/
  dead : Bool
deriving Repr, DecidableEq

def init (w0 : Int) : State :=
  { windowEnd := w0, series := [], failing := [], inflight := none, raised := [], stopped := false, dead := false }

/-- `add_timeseries`: refused when the source is already registered; otherwise appended (dict insertion order). -/
def addSeries (l : List SeriesId) (s : SeriesId) : List SeriesId := if s ∈ l then l else l ++ [s]

/-- `remove_timeseries`: `del self._resamplers[source]`. -/
def removeSeries (l : List SeriesId) (s : SeriesId) : List SeriesId := l.filter (· ≠ s)

/-- One atomic step.
`snap = true`: the gather results are matched with the snapshot they were computed for; `snap = false` (the tree
before fix 69297d9): `results[i] for i, source in enumerate(self._resamplers)` over the *current* dict — an
`IndexError` escapes as soon as the dict is longer than the result list.
`advErr = true`: `_window_end += period` happens before `raise ResamplingError`, so a tick that ends with an
error still consumes its window; `advErr = false`: only error-free ticks advance the window. -/
def stepWith (snap advErr : Bool) (period : Int) (st : State) (e : Event) : State × List Tick :=
  match e with
  | .add s =>
    if s ∈ st.series then (st, [])
    else ({ st with series := st.series ++ [s], failing := st.failing.filter (· ≠ s) }, [])
  | .remove s => ({ st with series := removeSeries st.series s }, [])
  | .fail s => ({ st with failing := s :: st.failing }, [])
  | .restart rs => ({ st with series := st.series.filter (fun s => !rs.contains s), stopped := false }, [])
  | .tickStart =>
    if st.dead then (st, [])
    else if st.stopped then (st, [])
    else if st.inflight.isSome then (st, [])
    else ({ st with inflight := some st.series.length,
                    raised := st.series.filter (fun s => st.failing.contains s) },
          [{ ts := st.windowEnd, recipients := st.series.filter (fun s => !st.failing.contains s) }])
  | .tickEnd =>
    if st.dead then (st, [])
    else
      match st.inflight with
      | none => (st, [])
      | some n =>
        let failed := !st.raised.isEmpty
        let w := if failed && !advErr then st.windowEnd else advanceWindowEnd st.windowEnd period
        let st' := { st with windowEnd := w, inflight := none, raised := [] }
        if !snap && decide (n < st.series.length) then ({ st' with dead := true }, [])
        else if failed then ({ st' with stopped := true }, [])
        else (st', [])

/-- Run a schedule, collecting what the sinks saw. -/
def runWith (snap advErr : Bool) (period : Int) : State → List Event → State × List Tick
  | st, [] => (st, [])
  | st, e :: es =>
    let r := stepWith snap advErr period st e
    let r' := runWith snap advErr period r.1 es
    (r'.1, r.2 ++ r'.2)

/-- The machine of the source tree being checked. -/
def step (period : Int) (st : State) (e : Event) : State × List Tick :=
  stepWith gatherOverSnapshot advanceOnError period st e

def run (period : Int) (st : State) (es : List Event) : State × List Tick :=
  runWith gatherOverSnapshot advanceOnError period st es

/-- Specification side, independent of the machine.  For one series: (is it registered, does it fail).  The last
`add`/`remove`/`restart` that concerns it decides the registration; a new registration starts healthy. -/
def specStep (s : SeriesId) (b : Bool × Bool) (e : Event) : Bool × Bool :=
  match e with
  | .add s' => if s' = s then (if b.1 then b else (true, false)) else b
  | .remove s' => if s' = s then (false, b.2) else b
  | .fail s' => if s' = s then (b.1, true) else b
  | .restart rs => if rs.contains s then (false, b.2) else b
  | _ => b

/-- (registered, failing) of series `s` after the schedule `es`. -/
def status (s : SeriesId) (es : List Event) : Bool × Bool := es.foldl (specStep s) (false, false)

/-! ### Timed simulation (used by the driver only)

The loop clock `t` (µs) is added on top of the machine: the `Timer(period, TriggerAllMissed)` is due at
`nextTick` and re-arms at `nextTick + period` on every fire, so missed ticks fire back to back; a gather lasts as
long as the slowest sink of its snapshot; a `hog` blocks the loop (everything due meanwhile runs when it ends). -/

inductive Action where
  | add (s : SeriesId) (lat : Int)
  | remove (s : SeriesId)
  | lat (s : SeriesId) (d : Int)
  | hog (d : Int)
  | fail (s : SeriesId)
deriving Repr

structure TickRec where
  fire : Int
  tick : Tick
deriving Repr

structure Sim where
  st : State
  nextTick : Int
  floor : Int
  finishDue : Int
  lat : List (SeriesId × Int)
  out : List TickRec
  restarts : Nat
deriving Repr

def latOf (l : List (SeriesId × Int)) (s : SeriesId) : Int :=
  match l.find? (·.1 = s) with
  | some p => p.2
  | none => 0

def setLat (l : List (SeriesId × Int)) (s : SeriesId) (d : Int) : List (SeriesId × Int) :=
  (s, d) :: l.filter (·.1 ≠ s)

def maxLat (l : List (SeriesId × Int)) (ss : List SeriesId) : Int :=
  ss.foldl (fun m s => if latOf l s > m then latOf l s else m) 0

/-- Let the loop run until (strictly before) loop time `t`.  A `ResamplingError` is handled the way the resampling
actor does, at the same instant: remove the series that raised, call `resample()` again. -/
def advanceTo (period : Int) (t : Int) : Nat → Sim → Sim
  | 0, sim => sim
  | fuel + 1, sim =>
    if sim.st.dead then sim
    else if sim.st.inflight.isSome then
      let e := if sim.finishDue > sim.floor then sim.finishDue else sim.floor
      if e < t then
        let raised := sim.st.raised
        let r := step period sim.st .tickEnd
        if r.1.stopped then
          let r2 := step period r.1 (.restart raised)
          advanceTo period t fuel { sim with st := r2.1, floor := e, restarts := sim.restarts + 1 }
        else advanceTo period t fuel { sim with st := r.1, floor := e }
      else sim
    else
      let f := if sim.nextTick > sim.floor then sim.nextTick else sim.floor
      if f < t then
        let r := step period sim.st .tickStart
        let recs := r.2.map (fun tk => { fire := f, tick := tk : TickRec })
        let recipients := (r.2.map (·.recipients)).flatten
        advanceTo period t fuel
          { sim with st := r.1, floor := f, nextTick := sim.nextTick + period,
                     finishDue := f + maxLat sim.lat recipients, out := sim.out ++ recs }
      else sim

def fuelFor (period : Int) (t : Int) (sim : Sim) : Nat :=
  if period ≤ 0 then 0 else (2 * ((t - sim.nextTick) / period + 2) + 4).toNat

def applyAction (period : Int) (sim : Sim) (t : Int) (a : Action) : Sim :=
  let sim := advanceTo period t (fuelFor period t sim) sim
  match a with
  | .add s d => { sim with st := (step period sim.st (.add s)).1, lat := setLat sim.lat s d }
  | .remove s => { sim with st := (step period sim.st (.remove s)).1 }
  | .lat s d => { sim with lat := setLat sim.lat s d }
  | .hog d => { sim with floor := if t + d > sim.floor then t + d else sim.floor }
  | .fail s => { sim with st := (step period sim.st (.fail s)).1 }

/-- A whole timed case: creation at wall time `now` / loop time `loopNow`, then the actions, then run until `endT`. -/
def simulate (period : Int) (align : Option Int) (now loopNow : Int) (acts : List (Int × Action)) (endT : Int) : Sim :=
  let we := calculateWindowEnd now period align
  let sim0 : Sim := { st := init we.1, nextTick := firstTickTime loopNow period we.2, floor := loopNow,
                      finishDue := loopNow, lat := [], out := [], restarts := 0 }
  let sim := acts.foldl (fun sim ta => applyAction period sim ta.1 ta.2) sim0
  advanceTo period endT (fuelFor period endT sim) sim

end Resampler
