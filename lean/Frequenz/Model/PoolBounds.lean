/-
Model for C17: the power bounds a battery pool ADVERTISES (`PowerBoundsCalculator.calculate` fed by
`LatestMetricsFetcher.fetch_next`) versus the bounds the power distributor ENFORCES
(`BatteryManager._get_components_data` / `_get_bounds` / `_check_request`), on the same component messages.

All arithmetic (`_aggregate_battery_power_bounds`, the calculator's loop body, `_get_bounds`, the tail of
`_check_request`, `is_close_to_zero`, the metric tables, `SystemBounds.__contains__`) is NOT written here:
it is regenerated from the Python source on every run (`Frequenz.Extracted.Pool`).  Hand-written here is
only the glue: NaN -> missing in the fetcher, which components/battery sets are skipped, the fold over
battery sets, and the group minimum power of `_compute_battery_availability_ratio`.

A component message is its four bound attributes as `Option Rat` (`none` = NaN).  A battery set ("group") is
the list of batteries behind one set of inverters together with those inverters, as the real code derives
them from the component graph (`bat_bats_map`, `bat_invs_map`); batteries / inverters are lists, so
any M:N sharing is covered.
-/
import Frequenz.Extracted.Pool

namespace PoolBounds
open Extracted.Pool

/-- Latest `BatteryData` of one battery, as seen by both sides. -/
structure RawBattery where
  id : Nat
  /-- the battery is in the working set (status tracker / `working_batteries`) -/
  working : Bool
  /-- a message has arrived (`LatestValueCache.has_value()` / an entry in `metrics_data`) -/
  has : Bool
  /-- `soc`, `soc_lower_bound`, `soc_upper_bound`, `capacity` are not NaN -/
  socOk : Bool
  il : Option Rat
  el : Option Rat
  eu : Option Rat
  iu : Option Rat
deriving Repr, DecidableEq

/-- Latest `InverterData` of one inverter. -/
structure RawInverter where
  id : Nat
  has : Bool
  il : Option Rat
  el : Option Rat
  eu : Option Rat
  iu : Option Rat
deriving Repr, DecidableEq

structure RawGroup where
  bats : List RawBattery
  invs : List RawInverter
deriving Repr, DecidableEq

/-- `getattr(data, name)` of a `BatteryData` message (`none` = NaN); the SoC attributes carry no value here. -/
def RawBattery.attr (b : RawBattery) (name : String) : Option Rat :=
  if name = "power_inclusion_lower_bound" then b.il
  else if name = "power_exclusion_lower_bound" then b.el
  else if name = "power_exclusion_upper_bound" then b.eu
  else if name = "power_inclusion_upper_bound" then b.iu
  else if name = "soc" ∨ name = "soc_lower_bound" ∨ name = "soc_upper_bound" ∨ name = "capacity" then
    (if b.socOk then some 0 else none)
  else none

def RawInverter.attr (i : RawInverter) (name : String) : Option Rat :=
  if name = "active_power_inclusion_lower_bound" then i.il
  else if name = "active_power_exclusion_lower_bound" then i.el
  else if name = "active_power_exclusion_upper_bound" then i.eu
  else if name = "active_power_inclusion_upper_bound" then i.iu
  else none

/-! ## Advertised side: fetcher + `PowerBoundsCalculator` -/

/-- `LatestMetricsFetcher.fetch_next`: the requested metrics of one message, NaN values dropped. -/
def fetchMetrics (methods : List (String × String)) (attr : String → Option Rat) (ids : List String) :
    List (String × Rat) :=
  ids.filterMap fun mid =>
    match methods.lookup mid with
    | none => none
    | some a => (attr a).map fun v => (mid, v)

/-- `get_validated_bounds`: all requested metrics of the component present, else `None`. -/
def validated (ids : List String) (data : Option (List (String × Rat))) : Option PowerBounds :=
  match data with
  | none => none
  | some kv =>
    let results := ids.filterMap fun mid => kv.lookup mid
    if results.length ≠ ids.length then none else some (validatedBounds results)

def RawBattery.metrics (b : RawBattery) : Option (List (String × Rat)) :=
  if b.has then some (fetchMetrics batteryDataMethods b.attr batteryMetricIds) else none

def RawInverter.metrics (i : RawInverter) : Option (List (String × Rat)) :=
  if i.has then some (fetchMetrics inverterDataMethods i.attr inverterMetricIds) else none

/-- The per-component bounds a battery set contributes to the calculator (`get_bounds_list` twice). -/
structure Group where
  bats : List PowerBounds
  invs : List PowerBounds
deriving Repr, DecidableEq

/-- `battery_sets = {bat_bats_map[b] for b in working_batteries}`: a set takes part iff one of its batteries works. -/
def RawGroup.active (g : RawGroup) : Bool := g.bats.any (·.working)

def RawGroup.calcGroup (g : RawGroup) : Group :=
  { bats := g.bats.filterMap fun b => validated batteryMetricIds b.metrics,
    invs := g.invs.filterMap fun i => validated inverterMetricIds i.metrics }

abbrev Acc := Rat × Rat × Rat × Rat

/-- One iteration of `for battery_ids in battery_sets` (the flag records that `timestamp` moved off its minimum). -/
def calcIter (s : Acc × Bool) (g : Group) : Acc × Bool :=
  if g.bats.length = 0 then s
  else if g.invs.length = 0 then s
  else (calcStep s.1.1 s.1.2.1 s.1.2.2.1 s.1.2.2.2 (aggregateBatteryPowerBounds g.bats) g.invs, true)

def calcFold (gs : List Group) : Acc × Bool := gs.foldl calcIter ((0, 0, 0, 0), false)

/-- `PowerBoundsCalculator.calculate`: `none` = `SystemBounds(inclusion_bounds=None, exclusion_bounds=None)`. -/
def advertised (gs : List Group) : Option PowerBounds :=
  let r := calcFold gs
  if r.2 then some (calcResult r.1.1 r.1.2.1 r.1.2.2.1 r.1.2.2.2) else none

def advertisedRaw (gs : List RawGroup) : Option PowerBounds :=
  advertised ((gs.filter (·.active)).map (·.calcGroup))

/-- `power in system_bounds` for the streamed `SystemBounds`. -/
def advertisedContains (adv : Option PowerBounds) (p : Rat) : Bool :=
  systemBoundsContains (adv.map fun b => (b.inclusion_lower, b.inclusion_upper))
    (adv.map fun b => (b.exclusion_lower, b.exclusion_upper)) p

/-! ## Enforced side: `BatteryManager` -/

def RawBattery.data? (b : RawBattery) : Option BatteryData :=
  match b.il, b.el, b.eu, b.iu with
  | some il, some el, some eu, some iu =>
    some { power_inclusion_lower_bound := il, power_exclusion_lower_bound := el,
           power_exclusion_upper_bound := eu, power_inclusion_upper_bound := iu }
  | _, _, _, _ => none

def RawInverter.data? (i : RawInverter) : Option InverterData :=
  match i.il, i.el, i.eu, i.iu with
  | some il, some el, some eu, some iu =>
    some { active_power_inclusion_lower_bound := il, active_power_exclusion_lower_bound := el,
           active_power_exclusion_upper_bound := eu, active_power_inclusion_upper_bound := iu }
  | _, _, _, _ => none

/-- One entry of `pairs_data`: `AggregatedBatteryData` (its `component_id` is the id of the first battery of the
set), and the inverter messages with their ids. -/
structure IdPair where
  batId : Nat
  agg : AggregatedBatteryData
  invs : List (Nat × InverterData)
deriving Repr

/-- The `InvBatPair` without ids: all that `_get_bounds` / `_check_request` read. -/
def IdPair.pair (p : IdPair) : AggregatedBatteryData × List InverterData := (p.agg, p.invs.map (·.2))

def plain (ps : List IdPair) : List (AggregatedBatteryData × List InverterData) := ps.map (·.pair)

inductive PairData where
  /-- `_get_battery_inverter_data` returned `None`: the battery set is skipped -/
  | skipped
  /-- a NaN exclusion bound passes the crucial-metric check: NaN arithmetic, not modelled (outside "complete data") -/
  | unmodelled
  | pair (p : IdPair)
deriving Repr

/-- `_get_battery_inverter_data` + `AggregatedBatteryData.__init__` for one battery set. -/
def RawGroup.pairData (g : RawGroup) : PairData :=
  if ¬ (g.bats.all (·.has) ∧ g.invs.all (·.has)) then .skipped
  else if g.bats.any (fun b => crucialMetricsBat.any fun m => (b.attr m).isNone) then .skipped
  else if g.invs.any (fun i => crucialMetricsInv.any fun m => (i.attr m).isNone) then .skipped
  else
    let bs := g.bats.filterMap (·.data?)
    let is := g.invs.filterMap (fun i => i.data?.map fun d => (i.id, d))
    if bs.length ≠ g.bats.length ∨ is.length ≠ g.invs.length then .unmodelled
    else .pair { batId := (g.bats.head?.map (·.id)).getD 0,
                 agg := { power_bounds := aggregateBatteryPowerBounds (bs.map batteryPowerBounds) },
                 invs := is }

/-- `_get_components_data`: the pairs of the active battery sets that have usable data. -/
def pairsRaw (gs : List RawGroup) : Except String (List IdPair) :=
  (gs.filter (·.active)).foldr (fun g acc =>
    match g.pairData, acc with
    | _, .error e => .error e
    | .skipped, .ok ps => .ok ps
    | .unmodelled, .ok _ => .error "NaN exclusion bound reaches the manager"
    | .pair p, .ok ps => .ok (p :: ps)) (.ok [])

inductive Answer where
  /-- `Error` ("No data for …"): no battery set has usable data -/
  | error
  /-- the request passes `_check_request` and is distributed -/
  | ok
  | outOfBounds
deriving Repr, DecidableEq

/-- `_get_distribution` up to and including `_check_request`. -/
def answer (pairs : List (AggregatedBatteryData × List InverterData)) (power : Rat) (adjust : Bool) : Answer :=
  if pairs.length = 0 then .error
  else if checkRequest (getBounds pairs) power adjust then .outOfBounds else .ok

/-! ### group minimum powers of the distribution algorithm

`_inclusion_exclusion_bounds` fills ONE dict `excl_bounds` keyed by component id for all pairs (battery entry under
`battery.component_id`, then one entry per inverter); `_compute_battery_availability_ratio` reads
`min_power = max(excl_bounds[battery.component_id], min(excl_bounds[i] for i in inverter_ids))` from it.  The dict is
modelled as the list of its assignments in execution order; a lookup returns the LAST assignment to the key. -/

def exclAssignments (supply : Bool) (ps : List IdPair) : List (Nat × Rat) :=
  ps.flatMap fun p =>
    (p.batId, if supply then -p.agg.power_bounds.exclusion_lower else p.agg.power_bounds.exclusion_upper) ::
      p.invs.map fun i =>
        (i.1, if supply then -i.2.active_power_exclusion_lower_bound else i.2.active_power_exclusion_upper_bound)

/-- `d[k]` for a dict given by its assignment history (`0` stands for the unreachable `KeyError`). -/
def dictGet (d : List (Nat × Rat)) (k : Nat) : Rat :=
  d.foldl (fun cur e => if e.1 = k then e.2 else cur) 0

def idPairMinPower (d : List (Nat × Rat)) (p : IdPair) : Rat :=
  pyMax (dictGet d p.batId) (pyMinL (p.invs.map fun i => dictGet d i.1))

/-- Σ `min_power` over the pairs, as the real algorithm computes it (including what id collisions do). -/
def sumMinPowerIds (supply : Bool) (ps : List IdPair) : Rat :=
  pySum (ps.map (idPairMinPower (exclAssignments supply ps)))

/-- The same without the dict: what `min_power` means when no two pairs share a component id. -/
def pairMinPower (supply : Bool) (p : AggregatedBatteryData × List InverterData) : Rat :=
  if supply then
    pyMax (-p.1.power_bounds.exclusion_lower) (pyMinL (p.2.map fun i => -i.active_power_exclusion_lower_bound))
  else
    pyMax p.1.power_bounds.exclusion_upper (pyMinL (p.2.map fun i => i.active_power_exclusion_upper_bound))

def sumMinPower (supply : Bool) (pairs : List (AggregatedBatteryData × List InverterData)) : Rat :=
  pySum (pairs.map (pairMinPower supply))

/-- All component ids used as keys of `excl_bounds`. -/
def allIds (ps : List IdPair) : List Nat := ps.flatMap fun p => p.batId :: p.invs.map (·.1)

/-! ## Complete component data (the domain of C17) -/

structure CBattery where
  id : Nat
  working : Bool
  data : BatteryData
deriving Repr, DecidableEq

structure CInverter where
  id : Nat
  data : InverterData
deriving Repr, DecidableEq

/-- A battery set with complete data: every message present, no NaN.  The same component may occur in several sets
(that is what the real code derives for partially shared inverters). -/
structure CGroup where
  bats : List CBattery
  invs : List CInverter
deriving Repr, DecidableEq

def CBattery.toRaw (b : CBattery) : RawBattery :=
  { id := b.id, working := b.working, has := true, socOk := true,
    il := some b.data.power_inclusion_lower_bound, el := some b.data.power_exclusion_lower_bound,
    eu := some b.data.power_exclusion_upper_bound, iu := some b.data.power_inclusion_upper_bound }

def CInverter.toRaw (i : CInverter) : RawInverter :=
  { id := i.id, has := true,
    il := some i.data.active_power_inclusion_lower_bound, el := some i.data.active_power_exclusion_lower_bound,
    eu := some i.data.active_power_exclusion_upper_bound, iu := some i.data.active_power_inclusion_upper_bound }

def CGroup.toRaw (g : CGroup) : RawGroup := { bats := g.bats.map (·.toRaw), invs := g.invs.map (·.toRaw) }

def CGroup.active (g : CGroup) : Bool := g.bats.any (·.working)

/-- The bounds the calculator reads for a battery / an inverter with complete data. -/
def batBounds (b : BatteryData) : PowerBounds :=
  { inclusion_lower := b.power_inclusion_lower_bound, exclusion_lower := b.power_exclusion_lower_bound,
    exclusion_upper := b.power_exclusion_upper_bound, inclusion_upper := b.power_inclusion_upper_bound }

def invBounds (i : InverterData) : PowerBounds :=
  { inclusion_lower := i.active_power_inclusion_lower_bound, exclusion_lower := i.active_power_exclusion_lower_bound,
    exclusion_upper := i.active_power_exclusion_upper_bound, inclusion_upper := i.active_power_inclusion_upper_bound }

def CGroup.group (g : CGroup) : Group :=
  { bats := g.bats.map fun b => batBounds b.data, invs := g.invs.map fun i => invBounds i.data }

def CGroup.idPair (g : CGroup) : IdPair :=
  { batId := (g.bats.head?.map (·.id)).getD 0,
    agg := { power_bounds := aggregateBatteryPowerBounds (g.bats.map fun b => batteryPowerBounds b.data) },
    invs := g.invs.map fun i => (i.id, i.data) }

def CGroup.pair (g : CGroup) : AggregatedBatteryData × List InverterData := g.idPair.pair

/-- Every battery set has at least one battery and one inverter (true of every set the real code derives). -/
def WellFormed (gs : List CGroup) : Prop := ∀ g ∈ gs, g.bats ≠ [] ∧ g.invs ≠ []

/-- Consistent bounds data "as in C01": every component has `incl_lower ≤ excl_lower ≤ 0 ≤ excl_upper ≤ incl_upper`. -/
def ConsistentBounds (b : PowerBounds) : Prop :=
  b.inclusion_lower ≤ b.exclusion_lower ∧ b.exclusion_lower ≤ 0 ∧ 0 ≤ b.exclusion_upper ∧
    b.exclusion_upper ≤ b.inclusion_upper

def Consistent (gs : List CGroup) : Prop :=
  ∀ g ∈ gs, (∀ b ∈ g.bats, ConsistentBounds (batBounds b.data)) ∧ (∀ i ∈ g.invs, ConsistentBounds (invBounds i.data))

/-- No two participating battery sets share a component id in `excl_bounds`: true whenever the battery sets are
disjoint (every battery behind a shared inverter shares ALL its inverters) — the complement of the
`OverlappingBatterySets` finding. -/
def DistinctIds (gs : List CGroup) : Prop := (allIds ((gs.filter (·.active)).map (·.idPair))).Nodup

instance (gs : List CGroup) : Decidable (DistinctIds gs) := by unfold DistinctIds; infer_instance

/-- "within the inclusion bounds and outside the exclusion bounds", the exclusion zone read as the OPEN
interval (the reading of `_check_request` and of the power manager; the weakest hypothesis). -/
def InAdvertised (adv : PowerBounds) (p : Rat) : Prop :=
  adv.inclusion_lower ≤ p ∧ p ≤ adv.inclusion_upper ∧ ¬ (adv.exclusion_lower < p ∧ p < adv.exclusion_upper)

instance (adv : PowerBounds) (p : Rat) : Decidable (InAdvertised adv p) := by
  unfold InAdvertised; infer_instance

/-! ## The stream: `SendOnUpdate` between the component data and the subscribers of the pool's bounds

`_update_and_notify` caches every fetched sample and sets the update event iff the sample is new or `!=` the cached one
(`Extracted.Pool.updateIffChanged`); `ComponentMetricsData.__eq__` is equality of the stored values
(`Extracted.Pool.metricsEqIsDataEq`), so "`!=`" is "the data differs".  `_send_on_update` recalculates from the cache
whenever the event is set.  Abstractly, over any kind of data `α` with decidable equality and any calculation: -/

structure PoolStream (α β : Type) where
  /-- `_cached_metrics`: the latest data -/
  cached : α
  /-- `_update_event.is_set()` -/
  pending : Bool
  /-- the latest value sent on the result channel -/
  streamed : β

inductive PoolStreamEv (α : Type) where
  /-- a fetched sample (the whole data after it arrived) -/
  | sample (d : α)
  /-- `_send_on_update` wakes up (the update interval elapsed) -/
  | wake

def PoolStream.step {α β : Type} [DecidableEq α] (recalc : α → β) (s : PoolStream α β) : PoolStreamEv α → PoolStream α β
  | .sample d => { s with cached := d, pending := s.pending || decide (d ≠ s.cached) }
  | .wake => if s.pending then { s with pending := false, streamed := recalc s.cached } else s

def PoolStream.run {α β : Type} [DecidableEq α] (recalc : α → β) (s : PoolStream α β) (es : List (PoolStreamEv α)) : PoolStream α β :=
  es.foldl (PoolStream.step recalc) s

end PoolBounds
