/-
Query side of `OrderedRingBuffer` and `MovingWindow`: `count_valid`, `oldest_timestamp`, `newest_timestamp`,
`count_covered`, `get_timestamp`, `window` (by index and by datetime), `_wrapped_buffer_window`, `_fill_gaps`,
`to_internal_index`, `MovingWindow.at` / `__getitem__`.

The decisions that the proposed C09 fixes touch (`winEmpty`, `winFillOrigin`, `atIndexOutOfRange`,
`atNanOnGap`, `countCoveredExact`) come from `Extracted.RingBufferQuery`, so this model follows whichever
source tree is being checked; the theorems in `Props/C09.lean` hold for the fixed tree only.
Float steps replaced by exact arithmetic: `round(total_seconds / total_seconds)` in `to_internal_index`
(exact: the timestamp is normalised first), `sorted(key=start.timestamp())`.
-/
import Frequenz.Model.RingBuffer
import Frequenz.Extracted.RingBufferQuery

namespace RingBuffer
open Extracted.RingBuffer Extracted.RingBufferQuery

variable {α : Type}

/-- `count_valid` (literal: the `start_pos`/`end_pos` case split is kept). -/
def countValid (s : State α) : Int :=
  match s.newest with
  | none => 0
  | some n =>
    let o := oldestOf s.cap n
    let missing := max 0 ((s.gaps.map (fun g => cvGapLen g.1 g.2 o 1)).sum)
    let sp : Int := wrapIdx s.cap o
    let ep : Int := wrapIdx s.cap n
    if ep < sp then cvWrapped s.cap sp ep missing else cvStraight s.cap sp ep missing

/-- `min(g.end for g in self.gaps)` (only evaluated when some gap exists). -/
def minEnd : List Gap → Int
  | [] => 0
  | g :: gs => gs.foldl (fun m h => min m h.2) g.2

/-- `oldest_timestamp` as a slot number. -/
def oldestTs (s : State α) : Option Int :=
  if countValid s = 0 then none
  else
    match s.newest with
    | none => none
    | some n =>
      let o := oldestOf s.cap n
      if isMissing s.gaps o then some (minEnd s.gaps) else some o

/-- `newest_timestamp` as a slot number. -/
def newestTs (s : State α) : Option Int :=
  if countValid s = 0 then none else s.newest

/-- `count_covered` (`_covered_time_range() // sampling_period`, in slots). -/
def countCovered (s : State α) : Int :=
  match oldestTs s, newestTs s with
  | some o, some n => countCoveredQuot (n - o + 1) 1
  | _, _ => 0

/-- `get_timestamp(index)` as a slot number. -/
def getTimestamp (s : State α) (i : Int) : Option Int :=
  match oldestTs s, newestTs s with
  | some o, some n => some ((if i ≥ 0 then o else n + 1) + i * 1)
  | _, _ => none

/-- One bound of `slice(start, stop).indices(n)` for step 1. -/
def sliceBound (x : Option Int) (dflt n : Int) : Int :=
  match x with
  | none => dflt
  | some i => if i < 0 then max (i + n) 0 else min i n

/-- `slice(start, stop).indices(n)[:2]`. -/
def sliceIndices (start stop : Option Int) (n : Int) : Int × Int :=
  (sliceBound start 0 n, sliceBound stop n n)

/-- `_wrapped_buffer_window(buffer, start_pos, end_pos)`. -/
def wrapped {β : Type} (buf : List β) (sp ep : Nat) : List β :=
  if sp ≥ ep then buf.drop sp ++ buf.take ep else (buf.take ep).drop sp

/-- `data[si:ei] = fill` (only used with `0 ≤ si < ei ≤ len`). -/
def setRange {β : Type} (data : List β) (si ei : Int) (fill : β) : List β :=
  data.mapIdx (fun i x => if si ≤ (i : Int) ∧ (i : Int) < ei then fill else x)

/-- `_fill_gaps(data, fill_value, oldest_timestamp = origin, gaps)`; `origin` in µs. -/
def fillGaps {β : Type} (c : Cfg) (data : List β) (fill : β) (origin : Int) (gaps : List Gap) : List β :=
  gaps.foldl (fun d g =>
    let si := max (fgStartIndex (slotTime c g.1) origin c.period) 0
    let ei := min (fgEndIndex (slotTime c g.2) origin c.period) d.length
    if si < ei then setRange d si ei fill else d) data

/-- `window(start, end, fill_value=fill)` for two datetimes (µs).  `fill = none`: `fill_value=None` (raw data). -/
def windowTs (c : Cfg) (s : State α) (start end_ : Int) (fill : Option (Option α)) : List (Option α) :=
  if countCovered s = 0 then []
  else
    match oldestTs s, newestTs s with
    | some o, some n =>
      let st := winClampStart start (slotTime c o)
      let en := winClampEnd end_ (slotTime c n) c.period
      let ns := normSlot c st
      let ne := normSlot c en
      if winEmpty st en (slotTime c ns) (slotTime c ne) then []
      else
        let raw := wrapped s.slots (wrapIdx s.cap ns) (wrapIdx s.cap ne)
        match fill with
        | none => raw
        | some f => fillGaps c raw f (winFillOrigin st (slotTime c ns)) s.gaps
    | _, _ => []

/-- Does `window(start, end)` for two datetimes raise `IndexError`?  The only place that can is `to_internal_index` of
the two clamped bounds, which is reached when the span is not empty; its range test is the translated `tiiOutside`
(in slot numbers, as in `atSlot`).  `windowTs` is the value returned when this is `false`. -/
def windowTsRaises (c : Cfg) (s : State α) (start end_ : Int) : Bool :=
  if countCovered s = 0 then false
  else
    match oldestTs s, newestTs s, s.newest with
    | some o, some n, some nw =>
      let st := winClampStart start (slotTime c o)
      let en := winClampEnd end_ (slotTime c n) c.period
      let ns := normSlot c st
      let ne := normSlot c en
      if winEmpty st en (slotTime c ns) (slotTime c ne) then false
      else decide (tiiOutside ns nw (oldestOf s.cap nw) 1) || decide (tiiOutside ne nw (oldestOf s.cap nw) 1)
    | _, _, _ => false

/-- `window(i, j, fill_value=fill)` for two indices / `None`. -/
def windowIdx (c : Cfg) (s : State α) (i j : Option Int) (fill : Option (Option α)) : List (Option α) :=
  if countCovered s = 0 then []
  else
    let ab := sliceIndices i j (countCovered s)
    match getTimestamp s ab.1, getTimestamp s ab.2 with
    | some a, some b => windowTs c s (slotTime c a) (slotTime c b) fill
    | _, _ => []

/-- Result of `MovingWindow.at`. -/
inductive AtResult (α : Type) where
  | indexError
  | value (v : Option α)
deriving DecidableEq, Repr

/-- Common tail of `MovingWindow.at` for a normalised timestamp (slot `k`): the gap test (when present in the
source), the range test of `to_internal_index`, the raw read. -/
def atSlot (s : State α) (k : Int) : AtResult α :=
  match s.newest with
  | none => .indexError
  | some n =>
    if atNanOnGap = true ∧ isMissing s.gaps k = true then .value none
    else if tiiOutside k n (oldestOf s.cap n) 1 then .indexError
    else .value (s.slots.getD (wrapIdx s.cap k) none)

/-- `MovingWindow.at(i)` / `window[i]` for an integer. -/
def atIndex (s : State α) (i : Int) : AtResult α :=
  if countValid s = 0 then .indexError
  else if atIndexOutOfRange i (countCovered s) then .indexError
  else
    match getTimestamp s i with
    | none => .indexError
    | some k => atSlot s k

/-- `MovingWindow.at(ts)` / `window[ts]` for a datetime (µs). -/
def atTs (c : Cfg) (s : State α) (ts : Int) : AtResult α :=
  if countValid s = 0 then .indexError
  else
    match oldestTs s, newestTs s with
    | some o, some n =>
      if atTsOutOfRange ts (slotTime c o) (slotTime c n) then .indexError else atSlot s (normSlot c ts)
    | _, _ => .indexError

/-! ### What the observers should return, in terms of the abstract map -/

/-- Number of `i ∈ [lo, lo + n)` with `p i`. -/
def cnt (p : Int → Bool) (lo : Int) : Nat → Nat
  | 0 => 0
  | n + 1 => (if p lo then 1 else 0) + cnt p (lo + 1) n

/-- Number of slots of the window that hold a valid value (`|dom|` of the map). -/
def Spec.count (cap : Nat) (sp : Spec α) : Nat :=
  match sp.newest with
  | none => 0
  | some n => cnt (fun j => (sp.val j).isSome) (n - ((cap : Int) - 1)) cap

/-- `k` is the oldest slot with a valid value. -/
def Spec.IsOldestValid (sp : Spec α) (k : Int) : Prop :=
  (sp.val k).isSome = true ∧ ∀ j, j < k → sp.val j = none

/-- The slots `a ≤ k < b`, each with its valid value or else the fill value (empty when `b ≤ a`). -/
def Spec.window (sp : Spec α) (a b : Int) (fill : Option α) : List (Option α) :=
  (List.range (b - a).toNat).map (fun (i : Nat) =>
    match sp.val (a + (i : Int)) with
    | some x => some x
    | none => fill)

end RingBuffer
