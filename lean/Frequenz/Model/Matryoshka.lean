/-
Model of `src/frequenz/sdk/microgrid/_power_managing/_matryoshka.py` and the `Proposal` ordering of
`_base_classes.py`.  The three helpers of `_bounds.py` are NOT written here: they are regenerated
from the Python source on every run (`Frequenz.Extracted.Bounds`).

Powers are exact rationals; `None` is `Option.none`.  `Power.zero()` is truthy in Python
(`Quantity` defines no `__bool__`), so `x or default` only falls through on `None` and
`if proposal.preferred_power:` only tests for `None`.
-/
import Frequenz.Extracted.Bounds
import Frequenz.Extracted.Proposal

namespace Matryoshka

structure Proposal where
  prio : Int
  src : String
  pref : Option Rat
  lo : Option Rat
  hi : Option Rat
  created : Rat
deriving Repr, DecidableEq

structure SystemBounds where
  incl : Option Bounds
  excl : Option Bounds
deriving Repr, DecidableEq

/-- `Proposal.__lt__`: by priority, then by source id. -/
def Proposal.lt (a b : Proposal) : Prop :=
  Extracted.Proposal.lt a.prio a.src b.prio b.src   -- regenerated from `_base_classes.py`

instance (a b : Proposal) : Decidable (a.lt b) := by
  unfold Proposal.lt Extracted.Proposal.lt; exact inferInstance

/-- `Proposal.__eq__` / `__hash__`: the key is `(priority, source_id)`. -/
def Proposal.sameKey (a b : Proposal) : Prop :=
  Extracted.Proposal.eq a.prio a.src b.prio b.src   -- regenerated from `_base_classes.py`

instance (a b : Proposal) : Decidable (a.sameKey b) := by
  unfold Proposal.sameKey Extracted.Proposal.eq; exact inferInstance

/-- Comparison used for `sorted(proposals, reverse=True)`: `a` goes before `b` when `¬ a < b`. -/
def geB (a b : Proposal) : Bool := decide (¬ a.lt b)

/-- `sorted(bucket, reverse=True)`.  Python's sort is stable and `reverse=True` keeps stability;
for pairwise distinct keys (a `set` of proposals) the result is the unique descending order. -/
def insertDesc (p : Proposal) : List Proposal → List Proposal
  | [] => [p]
  | q :: qs => if geB p q then p :: q :: qs else q :: insertDesc p qs

/-- Stable insertion sort (structural recursion, so the kernel can evaluate it). -/
def sortDesc : List Proposal → List Proposal
  | [] => []
  | p :: ps => insertDesc p (sortDesc ps)

/-- The `exclusion_bounds` local of `_calc_target_power` / `get_status`: the system exclusion
bounds, unless they are absent or both ends are zero. -/
def effExcl (sb : SystemBounds) : Option Bounds :=
  match sb.excl with
  | none => none
  | some e => if e.lower ≠ 0 ∨ e.upper ≠ 0 then some e else none

/-- Loop state of `_calc_target_power`. `stopped` models `break`. -/
structure St where
  lo : Rat
  hi : Rat
  target : Rat
  stopped : Bool
deriving Repr, DecidableEq

/-- The `match clamp_to_bounds(...)` block: which power (if any) replaces the target. -/
def pick (pref : Rat) (r : Option Rat × Option Rat) (old : Rat) : Rat :=
  match r with
  | (none, some p) => p
  | (some p, none) => p
  | (some l, some h) => if h - pref < pref - l then h else l
  | (none, none) => old

/-- One iteration of the `for next_proposal in sorted(proposals, reverse=True)` loop. -/
def step (ex : Option Bounds) (s : St) (p : Proposal) : St :=
  if s.stopped then s
  else if s.hi < s.lo then { s with stopped := true }
  else
    let target :=
      match p.pref with
      | none => s.target
      | some pref => pick pref (Extracted.clampToBounds pref s.lo s.hi ex) s.target
    let pl := p.lo.getD s.lo
    let ph := p.hi.getD s.hi
    if Extracted.checkExclusionBoundsOverlap pl ph ex = (true, true) then
      { s with target := target }   -- `continue`
    else
      let lo := pyMax s.lo pl
      let hi := pyMin s.hi ph
      let r := Extracted.adjustExclusionBounds lo hi ex
      { lo := r.1, hi := r.2, target := target, stopped := false }

/-- Initial loop state: the system inclusion bounds, or `[0, 0]` when they are unavailable. -/
def initSt (sb : SystemBounds) : St :=
  match sb.incl with
  | some b => { lo := b.lower, hi := b.upper, target := 0, stopped := false }
  | none => { lo := 0, hi := 0, target := 0, stopped := false }

/-- The loop over an already ordered list of proposals. -/
def sweep (sb : SystemBounds) (ps : List Proposal) : St :=
  ps.foldl (step (effExcl sb)) (initSt sb)

/-- `_calc_target_power(proposals, system_bounds)`. -/
def calcTarget (sb : SystemBounds) (bucket : List Proposal) : Rat :=
  (sweep sb (sortDesc bucket)).target

/-- Bucket update of `calculate_target_power`: remove an equal proposal, then add. -/
def insertProposal (bucket : List Proposal) (p : Proposal) : List Proposal :=
  bucket.filter (fun q => ¬ q.sameKey p) ++ [p]

/-- `drop_old_proposals(loop_time)`. -/
def dropOld (maxAge now : Rat) (bucket : List Proposal) : List Proposal :=
  bucket.filter (fun p => ¬ Extracted.Proposal.expired now p.created maxAge)

/-- Loop state of `get_status`. -/
structure RSt where
  lo : Rat
  hi : Rat
  stopped : Bool
deriving Repr, DecidableEq

def statusStep (ex : Option Bounds) (prio : Int) (s : RSt) (p : Proposal) : RSt :=
  if s.stopped then s
  else if p.prio ≤ prio then { s with stopped := true }
  else
    let pl := p.lo.getD s.lo
    let ph := p.hi.getD s.hi
    if Extracted.checkExclusionBoundsOverlap pl ph ex = (true, true) then s
    else
      let cl := pyMax s.lo pl
      let ch := pyMin s.hi ph
      if cl ≤ ch then
        let r := Extracted.adjustExclusionBounds cl ch ex
        { lo := r.1, hi := r.2, stopped := false }
      else { s with stopped := true }

/-- The inclusion bounds reported by `get_status` for `prio` (`none` when the system has none). -/
def reportBounds (sb : SystemBounds) (bucket : List Proposal) (prio : Int) : Option Bounds :=
  match sb.incl with
  | none => none
  | some b =>
    let s := (sortDesc bucket).foldl (statusStep (effExcl sb) prio)
      { lo := b.lower, hi := b.upper, stopped := false }
    some { lower := s.lo, upper := s.hi }

/-- `_Report.adjust_to_bounds(power)`; note: it uses the *raw* system exclusion bounds. -/
def adjustToBounds (rep : Option Bounds) (excl : Option Bounds) (power : Rat) :
    Option Rat × Option Rat :=
  match rep with
  | none => (none, none)
  | some b => Extracted.clampToBounds power b.lower b.upper excl

/-- One `Matryoshka` instance restricted to one component set. -/
structure Mgr where
  bucket : Option (List Proposal)   -- `None`: no bucket for these component ids yet
  last : Option Rat                 -- `_target_power.get(component_ids)`
deriving Repr, DecidableEq

def Mgr.init : Mgr := { bucket := none, last := none }

/-- The bucket after the optional proposal has been added. -/
def Mgr.newBucket (m : Mgr) : Option Proposal → Option (List Proposal)
  | some p => some (insertProposal (m.bucket.getD []) p)
  | none => m.bucket

/-- `calculate_target_power(component_ids, proposal, system_bounds, must_return_power)`. -/
def Mgr.calc (m : Mgr) (p : Option Proposal) (sb : SystemBounds) (must : Bool) :
    Mgr × Option Rat :=
  if m.bucket.isNone ∧ sb.incl.isNone ∧ sb.excl.isNone then (m, none)
  else
    match m.newBucket p with
    | none => (m, none)
    | some b =>
      if must ∨ m.last ≠ some (calcTarget sb b) then
        ({ bucket := some b, last := some (calcTarget sb b) }, some (calcTarget sb b))
      else ({ m with bucket := some b }, none)

def Mgr.drop (m : Mgr) (maxAge now : Rat) : Mgr :=
  { m with bucket := m.bucket.map (dropOld maxAge now) }

end Matryoshka
