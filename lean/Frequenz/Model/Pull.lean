/-
Prelude for machine-translated "pull" coroutines (`tools/extractors/fallback_pull.py` → `Extracted/FallbackPull.lean`).

The coroutines of `MetricFetcher` (`_formula_steps.py`) only ever `await` a `receive()` on one of two FIFO receivers
(primary = the `stream` constructor argument, fallback = the `fallback` constructor argument).  Against given queue
contents a call is a pure function of the state below:

  * `receive()` pops the head of the queue; on an empty queue it raises `ReceiverError` when the channel is closed and
    otherwise *blocks* — then the whole call has no result yet (`Out.block`);
  * `fallback.start()` sets `running`, `fallback.is_running` reads it;
  * `self.<field>` reads/writes of the two `None`-initialised sample fields are reads/writes of `latest` / `next`;
  * Python is dynamically typed: every sample-valued expression is an `Option PSample` (`None` = `none`), an attribute
    access on `None` raises (`Exc.fault`, an `AttributeError`, NOT caught by `except ReceiverError`).

Values are kept concrete enough to tell `None`, NaN and ±inf apart (`Option Q`); the hand-written model
(`Model/Fallback.lean`) collapses the three to `none` — the abstraction lives in `Lemmas/FallbackTie.lean`.
Mathlib-free.
-/

namespace Pull

/-- A (non-`None`) quantity: NaN, ±inf or a number. -/
inductive Q where
  | nan
  | inf
  | num (q : Rat)
deriving DecidableEq, Repr

def Q.isnan : Q → Bool
  | .nan => true
  | _ => false

def Q.isinf : Q → Bool
  | .inf => true
  | _ => false

/-- `Sample[QuantityT]`: `timestamp`, `value: QuantityT | None`. -/
structure PSample where
  ts : Int
  val : Option Q
deriving DecidableEq, Repr

/-- What the translated methods can read and write. -/
structure PSt where
  pq : List PSample            -- queue of the primary receiver
  pClosed : Bool               -- its channel is closed
  fq : List PSample            -- queue of the fallback receiver
  fClosed : Bool
  running : Bool               -- `fallback.is_running`
  hasFb : Bool                 -- a fallback was given to the constructor (`fallback is not None`)
  latest : Option PSample      -- the `None`-initialised sample field private to the fetch methods
  next : Option PSample        -- the `None`-initialised sample field read back by `value` / `apply`
deriving DecidableEq, Repr

/-- Exceptions: `ReceiverError` (caught by `except ReceiverError`) and anything else (never caught). -/
inductive Exc where
  | recv
  | fault
deriving DecidableEq, Repr

/-- Outcome of running a (piece of a) method on a state. -/
inductive Out (α : Type) where
  | ok (a : α) (s : PSt)       -- returned `a`
  | exc (e : Exc) (s : PSt)    -- raised
  | block                      -- waits for data that has not been delivered
deriving Repr

/-- Outcome of one `await <receiver>.receive()`. -/
inductive Recv where
  | got (v : PSample) (s : PSt)
  | closed                      -- raises `ReceiverError`; the state is unchanged
  | block
deriving Repr

def recvP (s : PSt) : Recv :=
  match s.pq with
  | v :: r => .got v { s with pq := r }
  | [] => if s.pClosed then .closed else .block

def recvF (s : PSt) : Recv :=
  match s.fq with
  | v :: r => .got v { s with fq := r }
  | [] => if s.fClosed then .closed else .block

/-- `fallback.start()`. -/
def start (s : PSt) : PSt := { s with running := true }


/-!
## Pull code over `n` fetchers (`FormulaEvaluator`, `tools/extractors/evaluator_pull.py` → `Extracted/EvaluatorPull.lean`)

`FormulaEvaluator.apply` / `_synchronize_metric_timestamps` only ever await `fetch_next()` of the fetchers in
`self._metric_fetchers` (a dict name → fetcher; names are numbered `0, 1, …` here, `names` = its keys in insertion
order).  Every fetcher is a plain `MetricFetcher` reading its own FIFO queue `qs i`: `fetch_next()` pops the head and
stores it as the fetcher's `value` (`cur i`); on an empty queue the whole call has no result yet (`block`; closed
channels are not modelled).  Generic in the sample type `S`.

`asyncio.wait([create_task(f.fetch_next(), name=n) for n, f in fetchers.items()], return_when=ALL_COMPLETED)` is
`gather`: one sample popped from every queue (blocks if any is empty); the finished tasks are a *set*, whose
iteration order is arbitrary but fixed: the oracle `order` (a permutation of `names` in every theorem).
A task is the pair (its name, its result).
-/

/-- `asyncio.Task`: name and result. -/
abbrev ATask (S : Type) := Nat × Option S

/-- `dict[datetime, list[str]]` in insertion order. -/
abbrev Dict := List (Int × List Nat)

structure EvSt (S : Type) where
  names : List Nat              -- keys of the fetcher dict, insertion order (constant)
  order : List Nat              -- iteration order of the set of finished tasks (constant oracle)
  qs : Nat → List S             -- receiver queue of every fetcher
  cur : Nat → Option S          -- `fetcher.value` (`_next_value`): the last sample it fetched
  firstRun : Bool               -- the evaluator's `True`-initialised flag

/-- Exceptions of the evaluator: `RuntimeError` and anything else (AssertionError, KeyError, StopIteration, …). -/
inductive EExc where
  | runtime
  | fault
deriving DecidableEq, Repr

inductive EOut (S : Type) (α : Type) where
  | ok (a : α) (s : EvSt S)
  | exc (e : EExc) (s : EvSt S)
  | block

/-- How a loop ended: normally (with the loop-carried locals) or by a `return`. -/
inductive Flow (ρ : Type) (γ : Type) where
  | next (c : γ)
  | ret (v : ρ)

inductive EFetch (S : Type) where
  | got (v : Option S) (s : EvSt S)
  | block

inductive EGather (S : Type) where
  | got (ready pending : List (ATask S)) (s : EvSt S)
  | block

def setAt {α : Type} (f : Nat → α) (i : Nat) (v : α) : Nat → α := fun j => if j = i then v else f j

/-- `await <fetcher i>.fetch_next()` -/
def fetchNext {S : Type} (i : Nat) (s : EvSt S) : EFetch S :=
  match s.qs i with
  | v :: r => .got (some v) { s with qs := setAt s.qs i r, cur := setAt s.cur i (some v) }
  | [] => .block

/-- one `fetch_next()` of every fetcher in the list; `none` = some queue is empty -/
def fetchAll {S : Type} : List Nat → EvSt S → Option (EvSt S)
  | [], s => some s
  | i :: r, s =>
    match fetchNext i s with
    | .got _ s' => fetchAll r s'
    | .block => none

/-- `await asyncio.wait([create_task(f.fetch_next(), name=n) for n, f in fetchers.items()], ALL_COMPLETED)` -/
def gather {S : Type} (s : EvSt S) : EGather S :=
  match fetchAll s.names s with
  | some s' => .got (s'.order.map (fun i => (i, s'.cur i))) [] s'
  | none => .block

/-- number of samples still queued (the fuel of `while` loops that fetch) -/
def totalLen {S : Type} (s : EvSt S) : Nat := (s.names.map (fun i => (s.qs i).length)).sum

namespace Dict

def has (d : Dict) (k : Int) : Bool := d.any (fun e => e.1 == k)

def get? : Dict → Int → Option (List Nat)
  | [], _ => none
  | (k', l) :: r, k => if k' = k then some l else get? r k

/-- `d[k] = v` -/
def set : Dict → Int → List Nat → Dict
  | [], k, v => [(k, v)]
  | (k', l) :: r, k, v => if k' = k then (k', v) :: r else (k', l) :: set r k v

/-- `d.setdefault(k, v)` (the dict afterwards) -/
def setdefault (d : Dict) (k : Int) (v : List Nat) : Dict := if has d k then d else d ++ [(k, v)]

/-- `d[k].append(x)`; `none` = KeyError -/
def appendAt : Dict → Int → Nat → Option Dict
  | [], _, _ => none
  | (k', l) :: r, k, x =>
    if k' = k then some ((k', l ++ [x]) :: r)
    else match appendAt r k x with
      | some r' => some ((k', l) :: r')
      | none => none

/-- `max(d)`; `none` = ValueError (empty) -/
def maxKey : Dict → Option Int
  | [] => none
  | (k, _) :: r =>
    match maxKey r with
    | some m => some (if m > k then m else k)
    | none => some k

end Dict

end Pull
