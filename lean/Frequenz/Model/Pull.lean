/-
Prelude for machine-translated "pull" coroutines (`tools/extractors/fallback_pull.py` → `Extracted/FallbackPull.lean`).

The coroutines of `MetricFetcher` (`_formula_steps.py`) only ever `await` a `receive()` on one of two FIFO receivers
(primary = the `stream` constructor argument, fallback = the `fallback` constructor argument).  Against given queue
contents a call is a pure function of the state below:

  * `receive()` pops the head of the queue; on an empty queue it raises `ReceiverError` when the channel is closed and
    otherwise *blocks* — then the whole call has no result yet (`Out.block`);
  * `fallback.start()` sets `running`, `fallback.is_running` reads it;
  * `self.<field>` reads/writes of the two `None`-initialised sample fields are reads/writes of `latest` / `next`;
  * Python is dynamically typed: every sample-valued expression is an `Option PSample` (`None` = `none`), an attribute
    access on `None` raises (`Exc.fault`, an `AttributeError`, NOT caught by `except ReceiverError`).

Values are kept concrete enough to tell `None`, NaN and ±inf apart (`Option Q`); the hand-written model
(`Model/Fallback.lean`) collapses the three to `none` — the abstraction lives in `Lemmas/FallbackTie.lean`.
Mathlib-free.
-/

namespace Pull

/-- A (non-`None`) quantity: NaN, ±inf or a number. -/
inductive Q where
  | nan
  | inf
  | num (q : Rat)
deriving DecidableEq, Repr

def Q.isnan : Q → Bool
  | .nan => true
  | _ => false

def Q.isinf : Q → Bool
  | .inf => true
  | _ => false

/-- `Sample[QuantityT]`: `timestamp`, `value: QuantityT | None`. -/
structure PSample where
  ts : Int
  val : Option Q
deriving DecidableEq, Repr

/-- What the translated methods can read and write. -/
structure PSt where
  pq : List PSample            -- queue of the primary receiver
  pClosed : Bool               -- its channel is closed
  fq : List PSample            -- queue of the fallback receiver
  fClosed : Bool
  running : Bool               -- `fallback.is_running`
  hasFb : Bool                 -- a fallback was given to the constructor (`fallback is not None`)
  latest : Option PSample      -- the `None`-initialised sample field private to the fetch methods
  next : Option PSample        -- the `None`-initialised sample field read back by `value` / `apply`
deriving DecidableEq, Repr

/-- Exceptions: `ReceiverError` (caught by `except ReceiverError`) and anything else (never caught). -/
inductive Exc where
  | recv
  | fault
deriving DecidableEq, Repr

/-- Outcome of running a (piece of a) method on a state. -/
inductive Out (α : Type) where
  | ok (a : α) (s : PSt)       -- returned `a`
  | exc (e : Exc) (s : PSt)    -- raised
  | block                      -- waits for data that has not been delivered
deriving Repr

/-- Outcome of one `await <receiver>.receive()`. -/
inductive Recv where
  | got (v : PSample) (s : PSt)
  | closed                      -- raises `ReceiverError`; the state is unchanged
  | block
deriving Repr

def recvP (s : PSt) : Recv :=
  match s.pq with
  | v :: r => .got v { s with pq := r }
  | [] => if s.pClosed then .closed else .block

def recvF (s : PSt) : Recv :=
  match s.fq with
  | v :: r => .got v { s with fq := r }
  | [] => if s.fClosed then .closed else .block

/-- `fallback.start()`. -/
def start (s : PSt) : PSt := { s with running := true }

end Pull
