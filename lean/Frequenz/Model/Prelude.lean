/-
Shared vocabulary of the models.  Mathlib-free (core only) so that drivers can be interpreted
quickly with `lake env lean --run`.
-/

/-- `timeseries.Bounds[Power]` with both ends present. -/
structure Bounds where
  lower : Rat
  upper : Rat
deriving Repr, DecidableEq

/-- Python's `max(a, b)`: returns `a` unless `b > a` (first maximal element wins). -/
def pyMax (a b : Rat) : Rat := if b > a then b else a

/-- Python's `min(a, b)`: returns `a` unless `b < a`. -/
def pyMin (a b : Rat) : Rat := if b < a then b else a

theorem pyMax_eq_max (a b : Rat) : pyMax a b = max a b := by
  unfold pyMax; grind

theorem pyMin_eq_min (a b : Rat) : pyMin a b = min a b := by
  unfold pyMin; grind
