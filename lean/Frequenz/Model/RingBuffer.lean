/-
Model of `OrderedRingBuffer` (`timeseries/_ringbuffer/buffer.py`): state, `normalize_timestamp`, `update`,
`_update_gaps`, `_remove_gap`, `_cleanup_gaps`; and the abstract specification it is proved to refine
(a sliding slot → value map).  The query side (`window`, counts, `MovingWindow.at`) is in `RingBufferQuery.lean`.

Time.  Every timestamp the buffer *stores* (`_timestamp_newest`, `_timestamp_oldest`, gap bounds) is the
result of `normalize_timestamp` plus/minus multiples of the sampling period, i.e. `align + k·period`.  The
state therefore keeps the slot number `k : Int`; the extracted expressions are instantiated with
`period := 1`, `fullRange := cap`.  Raw microsecond timestamps (`Int`) appear where the code sees them:
`normSlot` (= `normalize_timestamp`, floor `divmod` + the half rule) and the datetime queries.

Every branch condition and every constructed gap bound below is `Extracted.RingBuffer.*`, regenerated from
`buffer.py` on each run; the statement skeleton is pinned by the extractor.

Values are an arbitrary type `α`; `none` = NaN / missing.  Core only (no Mathlib).
-/
import Frequenz.Model.Prelude
import Frequenz.Extracted.RingBuffer

namespace RingBuffer
open Extracted.RingBuffer

/-- `Gap(start, end)`: slots `start ≤ k < end` hold no valid value. -/
abbrev Gap := Int × Int

/-- `is_missing` -/
def isMissing (gaps : List Gap) (t : Int) : Bool :=
  gaps.any (fun g => decide (gapContains g.1 g.2 t))

/-- `_remove_gap`: the first gap containing `t` is deleted, shrunk in place, or split (second half appended
at the END of the list, as `self._gaps.append(new_gap)` does). -/
def removeGap : List Gap → Int → List Gap
  | [], _ => []
  | g :: gs, t =>
    if gapContains g.1 g.2 t then
      if rgAtStart g.1 g.2 t 1 then
        if rgWhole g.1 g.2 t 1 then gs else (rgAfter t 1, g.2) :: gs
      else if rgAtEnd g.1 g.2 t 1 then (g.1, t) :: gs
      else (g.1, t) :: (gs ++ [(rgAfterSplit t 1, g.2)])
    else g :: removeGap gs t

/-- Insert before the first element with a larger-or-equal start (so `sortGaps` is stable). -/
def insertGap (g : Gap) : List Gap → List Gap
  | [] => [g]
  | h :: t => if g.1 ≤ h.1 then g :: h :: t else h :: insertGap g t

/-- `sorted(self._gaps, key=start)`: stable insertion sort by start. -/
def sortGaps : List Gap → List Gap
  | [] => []
  | g :: l => insertGap g (sortGaps l)

/-- The `while i < len(self._gaps)` loop of `_cleanup_gaps`, started at `i` = head of the list; elements
before `i` are final (the loop never looks back).  One unit of fuel per iteration. -/
def cleanupLoop (oldest : Int) : Nat → List Gap → List Gap
  | 0, l => l
  | _ + 1, [] => []
  | fuel + 1, w1 :: rest =>
    if clOutdated w1.1 w1.2 oldest then cleanupLoop oldest fuel rest
    else if clRolled w1.1 w1.2 oldest then cleanupLoop oldest fuel ((oldest, w1.2) :: rest)
    else
      match rest with
      | [] => [w1]
      | w2 :: rest' =>
        if clSubset w1.1 w1.2 w2.1 w2.2 then cleanupLoop oldest fuel (w1 :: rest')
        else if clNeighbor w1.1 w1.2 w2.1 w2.2 then cleanupLoop oldest fuel ((w1.1, w2.2) :: rest')
        else w1 :: cleanupLoop oldest fuel (w2 :: rest')

/-- `_cleanup_gaps`.  Fuel `2·len + 2` is proved sufficient (`Lemmas/RingBufferGaps.lean`). -/
def cleanupGaps (oldest : Int) (gaps : List Gap) : List Gap :=
  cleanupLoop oldest (2 * gaps.length + 2) (sortGaps gaps)

/-- `_update_gaps(timestamp, newest, record_as_missing)`; `selfNewest`/`oldest` are the already updated
`self._timestamp_newest` / `self._timestamp_oldest`. -/
def updateGaps (fullRange : Int) (gaps : List Gap) (timestamp newest selfNewest oldest : Int)
    (recordAsMissing : Bool) : List Gap :=
  let found := isMissing gaps timestamp
  if recordAsMissing = false ∧ ugJump selfNewest newest fullRange then
    [(ugJumpStart oldest selfNewest, ugJumpEnd oldest selfNewest)]
  else
    let g1 :=
      if recordAsMissing = false ∧ ugCreated found timestamp newest 1 then
        gaps ++ [(ugCreatedStart timestamp newest 1, ugCreatedEnd timestamp newest 1)]
      else gaps
    let g2 :=
      if recordAsMissing = true then
        if found = false then g1 ++ [(ugMissingStart timestamp newest 1, ugMissingEnd timestamp newest 1)] else g1
      else if g1.length > 0 ∧ found = true then removeGap g1 timestamp
      else g1
    cleanupGaps oldest g2

/-- Concrete state.  `newest = none` is the fresh buffer (`_timestamp_newest = _TIMESTAMP_MIN`,
`_timestamp_oldest = _TIMESTAMP_MAX`); afterwards `_timestamp_oldest` is always `updOldest newest cap 1`. -/
structure State (α : Type) where
  cap : Nat
  slots : List (Option α)
  gaps : List Gap
  newest : Option Int

/-- Fresh buffer over the container `buffer` (its content is never valid data). -/
def State.init {α : Type} (buffer : List (Option α)) : State α :=
  { cap := buffer.length, slots := buffer, gaps := [], newest := none }

/-- `_timestamp_oldest` for a given `_timestamp_newest`. -/
def oldestOf (cap : Nat) (n : Int) : Int := updOldest n cap 1

/-- `wrap(index)` = `index % maxlen` (Python `%`: result in `[0, maxlen)`). -/
def wrapIdx (cap : Nat) (k : Int) : Nat := (k % (cap : Int)).toNat

/-- `update` with an already normalised timestamp (slot `t`).  Returns the new state and whether the
sample was rejected with `IndexError` (state unchanged).  For the fresh buffer `_TIMESTAMP_MIN` is
represented by `t - cap`: any value at least a full range older gives the same result. -/
def updateSlot {α : Type} (s : State α) (t : Int) (v : Option α) : State α × Bool :=
  let oldOldest := match s.newest with
    | some n => oldestOf s.cap n
    | none => 0
  if updReject t oldOldest s.newest.isNone then (s, true)
  else
    let prev := match s.newest with
      | some n => n
      | none => t - s.cap
    let n' := updNewest prev t
    let o' := oldestOf s.cap n'
    ({ s with
        slots := s.slots.set (wrapIdx s.cap t) v
        gaps := updateGaps s.cap s.gaps t prev n' o' v.isNone
        newest := some n' }, false)

/-! ### Microsecond layer -/

/-- Alignment point and sampling period, in µs (`period > 0`). -/
structure Cfg where
  align : Int
  period : Int

/-- `timedelta / 2`: the exact half, rounded half-to-even to a whole microsecond. -/
def halfPeriod (p : Int) : Int :=
  if p % 2 = 0 then p / 2 else if (p / 2) % 2 = 0 then p / 2 else p / 2 + 1

/-- `normalize_timestamp`, as the slot number: `divmod` (floor) and the extracted rounding test. -/
def normSlot (c : Cfg) (ts : Int) : Int :=
  let q := (ts - c.align) / c.period
  let r := (ts - c.align) % c.period
  if normRoundUp r q (halfPeriod c.period) then q + 1 else q

/-- Timestamp of slot `k`. -/
def slotTime (c : Cfg) (k : Int) : Int := c.align + k * c.period

/-- `update(Sample(ts, v))`. -/
def update {α : Type} (c : Cfg) (s : State α) (ts : Int) (v : Option α) : State α × Bool :=
  updateSlot s (normSlot c ts) v

/-- A history of updates (rejected ones leave the state unchanged). -/
def run {α : Type} (c : Cfg) (s : State α) (h : List (Int × Option α)) : State α :=
  h.foldl (fun st u => (update c st u.1 u.2).1) s

/-! ### Abstract specification: a sliding slot → value map -/

/-- Newest slot written so far, and the valid value of every slot (`none`: no valid value). -/
structure Spec (α : Type) where
  newest : Option Int
  val : Int → Option α

def Spec.init {α : Type} : Spec α := { newest := none, val := fun _ => none }

/-- Write `v` (valid or missing) to slot `k` of a window of `cap` slots ending at the newest slot: rejected when
older than the window; otherwise the window moves to end at `max newest k`, slot `k` takes `v`, slots that left
the window are evicted. -/
def Spec.write {α : Type} (cap : Nat) (sp : Spec α) (k : Int) (v : Option α) : Spec α :=
  match sp.newest with
  | none => { newest := some k, val := fun j => if j = k then v else none }
  | some n =>
    if k < n - ((cap : Int) - 1) then sp
    else
      let n' := max n k
      { newest := some n', val := fun j => if j = k then v else if n' - ((cap : Int) - 1) ≤ j then sp.val j else none }

def Spec.run {α : Type} (c : Cfg) (cap : Nat) (h : List (Int × Option α)) : Spec α :=
  h.foldl (fun sp u => Spec.write cap sp (normSlot c u.1) u.2) Spec.init

/-- Abstraction function: what the concrete state holds, read through the gap list. -/
def abs {α : Type} (s : State α) : Spec α :=
  { newest := s.newest
    val := fun j =>
      match s.newest with
      | none => none
      | some n =>
        if oldestOf s.cap n ≤ j ∧ j ≤ n ∧ isMissing s.gaps j = false then s.slots.getD (wrapIdx s.cap j) none
        else none }

end RingBuffer
