/-
Vocabulary of the formula-engine models (C05, C13): Python floats on the evaluation stack, the
exceptions that can escape a formula step, the operator alphabet of the shunting-yard builder, and the
float primitives the *extracted* step bodies (`Frequenz/Extracted/Formula.lean`, generated from
`_formula_steps.py` on every run) are written in.  Mathlib-free.

A Python float is modelled as `Option Rat`: `none` = NaN, `some q` = the finite value `q` (exact
arithmetic instead of IEEE rounding; ±inf never reaches the stack: `MetricFetcher.apply` filters it,
overflow is out of scope).
-/
import Frequenz.Model.Prelude

namespace Formula

/-- A float on the evaluation stack (`none` = NaN). -/
abbrev V := Option Rat

/-- What can escape `FormulaEvaluator.apply` while the steps run: `ZeroDivisionError` of a float
division, or an `IndexError`/`RuntimeError` of a malformed postfix program (pop from an empty stack,
final stack size ≠ 1).  The engine loop swallows either one and emits NO sample for that round. -/
inductive Err where
  | zeroDiv
  | stack
deriving DecidableEq, Repr

abbrev M := Except Err

/-- Operator alphabet = the keys of `_operator_precedence` (`repr` of the step classes). -/
inductive Op where
  | max | min | cons | prod | lp | div | mul | sub | add | rp
deriving DecidableEq, Repr

/-- What the final test of `FormulaEvaluator.apply` can see of a float: finite, NaN or ±inf.  (The arithmetic
model above has no infinities — they only arise from IEEE overflow, which exact arithmetic does not have — but
the final test is about all three classes.) -/
inductive FloatClass where
  | finite (q : Rat)
  | nan
  | inf (negative : Bool)
deriving DecidableEq, Repr

/- Float primitives used by the translated step bodies. -/
namespace PyF

/-- `math.isnan` / `math.isinf` / `math.isfinite` on the three classes. -/
def isnanC : FloatClass → Bool
  | .nan => true
  | _ => false

def isinfC : FloatClass → Bool
  | .inf _ => true
  | _ => false

def isfiniteC : FloatClass → Bool
  | .finite _ => true
  | _ => false

def nan : V := none

def lit (q : Rat) : V := some q

/-- `math.isnan(x)` -/
def isnan (a : V) : Bool := a.isNone

/-- `a == b` on floats (NaN compares unequal to everything). -/
def eq (a b : V) : Bool :=
  match a, b with
  | some x, some y => decide (x = y)
  | _, _ => false

def ne (a b : V) : Bool := !(eq a b)

/-- `a < b` on floats (every comparison with NaN is False). -/
def lt (a b : V) : Bool :=
  match a, b with
  | some x, some y => decide (x < y)
  | _, _ => false

def gt (a b : V) : Bool := lt b a

def le (a b : V) : Bool :=
  match a, b with
  | some x, some y => decide (x ≤ y)
  | _, _ => false

def ge (a b : V) : Bool := le b a

def add (a b : V) : V :=
  match a, b with
  | some x, some y => some (x + y)
  | _, _ => none

def sub (a b : V) : V :=
  match a, b with
  | some x, some y => some (x - y)
  | _, _ => none

def mul (a b : V) : V :=
  match a, b with
  | some x, some y => some (x * y)
  | _, _ => none

def neg (a : V) : V :=
  match a with
  | some x => some (-x)
  | none => none

/-- Python float `/`: a zero divisor raises `ZeroDivisionError` (also `nan / 0.0`); otherwise NaN
propagates. -/
def div (a b : V) : M V :=
  if b = some 0 then .error .zeroDiv
  else
    match a, b with
    | some x, some y => .ok (some (x / y))
    | _, _ => .ok none

/-- The builtin `max(a, b)`: `a` unless `b > a` (so `max(x, nan) = x`, `max(nan, y) = nan`). -/
def max (a b : V) : V := if gt b a then b else a

/-- The builtin `min(a, b)`: `a` unless `b < a`. -/
def min (a b : V) : V := if lt b a then b else a

/-- `val2 = stack.pop(); val1 = stack.pop(); res = f(val1, val2); stack.append(res)` -/
def binStep (f : V → V → M V) : List V → M (List V)
  | b :: a :: vs => (f a b).map (· :: vs)
  | _ => .error .stack

/-- `val = stack.pop(); stack.append(f(val))` -/
def unStep (f : V → M V) : List V → M (List V)
  | a :: vs => (f a).map (· :: vs)
  | _ => .error .stack

end PyF

end Formula
