/-
Model of the formula evaluator's input synchronisation (C06).

Anchors: `FormulaEvaluator._synchronize_metric_timestamps`, `FormulaEvaluator.apply`
(`src/frequenz/sdk/timeseries/formula_engine/_formula_evaluator.py`), `FormulaEngine._run`,
`FormulaEngine3Phase._run` (`_formula_engine.py`; with `fixes/C06-3phase-resync.patch`, see the 3-phase section).

Time unit: one input step (tick); real timestamps are `T0 + step * tick`, the code only compares (`max`, `<`, `>`)
and copies them.  `val = none` = None / NaN / ±inf.

`n` input streams, each read through its own FIFO queue (a `Broadcast` receiver; admissible schedules keep the backlog
within the receiver capacity, so nothing is ever dropped and the queue is modelled unbounded).  Events:
`deliver i s` (stream `i` delivers `s`) and `eval c` (one `apply()`; atomic; a no-op while the samples it needs have
not been delivered — the real coroutine would wait inside the call, which nothing else can observe because queues
are only appended to).  `c` is the evaluator's free choice in the steady state: the output is stamped with the
timestamp of an *arbitrary* input (`next(iter(ready_metrics))`, a set of tasks) — stream `c % n` in the model.
The formula itself is a parameter `f : (values, in stream order) ↦ value` (its arithmetic is C05/C13's subject).

Not modelled: streams with gaps (the `RuntimeError` branch of `_synchronize_metric_timestamps`): `applyFirst`
blocks there.
-/
import Frequenz.Model.Prelude
import Frequenz.Model.Fallback
import Frequenz.Extracted.Evaluator

namespace Evaluator

structure Sample where
  ts : Int
  val : Option Rat
deriving DecidableEq, Repr

inductive Ev where
  | deliver (i : Nat) (s : Sample)
  | eval (c : Nat)
deriving DecidableEq, Repr

structure St where
  qs : Nat → List Sample := fun _ => []     -- receiver queue of every stream
  firstRun : Bool := true                   -- `_first_run`
  out : List Sample := []                   -- emitted samples, oldest first
  all : Nat → List Sample := fun _ => []    -- history (ghost): everything delivered on a stream

def St.init : St := {}

def headTs : List Sample → Int
  | s :: _ => s.ts
  | [] => 0

def headVal : List Sample → Option Rat
  | s :: _ => s.val
  | [] => none

/-- all `n` queues hold a sample -/
def allReady (n : Nat) (qs : Nat → List Sample) : Bool :=
  (List.range n).all (fun i => !(qs i).isEmpty)

/-- `max(metrics_by_ts)`: the latest of the first timestamps -/
def latestTs (n : Nat) (qs : Nat → List Sample) : Int :=
  (List.range n).foldl (fun m i => max m (headTs (qs i))) (headTs (qs 0))

/-- fetch again while the timestamp is older than `t` -/
def drain (t : Int) : List Sample → List Sample
  | [] => []
  | s :: r => if s.ts < t then drain t r else s :: r

/-- all `n` queues hold the sample stamped `t` at their head -/
def allAt (n : Nat) (t : Int) (qs : Nat → List Sample) : Bool :=
  (List.range n).all (fun i => !(qs i).isEmpty && headTs (qs i) == t)

def values (n : Nat) (qs : Nat → List Sample) : List (Option Rat) :=
  (List.range n).map (fun i => headVal (qs i))

def popAll (qs : Nat → List Sample) : Nat → List Sample := fun i => (qs i).tail

/-- First `apply()`: fetch one sample from every stream, synchronise, evaluate. -/
def applyFirst (n : Nat) (f : List (Option Rat) → Option Rat) (σ : St) : Option St :=
  if allReady n σ.qs then
    let t := latestTs n σ.qs
    let qs' : Nat → List Sample := fun i => drain t (σ.qs i)
    if allAt n t qs' then
      some { σ with qs := popAll qs', firstRun := false, out := σ.out ++ [⟨t, f (values n qs')⟩] }
    else none
  else none

/-- Later `apply()`s: one sample from every stream, timestamp of an arbitrary one. -/
def applySteady (n : Nat) (f : List (Option Rat) → Option Rat) (c : Nat) (σ : St) : Option St :=
  if allReady n σ.qs then
    some { σ with qs := popAll σ.qs, out := σ.out ++ [⟨headTs (σ.qs (c % n)), f (values n σ.qs)⟩] }
  else none

def apply (n : Nat) (f : List (Option Rat) → Option Rat) (c : Nat) (σ : St) : Option St :=
  if σ.firstRun then applyFirst n f σ else applySteady n f c σ

def step (n : Nat) (f : List (Option Rat) → Option Rat) (σ : St) : Ev → St
  | .deliver i s =>
    { σ with qs := fun j => if j = i then σ.qs j ++ [s] else σ.qs j,
             all := fun j => if j = i then σ.all j ++ [s] else σ.all j }
  | .eval c => (apply n f c σ).getD σ

def run (n : Nat) (f : List (Option Rat) → Option Rat) (es : List Ev) : St := es.foldl (step n f) St.init

def enabled (n : Nat) (f : List (Option Rat) → Option Rat) (σ : St) : Bool := (apply n f 0 σ).isSome

/-! ### 3-phase engine: three per-phase engines, read one sample each per round

`FormulaEngine3Phase._run`.  With `fixes/C06-3phase-resync.patch` (`resync = true`): after the three receives the
lagging phases are advanced until all three samples carry the latest of the three timestamps.  On the pinned tree
(`resync = false`) the three samples are zipped without comparing timestamps.  Which one the source does is
extracted on every run (`Extracted.Evaluator.threePhaseResyncs`). -/

structure Sample3 where
  ts : Int
  v1 : Option Rat
  v2 : Option Rat
  v3 : Option Rat
deriving DecidableEq, Repr

/-- One per-phase engine: number of streams and formula. -/
structure Phase where
  n : Nat
  f : List (Option Rat) → Option Rat

inductive Ev3 where
  | ph (p : Nat) (e : Ev)   -- an event of the per-phase engine `p` (0, 1, 2)
  | zip                     -- one iteration of `FormulaEngine3Phase._run`; no-op while it could not complete
deriving DecidableEq, Repr

structure St3 where
  s1 : St := {}
  s2 : St := {}
  s3 : St := {}
  z1 : Nat := 0                -- how many outputs of per-phase engine 1 `_run` has received so far
  z2 : Nat := 0
  z3 : Nat := 0
  out : List Sample3 := []

def St3.init : St3 := {}

/-- `while phase.timestamp < t: phase = await rx.receive()` on the unread outputs `q` (head = the sample already
received): the sample the loop ends with and how many further samples it received; `none` = it would wait. -/
def seek (t : Int) : List Sample → Option (Sample × Nat)
  | [] => none
  | s :: r =>
    if s.ts < t then
      match seek t r with
      | some (x, k) => some (x, k + 1)
      | none => none
    else some (s, 0)

/-- one round of the fixed `_run` -/
def zipResync (σ : St3) : Option St3 :=
  let q1 := σ.s1.out.drop σ.z1
  let q2 := σ.s2.out.drop σ.z2
  let q3 := σ.s3.out.drop σ.z3
  if q1.isEmpty || q2.isEmpty || q3.isEmpty then none
  else
    let t := max (max (headTs q1) (headTs q2)) (headTs q3)
    match seek t q1 with
    | none => none
    | some (a, k1) =>
      match seek t q2 with
      | none => none
      | some (b, k2) =>
        match seek t q3 with
        | none => none
        | some (c, k3) =>
          some { σ with z1 := σ.z1 + k1 + 1, z2 := σ.z2 + k2 + 1, z3 := σ.z3 + k3 + 1,
                        out := σ.out ++ [⟨a.ts, a.val, b.val, c.val⟩] }

/-- one round of the pinned `_run`: no comparison of timestamps -/
def zipPinned (σ : St3) : Option St3 :=
  match σ.s1.out[σ.z1]? with
  | none => none
  | some a =>
    match σ.s2.out[σ.z2]? with
    | none => none
    | some b =>
      match σ.s3.out[σ.z3]? with
      | none => none
      | some c =>
        some { σ with z1 := σ.z1 + 1, z2 := σ.z2 + 1, z3 := σ.z3 + 1,
                      out := σ.out ++ [⟨a.ts, a.val, b.val, c.val⟩] }

def zipStep (resync : Bool) (σ : St3) : Option St3 :=
  if resync then zipResync σ else zipPinned σ

def step3 (resync : Bool) (P1 P2 P3 : Phase) (σ : St3) : Ev3 → St3
  | .ph p e =>
    if p = 0 then { σ with s1 := step P1.n P1.f σ.s1 e }
    else if p = 1 then { σ with s2 := step P2.n P2.f σ.s2 e }
    else if p = 2 then { σ with s3 := step P3.n P3.f σ.s3 e }
    else σ
  | .zip => (zipStep resync σ).getD σ

def run3 (resync : Bool) (P1 P2 P3 : Phase) (es : List Ev3) : St3 :=
  es.foldl (step3 resync P1 P2 P3) St3.init

/-- what the current source does (regenerated from `_formula_engine.py`) -/
def sourceResyncs : Bool := Extracted.Evaluator.threePhaseResyncs

/-! ### Engine whose terms may have a fallback (`push_metric(..., fallback=…)`)

Composition of the evaluator with the `MetricFetcher` model of `Model/Fallback.lean` (C19).  Term `i` is a
`Fallback.St` (primary receiver queue, lazily started fallback receiver, `_latest_fallback_sample`); `hasFb i` says
whether the term was built with a fallback.  One `fetch_next()` of a term with a fallback is `Fallback.round`
(`_fetch_next` / `fetch_next_with_fallback` / `_synchronize_and_fetch_fallback`), of a plain term a `receive()` on the
primary queue.

`apply()` is NOT atomic here: the moment at which a term's `fetch_next()` completes decides when its fallback is
`start()`ed, and the fallback receiver only sees what its source emits afterwards.  So the events are the completions
of the individual `fetch_next()` calls: `fetch i c` (a no-op unless the evaluator is waiting for term `i` and the
data the call needs has been delivered).  The evaluator's control state:
  `cur i = none`          the `fetch_next()` task of term `i` created by the running `apply()` has not completed;
  `sync = some t`         first run only: `_synchronize_metric_timestamps` is fetching the terms whose sample is older
                          than `t = max` of the first timestamps (in any order — the code's order is the iteration
                          order of a `set` of tasks);
when every term holds a sample (stamped `t` in the first run) the formula is evaluated on `fetcher.value` of every
term, the sample is emitted in the same step (no suspension point in between) and the next `apply()` starts.  In the
steady state the output is stamped with the timestamp of an arbitrary term (`c % n`).
Not modelled: closed channels (C19's subject; `pClosed`/`fClosed` stay false), and the `RuntimeError` branch of
the synchronisation (a sample stamped later than `t`): the model blocks there. -/

inductive EvF where
  | dP (i : Nat) (s : Fallback.Sample)    -- the primary stream of term `i` delivers
  | dF (i : Nat) (s : Fallback.Sample)    -- the fallback source of term `i` emits (seen only once started)
  | fetch (i : Nat) (c : Nat)             -- the pending `fetch_next()` of term `i` completes
deriving DecidableEq, Repr

structure FSt where
  terms : Nat → Fallback.St := fun _ => {}
  cur : Nat → Option Fallback.Sample := fun _ => none   -- `fetcher.value` fetched by the running `apply()`
  firstRun : Bool := true                               -- `_first_run`
  sync : Option Int := none                             -- `latest_ts` while synchronising
  out : List Sample := []                               -- emitted samples, oldest first

def FSt.init : FSt := {}

/-- One `fetch_next()` of a term: the new fetcher state and the returned sample; `none` = cannot complete yet. -/
def fetchTerm (fb : Bool) (τ : Fallback.St) : Option (Fallback.St × Fallback.Sample) :=
  if fb then
    match Fallback.round τ with
    | some τ' =>
      match τ'.out.getLast? with
      | some (.sample s) => some (τ', s)
      | _ => none
    | none => none
  else
    match τ.pq with
    | p :: pr => some ({ τ with pq := pr, out := τ.out ++ [.sample p] }, p)
    | [] => none

/-- the evaluator is waiting for a `fetch_next()` of term `i` -/
def permitted (σ : FSt) (i : Nat) : Bool :=
  match σ.cur i with
  | none => σ.sync.isNone
  | some s =>
    match σ.sync with
    | some t => decide (s.ts < t)
    | none => false

def curTs (cur : Nat → Option Fallback.Sample) (i : Nat) : Int :=
  match cur i with
  | some s => s.ts
  | none => 0

def curVal (cur : Nat → Option Fallback.Sample) (i : Nat) : Option Rat :=
  match cur i with
  | some s => s.val
  | none => none

def allFetched (n : Nat) (cur : Nat → Option Fallback.Sample) : Bool :=
  (List.range n).all (fun i => (cur i).isSome)

/-- `max(metrics_by_ts)` over the first fetched samples -/
def latestCur (n : Nat) (cur : Nat → Option Fallback.Sample) : Int :=
  (List.range n).foldl (fun m i => max m (curTs cur i)) (curTs cur 0)

def allCurAt (n : Nat) (t : Int) (cur : Nat → Option Fallback.Sample) : Bool :=
  (List.range n).all (fun i => curTs cur i == t)

/-- evaluate the steps on `fetcher.value` of every term, emit, start the next `apply()` -/
def emit (n : Nat) (f : List (Option Rat) → Option Rat) (t : Int) (σ : FSt) : FSt :=
  { σ with cur := fun _ => none, firstRun := false, sync := none,
           out := σ.out ++ [⟨t, f ((List.range n).map (curVal σ.cur))⟩] }

/-- what `apply()` does once a `fetch_next()` has completed -/
def advance (n : Nat) (f : List (Option Rat) → Option Rat) (c : Nat) (σ : FSt) : FSt :=
  if allFetched n σ.cur then
    if σ.firstRun then
      let t := match σ.sync with
        | some t => t
        | none => latestCur n σ.cur
      if allCurAt n t σ.cur then emit n f t σ else { σ with sync := some t }
    else emit n f (curTs σ.cur (c % n)) σ
  else σ

def tryFetch (n : Nat) (f : List (Option Rat) → Option Rat) (hasFb : Nat → Bool) (c : Nat) (σ : FSt) (i : Nat) :
    Option (FSt × Fallback.Sample) :=
  if i < n ∧ permitted σ i = true then
    match fetchTerm (hasFb i) (σ.terms i) with
    | some (τ', s) =>
      some (advance n f c { σ with terms := fun j => if j = i then τ' else σ.terms j,
                                   cur := fun j => if j = i then some s else σ.cur j }, s)
    | none => none
  else none

def stepF (n : Nat) (f : List (Option Rat) → Option Rat) (hasFb : Nat → Bool) (σ : FSt) : EvF → FSt
  | .dP i s => { σ with terms := fun j => if j = i then Fallback.step (σ.terms j) (.dP s) else σ.terms j }
  | .dF i s => { σ with terms := fun j => if j = i then Fallback.step (σ.terms j) (.dF s) else σ.terms j }
  | .fetch i c =>
    match tryFetch n f hasFb c σ i with
    | some (σ', _) => σ'
    | none => σ

def runF (n : Nat) (f : List (Option Rat) → Option Rat) (hasFb : Nat → Bool) (es : List EvF) : FSt :=
  es.foldl (stepF n f hasFb) FSt.init

end Evaluator
