/-
Model of `BatteryDistributionAlgorithm.distribute_power` (`_battery_distribution_algorithm.py`), of the
admission test of `BatteryManager._check_request`/`_get_bounds` and of the power reported by
`BatteryManager._distribute_power` (C01, C02).

Every arithmetic expression and every branch condition is NOT written here: it is the definition
`Extracted.Dist.*` regenerated from the Python source on every run.  Hand-written are only the loops:
aggregation of a battery set, the stable sort, the reservation loop, the deficit-covering `while`, adding the
excesses, the greedy top-up, the per-inverter split, the early exits and the sign handling.

Numbers are exact rationals.  Python dicts keyed by the inverter set are modelled by one list of entries in
insertion order (= the sorted order of the groups); the iteration order of the `frozenset` of inverter ids in
`_distribute_multi_inverter_pairs` is an INPUT: `Group.invs` is given in that order.
-/
import Frequenz.Extracted.Distribution

namespace Dist
open Extracted.Dist

/-! ## Input -/

structure Bat where
  id : Int
  cap : Rat
  soc : Rat
  socLo : Rat
  socHi : Rat
  il : Rat
  el : Rat
  eu : Rat
  iu : Rat
deriving Repr, DecidableEq

structure Inv where
  id : Int
  il : Rat
  el : Rat
  eu : Rat
  iu : Rat
deriving Repr, DecidableEq

/-- One battery set behind one inverter set; `invs` in the iteration order of `frozenset(inverter_ids)`. -/
structure Group where
  bats : List Bat
  invs : List Inv
deriving Repr, DecidableEq

structure Input where
  power : Rat
  exp : Nat
  groups : List Group
deriving Repr, DecidableEq

/-! ## `AggregatedBatteryData` -/

/-- Python's `max(iterable)` / `min(iterable)` on a non-empty list. -/
def maxL : List Rat → Rat
  | [] => 0
  | x :: xs => xs.foldl pyMax x

def minL : List Rat → Rat
  | [] => 0
  | x :: xs => xs.foldl pyMin x

def sumL (l : List Rat) : Rat := l.foldr (· + ·) 0

structure Agg where
  cap : Rat
  soc : Rat
  socLo : Rat
  socHi : Rat
  il : Rat
  el : Rat
  eu : Rat
  iu : Rat
deriving Repr, DecidableEq

/-- `AggregatedBatteryData.__init__` + `_aggregate_battery_power_bounds`.  With zero capacity the SoC
fields are NaN in Python; they are 0 here and `avail` below special-cases it. -/
def aggregate (bs : List Bat) : Agg :=
  let cap := sumL (bs.map (·.cap))
  { cap := cap
    soc := if cap ≠ 0 then sumL (bs.map fun b => b.soc * b.cap) / cap else 0
    socHi := if cap ≠ 0 then sumL (bs.map fun b => b.socHi * b.cap) / cap else 0
    socLo := if cap ≠ 0 then sumL (bs.map fun b => b.socLo * b.cap) / cap else 0
    iu := sumL (bs.map (·.iu))
    il := sumL (bs.map (·.il))
    eu := maxL (bs.map (·.eu)) * (bs.length : Rat)
    el := minL (bs.map (·.el)) * (bs.length : Rat) }

/-! ## Side selection (`_inclusion_exclusion_bounds`, available SoC) -/

structure IB where
  raw : Inv
  excl : Rat
  incl : Rat
deriving Repr, DecidableEq

structure NG where
  raw : Group
  agg : Agg
  avail : Rat
  batExcl : Rat
  batIncl : Rat
  invs : List IB
deriving Repr, DecidableEq

def normInv (supply : Bool) (a : Agg) (i : Inv) : IB :=
  if supply then { raw := i, excl := invExclSupply i.el, incl := invInclSupply i.il a.il }
  else { raw := i, excl := invExclConsume i.eu, incl := invInclConsume i.iu a.iu }

/-- `max(0.0, nan) = 0.0` in Python, hence 0 for a set without capacity. -/
def availOf (supply : Bool) (a : Agg) : Rat :=
  if a.cap = 0 then 0
  else if supply then availSupply a.soc a.socLo else availConsume a.socHi a.soc

def normGroup (supply : Bool) (g : Group) : NG :=
  let a := aggregate g.bats
  { raw := g, agg := a, avail := availOf supply a
    batExcl := if supply then batExclSupply a.el else batExclConsume a.eu
    batIncl := if supply then batInclSupply a.il else batInclConsume a.iu
    invs := g.invs.map (normInv supply a) }

/-! ## `_compute_battery_availability_ratio` -/

structure Item where
  ng : NG
  ratio : Rat
  minP : Rat
  ub : Rat
deriving Repr, DecidableEq

/-- `min_power` of the pair -/
def minPOf (ng : NG) : Rat := minPower ng.batExcl (minL (ng.invs.map (·.excl)))

/-- `incl_bound` of the pair -/
def ubOf (ng : NG) : Rat := inclBound (sumL (ng.invs.map (·.incl))) ng.batIncl

def mkItem (total : Rat) (exp : Nat) (ng : NG) : Item :=
  { ng := ng
    ratio := ratioOf (capRatio ng.agg.cap total) (socFactor ng.avail exp)
    minP := minPOf ng
    ub := ubOf ng }

/-- In a stable sort, does `x` (earlier in the input) have to go behind `y`? -/
def goesAfter (x y : Item) : Prop :=
  if sortReverse then sortKeyLt x.minP x.ratio y.minP y.ratio else sortKeyLt y.minP y.ratio x.minP x.ratio

instance (x y : Item) : Decidable (goesAfter x y) := by unfold goesAfter; exact inferInstance

def insertSorted (x : Item) : List Item → List Item
  | [] => [x]
  | y :: ys => if goesAfter x y then y :: insertSorted x ys else x :: y :: ys

/-- `list.sort(key=…, reverse=…)` (stable). -/
def sortItems (l : List Item) : List Item := l.foldr insertSorted []

/-! ## Reservation loop -/

structure Entry where
  it : Item
  active : Bool
  ub : Rat
  base : Rat
  dInc : Rat
  exc : Option Rat
  dfc : Option Rat
deriving Repr, DecidableEq

def tailEntry (it : Item) : Entry :=
  { it := it, active := false, ub := 0, base := 0, dInc := 0, exc := none, dfc := none }

def mkEntry (it : Item) (c : Rat) : Entry :=
  if overIncl c it.ub then
    { it := it, active := true, ub := entryUpper it.ub, base := entryPower it.minP, dInc := distributedInc it.minP
      exc := some (excessOver it.ub it.minP), dfc := none }
  else if underMin c it.minP then
    { it := it, active := true, ub := entryUpper it.ub, base := entryPower it.minP, dInc := distributedInc it.minP
      exc := none, dfc := some (deficitOf c it.minP) }
  else
    { it := it, active := true, ub := entryUpper it.ub, base := entryPower it.minP, dInc := distributedInc it.minP
      exc := some (excessIn c it.minP), dfc := none }

/-- `for ratio_data in battery_availability_ratio:` with the running `reserved_power`, `used_ratio`, `ratio`. -/
def reserve (P S : Rat) : Rat → Rat → Rat → List Item → List Entry
  | _, _, _, [] => []
  | R, U, ρ, it :: rest =>
    if tailCond ρ then tailEntry it :: reserve P S R U ρ rest
    else
      mkEntry it (calcPower (powerToDistribute P R) it.ratio ρ) ::
        reserve P S (R + reserveInc (calcPower (powerToDistribute P R) it.ratio ρ) it.minP)
          (U + usedInc it.ratio) (nextRatio S (U + usedInc it.ratio)) rest

/-! ## Deficit covering -/

/-- value of `max(excess_reserved.items(), key=item[1])` (`none` for an empty dict) -/
def maxExc : List Entry → Option Rat
  | [] => none
  | e :: es =>
    match e.exc with
    | none => maxExc es
    | some x =>
      match maxExc es with
      | none => some x
      | some y => some (pyMax x y)

/-- `excess_reserved[largest.inverter_ids] = v`: the first entry holding the maximal value `lp`. -/
def setFirst (lp v : Rat) : List Entry → List Entry
  | [] => []
  | e :: es => if e.exc = some lp then { e with exc := some v } :: es else e :: setFirst lp v es

/-- The `while` loop for one deficit.  Returns the entries, the remaining deficit and whether the
`math.isclose` shortcut was taken with `largest < -deficit`. -/
def coverLoop : Nat → List Entry → Rat → Bool → List Entry × Rat × Bool
  | 0, es, d, a => (es, d, a)
  | n + 1, es, d, a =>
    if coverCond d then
      match maxExc es with
      | none => (es, d, a)
      | some lp =>
        if largestStop lp then (es, d, a)
        else if covers lp d then (setFirst lp (coverExcess lp d) es, coverDeficitDone, a || decide (lp < -d))
        else coverLoop n (setFirst lp partialExcess es) (partialDeficit d lp) a
    else (es, d, a)

structure CS where
  es : List Entry
  D : Rat
  adjs : List Rat
  approx : Bool
deriving Repr, DecidableEq

/-- One iteration of `for inverter_ids, deficit in deficits.items():` -/
def coverOne (P : Rat) (s : CS) (d0 : Rat) : CS :=
  let r := coverLoop (s.es.length + 1) s.es d0 s.approx
  if adjustCond r.2.1 then
    if adjFullCond (leftOver P s.D) r.2.1 then
      { es := r.1, D := s.D + adjFullInc r.2.1, adjs := s.adjs ++ [adjFullInc r.2.1], approx := r.2.2 }
    else if adjPartCond (leftOver P s.D) then
      { es := r.1, D := s.D + adjPartInc (leftOver P s.D), adjs := s.adjs ++ [adjPartInc (leftOver P s.D)],
        approx := r.2.2 }
    else { es := r.1, D := s.D, adjs := s.adjs, approx := r.2.2 }
  else { es := r.1, D := s.D, adjs := s.adjs, approx := r.2.2 }

def deficitsOf (es : List Entry) : List Rat := es.filterMap (·.dfc)

def cover (P : Rat) (es : List Entry) : CS :=
  (deficitsOf es).foldl (coverOne P) { es := es, D := sumL (es.map (·.dInc)), adjs := [], approx := false }

/-! ## Adding the excesses, greedy top-up -/

structure Slot where
  en : Entry
  ub : Rat
  p : Rat
deriving Repr, DecidableEq

def slotOf (en : Entry) : Slot :=
  { en := en, ub := en.ub
    p := match en.exc with
      | none => en.base
      | some e => en.base + excessPowerInc e }

def excessTotal (es : List Entry) : Rat := sumL ((es.filterMap (·.exc)).map excessDistributedInc)

def greedyGo : Rat → List Slot → List Slot × Rat
  | rem, [] => ([], rem)
  | rem, s :: ss =>
    if greedySkip rem s.p then ((s :: (greedyGo rem ss).1), (greedyGo rem ss).2)
    else
      ({ s with p := s.p + greedyPowerInc (greedyAdd s.ub s.p rem) } ::
          (greedyGo (rem - greedyRemDec (greedyAdd s.ub s.p rem)) ss).1,
        (greedyGo (rem - greedyRemDec (greedyAdd s.ub s.p rem)) ss).2)

def greedy (L : Rat) (ss : List Slot) : List Slot × Rat :=
  if greedyExit L then (ss, L) else greedyGo L ss

/-! ## Per-inverter split -/

def splitGo : Rat → List IB → List (IB × Rat) × Rat
  | rem, [] => ([], rem)
  | rem, ib :: ibs =>
    if splitTake rem ib.excl then
      ((ib, splitAssigned (splitPower ib.incl rem)) :: (splitGo (rem - splitRemDec (splitPower ib.incl rem)) ibs).1,
        (splitGo (rem - splitRemDec (splitPower ib.incl rem)) ibs).2)
    else ((ib, splitSkipped) :: (splitGo rem ibs).1, (splitGo rem ibs).2)

structure GOut where
  slot : Slot
  sps : List (IB × Rat)
  residual : Rat
deriving Repr, DecidableEq

/-- power actually assigned to the inverters of the group -/
def GOut.total (g : GOut) : Rat := sumL (g.sps.map (·.2))

def splitGroup (s : Slot) : GOut :=
  match s.en.it.ng.invs with
  | [ib] => { slot := s, sps := [(ib, splitSingle s.p)], residual := 0 }
  | ibs => { slot := s, sps := (splitGo (splitStart s.p) ibs).1, residual := (splitGo (splitStart s.p) ibs).2 }

/-! ## `_distribute_power` -/

structure CoreOut where
  groups : List GOut
  rem : Rat
  /-- the code's own `distributed_power` after the excess loop -/
  tracked : Rat
  /-- increments made by the two `distributed_power += …` lines of the deficit branch -/
  adjs : List Rat
  /-- `left_over` handed to the greedy step -/
  left : Rat
  approx : Bool
  entries : List Entry
deriving Repr, DecidableEq

def zeroGroup (it : Item) : GOut :=
  { slot := { en := tailEntry it, ub := 0, p := 0 }, sps := it.ng.invs.map fun ib => (ib, (0 : Rat)), residual := 0 }

def core (P S : Rat) (items : List Item) : CoreOut :=
  if isCloseToZero S then
    { groups := items.map zeroGroup, rem := P, tracked := 0, adjs := [], left := P, approx := false,
      entries := items.map tailEntry }
  else
    let cs := cover P (reserve P S 0 0 S items)
    let tracked := cs.D + excessTotal cs.es
    let L := finalLeftOver P tracked
    let g := greedy L (cs.es.map slotOf)
    { groups := g.1.map splitGroup, rem := g.2, tracked := tracked, adjs := cs.adjs, left := L, approx := cs.approx,
      entries := cs.es }

/-! ## Regimes (classes of inputs of the known findings; all computed from the input) -/

structure Flags where
  /-- a `distributed_power += …` line of the deficit branch fired (power created or lost) -/
  adjust : Bool
  /-- a group's power could not be placed on its inverters in iteration order -/
  splitInfeasible : Bool
  /-- the minimum powers handed out exceed the request: `left_over < 0` at the greedy step -/
  overcommit : Bool
  /-- the `math.isclose` shortcut covered a deficit with a slightly smaller excess (error ≤ 1e-9 relative) -/
  iscloseCover : Bool
  /-- exponent 0 and a group without SoC headroom (`pow(0, 0) = 1`) -/
  exp0 : Bool
  /-- a group without headroom and with a positive minimum power was processed while ratio was left -/
  zeroRatioMin : Bool
deriving Repr, DecidableEq

def coreFlags (exp : Nat) (c : CoreOut) : Flags :=
  { adjust := !c.adjs.isEmpty
    splitInfeasible := c.groups.any fun g => decide (g.residual ≠ 0)
    overcommit := decide (c.left < 0)
    iscloseCover := c.approx
    exp0 := decide (exp = 0) && c.entries.any fun en => decide (en.it.ng.avail = 0)
    zeroRatioMin := c.entries.any fun en => en.active && decide (en.it.ng.avail = 0) && decide (0 < en.it.minP) }

def noFlags : Flags :=
  { adjust := false, splitInfeasible := false, overcommit := false, iscloseCover := false, exp0 := false,
    zeroRatioMin := false }

/-! ## `distribute_power` -/

structure GRes where
  raw : Group
  /-- available SoC in the requested direction -/
  avail : Rat
  sps : List (Inv × Rat)
deriving Repr, DecidableEq

structure Out where
  groups : List GRes
  rem : Rat
  flags : Flags
  core : Option CoreOut
deriving Repr, DecidableEq

def totalCap (ngs : List NG) : Rat := sumL (ngs.map (·.agg.cap))

def itemsOf (supply : Bool) (exp : Nat) (gs : List Group) : List Item :=
  (gs.map (normGroup supply)).map (mkItem (totalCap (gs.map (normGroup supply))) exp)

/-- `_distribute_consume_power` / `_distribute_supply_power` up to the sign restoration. -/
def runSide (supply : Bool) (P : Rat) (exp : Nat) (gs : List Group) : Option CoreOut :=
  if isCloseToZero (totalCap (gs.map (normGroup supply))) then none
  else
    some (core P (sumL ((itemsOf supply exp gs).map (·.ratio))) (sortItems (itemsOf supply exp gs)))

def resOf (supply : Bool) (g : GOut) : GRes :=
  { raw := g.slot.en.it.ng.raw, avail := g.slot.en.it.ng.avail
    sps := g.sps.map fun x => (x.1.raw, if supply then supplySetpointOut x.2 else x.2) }

/-- `none` = `ValueError("All batteries have capacity 0.")`. -/
def distribute (inp : Input) : Option Out :=
  if zeroRequest inp.power then
    some { groups := inp.groups.map fun g => { raw := g, avail := 0, sps := g.invs.map fun i => (i, (0 : Rat)) },
           rem := 0, flags := noFlags, core := none }
  else if consumeRequest inp.power then
    match runSide false inp.power inp.exp inp.groups with
    | none => none
    | some c => some { groups := c.groups.map (resOf false), rem := c.rem, flags := coreFlags inp.exp c, core := some c }
  else
    match runSide true (supplyPowerIn inp.power) inp.exp inp.groups with
    | none => none
    | some c =>
      some { groups := c.groups.map (resOf true), rem := supplyRemainingOut c.rem, flags := coreFlags inp.exp c,
             core := some c }

def Out.setpoints (o : Out) : List (Inv × Rat) := o.groups.flatMap (·.sps)

def Out.total (o : Out) : Rat := sumL (o.setpoints.map (·.2))

def GRes.total (g : GRes) : Rat := sumL (g.sps.map (·.2))

/-! ## Domain of the properties -/

def BoundsOrdered (il el eu iu : Rat) : Prop := il ≤ el ∧ el ≤ 0 ∧ 0 ≤ eu ∧ eu ≤ iu

instance (a b c d : Rat) : Decidable (BoundsOrdered a b c d) := by unfold BoundsOrdered; exact inferInstance

/-- group minimum power ≤ group inclusion bound, on the given side -/
def MinLeIncl (supply : Bool) (g : Group) : Prop :=
  minPOf (normGroup supply g) ≤ ubOf (normGroup supply g)

instance (s : Bool) (g : Group) : Decidable (MinLeIncl s g) := by unfold MinLeIncl; exact inferInstance

def GroupConsistent (g : Group) : Prop :=
  g.bats ≠ [] ∧ g.invs ≠ [] ∧
  (∀ b ∈ g.bats, 0 < b.cap ∧ BoundsOrdered b.il b.el b.eu b.iu) ∧
  (∀ i ∈ g.invs, BoundsOrdered i.il i.el i.eu i.iu) ∧
  MinLeIncl false g ∧ MinLeIncl true g

instance (g : Group) : Decidable (GroupConsistent g) := by unfold GroupConsistent; exact inferInstance

/-- "consistent set of battery/inverter data" of the quantifier of C01/C02. -/
def Consistent (inp : Input) : Prop := inp.groups ≠ [] ∧ ∀ g ∈ inp.groups, GroupConsistent g

instance (inp : Input) : Decidable (Consistent inp) := by unfold Consistent; exact inferInstance

/-- exclusion bounds ENFORCED by `BatteryManager._get_bounds` / `_check_request` (weaker than the advertised ones) -/
def enforcedExcl (gs : List Group) : Rat × Rat :=
  (advExclLower (sumL (gs.map fun g => (aggregate g.bats).el)) (sumL ((gs.flatMap (·.invs)).map (·.el))),
   advExclUpper (sumL (gs.map fun g => (aggregate g.bats).eu)) (sumL ((gs.flatMap (·.invs)).map (·.eu))))

/-- exclusion bounds the battery pool ADVERTISES (`PowerBoundsCalculator.calculate`): per battery set the
larger of the aggregated battery bound and the sum of its inverters' bounds, summed over the sets -/
def advertisedExcl (gs : List Group) : Rat × Rat :=
  (sumL (gs.map fun g => poolGroupExclLower (aggregate g.bats).el (sumL (g.invs.map (·.el)))),
   sumL (gs.map fun g => poolGroupExclUpper (aggregate g.bats).eu (sumL (g.invs.map (·.eu)))))

/-- "non-zero request that the pool's advertised bounds admit (|power| >= advertised exclusion bound)". -/
def Admitted (inp : Input) : Prop :=
  ¬ zeroRequest inp.power ∧
  ¬ rejectedAdjust (advertisedExcl inp.groups).1 inp.power (advertisedExcl inp.groups).2

/-- what `BatteryManager._check_request` (adjust_power = True) lets through -/
def ManagerAdmits (inp : Input) : Prop :=
  zeroRequest inp.power ∨ ¬ rejectedAdjust (enforcedExcl inp.groups).1 inp.power (enforcedExcl inp.groups).2

instance (inp : Input) : Decidable (ManagerAdmits inp) := by unfold ManagerAdmits; exact inferInstance

instance (inp : Input) : Decidable (Admitted inp) := by unfold Admitted; exact inferInstance

/-! ## Vocabulary of the property statements -/

/-- `x` has the sign of the request `P` or is zero -/
def SameSign (P x : Rat) : Prop := (0 < P → 0 ≤ x) ∧ (P < 0 → x ≤ 0)

/-- `x` (of the request's sign) does not exceed the request in magnitude -/
def NoLarger (P x : Rat) : Prop := (0 < P → x ≤ P) ∧ (P < 0 → P ≤ x)

/-- inside the inverter's inclusion bounds and outside its exclusion zone, on the request's side -/
def InvRange (P : Rat) (i : Inv) (x : Rat) : Prop :=
  (0 < P → i.eu ≤ x ∧ x ≤ i.iu) ∧ (P < 0 → i.il ≤ x ∧ x ≤ i.el)

/-- not beyond the inverter's inclusion bound on the request's side -/
def InvIncl (P : Rat) (i : Inv) (x : Rat) : Prop := (0 < P → x ≤ i.iu) ∧ (P < 0 → i.il ≤ x)

/-- inside the aggregated battery inclusion bounds and outside the exclusion zone, on the request's side -/
def GroupRange (P : Rat) (g : Group) (x : Rat) : Prop :=
  (0 < P → (aggregate g.bats).eu ≤ x ∧ x ≤ (aggregate g.bats).iu) ∧
  (P < 0 → (aggregate g.bats).il ≤ x ∧ x ≤ (aggregate g.bats).el)

def GroupIncl (P : Rat) (g : Group) (x : Rat) : Prop :=
  (0 < P → x ≤ (aggregate g.bats).iu) ∧ (P < 0 → (aggregate g.bats).il ≤ x)

/-- the battery set is at or beyond its SoC limit in the requested direction -/
def AtLimit (P : Rat) (g : Group) : Prop :=
  (0 < P → (aggregate g.bats).socHi ≤ (aggregate g.bats).soc) ∧
  (P < 0 → (aggregate g.bats).soc ≤ (aggregate g.bats).socLo)

instance (P x : Rat) : Decidable (SameSign P x) := by unfold SameSign; exact inferInstance
instance (P x : Rat) : Decidable (NoLarger P x) := by unfold NoLarger; exact inferInstance
instance (P : Rat) (i : Inv) (x : Rat) : Decidable (InvRange P i x) := by unfold InvRange; exact inferInstance
instance (P : Rat) (i : Inv) (x : Rat) : Decidable (InvIncl P i x) := by unfold InvIncl; exact inferInstance
instance (P : Rat) (g : Group) (x : Rat) : Decidable (GroupRange P g x) := by unfold GroupRange; exact inferInstance
instance (P : Rat) (g : Group) (x : Rat) : Decidable (GroupIncl P g x) := by unfold GroupIncl; exact inferInstance
instance (P : Rat) (g : Group) : Decidable (AtLimit P g) := by unfold AtLimit; exact inferInstance

/-! ## What the battery manager reports (`BatteryManager._distribute_power`) -/

structure Report where
  succeeded : Rat
  failed : Rat
  excess : Rat
deriving Repr, DecidableEq

/-- `failed = none`: every `set_power` call succeeded (`Success`); otherwise `PartialFailure`. -/
def report (P rem : Rat) (failed : Option Rat) : Report :=
  match failed with
  | none => { succeeded := mgrSuccessSucceeded (mgrDistributed P rem), failed := 0, excess := mgrSuccessExcess rem }
  | some f =>
    { succeeded := mgrPartialSucceeded (mgrDistributed P rem) f, failed := mgrPartialFailed f
      excess := mgrPartialExcess rem }

/-! ## A sequence of calls on ONE long-lived `BatteryDistributionAlgorithm` (as `BatteryManager` uses it)

The object holds the constructor constants only (`Extracted.Dist.instanceAttrs`), and nothing in the class can carry
state from one call to the next (`Extracted.Dist.perCallState = []`, re-established from the source on every run:
`__init__` assigns only from its parameters, no method writes to `self`, no globals, no caches).  So a call leaves the
object as it is and its result is `distribute` of the arguments of THAT call. -/

/-- What an instance remembers: `self._distributor_exponent`. -/
structure Instance where
  exp : Nat
deriving Repr, DecidableEq

/-- The arguments of one `distribute_power(power, components)` call. -/
structure Call where
  power : Rat
  groups : List Group
deriving Repr, DecidableEq

def Instance.input (a : Instance) (c : Call) : Input := { power := c.power, exp := a.exp, groups := c.groups }

/-- One call: (the instance afterwards, the result). -/
def Instance.call (a : Instance) (c : Call) : Instance × Option Out := (a, distribute (a.input c))

/-- The results of a sequence of calls on the same instance, in order. -/
def Instance.run (a : Instance) : List Call → List (Option Out)
  | [] => []
  | c :: cs => (a.call c).2 :: (a.call c).1.run cs

end Dist
