/-
Model of `actor/_actor.py` (`Actor.start`, `_run_loop`, `_delay_if_restart`),
`actor/_background_service.py` (`is_running`, `cancel`, `stop`, `wait`) and `actor/_run_utils.py` (`run`).

One *service* = the tasks it ever owned + the `stop()`/`wait()` calls in flight.  The environment (user code,
the asyncio scheduler, the clock) is adversarial: it chooses every event.  An event that is not enabled in the
current state leaves the state unchanged, so "every schedule" is "every `List Event`".

  * `taskStep i r`  task `i` takes one scheduler step; `r` says what *user code* does on that step
                    (`cont` = reaches another await point, `fin o` = ends with outcome `o`: return / raise
                    Exception / raise BaseException / raise CancelledError — also on its own, with no cancellation
                    pending — / raise ExceptionGroup / raise a BaseExceptionGroup that is not an ExceptionGroup).
                    A pending cancellation is delivered
                    on that step; inside `_run()` the user code may react to it in any way (`r` is free), inside
                    the library code (`_delay_if_restart`, before the first step) it ends the task as cancelled.
  * `start | cancel | addTask | call stop | call wait`   the public API, called at any instant.
  * `wake c`        call `c` resumes from `asyncio.wait(batch)` — enabled once the whole batch is done.
  * `advance d`     the clock moves on.

Constants, the restart guard, the `except` clauses (with the error kinds each one catches) and the shape of the `wait()` loop come from
`Frequenz.Extracted.Actor` (regenerated from the source on every run).  Ghost fields (`hist`, `dropped`, `reaped`,
`nAtFin`) record history for the theorems and the correspondence check; they never influence a transition.
Core only (no Mathlib).
-/
import Frequenz.Model.Prelude
import Frequenz.Extracted.Actor

namespace Actor

open Extracted.Actor (Action ExcKind handlers restartAllowed delayApplies restartDelayUs)

/-- How one invocation of `_run()` (or a plain task) ends: it returns, or raises an error of one of the kinds of
`Extracted.Actor.ExcKind` — a plain `Exception`, a `BaseException` outside `Exception` (SystemExit-, KeyboardInterrupt-like,
user classes), `asyncio.CancelledError` (delivered or raised by the code itself), an `ExceptionGroup`, or a
`BaseExceptionGroup` that is not an `ExceptionGroup` (e.g. a non-`Exception` error of a child of a `TaskGroup`). -/
inductive Outcome | ret | exc | baseExc | cancelled | excGroup | baseGroup
deriving DecidableEq, Repr, Inhabited

/-- The kind of the raised error (`none`: a normal return). -/
def Outcome.kind? : Outcome → Option ExcKind
  | .ret => none
  | .exc => some .exc
  | .baseExc => some .baseExc
  | .cancelled => some .cancelled
  | .excGroup => some .excGroup
  | .baseGroup => some .baseGroup

/-- `isinstance(error, <classes of an except clause>)`, with the clause given by the kinds it catches (extracted). -/
def Outcome.isCaughtBy (o : Outcome) (ks : List ExcKind) : Bool :=
  match o.kind? with
  | none => false
  | some k => ks.contains k

/-- First `except` clause (source order) that catches `o`. -/
def handlerFor (hs : List (List ExcKind × Action)) (o : Outcome) : Option Action :=
  (hs.find? (fun h => o.isCaughtBy h.1)).map (·.2)

/-- The property's notion of a FAILURE of the run logic: it raised an `Exception` (a plain one or an `ExceptionGroup`).
Returns, cancellations and every other `BaseException` (incl. a `BaseExceptionGroup` with a non-`Exception` member)
are not failures.  This is the specification side; `restartsOn` below is what the source says. -/
def Outcome.isFailure : Outcome → Bool
  | .exc => true
  | .excGroup => true
  | _ => false

/-- Does `_run_loop` dispatch outcome `o` to its restarting `except` clause?  A function of the outcome kind, computed
from the extracted clauses (source order, first match). -/
def restartsOn (o : Outcome) : Bool := handlerFor handlers o == some .restartOrReraise

inductive Next | finish (o : Outcome) | restart
deriving DecidableEq, Repr

/-- What `_run_loop` does when invocation number `n` (= `n_restarts`) of `_run()` ends with `o`. -/
def afterRun (lim : Option Nat) (n : Nat) (o : Outcome) : Next :=
  if o = .ret then .finish .ret
  else match handlerFor handlers o with
    | none => .finish o
    | some .reraise => .finish o
    | some .restartOrReraise => if restartAllowed lim n then .restart else .finish o

inductive Phase
  | fresh                          -- run-loop task created, first step not taken yet
  | delay (n : Nat) (wakeAt : Int)  -- sleeping in `_delay_if_restart(n)`
  | running (n : Nat)              -- inside invocation `n` of `_run()`
  | extra                          -- some other task registered in `_tasks` (arbitrary coroutine)
  | done (o : Outcome)
deriving DecidableEq, Repr, Inhabited

/-- Ghost history of a run-loop task: entries and exits of `_run()`. -/
inductive HEv | enter (n : Nat) (t : Int) | exit (n : Nat) (o : Outcome) (t : Int)
deriving DecidableEq, Repr

structure Tsk where
  id : Nat
  loop : Bool            -- created by `Actor.start()`
  phase : Phase
  cancelReq : Bool       -- `task.cancel()` was called and the CancelledError is not delivered yet
  owned : Bool           -- member of `self._tasks`
  dropped : Bool         -- ghost: left `_tasks` through `start()`'s `clear()`
  hist : List HEv        -- ghost, newest first
deriving DecidableEq, Repr, Inhabited

inductive StepRes | cont | fin (o : Outcome)
deriving DecidableEq, Repr

def Tsk.isDone (t : Tsk) : Bool := match t.phase with | .done _ => true | _ => false

/-- Start of loop iteration `n`: `await self._delay_if_restart(n)`, then `await self._run()`. -/
def beginIteration (now : Int) (n : Nat) (t : Tsk) : Tsk :=
  if delayApplies n then { t with phase := .delay n (now + restartDelayUs) }
  else { t with phase := .running n, hist := .enter n now :: t.hist }

def Tsk.step (lim : Option Nat) (now : Int) (r : StepRes) (t : Tsk) : Tsk :=
  match t.phase with
  | .fresh =>
    if t.cancelReq then { t with phase := .done .cancelled, cancelReq := false }
    else beginIteration now 0 t
  | .delay n u =>
    if t.cancelReq then { t with phase := .done .cancelled, cancelReq := false }
    else if u ≤ now then { t with phase := .running n, hist := .enter n now :: t.hist }
    else t
  | .running n =>
    match r with
    | .cont => { t with cancelReq := false }
    | .fin o =>
      let t' := { t with cancelReq := false, hist := .exit n o now :: t.hist }
      match afterRun lim n o with
      | .finish o' => { t' with phase := .done o' }
      | .restart => beginIteration now (n + 1) t'
  | .extra =>
    match r with
    | .cont => { t with cancelReq := false }
    | .fin o => { t with phase := .done o, cancelReq := false }
  | .done _ => t

inductive CallKind | stop | wait
deriving DecidableEq, Repr, Inhabited

inductive CallSt
  | blocked (batch : List Nat)
  | finished (raised : List (Nat × Outcome)) (tm : Int) (nAtFin : Nat)
deriving DecidableEq, Repr, Inhabited

structure Caller where
  kind : CallKind
  st : CallSt
  acc : List (Nat × Outcome)   -- exceptions collected so far: (task id, outcome)
  reaped : List Nat            -- ghost: ids of all tasks of its finished batches
deriving DecidableEq, Repr, Inhabited

/-- Shape of `wait()`/`stop()` (extracted): raise after all rounds / cancel at the call / cancel in later rounds. -/
structure Mode where
  allRounds : Bool
  cancelAtCall : Bool
  cancelRounds : Bool
deriving DecidableEq, Repr, Inhabited

def extractedMode : Mode :=
  { allRounds := Extracted.Actor.waitAllRounds, cancelAtCall := Extracted.Actor.stopCancelsAtCall,
    cancelRounds := Extracted.Actor.stopCancelsEveryRound }

/-- The behaviour of the repaired code (fixes/C10-wait-all-rounds.patch). -/
def fixedMode : Mode := { allRounds := true, cancelAtCall := true, cancelRounds := true }
/-- The behaviour of the pinned tree. -/
def pinnedMode : Mode := { allRounds := false, cancelAtCall := true, cancelRounds := false }

structure Svc where
  mode : Mode
  limit : Option Nat
  now : Int
  tasks : List Tsk
  callers : List Caller
deriving Repr, Inhabited

inductive Event
  | advance (d : Nat)
  | start
  | cancel
  | addTask
  | call (k : CallKind)
  | taskStep (i : Nat) (r : StepRes)
  | wake (c : Nat)
deriving DecidableEq, Repr

def Svc.init (m : Mode) (lim : Option Nat) : Svc := { mode := m, limit := lim, now := 0, tasks := [], callers := [] }

def ownedLive (t : Tsk) : Bool := t.owned && !t.isDone

/-- `BackgroundService.is_running`. -/
def Svc.isRunning (s : Svc) : Bool := s.tasks.any ownedLive

def ownedIds (ts : List Tsk) : List Nat := (ts.filter (·.owned)).map (·.id)

/-- `BackgroundService.cancel()`: `task.cancel()` on every member of `_tasks` (no effect on finished tasks). -/
def cancelAll (ts : List Tsk) : List Tsk :=
  ts.map (fun t => if ownedLive t then { t with cancelReq := true } else t)

def errOf (t : Tsk) : Option (Nat × Outcome) :=
  match t.phase with
  | .done o => if o = .ret then none else some (t.id, o)
  | _ => none

/-- `task.result()` raised for these members of the batch. -/
def errorsOf (ts : List Tsk) (batch : List Nat) : List (Nat × Outcome) :=
  ts.filterMap (fun t => if batch.contains t.id then errOf t else none)

def batchDone (ts : List Tsk) (batch : List Nat) : Bool :=
  ts.all (fun t => !batch.contains t.id || t.isDone)

def unown (batch : List Nat) (ts : List Tsk) : List Tsk :=
  ts.map (fun t => if batch.contains t.id then { t with owned := false } else t)

/-- What the call raises: `wait()` everything collected, `stop()` the group minus `CancelledError`s. -/
def raisedOf (k : CallKind) (acc : List (Nat × Outcome)) : List (Nat × Outcome) :=
  match k with
  | .wait => acc
  | .stop => acc.filter (fun e => e.2 ≠ .cancelled)

def newLoopTask (id : Nat) : Tsk :=
  { id := id, loop := true, phase := .fresh, cancelReq := false, owned := true, dropped := false, hist := [] }
def newExtraTask (id : Nat) : Tsk :=
  { id := id, loop := false, phase := .extra, cancelReq := false, owned := true, dropped := false, hist := [] }

def clearOwned (ts : List Tsk) : List Tsk :=
  ts.map (fun t => if t.owned then { t with owned := false, dropped := true } else t)

/-- `Actor.start()`. -/
def Svc.start (s : Svc) : Svc :=
  if Extracted.Actor.startGuarded && s.isRunning then s
  else { s with tasks := clearOwned s.tasks ++ [newLoopTask s.tasks.length] }

/-- First step of `stop()` / `wait()`. -/
def Svc.call (s : Svc) (k : CallKind) : Svc :=
  if s.tasks.any (·.owned) then
    let ts := if k = .stop && s.mode.cancelAtCall then cancelAll s.tasks else s.tasks
    { s with tasks := ts,
             callers := s.callers ++ [{ kind := k, st := .blocked (ownedIds ts), acc := [], reaped := [] }] }
  else
    { s with callers := s.callers ++ [{ kind := k, st := .finished [] s.now s.tasks.length, acc := [], reaped := [] }] }

/-- Call `c` resumes after `await asyncio.wait(batch)`. -/
def Svc.wake (s : Svc) (c : Nat) : Svc :=
  match s.callers[c]? with
  | none => s
  | some cl =>
    match cl.st with
    | .finished _ _ _ => s
    | .blocked batch =>
      if batchDone s.tasks batch then
        let errs := errorsOf s.tasks batch
        let ts1 := unown batch s.tasks
        let acc' := cl.acc ++ errs
        let reaped' := cl.reaped ++ batch
        if ts1.any (·.owned) && (s.mode.allRounds || errs.isEmpty) then
          let ts2 := if cl.kind = .stop && s.mode.cancelRounds then cancelAll ts1 else ts1
          { s with tasks := ts2,
                   callers := s.callers.set c { cl with st := .blocked (ownedIds ts2), acc := acc', reaped := reaped' } }
        else
          { s with tasks := ts1,
                   callers := s.callers.set c { cl with st := .finished (raisedOf cl.kind acc') s.now s.tasks.length,
                                                        acc := acc', reaped := reaped' } }
      else s

def Svc.step (s : Svc) (e : Event) : Svc :=
  match e with
  | .advance d => { s with now := s.now + d }
  | .start => s.start
  | .cancel => { s with tasks := cancelAll s.tasks }
  | .addTask => { s with tasks := s.tasks ++ [newExtraTask s.tasks.length] }
  | .call k => s.call k
  | .taskStep i r => { s with tasks := s.tasks.map (fun t => if t.id = i then t.step s.limit s.now r else t) }
  | .wake c => s.wake c

def Svc.exec (s : Svc) (es : List Event) : Svc := es.foldl Svc.step s

/-! ### vocabulary of the machine translation (`Frequenz/Extracted/ActorLoops.lean`)

The translator (`tools/extractors/actor_loops.py`) turns `Actor._run_loop`, `Actor.start`, `BackgroundService.wait /
stop / _wait_all / cancel / is_running` and `cancel_and_await` into one Lean function per *segment* of the coroutine
(from its entry, or from the resumption of an `await`, up to the next `await` or its end).  The operations of the
collaborators — the task table standing for the set `self._tasks`, `asyncio.Task` methods, exception groups — are the
primitives below; which of them the code applies, in which order and under which conditions, is what is translated.
`Frequenz/Lemmas/ActorTie.lean` proves the event machine above equal to those segment functions. -/
namespace Src

/-- `asyncio.Task.cancel()` on a task of the table: no effect on a finished task. -/
def taskCancel (t : Tsk) : Tsk := if t.isDone then t else { t with cancelReq := true }

/-- `bool(self._tasks)`. -/
def nonEmpty (ts : List Tsk) : Bool := ts.any (·.owned)

/-- `any(p(task) for task in self._tasks)` (also as a `for … if …: return True` search loop). -/
def anyMember (p : Tsk → Bool) (ts : List Tsk) : Bool := ts.any (fun t => t.owned && p t)

/-- `for task in self._tasks: <method call on task>`. -/
def forMembers (f : Tsk → Tsk) (ts : List Tsk) : List Tsk := ts.map (fun t => if t.owned then f t else t)

/-- The set handed to `asyncio.wait(self._tasks)`; with `ALL_COMPLETED` it is also the `done` set it returns. -/
def snapshot (ts : List Tsk) : List Nat := ownedIds ts

/-- `self._tasks = self._tasks - done` (also `.difference(done)`, `-=`, `.difference_update(done)`). -/
def remove (ids : List Nat) (ts : List Tsk) : List Tsk := unown ids ts

/-- Iterating a set of tasks: the order is taken to be that of the task table. -/
def tasksOf (tbl : List Tsk) (ids : List Nat) : List Tsk := tbl.filter (fun t => ids.contains t.id)

/-- `task.result()` of a finished task: `none` = returns, `some e` = raises `e`. -/
def result (t : Tsk) : Option (Nat × Outcome) := errOf t

/-- `self._tasks.clear()`. -/
def clear (ts : List Tsk) : List Tsk := clearOwned ts

/-- `self._tasks.add(asyncio.create_task(self._run_loop()))`. -/
def addLoopTask (ts : List Tsk) : List Tsk := ts ++ [newLoopTask ts.length]

/-- `group.split(asyncio.CancelledError)[1]`: the members that are no `CancelledError` (`None` when there is none). -/
def splitRest (es : List (Nat × Outcome)) : List (Nat × Outcome) := es.filter (fun e => e.2 ≠ .cancelled)

/-- Where a `wait()` / `stop()` call stands at the end of a segment. -/
inductive CallRes
  | blocked (ts : List Tsk) (batch : List Nat) (acc : List (Nat × Outcome))   -- in `await asyncio.wait(batch)`
  | finished (ts : List Tsk) (raised : List (Nat × Outcome))                   -- returned (`[]`) / raised the group
deriving Repr

/-- Where a `cancel_and_await(task)` call stands at the end of a segment. -/
inductive CaRes
  | blocked                                    -- in `await task`
  | returned (raised : Option Outcome)
deriving DecidableEq, Repr

end Src

/-! ### several actors and `run(*actors)` -/

structure RunRec where
  actors : List Nat              -- ghost: the actors given to `run` (indices that exist)
  pending : List Nat             -- actors whose `wait()` task has not taken its first step yet
  waiters : List (Nat × Nat)     -- (actor index, index of its `wait()` call)
  returned : Option Int
deriving DecidableEq, Repr, Inhabited

structure Sys where
  now : Int
  svcs : List Svc
  runs : List RunRec
deriving Repr

inductive SysEvent
  | svc (a : Nat) (e : Event)
  | advance (d : Nat)
  | runCall (actors : List Nat)     -- first step of `run(*actors)`: start those that are not running, create the wait() tasks
  | runWait (r : Nat)               -- first step of the next `wait()` task of run `r`
  | runReturn (r : Nat)             -- `run` number `r` returns (enabled when all its wait() tasks have finished)
deriving Repr

def Sys.init (m : Mode) (lims : List (Option Nat)) : Sys :=
  { now := 0, svcs := lims.map (Svc.init m), runs := [] }

/-- `run()` for one actor: `if actor.is_running: skip else actor.start()`. -/
def startIfIdle (s : Svc) : Svc := if s.isRunning then s else s.start

def callerFinished (s : Svc) (c : Nat) : Bool :=
  match s.callers[c]? with
  | some cl => (match cl.st with | .finished _ _ _ => true | .blocked _ => false)
  | none => false

def waiterFinished (svcs : List Svc) (w : Nat × Nat) : Bool :=
  match svcs[w.1]? with
  | some s => callerFinished s w.2
  | none => false

def Sys.runCall (y : Sys) (actors : List Nat) : Sys :=
  let valid := actors.filter (fun a => a < y.svcs.length)
  { y with svcs := y.svcs.mapIdx (fun i s => if valid.contains i then startIfIdle s else s),
           runs := y.runs ++ [{ actors := valid, pending := valid, waiters := [], returned := none }] }

def Sys.runWait (y : Sys) (r : Nat) : Sys :=
  match y.runs[r]? with
  | some rc =>
    (match rc.pending with
     | [] => y
     | a :: rest =>
       match y.svcs[a]? with
       | some s =>
         { y with svcs := y.svcs.set a (s.call .wait),
                  runs := y.runs.set r { rc with pending := rest, waiters := rc.waiters ++ [(a, s.callers.length)] } }
       | none => y)     -- unreachable: `pending` only holds indices of services
  | none => y

def runDone (svcs : List Svc) (rc : RunRec) : Bool :=
  rc.pending.isEmpty && rc.waiters.all (waiterFinished svcs)

def Sys.step (y : Sys) (e : SysEvent) : Sys :=
  match e with
  | .svc a ev =>
    match ev with
    | .advance _ => y            -- the clock is global: use `SysEvent.advance`
    | _ => (match y.svcs[a]? with
            | some s => { y with svcs := y.svcs.set a (s.step ev) }
            | none => y)
  | .advance d => { y with now := y.now + d, svcs := y.svcs.map (fun s => Svc.step s (.advance d)) }
  | .runCall actors => y.runCall actors
  | .runWait r => y.runWait r
  | .runReturn r =>
    match y.runs[r]? with
    | some rc =>
      if rc.returned.isNone && runDone y.svcs rc
      then { y with runs := y.runs.set r { rc with returned := some y.now } }
      else y
    | none => y

def Sys.exec (y : Sys) (es : List SysEvent) : Sys := es.foldl Sys.step y

/-! ### `_internal/_asyncio.cancel_and_await(task)`

One task with an abstract clean-up (after a cancellation is delivered the user code may take any number of further
await steps — `taskStep cont` — before it ends with any outcome; a further cancellation may be delivered meanwhile),
bare `task.cancel()` calls, and any number of concurrent `cancel_and_await(task)` calls.  The guard of the early
return, the `task.cancel()` and the swallowed `CancelledError` come from `Extracted.Actor`. -/
namespace CA

inductive Phase
  | notStarted                 -- created, first step not taken
  | running                    -- suspended in its normal work
  | cleaning                   -- a cancellation was delivered and the user code is still cleaning up
  | done (o : Outcome)
deriving DecidableEq, Repr, Inhabited

structure Task where
  phase : Phase
  cancelReq : Bool             -- a CancelledError waits to be delivered
  cancelling : Nat             -- `task.cancelling()`: number of `cancel()` requests accepted so far
deriving DecidableEq, Repr, Inhabited

def Task.isDone (t : Task) : Bool := match t.phase with | .done _ => true | _ => false

/-- `task.cancel()`. -/
def Task.cancel (t : Task) : Task :=
  if t.isDone then t else { t with cancelReq := true, cancelling := t.cancelling + 1 }

def Task.step (t : Task) (r : StepRes) : Task :=
  match t.phase with
  | .notStarted => if t.cancelReq then { t with phase := .done .cancelled, cancelReq := false } else { t with phase := .running }
  | .done _ => t
  | ph =>
    match r with
    | .fin o => { t with phase := .done o, cancelReq := false }
    | .cont => if t.cancelReq then { t with phase := .cleaning, cancelReq := false } else { t with phase := ph }

inductive CallSt
  | awaiting
  | returned (early : Bool) (raised : Option Outcome) (tm : Int)   -- `early`: left through the guard
deriving DecidableEq, Repr, Inhabited

structure St where
  now : Int
  task : Task
  callers : List CallSt
deriving Repr, Inhabited

inductive Ev
  | advance (d : Nat)
  | cancel                     -- somebody calls `task.cancel()`
  | call                       -- first step of a new `cancel_and_await(task)`
  | taskStep (r : StepRes)     -- the task takes a step (a pending cancellation is delivered on it)
  | wake (c : Nat)             -- call `c` resumes from `await task` (enabled once the task is done)
deriving DecidableEq, Repr

def init : St := { now := 0, task := { phase := .notStarted, cancelReq := false, cancelling := 0 }, callers := [] }

/-- What `await task` raises into `cancel_and_await` and what gets out of its `try`. -/
def propagated (o : Outcome) : Option Outcome :=
  match o with
  | .ret => none
  | .cancelled => if Extracted.Actor.caSwallowsCancelled then none else some .cancelled
  | .exc => some .exc
  | .baseExc => some .baseExc
  | .excGroup => some .excGroup
  | .baseGroup => some .baseGroup

def step (s : St) (e : Ev) : St :=
  match e with
  | .advance d => { s with now := s.now + d }
  | .cancel => { s with task := s.task.cancel }
  | .call =>
    if Extracted.Actor.caEarlyReturn s.task.isDone s.task.cancelling then
      { s with callers := s.callers ++ [.returned true none s.now] }
    else
      { s with task := if Extracted.Actor.caCancels then s.task.cancel else s.task,
               callers := s.callers ++ [.awaiting] }
  | .taskStep r => { s with task := s.task.step r }
  | .wake c =>
    match s.callers[c]?, s.task.phase with
    | some .awaiting, .done o => { s with callers := s.callers.set c (.returned false (propagated o) s.now) }
    | _, _ => s

def exec (s : St) (es : List Ev) : St := es.foldl step s

end CA

end Actor
