/-
Model of `MetricFetcher` with a `FallbackMetricFetcher` (C19), for the code with the fix
`fixes/C19-except-receivererror.patch` applied (`except ReceiverError`, four sites in `_formula_steps.py`).

Anchors: `MetricFetcher._fetch_next`, `fetch_next_with_fallback`, `_synchronize_and_fetch_fallback`
(`src/frequenz/sdk/timeseries/formula_engine/_formula_steps.py`), `FallbackFormulaMetricFetcher.start`.

Time unit: one input step (tick).  Real timestamps are `T0 + step * tick`; the code only compares (`<`, `>`) and copies
timestamps, so the unit is immaterial to it.  `val = none` stands for None / NaN / ±inf (`_is_value_valid`).

The fetcher reads two FIFO queues (the `Broadcast` receivers): the primary one exists from the beginning, the
fallback one is created by `start()` — deliveries of the fallback source before that are never seen.  One call of
`fetch_next()` is the event `round`; it is atomic in the model and is a no-op when the data it needs has not been
delivered yet (the real coroutine would wait inside the call; nothing else can observe the difference because the
queues are only appended to and `start()` is called without an intervening `await`).  A schedule is a `List Ev`.
-/
import Frequenz.Model.Prelude

namespace Fallback

structure Sample where
  ts : Int
  val : Option Rat
deriving DecidableEq, Repr

/-- Events of a schedule. -/
inductive Ev where
  | dP (s : Sample)   -- the primary stream delivers a sample
  | cP                -- the primary channel is closed (`receive()` raises once the queue is drained)
  | dF (s : Sample)   -- the fallback source emits a sample (seen only if the fallback has been started)
  | cF                -- the fallback stream fails (closed)
  | round             -- the evaluator calls `fetch_next()`; no-op while the call could not complete
deriving DecidableEq, Repr

/-- Result of one `fetch_next()`. -/
inductive Res where
  | sample (s : Sample)   -- a sample was returned
  | none                  -- `None` was returned (the evaluator drops the round)
  | raised                -- a `ReceiverError` propagated (the engine drops the round)
deriving DecidableEq, Repr

structure St where
  pq : List Sample := []          -- primary receiver queue
  pClosed : Bool := false
  fq : List Sample := []          -- fallback receiver queue (exists only while `running`)
  fClosed : Bool := false
  running : Bool := false         -- `fallback.is_running`
  latest : Option Sample := none  -- `_latest_fallback_sample`
  out : List Res := []            -- results of the completed rounds, oldest first
  -- history (ghost) fields, never read by `round`
  pAll : List Sample := []        -- every primary sample delivered so far
  fAll : List Sample := []        -- every sample the fallback source emitted so far
  acc : List Sample := []         -- the fallback samples delivered after `start()` (what the receiver saw)
deriving Repr

def St.init : St := {}

/-- Outcome of the `while primary.timestamp > latest.timestamp` loop of `_synchronize_and_fetch_fallback`. -/
inductive Sync where
  | done (l : Sample) (fq : List Sample)   -- loop left with `latest = l`
  | err (l : Sample)                       -- `receive()` raised while looping (queue empty, closed)
  | block                                  -- would have to wait for more data
deriving DecidableEq, Repr

def syncLoop (pts : Int) : Sample → List Sample → Bool → Sync
  | l, [], closed => if pts > l.ts then (if closed then .err l else .block) else .done l []
  | l, s :: r, closed => if pts > l.ts then syncLoop pts s r closed else .done l (s :: r)

/-- `_synchronize_and_fetch_fallback` + the tail of `fetch_next_with_fallback`, once `latest = some l` is known. -/
def withLatest (σ : St) (p : Sample) (pr : List Sample) (l : Sample) (fq : List Sample) : Option St :=
  if p.ts < l.ts then
    -- fallback is ahead: `return None` → the primary sample is returned whatever it is
    some { σ with pq := pr, fq := fq, latest := some l, out := σ.out ++ [.sample p] }
  else
    match syncLoop p.ts l fq σ.fClosed with
    | .done l' fq' =>
      some { σ with pq := pr, fq := fq', latest := some l',
                    out := σ.out ++ [.sample (if p.val.isSome then p else l')] }
    | .err l' => some { σ with pq := pr, fq := [], latest := some l', out := σ.out ++ [.sample p] }
    | .block => none

/-- `fetch_next_with_fallback` after the primary `receive()` returned `p`. -/
def withFallback (σ : St) (p : Sample) (pr : List Sample) : Option St :=
  match σ.latest with
  | some l => withLatest σ p pr l σ.fq
  | none =>
    match σ.fq with
    | s :: r => withLatest σ p pr s r
    | [] =>
      if σ.fClosed then some { σ with pq := pr, out := σ.out ++ [.sample p] }   -- first fallback receive raised
      else none

/-- One `fetch_next()`; `none` = the call cannot complete with the data delivered so far. -/
def round (σ : St) : Option St :=
  if σ.running = false then
    match σ.pq with
    | p :: pr =>
      if p.val.isSome then some { σ with pq := pr, out := σ.out ++ [.sample p] }
      else some { σ with pq := pr, running := true, out := σ.out ++ [.sample p] }    -- `start()`, invalid sample returned
    | [] =>
      if σ.pClosed then some { σ with running := true, out := σ.out ++ [.none] }     -- error: `start()`, `None` returned
      else none
  else
    match σ.pq with
    | p :: pr => withFallback σ p pr
    | [] =>
      if σ.pClosed then
        -- `return await fallback_fetcher.receive()` — no synchronisation
        match σ.fq with
        | s :: r => some { σ with fq := r, out := σ.out ++ [.sample s] }
        | [] => if σ.fClosed then some { σ with out := σ.out ++ [.raised] } else none
      else none

def step (σ : St) : Ev → St
  | .dP s => if σ.pClosed then σ else { σ with pq := σ.pq ++ [s], pAll := σ.pAll ++ [s] }
  | .cP => { σ with pClosed := true }
  | .dF s =>
    if σ.fClosed then σ
    else if σ.running then { σ with fq := σ.fq ++ [s], fAll := σ.fAll ++ [s], acc := σ.acc ++ [s] }
    else { σ with fAll := σ.fAll ++ [s] }
  | .cF => { σ with fClosed := true }
  | .round => (round σ).getD σ

def run (es : List Ev) : St := es.foldl step St.init

/-- The next call of `fetch_next()` can complete. -/
def enabled (σ : St) : Bool := (round σ).isSome

end Fallback
