/-
Model of `_ResamplingHelper` and of the filter of `_StreamingHelper._receive_samples`
(`src/frequenz/sdk/timeseries/_resampling.py`).

Time is `Int` microseconds.  The buffer is a `deque(maxlen)`: a list in arrival order (oldest first) that drops from
the front.  `bisect` is the real binary search of CPython's `bisect_right`.  The guard of the input-period estimate,
the buffer length the deque is rebuilt with, the two keys of the bisections that bound the slice and the None/NaN
filter are regenerated from the Python source (`Frequenz.Extracted.Resampling`).
The *value* of the input-period estimate goes through floats in Python (`timedelta(seconds=Δ.total_seconds() / n)`)
and is an input of the model (`est`), read back from the implementation.
-/
import Frequenz.Extracted.Resampling

namespace ResamplingHelper

open Extracted.Resampling

/-- A received sample: timestamp, identity (its position in the fed history) and what its value is. -/
structure Sample where
  ts : Int
  id : Nat
  isNone : Bool
  isNaN : Bool
  /-- the value is `+inf` or `-inf` (a valid sample for the property) -/
  isInf : Bool := false
deriving Repr, DecidableEq

/-- `ResamplerConfig` (the fields the helper reads). -/
structure Cfg where
  period : Int
  maxAge : Rat
  initLen : Nat
  /-- `max_buffer_len` -/
  maxLen : Nat
  /-- `warn_buffer_len` -/
  warnLen : Nat := 128
deriving Repr

structure Helper where
  /-- `self._buffer`, oldest first -/
  buf : List Sample
  /-- `self._buffer.maxlen` -/
  maxlen : Nat
  /-- `SourceProperties.sampling_start` -/
  start : Option Int
  /-- `SourceProperties.received_samples` -/
  received : Nat
  /-- `SourceProperties.sampling_period` -/
  inputPeriod : Option Int
deriving Repr

def init (cfg : Cfg) : Helper :=
  { buf := [], maxlen := cfg.initLen, start := none, received := 0, inputPeriod := none }

/-- The last `n` elements (what `deque(l, maxlen=n)` keeps). -/
def lastN (n : Nat) (l : List α) : List α := l.drop (l.length - n)

/-- `add_sample` -/
def addSample (h : Helper) (x : Sample) : Helper :=
  { h with buf := lastN h.maxlen (h.buf ++ [x]),
           start := (match h.start with | none => some x.ts | some s => some s),
           received := h.received + 1 }

/-- `_StreamingHelper._receive_samples`: None/NaN samples never reach the helper. -/
def accepted (x : Sample) : Bool := acceptsSample x.isNone x.isNaN x.isInf

def recv (h : Helper) (x : Sample) : Helper := if accepted x then addSample h x else h

/-- CPython `bisect_right(a, x, key=ts)`: `while lo < hi: mid = (lo+hi)//2; if x < a[mid].ts: hi = mid else lo = mid+1`. -/
def bisectGo (l : List Sample) (x : Int) (lo hi : Nat) : Nat :=
  if _h : lo < hi then
    let mid := (lo + hi) / 2
    match l[mid]? with
    | none => lo
    | some s => if x < s.ts then bisectGo l x lo mid else bisectGo l x (mid + 1) hi
  else lo
termination_by hi - lo
decreasing_by all_goals omega

def bisectRight (l : List Sample) (x : Int) : Nat := bisectGo l x 0 l.length

/-- The older edge of the relevance window at tick `T` (exclusive). -/
def minRelevant (cfg : Cfg) (h : Helper) (T : Int) : Int := relevanceLowKey T cfg.period h.inputPeriod cfg.maxAge

/-- The newer edge of the relevance window at tick `T` (inclusive). -/
def maxRelevant (cfg : Cfg) (h : Helper) (T : Int) : Int := relevanceHighKey T cfg.period h.inputPeriod cfg.maxAge

/-- `relevant_samples = list(islice(buffer, bisect(buffer, low key), bisect(buffer, high key)))`. -/
def relevant (cfg : Cfg) (h : Helper) (T : Int) : List Sample :=
  let lo := bisectRight h.buf (minRelevant cfg h T)
  let hi := bisectRight h.buf (maxRelevant cfg h T)
  (h.buf.take hi).drop lo

/-- The lower clamp of the source applied to an estimate (`max(estimate, timedelta.resolution)` on a fixed tree). -/
def clampEstimate (est : Int) : Int := if est < minInputPeriodEstimate then minInputPeriodEstimate else est

/-- `_update_source_sample_period(T)`; `est` is the estimate the implementation computed (through floats). -/
def updatePeriod (cfg : Cfg) (h : Helper) (T : Int) (est : Int) : Helper × Bool :=
  if skipPeriodUpdate h.inputPeriod h.start h.received cfg.period cfg.maxAge h.buf.length h.maxlen T then (h, false)
  else ({ h with inputPeriod := some (clampEstimate est) }, true)

/-- The new `maxlen` of `_update_buffer_len` (`none`: `ZeroDivisionError`, the estimate rounded to 0 µs). -/
def newBufferLen (cfg : Cfg) (ip : Int) : Option Nat :=
  if ip = 0 ∧ ¬ (ip > cfg.period) then none
  else some (newBufferLenOf ip cfg.period cfg.maxAge cfg.maxLen cfg.warnLen).toNat

/-- `self._buffer = deque(self._buffer, maxlen=n)` (skipped when `n` is the current `maxlen`: same content). -/
def resize (h : Helper) (n : Nat) : Helper :=
  if n = h.maxlen then h else { h with buf := lastN n h.buf, maxlen := n }

structure TickOut where
  /-- what is handed to the resampling function (nothing is handed over when empty) -/
  rel : List Sample
  /-- the helper raised instead of returning a sample -/
  err : Bool
deriving Repr

/-- `_ResamplingHelper.resample(T)`. -/
def tick (cfg : Cfg) (h : Helper) (T : Int) (est : Int) : Helper × TickOut :=
  let u := updatePeriod cfg h T est
  if u.2 then
    match newBufferLen cfg (clampEstimate est) with
    | none => (u.1, { rel := [], err := true })
    | some n =>
      let h' := resize u.1 n
      (h', { rel := relevant cfg h' T, err := false })
  else (u.1, { rel := relevant cfg u.1 T, err := false })

/-- The emitted value for a resampling function `f` that returns a number: `None` without relevant samples. -/
def emitted (f : List Sample → Rat) (o : TickOut) : Option Rat := if o.rel.isEmpty then none else some (f o.rel)

/-- The same for a resampling function with ANY kind of result (`α` may contain NaN, ±inf, "none-like" values …): the
emitted value is that result, whatever it is — "no value" (`none`) only arises from an empty relevant set. -/
def emittedAs {α : Type} (f : List Sample → α) (o : TickOut) : Option α := if o.rel.isEmpty then none else some (f o.rel)

inductive Ev where
  | recv (x : Sample)
  | tick (T : Int) (est : Int)
deriving Repr

def step (cfg : Cfg) (h : Helper) : Ev → Helper
  | .recv x => recv h x
  | .tick T est => (tick cfg h T est).1

def runFrom (cfg : Cfg) (h : Helper) (es : List Ev) : Helper := es.foldl (step cfg) h

def run (cfg : Cfg) (es : List Ev) : Helper := runFrom cfg (init cfg) es

/-- The accepted (valid) samples of a history, in arrival order. -/
def validHistory : List Ev → List Sample
  | [] => []
  | .recv x :: es => if accepted x then x :: validHistory es else validHistory es
  | .tick _ _ :: es => validHistory es

end ResamplingHelper
