/-
Executable model of the formula engine's compiler and evaluator (C05, C13).

  * `Tokenizer` (`_tokenizer.py`)                         -> `tokenize`
  * `ResampledFormulaBuilder.from_string`                  -> `fromString`
  * `FormulaBuilder.push_oper / push_metric / push_constant / push_clipper / finalize` (`_formula_engine.py`)
                                                           -> `pushOper` (with `popLoop`), `pushTok`, `finalize`
  * `_BaseHOFormulaBuilder._push / consumption / production`, `HigherOrderFormulaBuilder.build`
                                                           -> `HO`, `HO.toks` (replay of the deque operations), `hoBuild`
  * the step classes' `apply` (`_formula_steps.py`)        -> `applyStep`; the arithmetic bodies (and `Clipper`'s)
    are NOT written here: they are `Extracted.Formula.bin*/un*`, regenerated from the source on every run
  * `MetricFetcher.apply`                                  -> `fetch`
  * `FormulaEvaluator.apply` (after the inputs are fetched) -> `run`;  `FormulaEngine._run` loop -> `engineRun`

Lists used as stacks have their top at the head.  Mathlib-free.
-/
import Frequenz.Model.FormulaSteps
import Frequenz.Extracted.Formula

namespace Formula

open Extracted.Formula (prec)

/-! ## Inputs -/

/-- The value of one input sample: `Sample.value` is `None`, or a quantity whose base value is NaN,
±inf, or a finite number. -/
inductive Inp where
  | none
  | nan
  | inf (negative : Bool)
  | val (q : Rat)
deriving DecidableEq, Repr

def Inp.missing : Inp → Bool
  | .val _ => false
  | _ => true

/-- `MetricFetcher.apply`: a missing value (None / NaN / ±inf) becomes `0.0` when the fetcher was created
with `nones_are_zeros`, NaN otherwise. -/
def fetch (nonesAreZeros : Bool) : Inp → V
  | .val q => some q
  | _ => if nonesAreZeros then some 0 else none

/-- The samples of one round (all of one timestamp), by metric id / engine name. -/
abbrev Env := Nat → Inp

/-! ## Steps and their evaluation -/

inductive Step where
  | metric (n : Nat) (nonesAreZeros : Bool)   -- a `MetricFetcher` (the object carries its own flag)
  | const (c : Rat)                           -- `ConstantValue`
  | op (o : Op)                               -- Adder … Production, OpenParen
  | clip (lo hi : Option Rat)                 -- `Clipper`
deriving DecidableEq, Repr

/-- `Clipper.apply` (body extracted from the source, like the operator steps): `lo` / `hi` are the two optional
bounds handed to `Clipper(min_val, max_val)` by `push_clipper`. -/
def clipVal (lo hi : Option Rat) (v : V) : M V := Extracted.Formula.unClipper lo hi v

/-- `apply` of the operator steps (bodies extracted from the source). -/
def applyOp : Op → List V → M (List V)
  | .add => PyF.binStep Extracted.Formula.binAdder
  | .sub => PyF.binStep Extracted.Formula.binSubtractor
  | .mul => PyF.binStep Extracted.Formula.binMultiplier
  | .div => PyF.binStep Extracted.Formula.binDivider
  | .max => PyF.binStep Extracted.Formula.binMaximizer
  | .min => PyF.binStep Extracted.Formula.binMinimizer
  | .cons => PyF.unStep Extracted.Formula.unConsumption
  | .prod => PyF.unStep Extracted.Formula.unProduction
  | .lp => fun st => .ok st      -- `OpenParen.apply` is a no-op
  | .rp => fun st => .ok st      -- never a step (")" pushes nothing)

def applyStep (env : Env) : Step → List V → M (List V)
  | .metric n z, st => .ok (fetch z (env n) :: st)
  | .const c, st => .ok (some c :: st)
  | .op o, st => applyOp o st
  | .clip lo hi, st => PyF.unStep (clipVal lo hi) st

/-- `for step in self._steps: step.apply(eval_stack)` — aborts at the first exception. -/
def exec (env : Env) : List Step → List V → M (List V)
  | [], st => .ok st
  | s :: ss, st => applyStep env s st >>= exec env ss

/-- A stack value as the final test sees it (the exact-arithmetic model never produces ±inf). -/
def ofV : V → FloatClass
  | some q => .finite q
  | none => .nan

/-- `res = eval_stack.pop(); if <final test>: return Sample(ts, None); return Sample(ts, create(res))` — the test
is `Extracted.Formula.resultIsNone`, taken from the source. -/
def emitValue (v : V) : Option Rat :=
  if Extracted.Formula.resultIsNone (ofV v) then none else v

/-- `FormulaEvaluator.apply` once all inputs of the round are there: run the steps on an empty stack;
exactly one value must remain; then the final test. -/
def run (steps : List Step) (env : Env) : M V :=
  exec env steps [] >>= fun st =>
    match st with
    | [v] => .ok (emitValue v)
    | _ => .error .stack

structure Sample where
  ts : Int
  value : Option Rat
deriving DecidableEq, Repr

/-- One iteration of `FormulaEngine._run`: an exception is logged and swallowed — nothing is sent. -/
def engineRound (steps : List Step) (round : Int × Env) : List Sample :=
  match run steps round.2 with
  | .ok v => [⟨round.1, v⟩]
  | .error _ => []

def engineRun (steps : List Step) (rounds : List (Int × Env)) : List Sample :=
  rounds.flatMap (engineRound steps)

/-! ## FormulaBuilder (shunting yard) -/

inductive Tok where
  | metric (n : Nat) (nonesAreZeros : Bool)
  | const (c : Rat)
  | oper (o : Op)
  | clip (lo hi : Option Rat)
deriving DecidableEq, Repr

structure Builder where
  stack : List Op := []                  -- `_build_stack`, top first
  steps : List Step := []                -- `_steps`, in order
  fetchers : List (Nat × Bool) := []     -- `_metric_fetchers` (name -> flag of the FIRST push: `setdefault`)
deriving Repr

/-- The `while self._build_stack:` loop of `push_oper`. -/
def popLoop (oper : Op) : List Op → List Step → List Op × List Step
  | [], steps => ([], steps)
  | prev :: rest, steps =>
    if prec oper < prec prev then (prev :: rest, steps)
    else if oper = .rp ∧ prev = .lp then (rest, steps)
    else if prev = .lp then (prev :: rest, steps)
    else popLoop oper rest (steps ++ [.op prev])

def pushOper (b : Builder) (oper : Op) : Builder :=
  let r := if b.stack ≠ [] ∧ oper ≠ .lp then popLoop oper b.stack b.steps else (b.stack, b.steps)
  if oper = .rp then { b with stack := r.1, steps := r.2 }
  else { b with stack := oper :: r.1, steps := r.2 }

def lookupFetcher (fs : List (Nat × Bool)) (n : Nat) : Option Bool :=
  match fs with
  | [] => none
  | (m, z) :: rest => if m = n then some z else lookupFetcher rest n

/-- `push_metric`: `fetcher = self._metric_fetchers.setdefault(name, MetricFetcher(...)); steps.append(fetcher)`. -/
def pushMetric (b : Builder) (n : Nat) (z : Bool) : Builder :=
  match lookupFetcher b.fetchers n with
  | some z' => { b with steps := b.steps ++ [.metric n z'] }
  | none => { b with steps := b.steps ++ [.metric n z], fetchers := b.fetchers ++ [(n, z)] }

def pushTok (b : Builder) : Tok → Builder
  | .metric n z => pushMetric b n z
  | .const c => { b with steps := b.steps ++ [.const c] }
  | .oper o => pushOper b o
  | .clip lo hi => { b with steps := b.steps ++ [.clip lo hi] }

/-- `finalize`: `while self._build_stack: self._steps.append(self._build_stack.pop())`. -/
def finalize (b : Builder) : List Step :=
  b.steps ++ b.stack.map Step.op

def build (toks : List Tok) : List Step :=
  finalize (toks.foldl pushTok {})

/-! ## Tokenizer and `from_string` -/

inductive RawTok where
  | metric (digits : List Char)     -- `Token(COMPONENT_METRIC, "<digits>")`
  | oper (c : Char)                 -- `Token(OPER, c)`
deriving DecidableEq, Repr

inductive TokMode where
  | top
  | hash                            -- just after `#`: `_read_unsigned_int` has read nothing yet
  | num (ds : List Char)            -- inside the digits

def isWs (c : Char) : Bool := Extracted.Formula.wsChars.contains c
def isOperChar (c : Char) : Bool := Extracted.Formula.operChars.contains c

/-- `list(Tokenizer(formula))`; `none` = `ValueError`.  (`#` at the very end of the string yields a metric
token with an empty value — `_read_unsigned_int` only raises when it *sees* a non-digit first.) -/
def tokGo : TokMode → List Char → Option (List RawTok)
  | .top, [] => some []
  | .hash, [] => some [.metric []]
  | .num ds, [] => some [.metric ds]
  | m, c :: cs =>
    if c.isDigit then
      match m with
      | .top => none
      | .hash => tokGo (.num [c]) cs
      | .num ds => tokGo (.num (ds ++ [c])) cs
    else
      match m with
      | .hash => none
      | m' =>
        let pre : List RawTok := match m' with | .num ds => [.metric ds] | _ => []
        if isWs c then (tokGo .top cs).map (pre ++ ·)
        else if isOperChar c then (tokGo .top cs).map (fun r => pre ++ .oper c :: r)
        else if c = Extracted.Formula.metricChar then (tokGo .hash cs).map (pre ++ ·)
        else none

def tokenize (s : List Char) : Option (List RawTok) := tokGo .top s

/-- `int(token.value)` on a string of ASCII digits. -/
def digitsVal (ds : List Char) : Nat := ds.foldl (fun acc c => 10 * acc + (c.toNat - 48)) 0

def opOfChar (c : Char) : Option Op :=
  if c = '+' then some .add else if c = '-' then some .sub else if c = '*' then some .mul
  else if c = '/' then some .div else if c = '(' then some .lp else if c = ')' then some .rp else none

/-- The loop of `from_string`: metric tokens become `push_component_metric(int(value), nones_are_zeros)`
(name `#<id>`), operator tokens `push_oper(value)`.  `zf` gives the flag per component id (`from_string`
passes one flag for all; the per-metric form is what `FormulaBuilder.push_metric` allows). -/
def tokOfRaw (zf : Nat → Bool) : RawTok → Option Tok
  | .metric [] => none                       -- `int("")` raises ValueError
  | .metric ds => some (.metric (digitsVal ds) (zf (digitsVal ds)))
  | .oper c => (opOfChar c).map Tok.oper

def toksOfRaw (zf : Nat → Bool) : List RawTok → Option (List Tok)
  | [] => some []
  | r :: rs => match tokOfRaw zf r, toksOfRaw zf rs with
    | some t, some ts => some (t :: ts)
    | _, _ => none

def fromString (s : List Char) (zf : Nat → Bool) : Option (List Step) :=
  match tokenize s with
  | none => none
  | some raw => (toksOfRaw zf raw).map build

/-! ## The composition API (`_BaseHOFormulaBuilder`) -/

inductive BinOp where
  | add | sub | mul | div | max | min
deriving DecidableEq, Repr

def BinOp.toOp : BinOp → Op
  | .add => .add | .sub => .sub | .mul => .mul | .div => .div | .max => .max | .min => .min

inductive UnOp where
  | cons | prod
deriving DecidableEq, Repr

def UnOp.toOp : UnOp → Op
  | .cons => .cons | .prod => .prod

/-- An expression built with the operator/method API.  A builder always starts from an engine
(`HigherOrderFormulaBuilder(engine)`), each `_push` takes an engine, a constant or another builder as
right operand.  Engines are identified by their `_name` (a `Nat` here). -/
inductive HO where
  | start (n : Nat)
  | pushEng (b : HO) (o : BinOp) (n : Nat)
  | pushConst (b : HO) (o : BinOp) (c : Rat)
  | pushB (b : HO) (o : BinOp) (r : HO)
  | un (b : HO) (u : UnOp)
deriving Repr

/-- The deque `_steps` after the operations (`appendleft "("`, `append ")"`, `append oper`, …). -/
def HO.toks (z : Bool) : HO → List Tok
  | .start n => [.metric n z]
  | .pushEng b o n => .oper .lp :: b.toks z ++ [.oper .rp, .oper o.toOp, .metric n z]
  | .pushConst b o c => .oper .lp :: b.toks z ++ [.oper .rp, .oper o.toOp, .const c]
  | .pushB b o r => .oper .lp :: b.toks z ++ [.oper .rp, .oper o.toOp, .oper .lp] ++ r.toks z ++ [.oper .rp]
  | .un b u => .oper .lp :: b.toks z ++ [.oper .rp, .oper u.toOp]

/-- `HigherOrderFormulaBuilder.build(name, nones_are_zeros=z)`. -/
def hoBuild (h : HO) (z : Bool) : List Step := build (h.toks z)

/-! ## Reference semantics: expression trees -/

/-- Abstract syntax: what the expression *means*.  Evaluation applies the step semantics along the tree,
left operand first. -/
inductive Ast where
  | metric (n : Nat)
  | const (c : Rat)
  | bin (o : BinOp) (l r : Ast)
  | un (u : UnOp) (a : Ast)
deriving Repr

/-- The value a binary / unary step computes from its operands (first operand = pushed first). -/
def binVal : BinOp → V → V → M V
  | .add => Extracted.Formula.binAdder
  | .sub => Extracted.Formula.binSubtractor
  | .mul => Extracted.Formula.binMultiplier
  | .div => Extracted.Formula.binDivider
  | .max => Extracted.Formula.binMaximizer
  | .min => Extracted.Formula.binMinimizer

def unVal : UnOp → V → M V
  | .cons => Extracted.Formula.unConsumption
  | .prod => Extracted.Formula.unProduction

def evalAst (zf : Nat → Bool) (env : Env) : Ast → M V
  | .metric n => .ok (fetch (zf n) (env n))
  | .const c => .ok (some c)
  | .bin o l r => evalAst zf env l >>= fun a => evalAst zf env r >>= fun b => binVal o a b
  | .un u a => evalAst zf env a >>= fun v => unVal u v

/-- The input streams an expression reads. -/
def Ast.ids : Ast → List Nat
  | .metric n => [n]
  | .const _ => []
  | .bin _ l r => l.ids ++ r.ids
  | .un _ a => a.ids

/-- Ordinary arithmetic over the rationals (`none` = undefined: a zero divisor somewhere). -/
def binQ : BinOp → Rat → Rat → Option Rat
  | .add, x, y => some (x + y)
  | .sub, x, y => some (x - y)
  | .mul, x, y => some (x * y)
  | .div, x, y => if y = 0 then none else some (x / y)
  | .max, x, y => some (max x y)
  | .min, x, y => some (min x y)

def unQ : UnOp → Rat → Rat
  | .cons, x => max x 0
  | .prod, x => max (-x) 0

def evalQ (val : Nat → Rat) : Ast → Option Rat
  | .metric n => some (val n)
  | .const c => some c
  | .bin o l r =>
    match evalQ val l, evalQ val r with
    | some x, some y => binQ o x y
    | _, _ => none
  | .un u a => (evalQ val a).map (unQ u)

/-- The value a stream contributes when missing values count as zero. -/
def zeroed (env : Env) (n : Nat) : Rat :=
  match env n with
  | .val q => q
  | _ => 0

/-- Some input of the expression is missing (None / NaN / ±inf) on a stream that does not zero missing values. -/
def missingNeeded (zf : Nat → Bool) (env : Env) (a : Ast) : Bool :=
  a.ids.any fun n => (env n).missing && !(zf n)

/-- What C13 demands of the emitted value: `None` exactly when an input is missing on a non-zeroing stream or the
value is undefined; otherwise the arithmetic value with zeros for the missing inputs of zeroing streams. -/
def expected (zf : Nat → Bool) (env : Env) (a : Ast) : Option Rat :=
  if missingNeeded zf env a then none else evalQ (zeroed env) a

def HO.ast : HO → Ast
  | .start n => .metric n
  | .pushEng b o n => .bin o b.ast (.metric n)
  | .pushConst b o c => .bin o b.ast (.const c)
  | .pushB b o r => .bin o b.ast r.ast
  | .un b u => .un u b.ast

/-! ## The formula-string grammar  E := T (('+'|'-') T)*,  T := F (('*'|'/') F)*,  F := '#'digits | '(' E ')'
as left-recursive trees (so the tree *is* the standard left-associative parse). -/

inductive AddOp where
  | add | sub
deriving DecidableEq, Repr

inductive MulOp where
  | mul | div
deriving DecidableEq, Repr

def AddOp.toBin : AddOp → BinOp
  | .add => .add | .sub => .sub
def MulOp.toBin : MulOp → BinOp
  | .mul => .mul | .div => .div

mutual
  inductive E where
    | t (t : T)
    | bin (l : E) (o : AddOp) (r : T)
  inductive T where
    | f (f : F)
    | bin (l : T) (o : MulOp) (r : F)
  inductive F where
    | id (d : Fin 10) (ds : List (Fin 10))      -- `#` followed by one or more decimal digits
    | paren (e : E)
end

def digitChar (d : Fin 10) : Char := Char.ofNat (48 + d.val)

def idDigits (d : Fin 10) (ds : List (Fin 10)) : List Char := (d :: ds).map digitChar

def opChar : Op → Char
  | .add => '+' | .sub => '-' | .mul => '*' | .div => '/' | .lp => '(' | .rp => ')'
  | _ => '?'

mutual
  /-- The token sequence of an expression (what `Tokenizer` must deliver). -/
  def E.raw : E → List RawTok
    | .t t => t.raw
    | .bin l o r => l.raw ++ [.oper (opChar o.toBin.toOp)] ++ r.raw
  def T.raw : T → List RawTok
    | .f f => f.raw
    | .bin l o r => l.raw ++ [.oper (opChar o.toBin.toOp)] ++ r.raw
  def F.raw : F → List RawTok
    | .id d ds => [.metric (idDigits d ds)]
    | .paren e => [.oper '('] ++ e.raw ++ [.oper ')']
end

mutual
  /-- The standard parse: precedence of `* /` over `+ -`, parentheses, left-to-right. -/
  def E.ast : E → Ast
    | .t t => t.ast
    | .bin l o r => .bin o.toBin l.ast r.ast
  def T.ast : T → Ast
    | .f f => f.ast
    | .bin l o r => .bin o.toBin l.ast r.ast
  def F.ast : F → Ast
    | .id d ds => .metric (digitsVal (idDigits d ds))
    | .paren e => e.ast
end

def rawChars : RawTok → List Char
  | .metric ds => Extracted.Formula.metricChar :: ds
  | .oper c => [c]

/-- A formula string: the tokens with `pad k` (whitespace) in front of the k-th token and after the last. -/
def renderFrom (pad : Nat → List Char) : Nat → List RawTok → List Char
  | k, [] => pad k
  | k, t :: ts => pad k ++ rawChars t ++ renderFrom pad (k + 1) ts

def render (pad : Nat → List Char) (toks : List RawTok) : List Char := renderFrom pad 0 toks

/-! ## Builder OBJECTS and build histories (`_BaseHOFormulaBuilder` as Python sees it)

A builder object carries its token deque (here: the tree it denotes) and — if the source keeps more state on the
object than the tokens — whatever a `build` left there (`memo`).  `Extracted.Formula.hoBuilderKeepsOnlyTokens` is what
the extractor establishes from the source: the instance attributes written in the builder classes are exactly the
token deque and the create method, `build` writes nothing (no attribute, no container reachable from the object or the
module), so `copy.copy(self)` in `_copy` copies token state only.  When the flag is `false` the model memoises the
first built program on the object and hands it to every derived builder (what a cached engine travelling through
`copy.copy` does). -/

structure LiveB where
  tree : HO
  memo : Option (List Step)
deriving Repr

/-- One statement of a program using the composition API; objects are referred to by creation index. -/
inductive BEv where
  | start (n : Nat)                             -- `HigherOrderFormulaBuilder(engine n)` (an engine turned builder)
  | pushEng (i : Nat) (o : BinOp) (n : Nat)     -- `b_i <o> engine_n`
  | pushConst (i : Nat) (o : BinOp) (c : Rat)   -- `b_i <o> c`
  | pushB (i : Nat) (o : BinOp) (j : Nat)       -- `b_i <o> b_j`
  | un (i : Nat) (u : UnOp)                     -- `b_i.consumption()` / `.production()`
  | build (i : Nat) (z : Bool)                  -- `b_i.build(name, nones_are_zeros=z)`
deriving Repr

/-- `_copy()` followed by the token operations: the new object denotes `t`. -/
def LiveB.derive (src : LiveB) (t : HO) : LiveB :=
  ⟨t, if Extracted.Formula.hoBuilderKeepsOnlyTokens then none else src.memo⟩

def stepLive (s : List LiveB) : BEv → List LiveB × List (List Step)
  | .start n => (s ++ [⟨.start n, none⟩], [])
  | .pushEng i o n => match s[i]? with
    | some b => (s ++ [b.derive (.pushEng b.tree o n)], [])
    | none => (s, [])
  | .pushConst i o c => match s[i]? with
    | some b => (s ++ [b.derive (.pushConst b.tree o c)], [])
    | none => (s, [])
  | .pushB i o j => match s[i]?, s[j]? with
    | some b, some r => (s ++ [b.derive (.pushB b.tree o r.tree)], [])
    | _, _ => (s, [])
  | .un i u => match s[i]? with
    | some b => (s ++ [b.derive (.un b.tree u)], [])
    | none => (s, [])
  | .build i z => match s[i]? with
    | some b =>
      if Extracted.Formula.hoBuilderKeepsOnlyTokens then (s, [hoBuild b.tree z])
      else
        let out := b.memo.getD (hoBuild b.tree z)
        (s.set i { b with memo := some out }, [out])
    | none => (s, [])

/-- The programs handed out by the `build` calls of a history, in order. -/
def runLive (s : List LiveB) : List BEv → List (List Step)
  | [] => []
  | e :: es => (stepLive s e).2 ++ runLive (stepLive s e).1 es

/-- The same history when `build` is a pure function of the builder's own tree. -/
def stepFresh (s : List HO) : BEv → List HO × List (List Step)
  | .start n => (s ++ [.start n], [])
  | .pushEng i o n => match s[i]? with
    | some b => (s ++ [.pushEng b o n], [])
    | none => (s, [])
  | .pushConst i o c => match s[i]? with
    | some b => (s ++ [.pushConst b o c], [])
    | none => (s, [])
  | .pushB i o j => match s[i]?, s[j]? with
    | some b, some r => (s ++ [.pushB b o r], [])
    | _, _ => (s, [])
  | .un i u => match s[i]? with
    | some b => (s ++ [.un b u], [])
    | none => (s, [])
  | .build i z => match s[i]? with
    | some b => (s, [hoBuild b z])
    | none => (s, [])

def runFresh (s : List HO) : List BEv → List (List Step)
  | [] => []
  | e :: es => (stepFresh s e).2 ++ runFresh (stepFresh s e).1 es

end Formula
