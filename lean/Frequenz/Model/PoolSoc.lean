/-
Model for C18: pool SoC (`SoCCalculator.calculate`) and pool capacity (`CapacityCalculator.calculate`) over the
metrics cached by `SendOnUpdate` (`LatestMetricsFetcher.fetch_next` drops NaN metrics; `update_working_batteries`
evicts the cache entries of batteries that stop working).

The arithmetic of one loop iteration (`socStep`, `capStep`), the final value (`socFinal`, `capFinal`), the lists of
required metrics, the metric-id -> attribute table and `is_close_to_zero` are regenerated from the Python source on
every run (`Frequenz.Extracted.Pool`).  Hand-written here: which batteries are visited and skipped, the fold, the
timestamp, the cache.
-/
import Frequenz.Extracted.Pool

namespace PoolSoc
open Extracted.Pool

/-- The attributes of a `BatteryData` message that the two calculators read (`none` = NaN). -/
structure Msg where
  ts : Int
  capacity : Option Rat
  soc_lower_bound : Option Rat
  soc_upper_bound : Option Rat
  soc : Option Rat
deriving Repr, DecidableEq

def Msg.attr (m : Msg) (name : String) : Option Rat :=
  if name = "capacity" then m.capacity
  else if name = "soc_lower_bound" then m.soc_lower_bound
  else if name = "soc_upper_bound" then m.soc_upper_bound
  else if name = "soc" then m.soc
  else none

/-- `ComponentMetricsData`: timestamp + the metrics that were present. -/
structure Metrics where
  ts : Int
  kv : List (String × Rat)
deriving Repr, DecidableEq

/-- `LatestMetricsFetcher.fetch_next` on one message: the requested metrics, NaN values dropped. -/
def fetch (ids : List String) (m : Msg) : Metrics :=
  { ts := m.ts,
    kv := ids.filterMap fun mid =>
      match batteryDataMethods.lookup mid with
      | none => none
      | some a => (m.attr a).map fun v => (mid, v) }

/-- One battery as `calculate(metrics_data, working_batteries)` sees it. -/
structure Bat where
  id : Nat
  working : Bool
  /-- `metrics_data.get(id)` -/
  data : Option Metrics
deriving Repr, DecidableEq

/-- The values of the required metrics, in the order of the extracted step function's parameters;
`none` as soon as one is missing (`… is None → continue`). -/
def required (ids : List String) (m : Metrics) : Option (List Rat) :=
  let vals := ids.filterMap fun mid => m.kv.lookup mid
  if vals.length = ids.length then some vals else none

def Bat.values (ids : List String) (b : Bat) : Option (Int × List Rat) :=
  if b.working then
    match b.data with
    | none => none
    | some m => (required ids m).map fun v => (m.ts, v)
  else none

/-- `max(timestamp, metrics.timestamp)` with `none` = `_MIN_TIMESTAMP`. -/
def tsMax (cur : Option Int) (t : Int) : Option Int :=
  match cur with
  | none => some t
  | some c => some (if t > c then t else c)

/-- the two running sums of `SoCCalculator.calculate`: (used capacity ×100, usable capacity ×100) -/
abbrev SocAcc := Rat × Rat

def socIter (s : SocAcc × Option Int) (b : Bat) : SocAcc × Option Int :=
  match b.values socRequired with
  | some (t, [capacity, upper, lower, soc]) =>
    (socStep s.1.1 s.1.2 capacity upper lower soc, tsMax s.2 t)
  | _ => s

/-- `SoCCalculator.calculate`: `none` = `Sample(now, None)`, else (timestamp, percent). -/
def socCalc (bs : List Bat) : Option (Int × Rat) :=
  let r := bs.foldl socIter ((0, 0), none)
  r.2.map fun t => (t, socFinal r.1.1 r.1.2)

def capIter (s : Rat × Option Int) (b : Bat) : Rat × Option Int :=
  match b.values capRequired with
  | some (t, [capacity, upper, lower]) => (capStep s.1 capacity upper lower, tsMax s.2 t)
  | _ => s

/-- `CapacityCalculator.calculate`: `none` = `Sample(now, None)`, else (timestamp, watt-hours). -/
def capCalc (bs : List Bat) : Option (Int × Rat) :=
  let r := bs.foldl capIter (0, none)
  r.2.map fun t => (t, capFinal r.1)

/-! ## `SendOnUpdate`: the cache between the fetchers and the calculator -/

structure Pool where
  /-- `metric_calculator.batteries` -/
  batteries : List Nat
  /-- `_working_batteries` -/
  working : List Nat
  /-- `_cached_metrics` (latest entry per id first) -/
  cached : List (Nat × Metrics)
deriving Repr

inductive Ev where
  /-- a message of battery `id` went through `fetch_next` and was stored in `_cached_metrics` -/
  | data (id : Nat) (m : Msg)
  /-- `fetch_next` timed out: `ComponentMetricsData(id, now, {})` was stored -/
  | silent (id : Nat) (ts : Int)
  /-- `update_working_batteries(ids)` -/
  | working (ids : List Nat)
deriving Repr

def Pool.step (ids : List String) (p : Pool) : Ev → Pool
  | .data id m => { p with cached := (id, fetch ids m) :: p.cached.filter (·.1 ≠ id) }
  | .silent id ts => { p with cached := (id, { ts := ts, kv := [] }) :: p.cached.filter (·.1 ≠ id) }
  | .working new =>
    let newSet := p.batteries.filter fun b => new.contains b
    let stopped := p.working.filter fun b => !newSet.contains b
    { p with working := newSet, cached := p.cached.filter fun e => !stopped.contains e.1 }

/-- What `calculate(self._cached_metrics, self._working_batteries)` iterates over. -/
def Pool.view (p : Pool) : List Bat :=
  p.batteries.map fun id => { id := id, working := p.working.contains id, data := p.cached.lookup id }

/-! ## Structured batteries (domain of the C18 theorems): every raw input is the image of one of these -/

structure CBat where
  working : Bool
  /-- a message of the battery is in the cache -/
  present : Bool
  msg : Msg
deriving Repr, DecidableEq

def CBat.toBat (ids : List String) (b : CBat) : Bat :=
  { id := 0, working := b.working, data := if b.present then some (fetch ids b.msg) else none }

/-- (capacity, upper, lower, soc) of a battery that counts for the SoC: working, cached, no metric missing. -/
def CBat.socArgs (b : CBat) : Option (Rat × Rat × Rat × Rat) :=
  if b.working ∧ b.present then
    match b.msg.capacity, b.msg.soc_upper_bound, b.msg.soc_lower_bound, b.msg.soc with
    | some c, some u, some l, some s => some (c, u, l, s)
    | _, _, _, _ => none
  else none

def CBat.capArgs (b : CBat) : Option (Rat × Rat × Rat) :=
  if b.working ∧ b.present then
    match b.msg.capacity, b.msg.soc_upper_bound, b.msg.soc_lower_bound with
    | some c, some u, some l => some (c, u, l)
    | _, _, _ => none
  else none

/-- Pool SoC / capacity values (timestamps dropped) of a list of structured batteries, through the real path. -/
def socOf (bs : List CBat) : Option Rat := (socCalc (bs.map (CBat.toBat socRequired))).map (·.2)
def capOf (bs : List CBat) : Option Rat := (capCalc (bs.map (CBat.toBat capRequired))).map (·.2)

/-- All capacities multiplied by a common factor. -/
def CBat.scale (k : Rat) (b : CBat) : CBat :=
  { b with msg := { b.msg with capacity := b.msg.capacity.map (k * ·) } }

/-- usable capacity ×100 of a qualifying battery: `capacity * (upper - lower)` -/
def weight (a : Rat × Rat × Rat × Rat) : Rat := a.1 * (a.2.1 - a.2.2.1)

/-- The documented per-battery SoC: rescaled to the SoC limits, clamped to 0–100 (limits (nearly) equal: 0 below
the limit, else 100). -/
def scaledSoc (a : Rat × Rat × Rat × Rat) : Rat :=
  pyMin (pyMax (if pyIsclose a.2.1 a.2.2.1 then (if a.2.2.2 < a.2.2.1 then 0 else 100)
                else (a.2.2.2 - a.2.2.1) / (a.2.1 - a.2.2.1) * 100) 0) 100

/-- "close to 100 is 100" -/
def snap (x : Rat) : Rat := if pyIsclose x 100 then 100 else x

/-- Σ usable capacity ×100 over the qualifying batteries. -/
def totalX100 (bs : List CBat) : Rat := pySum ((bs.filterMap CBat.socArgs).map weight)

/-- Σ usable capacity ×100 × scaled SoC. -/
def usedX100 (bs : List CBat) : Rat := pySum ((bs.filterMap CBat.socArgs).map fun a => weight a * scaledSoc a)

/-- Two lists related element by element (same length, same positions). -/
inductive Pointwise {α β : Type} (R : α → β → Prop) : List α → List β → Prop
  | nil : Pointwise R [] []
  | cons {a : α} {b : β} {as : List α} {bs : List β} : R a b → Pointwise R as bs → Pointwise R (a :: as) (b :: bs)

/-- The same battery (working flag, cache presence, capacity, limits) with an SoC that is not lower. -/
def SocRaised (b b' : CBat) : Prop :=
  b'.working = b.working ∧ b'.present = b.present ∧ b'.msg.capacity = b.msg.capacity ∧
  b'.msg.soc_lower_bound = b.msg.soc_lower_bound ∧ b'.msg.soc_upper_bound = b.msg.soc_upper_bound ∧
  ((b.msg.soc = none ∧ b'.msg.soc = none) ∨ ∃ s s', b.msg.soc = some s ∧ b'.msg.soc = some s' ∧ s ≤ s')

end PoolSoc
