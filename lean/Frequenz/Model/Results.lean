/-
Model of how the component managers turn the outcomes of their `set_power` calls into a `Result`
(C15):

* `BatteryManager._distribute_power` / `_set_distributed_power` / `_parse_result`
  (`_component_managers/_battery_manager.py`).  The output of the distribution algorithm — the
  set-point of every inverter (`distribution.distribution`, a dict, in iteration order) and
  `distribution.remaining_power` — is an INPUT here (the algorithm itself is C01/C02).
* `PVManager.distribute_power` (sort + water-filling loop) and `_set_api_power`
  (`_component_managers/_pv_inverter_manager/_pv_inverter_manager.py`).

Which outcomes count as failures, the expressions stored in the result fields, the skip test / share /
allocation expressions of the water-filling loop, the sort direction and the zero tolerance are NOT
written here: they are `Extracted.Distributor.*`, regenerated from the Python source on every run.

Powers are exact rationals.  Component sets are lists read as sets (membership is what matters).
`Success` has no `failed_power` / `failed_components`; the model gives them as `0` / `[]`.
-/
import Frequenz.Extracted.Distributor

namespace Results

open Extracted.Distributor

/-- One scripted `set_power` call: what the API answers and after how many µs. -/
structure Call where
  kind : Outcome
  delay : Int
deriving Repr, DecidableEq

/-- What `asyncio.wait(tasks, timeout)` followed by cancelling the pending tasks makes of a call:
an answer that does not come before the timeout is a `CancelledError`. -/
def effective (timeoutUs : Int) (c : Call) : Outcome :=
  if c.delay < timeoutUs then c.kind else Outcome.timeout

structure Result where
  partialFailure : Bool
  succeededPower : Rat
  succeeded : List Nat
  failedPower : Rat
  failed : List Nat
  excess : Rat
deriving Repr, DecidableEq

/-! ## Batteries -/

/-- One entry of `distribution.distribution` together with the (effective) outcome of its API call. -/
structure SetPoint where
  inv : Nat
  power : Rat
  outcome : Outcome
deriving Repr, DecidableEq

def SetPoint.isFailed (sp : SetPoint) : Bool := decide (batHandling sp.outcome = Handling.failed)

/-- `_parse_result`: the loop over `tasks.items()`, as a fold. -/
def parseStep (invBats : Nat → List Nat) (acc : Rat × List Nat) (sp : SetPoint) : Rat × List Nat :=
  if sp.isFailed then (acc.1 + sp.power, acc.2 ++ invBats sp.inv) else acc

def parseResult (invBats : Nat → List Nat) (sps : List SetPoint) : Rat × List Nat :=
  sps.foldl (parseStep invBats) (0, [])

/-- Keys of `battery_distribution`: the batteries behind the addressed inverters. -/
def addressed (invBats : Nat → List Nat) (sps : List SetPoint) : List Nat :=
  sps.flatMap (fun sp => invBats sp.inv)

/-- `_distribute_power` after the algorithm has run.  `none` = an exception escapes (no result is sent). -/
def batResult (P remaining : Rat) (invBats : Nat → List Nat) (sps : List SetPoint) : Option Result :=
  if sps.any (fun sp => decide (batHandling sp.outcome = Handling.propagates)) then none
  else
    let pr := parseResult invBats sps
    if pr.2 ≠ [] then
      some { partialFailure := true
             succeededPower := batPfSucceeded P remaining pr.1
             succeeded := (addressed invBats sps).filter (fun b => decide (b ∉ pr.2))
             failedPower := batPfFailed P remaining pr.1
             failed := pr.2
             excess := batPfExcess P remaining pr.1 }
    else
      some { partialFailure := false
             succeededPower := batOkSucceeded P remaining pr.1
             succeeded := addressed invBats sps
             failedPower := 0
             failed := []
             excess := batOkExcess P remaining pr.1 }

/-! ## PV inverters -/

structure PvInv where
  id : Nat
  bound : Rat    -- active_power_inclusion_lower_bound
deriving Repr, DecidableEq

/-- Stable insertion sort (structural recursion, so that concrete cases evaluate in the kernel):
`x` goes in front of the first element it may precede, hence stays in front of later equal elements. -/
def insertSorted (le : PvInv → PvInv → Bool) (x : PvInv) : List PvInv → List PvInv
  | [] => [x]
  | y :: ys => if le x y then x :: y :: ys else y :: insertSorted le x ys

def stableSort (le : PvInv → PvInv → Bool) : List PvInv → List PvInv
  | [] => []
  | x :: xs => insertSorted le x (stableSort le xs)

/-- `working_components.sort(key=lower bound, reverse=…)`; Python's sort is stable, also with `reverse=True`
(elements with equal keys keep their original order). -/
def sortInvs (xs : List PvInv) : List PvInv :=
  if pvSortDescending then stableSort (fun a b => decide (a.bound ≥ b.bound)) xs
  else stableSort (fun a b => decide (a.bound ≤ b.bound)) xs

/-- The `for idx, inv_id in enumerate(working_components)` loop: allocations (in dict order) and the
remaining power. -/
def allocLoop (num : Nat) : Nat → Rat → List PvInv → List (Nat × Rat) × Rat
  | _, rem, [] => ([], rem)
  | idx, rem, x :: xs =>
    if pvSkip rem then
      let r := allocLoop num (idx + 1) rem xs
      ((x.id, 0) :: r.1, r.2)
    else
      let a := pvAlloc rem x.bound (pvShare rem num idx)
      let r := allocLoop num (idx + 1) (rem - a) xs
      ((x.id, a) :: r.1, r.2)

def allocate (P : Rat) (invs : List PvInv) : List (Nat × Rat) × Rat :=
  allocLoop invs.length 0 P (sortInvs invs)

def pvFailed (oc : Nat → Outcome) (ia : Nat × Rat) : Bool := decide (pvHandling (oc ia.1) = Handling.failed)
def pvSucceeded (oc : Nat → Outcome) (ia : Nat × Rat) : Bool := decide (pvHandling (oc ia.1) = Handling.succeeded)

/-- `_set_api_power`: `allocs` are the calls made, `oc` the effective outcome of the call of each inverter. -/
def pvResult (P remaining : Rat) (allocs : List (Nat × Rat)) (oc : Nat → Outcome) : Option Result :=
  if allocs.any (fun ia => decide (pvHandling (oc ia.1) = Handling.propagates)) then none
  else
    let failedPower := ((allocs.filter (pvFailed oc)).map (·.2)).sum
    let failed := (allocs.filter (pvFailed oc)).map (·.1)
    let succeeded := (allocs.filter (pvSucceeded oc)).map (·.1)
    if failed ≠ [] then
      some { partialFailure := true
             succeededPower := pvPfSucceeded P remaining failedPower pvTargetInit
             succeeded := succeeded
             failedPower := pvPfFailed P remaining failedPower pvTargetInit
             failed := failed
             excess := pvPfExcess P remaining failedPower pvTargetInit }
    else
      some { partialFailure := false
             succeededPower := pvOkSucceeded P remaining failedPower pvTargetInit
             succeeded := succeeded
             failedPower := 0
             failed := []
             excess := pvOkExcess P remaining failedPower pvTargetInit }

/-- `PVManager.distribute_power` for a non-empty set of working inverters (with an empty set the method
returns without sending any result: `none`). Returns the calls made and the result. -/
def pvDistribute (P : Rat) (invs : List PvInv) (oc : Nat → Outcome) : Option (List (Nat × Rat) × Option Result) :=
  if invs = [] then none
  else
    let a := allocate P invs
    some (a.1, pvResult P a.2 a.1 oc)

/-! ## Requests in flight at the same time

The actor runs `distribute_power` of ONE manager object concurrently for requests with different component
sets: while a request awaits its `set_power` calls, the calls of other requests start, run and finish.
Everything a call computes from its own arguments and locals is its own; the only thing the calls share is
the manager's instance attributes.  `Extracted.Distributor.pvRequestStateWrites` / `batRequestStateWrites`
list the attributes that the per-request code writes (from the source, on every run).  Of the instance
attributes only `_target_power` can occur in an extracted result expression (the extractor refuses any other
`self.…` there), so the shared state a PV result can see is one number. -/

/-- The instance state a result expression can read. -/
structure Shared where
  target : Rat    -- `self._target_power`
deriving Repr, DecidableEq

/-- The shared state seen by a request when it builds its result, after the calls of `others` (the powers
of the other requests, in the order in which their calls ran since this request started): an attribute
that the per-request code writes holds what the last of those calls stored (its own request's power — the
only request-derived value there is), an attribute that it does not write still holds what `__init__`
stored. -/
def sharedAfter (writes : List String) (own : Rat) (others : List Rat) : Shared :=
  { target := if writes.contains "_target_power" then (others.getLast?).getD own else pvTargetInit }

/-- `_set_api_power` reading the instance state `sh` (same text as `pvResult`, which is the case
`sh.target = pvTargetInit`). -/
def pvResultIn (sh : Shared) (P remaining : Rat) (allocs : List (Nat × Rat)) (oc : Nat → Outcome) : Option Result :=
  if allocs.any (fun ia => decide (pvHandling (oc ia.1) = Handling.propagates)) then none
  else
    let failedPower := ((allocs.filter (pvFailed oc)).map (·.2)).sum
    let failed := (allocs.filter (pvFailed oc)).map (·.1)
    let succeeded := (allocs.filter (pvSucceeded oc)).map (·.1)
    if failed ≠ [] then
      some { partialFailure := true
             succeededPower := pvPfSucceeded P remaining failedPower sh.target
             succeeded := succeeded
             failedPower := pvPfFailed P remaining failedPower sh.target
             failed := failed
             excess := pvPfExcess P remaining failedPower sh.target }
    else
      some { partialFailure := false
             succeededPower := pvOkSucceeded P remaining failedPower sh.target
             succeeded := succeeded
             failedPower := 0
             failed := []
             excess := pvOkExcess P remaining failedPower sh.target }

/-- `PVManager.distribute_power` for one request while the requests `others` are in flight. -/
def pvDistributeAmong (others : List Rat) (P : Rat) (invs : List PvInv) (oc : Nat → Outcome) :
    Option (List (Nat × Rat) × Option Result) :=
  if invs = [] then none
  else
    let a := allocate P invs
    some (a.1, pvResultIn (sharedAfter pvRequestStateWrites P others) P a.2 a.1 oc)

end Results
