/-
Model of the request scheduling of `PowerDistributingActor`
(`src/frequenz/sdk/microgrid/_power_distributing/power_distributing.py`: `_run`,
`_handle_task_completion`, `_process_request`).

The three methods have no `await` inside, so each of them is one atomic event of the model:

* `arrive g r`    — `_run` takes request `r` for the component group `g` out of its receiver;
* `complete g o`  — the done-callback of the task that processes a request of group `g` runs
                    (`o` = the task returned normally / raised).

The only output is `start g r` = `_process_request` creates the task that runs
`ComponentManager.distribute_power(r)`.  A group is `frozenset(request.component_ids)`; the model only
needs equality of groups, so groups are numbers.

Requests are first-class: a `Req` is the *identity* of the `Request` object the environment sent (`id`,
one number per object) together with its fields (`power`, `adjust_power`; its component set is the group of
the event that carries it).  Nothing in the model looks inside a request, and two requests are the same
only if identity AND fields agree — so every theorem that says "the request started is the most recent
one" says it about the object and all of its fields, also when several waiting requests ask for the same
power or are equal field by field.

WHAT the methods do in each situation is not written here: it is the table `Extracted.Distributor.policy`,
regenerated from the Python source on every run.  `step` interprets that table.

The second half of the file defines the *observable* vocabulary used by the C14 theorems.  Those
definitions only look at the events and at the emitted outputs (the trace), never at the model state.
-/
import Frequenz.Extracted.Distributor

namespace Distributor

open Extracted.Distributor (Policy ArriveAct CompleteAct policy)

abbrev Group := Nat

/-- A `Request` object: its identity and its fields (`power` in watts; `adjust` = `adjust_power`). -/
structure Req where
  id : Nat
  power : Int
  adjust : Bool
deriving DecidableEq, Repr

inductive Outcome | ok | exc
deriving DecidableEq, Repr

inductive Event
  | arrive (g : Group) (r : Req)
  | complete (g : Group) (o : Outcome)
deriving DecidableEq, Repr

inductive Out
  | start (g : Group) (r : Req)
deriving DecidableEq, Repr

def Event.group : Event → Group
  | .arrive g _ => g
  | .complete g _ => g

/-- `_processing_tasks` (which request the registered task of a group processes) and `_pending_requests`. -/
structure State where
  processing : Group → Option Req
  pending : Group → Option Req

def init : State := { processing := fun _ => none, pending := fun _ => none }

/-- `d[g] = v` / `del d[g]` on a dict seen as a function. -/
def upd (f : Group → Option Req) (g : Group) (v : Option Req) : Group → Option Req :=
  fun x => if x = g then v else f x

/-- `_process_request(g, r)`. -/
def startReq (p : Policy) (s : State) (g : Group) (r : Req) : State × List Out :=
  ({ s with processing := if p.startRegisters then upd s.processing g (some r) else s.processing },
   [Out.start g r])

def clearProcessing (s : State) (g : Group) : State × List Out :=
  ({ s with processing := upd s.processing g none }, [])

/-- One atomic step of the actor, as directed by the extracted decision table. -/
def stepP (p : Policy) (s : State) : Event → State × List Out
  | .arrive g r =>
    match (if (s.processing g).isSome then p.arriveBusy else p.arriveIdle) with
    | .storePending => ({ s with pending := upd s.pending g (some r) }, [])
    | .start => startReq p s g r
    | .drop => (s, [])
  | .complete g o =>
    if o = Outcome.exc ∧ p.excPropagates = true then (s, [])
    else
      match s.pending g with
      | some r =>
        match p.completePending with
        | .startPopped => startReq p { s with pending := upd s.pending g none } g r
        | .startKept => startReq p s g r
        | .clear => clearProcessing s g
        | .nothing => (s, [])
      | none =>
        if (s.processing g).isSome then
          match p.completeNoPending with
          | .clear => clearProcessing s g
          | _ => (s, [])
        else (s, [])

/-- The actor of the current source tree. -/
def step : State → Event → State × List Out := stepP policy

/-- A trace: every event together with the outputs it caused, in order. -/
abbrev Trace := List (Event × List Out)

def stepAcc (acc : State × Trace) (e : Event) : State × Trace :=
  let r := step acc.1 e
  (r.1, acc.2 ++ [(e, r.2)])

def runFrom (s : State) (es : List Event) : State × Trace := es.foldl stepAcc (s, [])

def run (es : List Event) : State × Trace := runFrom init es

def final (es : List Event) : State := (run es).1

def trace (es : List Event) : Trace := (run es).2

/-! ## Observable vocabulary (functions of the trace only) -/

def outReq (g : Group) : Out → Option Req
  | .start g' r => if g' = g then some r else none

/-- Requests of group `g` whose processing was started, in order. -/
def startsOf (g : Group) (t : Trace) : List Req :=
  t.flatMap (fun x => x.2.filterMap (outReq g))

def arrivalReq (g : Group) : Event → Option Req
  | .arrive g' r => if g' = g then some r else none
  | .complete _ _ => none

/-- Requests that arrived for group `g`, in order. -/
def arrivalsOf (g : Group) (t : Trace) : List Req :=
  t.filterMap (fun x => arrivalReq g x.1)

def isCompleteOf (g : Group) : Event → Bool
  | .complete g' _ => g' = g
  | .arrive _ _ => false

/-- Number of completions of tasks of group `g`. -/
def completesOf (g : Group) (t : Trace) : Nat :=
  (t.filter (fun x => isCompleteOf g x.1)).length

/-- Number of tasks of group `g` that were started and have not completed yet. -/
def inFlight (g : Group) (t : Trace) : Int :=
  ((startsOf g t).length : Int) - (completesOf g t : Int)

/-- Arrivals of group `g` since the last time a request of `g` was started
(the requests that "arrived while one is in flight"). -/
def waitingStep (g : Group) (w : List Req) (x : Event × List Out) : List Req :=
  if (x.2.filterMap (outReq g)) ≠ [] then []
  else match arrivalReq g x.1 with
    | some r => w ++ [r]
    | none => w

def waitingOf (g : Group) (t : Trace) : List Req := t.foldl (waitingStep g) []

/-- Histories the environment can produce: a completion is only ever delivered for a group that has a
started and not yet completed task.  (Every prefix of an admissible history is admissible.) -/
inductive Admissible : List Event → Prop
  | nil : Admissible []
  | arrive {es : List Event} (g : Group) (r : Req) :
      Admissible es → Admissible (es ++ [Event.arrive g r])
  | complete {es : List Event} (g : Group) (o : Outcome) :
      Admissible es → 1 ≤ inFlight g (trace es) → Admissible (es ++ [Event.complete g o])

end Distributor
