/-
Model of `PowerManagingActor` (`_power_managing_actor.py`) for ONE component set: two Matryoshka
managers (regular actors / operating-point actors), the latest system bounds, and the event handlers
of `_run` and `_bounds_tracker`.  Each handler is atomic (the real handlers only await uncontended
channel sends).  The model follows the code AFTER `fix: … sum of the current targets of both groups`
(see known_findings.json): a `None` returned by one group means "unchanged", so the request is the
sum of the stored targets; and after `fix: … operating point power first`: the operating-point group is
always computed first against the system bounds, the regular group against the bounds shifted by it.
-/
import Frequenz.Model.Matryoshka

namespace PowerManager

open Matryoshka

structure State where
  reg : Mgr
  op : Mgr
  sb : Option SystemBounds      -- `none`: no bounds tracker for the component ids yet
  lastPartial : Bool
deriving Repr, DecidableEq

def State.init : State := { reg := Mgr.init, op := Mgr.init, sb := none, lastPartial := false }

/-- `_calculate_shifted_bounds(bounds, op_power)`. -/
def shifted (sb : SystemBounds) (power : Option Rat) : SystemBounds :=
  match power with
  | none => sb
  | some t =>
    { incl := sb.incl.map (fun b =>
        { lower := Extracted.Proposal.shiftedLower b.lower b.upper t,   -- regenerated from `_power_managing_actor.py`
          upper := Extracted.Proposal.shiftedUpper b.lower b.upper t }),
      excl := sb.excl }

/-- The sum sent to the power distributor, from the two stored targets. -/
def combine (opT regT : Option Rat) : Option Rat :=
  match opT, regT with
  | some a, some b => some (a + b)
  | some a, none => some a
  | none, r => r

/-- The two-stage computation of `_calculate_target_power`: the operating-point group against the
system bounds, then the regular group against the bounds shifted by the operating-point group's
stored target (the same bounds the regular actors are shown in their reports).  The flag says
whether either group returned a (changed) target. -/
def twoStage (first second : Mgr) (p1 p2 : Option Proposal) (sb : SystemBounds) (must : Bool) :
    Mgr × Mgr × Bool :=
  ((first.calc p1 sb must).1,
   (second.calc p2 (shifted sb (first.calc p1 sb must).1.last) must).1,
   (first.calc p1 sb must).2.isSome ||
     (second.calc p2 (shifted sb (first.calc p1 sb must).1.last) must).2.isSome)

/-- The proposal handed to the operating-point group / to the regular group. -/
def opPart : Option (Proposal × Bool) → Option Proposal
  | some (q, true) => some q
  | _ => none

def regPart : Option (Proposal × Bool) → Option Proposal
  | some (q, false) => some q
  | _ => none

/-- `_calculate_target_power(component_ids, proposal, must_send)`; the `Bool` = `set_operating_point`. -/
def calcPower (st : State) (sb : SystemBounds) (p : Option (Proposal × Bool)) (must : Bool) :
    State × Option Rat :=
  ({ st with op := (twoStage st.op st.reg (opPart p) (regPart p) sb must).1,
             reg := (twoStage st.op st.reg (opPart p) (regPart p) sb must).2.1 },
   if (twoStage st.op st.reg (opPart p) (regPart p) sb must).2.2 then
     combine (twoStage st.op st.reg (opPart p) (regPart p) sb must).1.last
       (twoStage st.op st.reg (opPart p) (regPart p) sb must).2.1.last
   else none)

inductive ResultKind where
  | success | partialFailure | error
deriving Repr, DecidableEq

inductive Event where
  | proposal (p : Proposal) (isOp : Bool)
  | bounds (sb : SystemBounds)
  | result (k : ResultKind)
  | drop (now : Rat)
deriving Repr

def maxAge : Rat := Extracted.Proposal.maxProposalAgeSec   -- regenerated from `_power_managing_actor.py`

def noBounds : SystemBounds := { incl := none, excl := none }

/-- One event handler; the output is the request sent to the power distributor (if any). -/
def step (st : State) : Event → State × Option Rat
  | .proposal p isOp =>
    -- `_add_system_bounds_tracker` initialises the cache with no bounds at all
    let sb := st.sb.getD noBounds
    let st := { st with sb := some sb }
    calcPower st sb (some (p, isOp)) true
  | .bounds sb =>
    let st := { st with sb := some sb }
    calcPower st sb none false
  | .result k =>
    match k with
    | .partialFailure =>
      if st.lastPartial then (st, none)
      else
        let st := { st with lastPartial := true }
        match st.sb with
        | some sb => calcPower st sb none true
        | none => (st, none)
    | .success => ({ st with lastPartial := false }, none)
    | .error => (st, none)
  | .drop now => ({ st with reg := st.reg.drop maxAge now, op := st.op.drop maxAge now }, none)

/-- Run a history; collect the outputs. -/
def run (st : State) : List Event → State × List (Option Rat)
  | [] => (st, [])
  | e :: es =>
    let r := step st e
    let rest := run r.1 es
    (rest.1, r.2 :: rest.2)

/-- Reports sent after a proposal / bounds / result event: for the operating-point group against the
raw bounds, for the regular group against the bounds shifted by the operating-point target. -/
def opReport (st : State) (sb : SystemBounds) (prio : Int) : Option Rat × Option Bounds :=
  (st.op.last, reportBounds sb (st.op.bucket.getD []) prio)

def regReport (st : State) (sb : SystemBounds) (prio : Int) : Option Rat × Option Bounds :=
  (st.reg.last, reportBounds (shifted sb st.op.last) (st.reg.bucket.getD []) prio)

end PowerManager
