/-
Model of the component-graph classification (`microgrid/component_graph.py`: `is_*`, `dfs`) and of the
power-formula generators (`timeseries/formula_engine/_formula_generators/*.py`) — property C12.

Graphs are TREES: a grid connection point with successors; meters nested to any depth; battery
inverters with their batteries (a list of battery ids); PV inverters, EV chargers and CHPs as leaves.
Every meter / inverter / device has exactly one predecessor, so the `visited` test of `dfs` never fires
(`dfsV` models it and it is proved dead code); a BATTERY may hang on several inverters (its id is then
listed by several `batInv` nodes — chained DC wiring); a meter or device with two predecessors is outside
the model.  `Live` (end of file) models one long-lived graph object under `refresh_from`.

Every table the predicates / generators depend on is imported from `Frequenz.Extracted.Graph`
(regenerated from the Python source on every run): the (category, inverter type) tests behind
`is_pv_inverter` …, the conjuncts of `is_*_meter`, the parts of `is_*_chain`, `is_grid_meter`, the
category sets and chain lists used by the grid / consumer / producer / PV generators, the
`_is_primary_fallback_pair` table, the `_get_meter_fallback_components` list, the `nones_are_zeros`
rules and `NON_EXISTING_COMPONENT_ID`.

A generated formula is a list of signed component ids (`Term`), each with its `nones_are_zeros`
flag and the components of its fallback formula; Python `set` iteration order is not modelled
(the driver sorts).  Semantics: an environment `env : Nat → Rat` gives the active power read at
every component id; `load : Nat → Rat` is the unmetered load at a meter; `lawL` says that every
meter reads the sum of its successors plus its unmetered load.
-/
import Frequenz.Model.Prelude
import Frequenz.Extracted.Graph

namespace Graph
open Extracted.Graph

/-! ## Trees -/

inductive Node where
  | meter (id : Nat) (children : List Node)
  | batInv (id : Nat) (bats : List Nat)
  | pvInv (id : Nat)
  | ev (id : Nat)
  | chp (id : Nat)
deriving Repr, Inhabited

/-- The grid connection point and its successors. -/
structure Grid where
  id : Nat
  succ : List Node
deriving Repr

def Node.id : Node → Nat
  | .meter id _ => id
  | .batInv id _ => id
  | .pvInv id => id
  | .ev id => id
  | .chp id => id

def Node.cat : Node → Cat
  | .meter _ _ => .meter
  | .batInv _ _ => .inverter
  | .pvInv _ => .inverter
  | .ev _ => .evCharger
  | .chp _ => .chp

def Node.ityp : Node → InvType
  | .batInv _ _ => .battery
  | .pvInv _ => .solar
  | _ => .none

/-- Successors that are components of the model's `Node` type (batteries are kept as ids). -/
def Node.children : Node → List Node
  | .meter _ cs => cs
  | _ => []

def Node.bats : Node → List Nat
  | .batInv _ bs => bs
  | _ => []

/-- Where a component sits: the category of its (only) predecessor and how many successors that
predecessor has.  This is all `is_grid_meter` looks at. -/
structure Pos where
  parentCat : Cat
  parentSucc : Nat
deriving Repr, DecidableEq

def topPos (g : Grid) : Pos := ⟨.grid, g.succ.length⟩
def belowMeter (cs : List Node) : Pos := ⟨.meter, cs.length⟩

/-! ## Classification predicates (`component_graph.py:584-796`) -/

/-- `is_pv_inverter`, `is_battery_inverter`, `is_ev_charger`, `is_chp`. -/
def leafTest (l : Leaf) (n : Node) : Bool := l.test n.cat n.ityp

/-- `is_grid_meter`: a meter whose only predecessor is the grid, the grid having exactly one successor.
(In a tree every component has exactly one predecessor.) -/
def isGridMeter (pos : Pos) (n : Node) : Bool :=
  n.cat == gridMeterSpec.cat && gridMeterSpec.nPred == 1 && pos.parentCat == gridMeterSpec.predCat
    && pos.parentSucc == gridMeterSpec.nGridSucc

/-- `is_pv_meter`, `is_battery_meter`, `is_ev_charger_meter`, `is_chp_meter`. -/
def meterPred (m : MeterPred) (pos : Pos) (n : Node) : Bool :=
  n.cat == m.spec.cat
    && (!m.spec.notGridMeter || !isGridMeter pos n)
    && (!m.spec.nonEmpty || !n.children.isEmpty)
    && n.children.all (leafTest m.spec.leaf)

/-- `is_*_chain`. -/
def chain (c : Chain) (pos : Pos) (n : Node) : Bool :=
  leafTest c.parts.1 n || meterPred c.parts.2 pos n

def anyChain (cs : List Chain) (pos : Pos) (n : Node) : Bool := cs.any (fun c => chain c pos n)

/-! ## `dfs` (`component_graph.py:798-832`): stop at the first match -/

/-- A component returned by `dfs`, with its position and predecessor (`none` = the grid). -/
structure Found where
  node : Node
  pos : Pos
  parent : Option (Node × Pos)
deriving Repr

mutual
def dfs (cond : Pos → Node → Bool) (pos : Pos) (parent : Option (Node × Pos)) : Node → List Found
  | .meter id cs =>
    if cond pos (.meter id cs) then [⟨.meter id cs, pos, parent⟩]
    else dfsL cond (belowMeter cs) (some (.meter id cs, pos)) cs
  -- the successors of a battery inverter are batteries; no condition used by the generators accepts
  -- the BATTERY category (theorem `C12_root_and_batteries_never_match`)
  | .batInv id bs => if cond pos (.batInv id bs) then [⟨.batInv id bs, pos, parent⟩] else []
  | .pvInv id => if cond pos (.pvInv id) then [⟨.pvInv id, pos, parent⟩] else []
  | .ev id => if cond pos (.ev id) then [⟨.ev id, pos, parent⟩] else []
  | .chp id => if cond pos (.chp id) then [⟨.chp id, pos, parent⟩] else []
def dfsL (cond : Pos → Node → Bool) (pos : Pos) (parent : Option (Node × Pos)) : List Node → List Found
  | [] => []
  | n :: ns => dfs cond pos parent n ++ dfsL cond pos parent ns
end

/-! ### `dfs` with the `visited` set, literally

`visited` is a list used as a set of component ids.  On a tree whose ids are pairwise distinct the
`if current_node in visited` test never fires: theorem `C12_visited_set_is_dead_code` shows that the
components returned are exactly those of `dfs` above, which is what the generators below use. -/

mutual
def Node.allIds : Node → List Nat
  | .meter id cs => id :: allIdsL cs
  | .batInv id bs => id :: bs
  | .pvInv id => [id]
  | .ev id => [id]
  | .chp id => [id]
def allIdsL : List Node → List Nat
  | [] => []
  | n :: ns => n.allIds ++ allIdsL ns
end

mutual
def dfsV (cond : Pos → Node → Bool) (pos : Pos) (parent : Option (Node × Pos)) (vis : List Nat) :
    Node → List Nat × List Found
  | .meter id cs =>
    if vis.contains id then (vis, [])
    else if cond pos (.meter id cs) then (id :: vis, [⟨.meter id cs, pos, parent⟩])
    else dfsVL cond (belowMeter cs) (some (.meter id cs, pos)) (id :: vis) cs
  | .batInv id bs =>
    if vis.contains id then (vis, [])
    else if cond pos (.batInv id bs) then (id :: vis, [⟨.batInv id bs, pos, parent⟩])
    else (bs ++ id :: vis, [])      -- its batteries are visited and never match
  | .pvInv id =>
    if vis.contains id then (vis, [])
    else (id :: vis, if cond pos (.pvInv id) then [⟨.pvInv id, pos, parent⟩] else [])
  | .ev id =>
    if vis.contains id then (vis, [])
    else (id :: vis, if cond pos (.ev id) then [⟨.ev id, pos, parent⟩] else [])
  | .chp id =>
    if vis.contains id then (vis, [])
    else (id :: vis, if cond pos (.chp id) then [⟨.chp id, pos, parent⟩] else [])
def dfsVL (cond : Pos → Node → Bool) (pos : Pos) (parent : Option (Node × Pos)) (vis : List Nat) :
    List Node → List Nat × List Found
  | [] => (vis, [])
  | n :: ns =>
    ((dfsVL cond pos parent (dfsV cond pos parent vis n).1 ns).1,
      (dfsV cond pos parent vis n).2 ++ (dfsVL cond pos parent (dfsV cond pos parent vis n).1 ns).2)
end

/-- `dfs(grid, set(), cond)`: the grid itself never matches (same theorem), so the search is the
union over its successors. -/
def dfsFromGrid (cond : Pos → Node → Bool) (g : Grid) : List Found := dfsL cond (topPos g) none g.succ

/-! ## Formulas -/

structure Term where
  neg : Bool
  id : Nat
  naz : Bool
  fb : List (Nat × Bool)
deriving Repr, DecidableEq

inductive GenErr where
  | componentNotFound | formulaGenerationError
deriving Repr, DecidableEq

abbrev Formula := Except GenErr (List Term)

def nazEval : Naz → Cat → Bool
  | .const b, _ => b
  | .notCat c, k => k != c

/-- `_get_meter_fallback_components`: the successors, when they are all of one device type. -/
def meterFallback (n : Node) : List Node :=
  if meterFallbackLeaves.any (fun l => n.children.all (leafTest l)) then n.children else []

/-- `_is_primary_fallback_pair(primary, fallback)`. -/
def isPrimaryFallbackPair (ppos : Pos) (p c : Node) : Bool :=
  primaryFallbackPairs.any (fun lm => leafTest lm.1 c && meterPred lm.2 ppos p)

/-- `_get_metric_fallback_components` for one component found by `dfs`: the primary component and its
fallback components.  (Merging of equal primaries by the dict cannot happen for `dfs` results; the
pairing branch is never taken for them — lemma `dfs_sum` — so `pairRequiresAllRequested` plays no role here.) -/
def primaryOf (f : Found) : Node × List Node :=
  if f.node.cat == fallbackPrimaryCat then (f.node, meterFallback f.node)
  else match f.parent with
    | some (p, ppos) => if isPrimaryFallbackPair ppos p f.node then (p, [f.node]) else (f.node, [])
    | none => (f.node, [])   -- predecessor is the grid, which is no `is_*_meter`

def mkTerm (neg : Bool) (nz fnz : Naz) (pf : Node × List Node) : Term :=
  ⟨neg, pf.1.id, nazEval nz pf.1.cat, pf.2.map (fun c => (c.id, nazEval fnz c.cat))⟩

/-- The term pushed when a formula has no components. -/
def nonExisting (nz : Naz) : Term := ⟨false, nonExistingComponentId, nazEval nz .none, []⟩

/-! ### grid power (`_grid_power_formula_base.py`) -/

def gridFormula (g : Grid) : Formula :=
  if g.succ.isEmpty then .error .componentNotFound
  else
    let comps := g.succ.filter (fun n => gridSuccessorCats.contains n.cat)
    if comps.isEmpty then .error .componentNotFound
    else .ok (comps.map (fun n => mkTerm false gridNaz simpleNaz (primaryOf ⟨n, topPos g, none⟩)))

/-! ### consumer power (`_consumer_power_formula.py`) -/

def areGridMeters (g : Grid) : Bool :=
  g.succ.all (fun s => s.cat == areGridMetersCat && !anyChain areGridMetersNotChains (topPos g) s)

def nonConsumerCond : Pos → Node → Bool := anyChain nonConsumerChains

def consumerCond (pos : Pos) (n : Node) : Bool :=
  consumerCats.contains n.cat && !anyChain consumerNotChains pos n

def consumerFormula (g : Grid) : Formula :=
  if g.succ.isEmpty then .error .componentNotFound
  else if areGridMeters g then
    .ok (g.succ.map (fun m => (⟨false, m.id, nazEval consumerGridMeterNaz m.cat, []⟩ : Term))
      ++ (dfsFromGrid nonConsumerCond g).map (fun f => mkTerm true consumerWithNaz simpleNaz (primaryOf f)))
  else
    let cons := dfsFromGrid consumerCond g
    if cons.isEmpty then .ok [nonExisting consumerNoneNaz]
    else .ok (cons.map (fun f => mkTerm false consumerWithoutNaz simpleNaz (primaryOf f)))

/-! ### producer power (`_producer_power_formula.py`) -/

def producerCond : Pos → Node → Bool := anyChain producerChains

def producerFormula (g : Grid) : Formula :=
  let ps := dfsFromGrid producerCond g
  if ps.isEmpty then .ok [nonExisting producerNoneNaz]
  else .ok (ps.map (fun f => mkTerm false producerNaz simpleNaz (primaryOf f)))

/-! ### pools: PV (`_pv_power_formula.py`) and battery (`_battery_power_formula.py`)

With component ids the generators start from the selected inverters and pair each with its
predecessor (`_get_metric_fallback_components`); inverters below the same dedicated meter share one
primary.  On a tree this is a walk: at every meter, the selected successors that form a
primary/fallback pair with it give ONE term (the meter, fallback = those successors), the other
selected successors one term each. -/

mutual
/-- `req` = `pairRequiresAllRequested` of the source (false on the pinned tree): pair a selected successor
with the meter only when ALL successors of the meter are selected. -/
def poolWalk (req : Bool) (sel : Node → Bool) (pos : Pos) : Node → List (Node × List Node)
  | .meter id cs =>
    let ok := !req || cs.all sel
    let paired := cs.filter (fun c => sel c && (isPrimaryFallbackPair pos (.meter id cs) c && ok))
    let own := cs.filter (fun c => sel c && !(isPrimaryFallbackPair pos (.meter id cs) c && ok))
    (if paired.isEmpty then [] else [(.meter id cs, paired)]) ++ own.map (fun c => (c, []))
      ++ poolWalkL req sel (belowMeter cs) cs
  | .batInv _ _ => []
  | .pvInv _ => []
  | .ev _ => []
  | .chp _ => []
def poolWalkL (req : Bool) (sel : Node → Bool) (pos : Pos) : List Node → List (Node × List Node)
  | [] => []
  | n :: ns => poolWalk req sel pos n ++ poolWalkL req sel pos ns
end

/-- Selected components directly below the grid are their own primaries. -/
def poolTerms (req : Bool) (sel : Node → Bool) (g : Grid) : List (Node × List Node) :=
  (g.succ.filter sel).map (fun c => (c, [])) ++ poolWalkL req sel (topPos g) g.succ

/-- The pool's PV inverters (other ids are not modelled: the pools only pass PV inverter ids). -/
def pvSel (ids : List Nat) (n : Node) : Bool := leafTest .pvInverter n && ids.contains n.id

/-- `PVPowerFormula` — `ids = none` (or empty): search the graph; otherwise the given PV inverters. -/
def pvFormulaR (req : Bool) (g : Grid) (ids : Option (List Nat)) : Formula :=
  match ids with
  | some (i :: is) =>
    let ps := poolTerms req (pvSel (i :: is)) g
    if ps.isEmpty then .ok [nonExisting pvNoneNaz]
    else .ok (ps.map (mkTerm false pvNaz pvNazNoFallback))
  | _ =>
    let ps := dfsFromGrid (anyChain pvDfsChains) g
    if ps.isEmpty then .ok [nonExisting pvNoneNaz]
    else .ok (ps.map (fun f => mkTerm false pvNaz pvNazNoFallback (primaryOf f)))

def pvFormula (g : Grid) (ids : Option (List Nat)) : Formula := pvFormulaR pairRequiresAllRequested g ids

/-- An inverter is used by the battery formula when one of its batteries is requested. -/
def batSel (S : List Nat) (n : Node) : Bool :=
  leafTest batteryInverterLeaf n && n.bats.any (fun b => S.contains b)

mutual
/-- "Not all batteries behind inverter … are requested". -/
def batErr (S : List Nat) : Node → Bool
  | .meter _ cs => batErrL S cs
  | .batInv id bs => batSel S (.batInv id bs) && !bs.all (fun b => S.contains b)
  | .pvInv _ => false
  | .ev _ => false
  | .chp _ => false
def batErrL (S : List Nat) : List Node → Bool
  | [] => false
  | n :: ns => batErr S n || batErrL S ns
end

mutual
def Node.allBats : Node → List Nat
  | .meter _ cs => allBatsL cs
  | .batInv _ bs => bs
  | .pvInv _ => []
  | .ev _ => []
  | .chp _ => []
def allBatsL : List Node → List Nat
  | [] => []
  | n :: ns => n.allBats ++ allBatsL ns
end

/-- `BatteryPowerFormula` for the battery ids `S` (all of which must exist in the graph). -/
def batteryFormulaR (req : Bool) (g : Grid) (S : List Nat) : Formula :=
  if S.isEmpty then .ok [nonExisting batteryNoneNaz]
  else if batErrL S g.succ then .error .formulaGenerationError
  else .ok ((poolTerms req (batSel S) g).map (mkTerm false batteryNaz batteryNazNoFallback))

def batteryFormula (g : Grid) (S : List Nat) : Formula := batteryFormulaR pairRequiresAllRequested g S

/-! ### EV chargers (`_ev_charger_power_formula.py`) -/

def evFormula (ids : List Nat) : Formula :=
  if ids.isEmpty then .ok [nonExisting evNoneNaz]
  else .ok (ids.map (fun i => (⟨false, i, nazEval evNaz .evCharger, []⟩ : Term)))

/-! ### CHP (`_chp_power_formula.py`): the dedicated meters in front of the CHPs -/

def isChpNode (n : Node) : Bool := n.cat == chpCat

mutual
/-- A CHP whose predecessor's successors are not all CHPs. -/
def chpErr : Node → Bool
  | .meter _ cs => (cs.any isChpNode && !cs.all isChpNode) || chpErrL cs
  | .batInv _ _ => false
  | .pvInv _ => false
  | .ev _ => false
  | .chp _ => false
def chpErrL : List Node → Bool
  | [] => false
  | n :: ns => chpErr n || chpErrL ns
end

mutual
def chpMeters : Node → List Node
  | .meter id cs => (if cs.any isChpNode then [.meter id cs] else []) ++ chpMetersL cs
  | .batInv _ _ => []
  | .pvInv _ => []
  | .ev _ => []
  | .chp _ => []
def chpMetersL : List Node → List Node
  | [] => []
  | n :: ns => chpMeters n ++ chpMetersL ns
end

def chpFormula (g : Grid) : Formula :=
  -- a CHP directly below the grid has a predecessor of category GRID, not `chpPredecessorCat`
  if (g.succ.any isChpNode && chpPredecessorCat != .grid) || chpErrL g.succ then .error .formulaGenerationError
  else
    let ms := chpMetersL g.succ
    if ms.isEmpty then .ok [nonExisting chpNoneNaz]
    else .ok (ms.map (fun m => (⟨false, m.id, nazEval chpNaz m.cat, []⟩ : Term)))

/-! ## Default pools (`*_pool_reference_store.py`): all devices of the graph -/

mutual
def Node.idsWhere (k : Node → Bool) : Node → List Nat
  | .meter id cs => (if k (.meter id cs) then [id] else []) ++ idsWhereL k cs
  | .batInv id bs => if k (.batInv id bs) then [id] else []
  | .pvInv id => if k (.pvInv id) then [id] else []
  | .ev id => if k (.ev id) then [id] else []
  | .chp id => if k (.chp id) then [id] else []
def idsWhereL (k : Node → Bool) : List Node → List Nat
  | [] => []
  | n :: ns => n.idsWhere k ++ idsWhereL k ns
end

/-! ## Semantics -/

def sumEnv (env : Nat → Rat) (ns : List Node) : Rat := (ns.map (fun n => env n.id)).sum

def Term.eval (env : Nat → Rat) (t : Term) : Rat := if t.neg then - env t.id else env t.id

def evalTerms (env : Nat → Rat) (ts : List Term) : Rat := (ts.map (Term.eval env)).sum

def evalF (env : Nat → Rat) : Formula → Option Rat
  | .ok ts => some (evalTerms env ts)
  | .error _ => none

/-- Value of the fallback formula of a term. -/
def Term.fbEval (env : Nat → Rat) (t : Term) : Rat := (t.fb.map (fun p => env p.1)).sum

/-- Every fallback formula present evaluates to what its primary component reads. -/
def fallbacksAgree (env : Nat → Rat) (ts : List Term) : Bool :=
  ts.all (fun t => t.fb.isEmpty || t.fbEval env == env t.id)

/-- The formula was generated and all its fallback formulas agree with their primaries. -/
def Formula.fallbacksOk (env : Nat → Rat) : Formula → Bool
  | .ok ts => fallbacksAgree env ts
  | .error _ => false

mutual
/-- Every meter reads the sum of what is connected below it plus its unmetered load. -/
def Node.law (env load : Nat → Rat) : Node → Bool
  | .meter id cs => decide (env id = load id + sumEnv env cs) && lawL env load cs
  | .batInv _ _ => true
  | .pvInv _ => true
  | .ev _ => true
  | .chp _ => true
def lawL (env load : Nat → Rat) : List Node → Bool
  | [] => true
  | n :: ns => n.law env load && lawL env load ns
end

/-! ### the true totals -/

def Node.isPv : Node → Bool | .pvInv _ => true | _ => false
def Node.isBat : Node → Bool | .batInv _ _ => true | _ => false
def Node.isEv : Node → Bool | .ev _ => true | _ => false
def Node.isChp : Node → Bool | .chp _ => true | _ => false
def Node.isMeter : Node → Bool | .meter _ _ => true | _ => false
def Node.isDevice (n : Node) : Bool := !n.isMeter

mutual
/-- Sum of the powers of the devices of kind `k` in the subtree. -/
def Node.devSum (k : Node → Bool) (env : Nat → Rat) : Node → Rat
  | .meter _ cs => devSumL k env cs
  | .batInv id bs => if k (.batInv id bs) then env id else 0
  | .pvInv id => if k (.pvInv id) then env id else 0
  | .ev id => if k (.ev id) then env id else 0
  | .chp id => if k (.chp id) then env id else 0
def devSumL (k : Node → Bool) (env : Nat → Rat) : List Node → Rat
  | [] => 0
  | n :: ns => n.devSum k env + devSumL k env ns
end

mutual
/-- Sum of the unmetered loads in the subtree. -/
def Node.loadSum (load : Nat → Rat) : Node → Rat
  | .meter id cs => load id + loadSumL load cs
  | .batInv _ _ => 0
  | .pvInv _ => 0
  | .ev _ => 0
  | .chp _ => 0
def loadSumL (load : Nat → Rat) : List Node → Rat
  | [] => 0
  | n :: ns => n.loadSum load + loadSumL load ns
end

mutual
def Node.hasDevice : Node → Bool
  | .meter _ cs => hasDeviceL cs
  | .batInv _ _ => true
  | .pvInv _ => true
  | .ev _ => true
  | .chp _ => true
def hasDeviceL : List Node → Bool
  | [] => false
  | n :: ns => n.hasDevice || hasDeviceL ns
end

/-! ### side conditions of the property's quantifier -/

/-- All successors are devices of one kind (and there is at least one). -/
def dedicatedTo (k : Node → Bool) (cs : List Node) : Bool := !cs.isEmpty && cs.all k

/-- A meter dedicated to one device type (by the shape of the graph alone). -/
def dedicated (cs : List Node) : Bool :=
  dedicatedTo Node.isPv cs || dedicatedTo Node.isBat cs || dedicatedTo Node.isEv cs || dedicatedTo Node.isChp cs

mutual
/-- Unmetered load only at meters not dedicated to one device type. -/
def Node.noLoadAtDedicated (load : Nat → Rat) : Node → Bool
  | .meter id cs => (!dedicated cs || decide (load id = 0)) && noLoadAtDedicatedL load cs
  | .batInv _ _ => true
  | .pvInv _ => true
  | .ev _ => true
  | .chp _ => true
def noLoadAtDedicatedL (load : Nat → Rat) : List Node → Bool
  | [] => true
  | n :: ns => n.noLoadAtDedicated load && noLoadAtDedicatedL load ns
end

mutual
/-- Every CHP below a meter sits below a meter whose successors are all CHPs. -/
def Node.chpMetered : Node → Bool
  | .meter _ cs => (!cs.any Node.isChp || cs.all Node.isChp) && chpMeteredL cs
  | .batInv _ _ => true
  | .pvInv _ => true
  | .ev _ => true
  | .chp _ => true
def chpMeteredL : List Node → Bool
  | [] => true
  | n :: ns => n.chpMetered && chpMeteredL ns
end

mutual
/-- Every battery inverter has at least one battery. -/
def Node.invsHaveBats : Node → Bool
  | .meter _ cs => invsHaveBatsL cs
  | .batInv _ bs => !bs.isEmpty
  | .pvInv _ => true
  | .ev _ => true
  | .chp _ => true
def invsHaveBatsL : List Node → Bool
  | [] => true
  | n :: ns => n.invsHaveBats && invsHaveBatsL ns
end

/-- Accepted by `validate()` (a tree with a grid root that has successors) and inside the quantifier
of C12: CHPs are metered (none directly at the grid), battery inverters have batteries. -/
def Grid.admissible (g : Grid) : Bool :=
  !g.succ.isEmpty && !g.succ.any Node.isChp && chpMeteredL g.succ && invsHaveBatsL g.succ

/-- The readings `env` are those of a microgrid in which every meter measures the sum of what is below
it plus its unmetered load `load`, and unmetered load exists only at non-dedicated meters.  A component
that does not exist (`NON_EXISTING_COMPONENT_ID`) delivers no data, which the generators count as 0
(`nones_are_zeros=True`, theorem `C12_non_existing_counts_as_zero`). -/
def Grid.reading (g : Grid) (env load : Nat → Rat) : Bool :=
  lawL env load g.succ && noLoadAtDedicatedL load g.succ && decide (env nonExistingComponentId = 0)

/-! ### the true totals of a microgrid, and the default pools -/

def Grid.pvTotal (g : Grid) (env : Nat → Rat) : Rat := devSumL Node.isPv env g.succ
def Grid.batTotal (g : Grid) (env : Nat → Rat) : Rat := devSumL Node.isBat env g.succ
def Grid.evTotal (g : Grid) (env : Nat → Rat) : Rat := devSumL Node.isEv env g.succ
def Grid.chpTotal (g : Grid) (env : Nat → Rat) : Rat := devSumL Node.isChp env g.succ
/-- Consumption = the unmetered loads. -/
def Grid.loadTotal (g : Grid) (load : Nat → Rat) : Rat := loadSumL load g.succ

/-- `BatteryPool` without ids: all batteries; `PVPool`: all solar inverters; `EVChargerPool`: all EV chargers. -/
def Grid.allBats (g : Grid) : List Nat := allBatsL g.succ
def Grid.allPv (g : Grid) : List Nat := idsWhereL Node.isPv g.succ
def Grid.allEv (g : Grid) : List Nat := idsWhereL Node.isEv g.succ

/-! ### regimes (computed from the graph only) -/

/-- Known finding: no grid meter, and a meter picked by the consumer formula has a device below it. -/
def noGridMeterMixedMeter (g : Grid) : Bool :=
  !areGridMeters g && (dfsFromGrid consumerCond g).any (fun f => f.node.hasDevice)

mutual
/-- A pool selection `sel` is closed under shared dedicated meters: a meter that forms a
primary/fallback pair with one selected successor has all its successors selected. -/
def poolClosed (sel : Node → Bool) (pos : Pos) : Node → Bool
  | .meter id cs =>
    (!cs.any (fun c => sel c && isPrimaryFallbackPair pos (.meter id cs) c) || cs.all sel)
      && poolClosedL sel (belowMeter cs) cs
  | .batInv _ _ => true
  | .pvInv _ => true
  | .ev _ => true
  | .chp _ => true
def poolClosedL (sel : Node → Bool) (pos : Pos) : List Node → Bool
  | [] => true
  | n :: ns => poolClosed sel pos n && poolClosedL sel pos ns
end

/-- Regime of the sub-pool finding: some dedicated meter is shared between the pool and other devices. -/
def subPoolSharedMeter (sel : Node → Bool) (g : Grid) : Bool := !poolClosedL sel (topPos g) g.succ

/-! ## One long-lived graph object: `refresh_from` / `generate`

The application keeps ONE `_MicrogridComponentGraph`; `refresh_from(components, connections)` replaces its
topology and the generators are run on it again and again.  `Live` is that object: the topology it holds
now, and the topology on which verdicts remembered from earlier queries were computed (if the source
remembers any: `predicatesReadCurrentGraphOnly = false`; the pinned source remembers nothing).  A battery
that hangs on several inverters is a battery id listed by several `batInv` nodes. -/

/-- What is asked of the generators in one round: the explicit (sub-)pools. -/
structure Request where
  bat : Option (List Nat)
  pv : Option (List Nat)
  ev : Option (List Nat)

/-- Everything generated in one round (the lines of `Drivers/Graph.lean`). -/
structure Generated where
  grid : Formula
  consumer : Formula
  producer : Formula
  battery : Formula
  pvDfs : Formula
  pv : Formula
  ev : Formula
  chp : Formula
  batterySub : Option Formula
  pvSub : Option Formula
  evSub : Option Formula

def generateAll (g : Grid) (r : Request) : Generated :=
  { grid := gridFormula g, consumer := consumerFormula g, producer := producerFormula g,
    battery := batteryFormula g (allBatsL g.succ), pvDfs := pvFormula g none,
    pv := pvFormula g (some (idsWhereL Node.isPv g.succ)), ev := evFormula (idsWhereL Node.isEv g.succ),
    chp := chpFormula g, batterySub := r.bat.map (batteryFormula g),
    pvSub := r.pv.map (fun ids => pvFormula g (some ids)), evSub := r.ev.map evFormula }

structure Live where
  /-- the topology installed by the last `refresh_from` -/
  topo : Grid
  /-- the topology the remembered verdicts stem from (`none`: nothing was queried yet) -/
  memo : Option Grid

inductive Event where
  | refresh (g : Grid)
  | generate (r : Request)

/-- The topology the classification predicates answer from. -/
def Live.view (l : Live) : Grid :=
  if predicatesReadCurrentGraphOnly then l.topo else l.memo.getD l.topo

/-- `refresh_from` swaps the topology and resets nothing else; a query leaves its verdicts behind. -/
def Live.step (l : Live) : Event → Live × Option Generated
  | .refresh g => (⟨g, l.memo⟩, none)
  | .generate r => (⟨l.topo, some (l.memo.getD l.topo)⟩, some (generateAll l.view r))

def Live.run (l : Live) : List Event → List Generated
  | [] => []
  | e :: es =>
    match (l.step e).2 with
    | some o => o :: (l.step e).1.run es
    | none => (l.step e).1.run es

/-- The history-free reference: only the last topology matters. -/
def runFresh (g : Grid) : List Event → List Generated
  | [] => []
  | .refresh g' :: es => runFresh g' es
  | .generate r :: es => generateAll g r :: runFresh g es

/-! ## The graph as the Python code sees it

Targets of the machine translation `Frequenz/Extracted/GraphLoops.lean` (`tools/extractors/graph_loops.py`): a
`Component` of the Python code is a `Comp` — a node of the tree TOGETHER WITH ITS PLACE (its ancestors, nearest
first, and the root), so that `graph.successors(c.component_id)` / `graph.predecessors(c.component_id)` are
structural (`Comp.succs` / `Comp.preds`) and need no lookup by id.  Components are compared by id (`in`, dict keys,
`issubset`): ids are the node keys of the networkx graph.  A battery is reached from every inverter that lists its
id; `predecessors(<battery id>)` searches the tree for those inverters. -/

inductive CKind where
  | grid
  | node (n : Node)
  | bat (id : Nat)
deriving Repr, Inhabited

structure Comp where
  kind : CKind
  /-- ancestors, nearest first (meters; for a battery the inverter it was reached from comes first) -/
  anc : List Node
  root : Grid
deriving Repr

instance : Inhabited Grid := ⟨⟨0, []⟩⟩
instance : Inhabited Comp := ⟨⟨.grid, [], default⟩⟩

def Grid.comp (g : Grid) : Comp := ⟨.grid, [], g⟩

def Comp.id (c : Comp) : Nat :=
  match c.kind with
  | .grid => c.root.id
  | .node n => n.id
  | .bat b => b

def Comp.cat (c : Comp) : Cat :=
  match c.kind with
  | .grid => .grid
  | .node n => n.cat
  | .bat _ => .battery

def Comp.typ (c : Comp) : InvType :=
  match c.kind with
  | .node n => n.ityp
  | _ => .none

/-- `graph.successors(c.component_id)` -/
def Comp.succs (c : Comp) : List Comp :=
  match c.kind with
  | .grid => c.root.succ.map (fun n => ⟨.node n, [], c.root⟩)
  | .node (.meter id cs) => cs.map (fun k => ⟨.node k, .meter id cs :: c.anc, c.root⟩)
  | .node (.batInv id bs) => bs.map (fun b => ⟨.bat b, .batInv id bs :: c.anc, c.root⟩)
  | _ => []

mutual
/-- every battery inverter (as a `Comp`) below `n` that lists battery `b` -/
def Node.invsOf (b : Nat) (root : Grid) (anc : List Node) : Node → List Comp
  | .meter id cs => invsOfL b root (.meter id cs :: anc) cs
  | .batInv id bs => if bs.contains b then [⟨.node (.batInv id bs), anc, root⟩] else []
  | .pvInv _ => []
  | .ev _ => []
  | .chp _ => []
def invsOfL (b : Nat) (root : Grid) (anc : List Node) : List Node → List Comp
  | [] => []
  | n :: ns => n.invsOf b root anc ++ invsOfL b root anc ns
end

/-- `graph.predecessors(<id of a battery>)`: the inverters that list it -/
def Grid.predsOfBat (g : Grid) (b : Nat) : List Comp := invsOfL b g [] g.succ

/-- `graph.predecessors(c.component_id)` -/
def Comp.preds (c : Comp) : List Comp :=
  match c.kind with
  | .grid => []
  | .node _ =>
    match c.anc with
    | [] => [c.root.comp]
    | p :: rest => [⟨.node p, rest, c.root⟩]
  | .bat b => c.root.predsOfBat b

mutual
def Node.comps (root : Grid) (anc : List Node) : Node → List Comp
  | .meter id cs => ⟨.node (.meter id cs), anc, root⟩ :: compsL root (.meter id cs :: anc) cs
  | .batInv id bs => ⟨.node (.batInv id bs), anc, root⟩ :: bs.map (fun b => ⟨.bat b, .batInv id bs :: anc, root⟩)
  | .pvInv id => [⟨.node (.pvInv id), anc, root⟩]
  | .ev id => [⟨.node (.ev id), anc, root⟩]
  | .chp id => [⟨.node (.chp id), anc, root⟩]
def compsL (root : Grid) (anc : List Node) : List Node → List Comp
  | [] => []
  | n :: ns => n.comps root anc ++ compsL root anc ns
end

/-- `graph.components()` (a battery on several inverters is listed once per inverter; only ever filtered by
category GRID / CHP or by the ids of non-battery components) -/
def Grid.comps (g : Grid) : List Comp := g.comp :: compsL g [] g.succ

/-- The node of a `.node` component (a childless meter otherwise; never used there). -/
def Comp.node (c : Comp) : Node :=
  match c.kind with
  | .node n => n
  | _ => .meter c.id []

def Comp.isNode (c : Comp) : Bool :=
  match c.kind with
  | .node _ => true
  | _ => false

/-- What the model's predicates look at: the category of the predecessor and its number of successors. -/
def Comp.pos (c : Comp) : Pos :=
  match c.anc with
  | [] => topPos c.root
  | p :: _ => ⟨p.cat, match p with | .meter _ cs => cs.length | .batInv _ bs => bs.length | _ => 0⟩

/-- the model's `parent` argument of `dfs` -/
def Comp.parentInfo (c : Comp) : Option (Node × Pos) :=
  match c.anc with
  | [] => none
  | p :: rest => some (p, (⟨.node p, rest, c.root⟩ : Comp).pos)

def Comp.found (c : Comp) : Found := ⟨c.node, c.pos, c.parentInfo⟩

/-- `next(iter(s))`, `s.pop()`, `(x,) = s` under a `len(s) == 1` guard -/
def firstComp (l : List Comp) : Comp := l.headD default

/-- `l.pop()` of a non-empty list: its last element -/
def lastComp (l : List Comp) : Comp := l.getLastD default

/-- membership / subset of sets of components: by id -/
def memIds (c : Comp) (l : List Comp) : Bool := l.any (fun x => x.id == c.id)
def subsetIds (a b : List Comp) : Bool := a.all (fun x => memIds x b)

/-- `a | b`, `a.update(b)`, `a.add(x)` on sets of components -/
def unionIds (a b : List Comp) : List Comp := a ++ b.filter (fun x => !memIds x a)

/-- enough recursion depth for `dfs` from anywhere in the tree -/
def Grid.fuel (g : Grid) : Nat := 2 * (allIdsL g.succ).length + 2

/-! ### `dict[Component, set[Component]]` in insertion order -/

abbrev CDict := List (Comp × List Comp)

def CDict.has (d : CDict) (k : Comp) : Bool := d.any (fun e => e.1.id == k.id)

/-- `d[k] = v` -/
def CDict.set (d : CDict) (k : Comp) (v : List Comp) : CDict :=
  if d.has k then d.map (fun e => if e.1.id == k.id then (e.1, v) else e) else d ++ [(k, v)]

/-- `d.setdefault(k, set()).add(x)` -/
def CDict.addTo (d : CDict) (k : Comp) (x : Comp) : CDict :=
  if d.has k then d.map (fun e => if e.1.id == k.id then (e.1, e.2 ++ [x]) else e) else d ++ [(k, [x])]

/-- `d[k]` for a key that is there (the empty set otherwise) -/
def CDict.get (d : CDict) (k : Comp) : List Comp :=
  match d.find? (fun e => e.1.id == k.id) with
  | some e => e.2
  | none => []

/-- the fallback formula a `FallbackFormulaMetricFetcher` would generate, as `[(id, nones_are_zeros)]`
(an error while generating it leaves the term without fallback) -/
def fbPairs : Formula → List (Nat × Bool)
  | .ok ts => ts.map (fun t => (t.id, t.naz))
  | .error _ => []

end Graph
