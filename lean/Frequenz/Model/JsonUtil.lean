/-
JSON helpers shared by the line-protocol drivers.  Rationals travel as strings "num/den" (or "num"),
`None` as JSON null.  Not part of any theorem.
-/
import Lean.Data.Json

open Lean

namespace JsonUtil

def parseRat (s : String) : Except String Rat :=
  match s.splitOn "/" with
  | [n] => match n.toInt? with
    | some k => .ok (k : Rat)
    | none => .error s!"bad rational {s}"
  | [n, d] => match n.toInt?, d.toNat? with
    | some k, some m => if m = 0 then .error s!"zero denominator {s}" else .ok ((k : Rat) / (m : Rat))
    | _, _ => .error s!"bad rational {s}"
  | _ => .error s!"bad rational {s}"

def ratStr (r : Rat) : String :=
  if r.den = 1 then toString r.num else s!"{r.num}/{r.den}"

def ratJ (r : Rat) : Json := Json.str (ratStr r)

def optRatJ : Option Rat → Json
  | none => Json.null
  | some r => ratJ r

def getRat (j : Json) (k : String) : Except String Rat := do
  let v ← j.getObjVal? k
  match v with
  | .str s => parseRat s
  | .num n => if n.exponent = 0 then .ok (n.mantissa : Rat) else parseRat "bad"
  | _ => .error s!"field {k}: expected rational string"

def getOptRat (j : Json) (k : String) : Except String (Option Rat) :=
  match j.getObjVal? k with
  | .error _ => .ok none
  | .ok .null => .ok none
  | .ok (.str s) => (parseRat s).map some
  | .ok (.num n) => if n.exponent = 0 then .ok (some (n.mantissa : Rat)) else .error "bad num"
  | .ok _ => .error s!"field {k}: expected rational string or null"

def getInt (j : Json) (k : String) : Except String Int := do
  let v ← j.getObjVal? k
  v.getInt?

def getNat (j : Json) (k : String) : Except String Nat := do
  let v ← j.getObjVal? k
  v.getNat?

def getStr (j : Json) (k : String) : Except String String := do
  let v ← j.getObjVal? k
  v.getStr?

def getBool (j : Json) (k : String) : Except String Bool := do
  let v ← j.getObjVal? k
  v.getBool?

def getArr (j : Json) (k : String) : Except String (Array Json) := do
  let v ← j.getObjVal? k
  v.getArr?

def isNull (j : Json) (k : String) : Bool :=
  match j.getObjVal? k with
  | .ok .null => true
  | .error _ => true
  | _ => false

/-- Run `f` on every stdin line (one JSON document per line), print one JSON line per input. -/
partial def serve (f : Json → Except String Json) : IO Unit := do
  let stdin ← IO.getStdin
  let stdout ← IO.getStdout
  let rec loop : IO Unit := do
    let line ← stdin.getLine
    if line.isEmpty then return ()
    let out :=
      match Json.parse line with
      | .error e => Json.mkObj [("error", Json.str s!"parse: {e}")]
      | .ok j => match f j with
        | .ok r => r
        | .error e => Json.mkObj [("error", Json.str e)]
    stdout.putStrLn out.compress
    loop
  loop
  stdout.flush

end JsonUtil
