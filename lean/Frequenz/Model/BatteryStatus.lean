/-
C16 — battery status tracker.

The handler logic itself is NOT written here: `Frequenz.Extracted.BatteryStatus` is machine-translated from
`_battery_status_tracker.py`, `_blocking_status.py`, `_component_status.py`, `_component_pool_status_tracker.py`
on every run (`tools/extractors/battery_status.py`).  `Tracker.runIteration` is one iteration of the `select` loop
of `BatteryStatusTracker._run`.

Hand-written here:
  * `Event` (what `select` can deliver, each with the wall/loop time `now` at which it is handled) and `step`;
  * the third-party `Timer(max_data_age, SkipMissedAndDrift())` as a ghost: next tick = `timerResetAt + maxDataAge`,
    `reset()` (translated) sets `timerResetAt := now`, a delivered tick that was due re-arms from the tick (`rearm`);
    `Admissible` = the timers never oversleep (nothing is handled at a time later than a pending tick);
  * the vocabulary of the specification: `BatHealthy`, `InvHealthy`, `lastBat`, `lastInv`, `StreamOk`,
    the closed-form back-off automaton `backoffStep`, `AdjDistinct`, the pool run.
Time = `Int` microseconds.
-/
import Frequenz.Model.Prelude
import Frequenz.Extracted.BatteryStatus

namespace BatteryStatus
open Extracted.BatteryStatus

/-! ## Events and the handler-level step -/

inductive Event where
  | bat (now : Int) (m : Msg)
  | inv (now : Int) (m : Msg)
  | batTimer (now : Int)
  | invTimer (now : Int)
  | setPower (now : Int) (r : SpResult)
deriving Repr, DecidableEq

def Event.now : Event → Int
  | .bat now _ => now
  | .inv now _ => now
  | .batTimer now => now
  | .invTimer now => now
  | .setPower now _ => now

def Event.selected : Event → Selected
  | .bat _ m => { src := Src.battery, msg := m, result := default }
  | .inv _ m => { src := Src.inverter, msg := m, result := default }
  | .batTimer _ => { src := Src.batteryTimer, msg := default, result := default }
  | .invTimer _ => { src := Src.inverterTimer, msg := default, result := default }
  | .setPower _ r => { src := Src.setPowerResult, msg := default, result := r }

/-- One iteration of the `select` loop on event `e`: new tracker state, status sent on the channel (if any). -/
def step (s : Tracker) (e : Event) : Tracker × Option Status :=
  Tracker.runIteration s e.now e.selected

def finalState (s : Tracker) (es : List Event) : Tracker :=
  es.foldl (fun s e => (step s e).1) s

/-- What is sent at each event of a history (`none` = nothing sent). -/
def outputs (s : Tracker) : List Event → List (Option Status)
  | [] => []
  | e :: es => (step s e).2 :: outputs (step s e).1 es

def notifications (s : Tracker) (es : List Event) : List Status :=
  (outputs s es).filterMap id

/-! ## The data timers (third-party `Timer`, modelled) -/

def batDue (s : Tracker) : Int := s.battery.timerResetAt + s.maxDataAge
def invDue (s : Tracker) : Int := s.inverter.timerResetAt + s.maxDataAge

/-- `SkipMissedAndDrift` with zero tolerance: a tick delivered at/after its due time re-arms the timer from the tick.
A timer event delivered before the due time is a stale tick that was already queued when `reset()` was called; it
does not re-arm anything. -/
def rearm (s : Tracker) : Event → Tracker
  | .batTimer now => if now ≥ batDue s then { s with battery := { s.battery with timerResetAt := now } } else s
  | .invTimer now => if now ≥ invDue s then { s with inverter := { s.inverter with timerResetAt := now } } else s
  | _ => s

/-- Actor-level step = timer bookkeeping + the iteration of the select loop. -/
def astep (s : Tracker) (e : Event) : Tracker × Option Status := step (rearm s e) e

def afinal (s : Tracker) (es : List Event) : Tracker :=
  es.foldl (fun s e => (astep s e).1) s

def aoutputs (s : Tracker) : List Event → List (Option Status)
  | [] => []
  | e :: es => (astep s e).2 :: aoutputs (astep s e).1 es

/-- A schedule the runtime can produce: time does not run backwards and no event is handled later than a pending
timer tick (the timers fire on time; ties at the same instant may be resolved either way). -/
def Admissible (s : Tracker) (tprev : Int) : List Event → Prop
  | [] => True
  | e :: es => tprev ≤ e.now ∧ e.now ≤ batDue s ∧ e.now ≤ invDue s ∧ Admissible (astep s e).1 e.now es

def lastTime (t0 : Int) (es : List Event) : Int :=
  es.foldl (fun _ e => e.now) t0

/-- `t` is a time at which the status can be observed after the schedule: not before its last event, and no timer
tick is overdue at `t`. -/
def Observable (s : Tracker) (tlast t : Int) : Prop :=
  tlast ≤ t ∧ t ≤ batDue s ∧ t ≤ invDue s

/-! ## Vocabulary of the specification -/

/-- The name of `ErrorLevel.CRITICAL`. -/
def criticalLevel : String := "CRITICAL"

/-- Operational component state and relay state, no critical error, capacity known. -/
def BatHealthy (m : Msg) : Prop :=
  m.componentState ∈ batteryValidState ∧ m.relayState ∈ batteryValidRelay ∧
  criticalLevel ∉ m.errorLevels ∧ m.capacityIsNaN = false

def InvHealthy (m : Msg) : Prop :=
  m.componentState ∈ inverterValidState ∧ criticalLevel ∉ m.errorLevels

instance (m : Msg) : Decidable (BatHealthy m) := by unfold BatHealthy; infer_instance
instance (m : Msg) : Decidable (InvHealthy m) := by unfold InvHealthy; infer_instance

def lbStep (acc : Option (Int × Msg)) : Event → Option (Int × Msg)
  | .bat a m => some (a, m)
  | _ => acc

def liStep (acc : Option (Int × Msg)) : Event → Option (Int × Msg)
  | .inv a m => some (a, m)
  | _ => acc

/-- Latest battery message of a history, with its arrival time. -/
def lastBat (es : List Event) : Option (Int × Msg) := es.foldl lbStep none

/-- Latest inverter message of a history, with its arrival time. -/
def lastInv (es : List Event) : Option (Int × Msg) := es.foldl liStep none

/-- The latest message of a stream proves the component healthy at time `t`:
it exists, is healthy, was not older than `maxAge` when it arrived, and at `t` its age — counted from its own
timestamp (`byTimestamp`) or from its arrival — is at most `maxAge`. -/
def StreamOk (healthy : Msg → Prop) (maxAge t : Int) (byTimestamp : Bool) : Option (Int × Msg) → Prop
  | none => False
  | some (a, m) =>
      healthy m ∧ a - m.timestamp ≤ maxAge ∧ (if byTimestamp then t - m.timestamp else t - a) ≤ maxAge

/-- The latest message exists, is healthy and was fresh on arrival (no claim about the present). -/
def ArrivedOk (healthy : Msg → Prop) (maxAge : Int) : Option (Int × Msg) → Prop
  | none => False
  | some (a, m) => healthy m ∧ a - m.timestamp ≤ maxAge

/-- The timestamp of the latest message of a stream equals / does not exceed its arrival time. -/
def TsIsArrival : Option (Int × Msg) → Prop
  | none => True
  | some (a, m) => m.timestamp = a

def TsNotFuture : Option (Int × Msg) → Prop
  | none => True
  | some (a, m) => m.timestamp ≤ a

/-- An event after which the battery must be reported NOT_WORKING: an unhealthy or stale message, or a timer tick
that finds the latest message of its stream at least `maxAge` old (no message yet counts as old). -/
def Disqualifying (maxAge : Int) (es : List Event) : Event → Prop
  | .bat now m => ¬ (BatHealthy m ∧ now - m.timestamp ≤ maxAge)
  | .inv now m => ¬ (InvHealthy m ∧ now - m.timestamp ≤ maxAge)
  | .batTimer now => ∀ a m, lastBat es = some (a, m) → now - m.timestamp ≥ maxAge
  | .invTimer now => ∀ a m, lastInv es = some (a, m) → now - m.timestamp ≥ maxAge
  | .setPower _ _ => False

/-- Consecutive notifications differ (and the first differs from the status before). -/
def AdjDistinct : Status → List Status → Prop
  | _, [] => True
  | p, x :: xs => p ≠ x ∧ AdjDistinct x xs

/-! ## Back-off, closed form -/

/-- Blocking duration of the `k`-th (0-based) consecutive effective failure. -/
def backoffDur (minD maxD : Int) (k : Nat) : Int := min (2 ^ k * minD) maxD

/-- An effective failure at `now`: first of a streak, ignored while still blocked, else the next of the streak. -/
def backoffFail (minD maxD : Int) (b : Option (Nat × Int)) (now : Int) : Option (Nat × Int) :=
  match b with
  | none => some (0, now + backoffDur minD maxD 0)
  | some (k, u) => if now < u then some (k, u) else some (k + 1, now + backoffDur minD maxD (k + 1))

/-- Specification automaton of the back-off, effect of the event itself: `none` = not blocked / streak reset;
`some (k, u)` = the streak has `k+1` effective failures and the battery is blocked until `u`.
`before` = status reported before the event.  A failure counts only for a battery not reported NOT_WORKING and
only when the previous block has expired; a success clears the streak. -/
def backoffEvent (minD maxD : Int) (b : Option (Nat × Int)) (before : Status) : Event → Option (Nat × Int)
  | .setPower now r =>
    if r.succeeded = true then none
    else if r.failed = true ∧ before ≠ Status.notWorking then backoffFail minD maxD b now
    else b
  | _ => b

/-- … and a recovery from NOT_WORKING clears the streak as well. -/
def backoffStep (minD maxD : Int) (b : Option (Nat × Int)) (before after : Status) (e : Event) : Option (Nat × Int) :=
  if before = Status.notWorking ∧ after ≠ Status.notWorking then none else backoffEvent minD maxD b before e

def backoffRun (minD maxD : Int) (s : Tracker) (b : Option (Nat × Int)) : List Event → Option (Nat × Int)
  | [] => b
  | e :: es =>
    let s' := (step s e).1
    backoffRun minD maxD s' (backoffStep minD maxD b s.lastStatus s'.lastStatus e) es

def blockedAt (b : Option (Nat × Int)) (now : Int) : Prop :=
  match b with
  | none => False
  | some (_, u) => now < u

/-- The iteration re-evaluates the status (everything except a timer tick ignored by the `continue` guard). -/
def Reevaluates (s : Tracker) : Event → Prop
  | .batTimer now => ¬ (now - s.battery.lastMsgTimestamp < s.maxDataAge)
  | .invTimer now => ¬ (now - s.inverter.lastMsgTimestamp < s.maxDataAge)
  | _ => True

/-! ## Pool -/

def poolRun (p : Pool) : List CompStatus → Pool
  | [] => p
  | c :: cs => poolRun (Pool.updateStatus p 0 c).1 cs

def poolOutputs (p : Pool) : List CompStatus → List (Option PoolStatus)
  | [] => []
  | c :: cs => (Pool.updateStatus p 0 c).2 :: poolOutputs (Pool.updateStatus p 0 c).1 cs

/-- Latest status notified for component `x`. -/
def latestOf (x : Nat) (cs : List CompStatus) : Option Status :=
  cs.foldl (fun acc c => if c.componentId = x then some c.value else acc) none

end BatteryStatus
