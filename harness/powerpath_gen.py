"""Full-stack "power path" stage (C03 / C04 / C11 / C17): scenario generator, REAL-stack runner, canonical trace and
the translation of a trace to the event list of `lean/Drivers/PowerManager.lean`.

What runs (exactly as tests/timeseries/_battery_pool/test_battery_pool_control_methods.py sets it up):
`MockMicrogrid` + `MockComponentDataStreamer` from /repo/tests, `microgrid._data_pipeline.initialize`, an
`async_solipsism` loop, `ComponentPoolStatusTracker` patched to "everything works"; on top of that the REAL
`_DataPipeline.new_battery_pool` -> `PowerWrapper` -> `BatteryPoolReferenceStore` -> `BatteryPool.propose_*` /
`power_status` -> `PowerManagingActor` (incl. the real `_add_system_bounds_tracker` -> `SendOnUpdate(PowerBoundsCalculator)`)
-> `PowerDistributingActor` / `BatteryManager` -> `api_client.set_power` (the only fake besides the data streams).

A scenario is driven through the PUBLIC API only (`microgrid.new_battery_pool`, `propose_power/charge/discharge`,
`power_status`, `power_distribution_results`, the streamed component data); the one non-public read is
`BatteryPool._system_power_bounds` of a harness pool over the same batteries = "the bounds streamed by a battery pool".

Virtual time line (all dyadic, so floats and rationals agree exactly; nothing the harness does coincides with a
timer of the stack):
    0.0625 + k/2   component data messages          0.25 + k   the power manager's drop-old-proposals timer
    0.25           pools are created (starts the actors)        0.5        every pool subscribes to `power_status`
    2.5            first pool bounds (SendOnUpdate waits 2 s)    3.75 + …   scenario steps, >= 1 s apart
"""
from __future__ import annotations

import asyncio
import random
from fractions import Fraction
from typing import Any

from .common import rat

STAGE = "powerpath"
T_STREAM0 = Fraction(1, 16)
STREAM_PERIOD = 0.5
T_POOLS = Fraction(1, 4)
T_SUBSCRIBE = Fraction(1, 2)
T_FIRST_STEP = Fraction(15, 4)
STEP_GAP = Fraction(1)
MAX_AGE = 60
POOL_NAMES = "abcdefgh"


# --------------------------------------------------------------------------- scenario arithmetic (input only)
def F(x: Any) -> Fraction | None:
    return None if x is None else Fraction(x)


def step_times(sc: dict) -> list[Fraction]:
    """Start time of every step; one more entry = the end of the scenario."""
    t = T_FIRST_STEP
    out = [t]
    for st in sc["steps"]:
        t = t + STEP_GAP + (Fraction(st["secs"]) if st["op"] == "advance" else 0)
        out.append(t)
    return out


def psc_power(st: dict) -> Fraction | None:
    """The power a `propose` step asks for, in the passive sign convention of `propose_power`."""
    p = F(st.get("power"))
    if p is None:
        return None
    return -p if st["method"] == "discharge" else p


def data_at(sc: dict, g: int, upto: int) -> dict:
    """Component data of group g after the first `upto` steps."""
    d = sc["groups"][g]["data"]
    for st in sc["steps"][:upto]:
        if st["op"] == "data" and st["group"] == g:
            d = st["data"]
    return d


def excl_zone_active(d: dict) -> bool:
    return any(Fraction(d[c][k]) != 0 for c in ("bat", "inv") for k in ("el", "eu"))


# --------------------------------------------------------------------------- generator
def _data(rng: random.Random) -> dict:
    a = rng.choice([0, 2, 3, 5, 10, 10, 10, 20]) * 100
    b = rng.choice([0, 2, 3, 5, 10, 10, 10, 20]) * 100
    if a == 0 and b == 0:
        b = 1000
    e = rng.choice([0, 0, 0, 10, 50, 100, 100, 200])
    el = min(e, a // 2)
    eu = min(rng.choice([e, e, e, e // 2]), b // 2)
    inv = {"il": rat(-1000 * 5), "iu": rat(1000 * 5), "el": "0", "eu": "0"}
    r = rng.random()
    if r < 0.25:  # the inverter is the tighter side
        inv = {"il": rat(-rng.choice([1, 2, 5, 10]) * 100), "iu": rat(rng.choice([1, 2, 5, 10]) * 100), "el": "0", "eu": "0"}
    elif r < 0.35:  # exclusion bounds on the inverter as well
        inv["el"], inv["eu"] = rat(-min(el, 50)), rat(min(eu, 50))
    return {"bat": {"il": rat(-a), "iu": rat(b), "el": rat(-el), "eu": rat(eu)}, "inv": inv}


def _change(rng: random.Random, d: dict) -> dict:
    """Widen / shrink / shift the inclusion bounds, change the exclusion zone, or move the inverter."""
    bat = {k: Fraction(v) for k, v in d["bat"].items()}
    inv = dict(d["inv"])
    r = rng.random()
    if r < 0.25:
        bat["il"], bat["iu"] = bat["il"] * 2, bat["iu"] * 2
    elif r < 0.55:
        f = rng.choice([2, 2, 4, 10])
        side = rng.choice(["both", "lo", "hi"])
        if side in ("both", "lo"):
            bat["il"] = Fraction(int(bat["il"] / f) // 10 * 10)
        if side in ("both", "hi"):
            bat["iu"] = Fraction(int(bat["iu"] / f) // 10 * 10)
    elif r < 0.7:
        sh = rng.choice([-300, -100, 100, 300])
        bat["il"], bat["iu"] = min(Fraction(0), bat["il"] + sh), max(Fraction(0), bat["iu"] + sh)
    elif r < 0.88:
        e = rng.choice([0, 10, 50, 100, 200, 300])
        bat["el"], bat["eu"] = Fraction(-e), Fraction(e)
    else:
        inv["il"], inv["iu"] = rat(-rng.choice([1, 2, 5, 10, 50]) * 100), rat(rng.choice([1, 2, 5, 10, 50]) * 100)
    if bat["il"] == 0 and bat["iu"] == 0:
        bat["iu"] = Fraction(500)
    bat["el"] = max(bat["el"], bat["il"] / 2)
    bat["eu"] = min(bat["eu"], bat["iu"] / 2)
    return {"bat": {k: rat(v) for k, v in bat.items()}, "inv": inv}


def pool_bounds(d: dict, n: int) -> tuple[Fraction, Fraction, Fraction, Fraction]:
    """GENERATOR HINT ONLY (where interesting values lie): (L, EL, EU, U) of n identical 1:1 battery/inverter pairs."""
    b, i = d["bat"], d["inv"]
    lo = max(Fraction(b["il"]), Fraction(i["il"])) * n
    hi = min(Fraction(b["iu"]), Fraction(i["iu"])) * n
    el = min(Fraction(b["el"]), Fraction(i["el"])) * n
    eu = max(Fraction(b["eu"]), Fraction(i["eu"])) * n
    return lo, el, eu, hi


def _near(rng: random.Random, anchors: list[Fraction]) -> Fraction:
    return rng.choice(anchors) + rng.choice([0, 0, 0, 0, Fraction(1, 2), -Fraction(1, 2), 1, -1, 10, -10, 100, -100])


def gen_scenario(rng: random.Random) -> dict:
    two = rng.random() < 0.3
    sizes = [rng.choice([1, 2, 2, 2, 4])] + ([rng.choice([1, 2])] if two else [])
    extra = 0 if two else rng.choice([0, 1, 1])
    groups = [{"n": n, "data": _data(rng)} for n in sizes]
    ids_none = (not two) and extra == 0 and rng.random() < 0.6
    layout = rng.random()
    pools: list[dict] = []
    for g in range(len(groups)):
        k = rng.choice([1, 2, 2, 3, 3, 4]) if g == 0 else rng.choice([1, 2])
        prios = rng.sample(range(1, 9), k)
        for j, pr in enumerate(prios):
            pools.append({"group": g, "prio": pr, "op": rng.random() < 0.4, "name": POOL_NAMES[len(pools)]})
        mine = [p for p in pools if p["group"] == g]
        if len(mine) >= 2 and layout < 0.12:        # two pools of one kind share a priority (C04 regime SharedPriority)
            mine[1]["prio"], mine[1]["op"] = mine[0]["prio"], mine[0]["op"]
        elif len(mine) >= 2 and layout < 0.24:      # an op pool and a regular pool use the same priority number
            mine[1]["prio"], mine[1]["op"] = mine[0]["prio"], not mine[0]["op"]
    steps: list[dict] = []
    cur = [g["data"] for g in groups]
    aged = False
    for _ in range(rng.randint(4, 12)):
        r = rng.random()
        if r < 0.66:
            k = rng.randrange(len(pools))
            g = pools[k]["group"]
            lo, el, eu, hi = pool_bounds(cur[g], groups[g]["n"])
            anchors = sorted({lo, hi, el, eu, Fraction(0), lo / 2, hi / 2, lo + hi, 2 * hi, 2 * lo})
            m = rng.random()
            if m < 0.7:
                st = {"op": "propose", "pool": k, "method": "power",
                      "power": None if rng.random() < 0.15 else rat(_near(rng, anchors)), "lo": None, "hi": None}
                if rng.random() < 0.5:
                    a = None if rng.random() < 0.35 else _near(rng, anchors)
                    b = None if rng.random() < 0.35 else _near(rng, anchors)
                    if a is not None and b is not None and a > b and rng.random() < 0.85:
                        a, b = b, a
                    st["lo"], st["hi"] = rat(a), rat(b)
            else:
                st = {"op": "propose", "pool": k, "method": "charge" if m < 0.85 else "discharge",
                      "power": None if rng.random() < 0.1 else rat(abs(_near(rng, anchors)))}
            steps.append(st)
        elif r < 0.86:
            g = rng.randrange(len(groups))
            cur[g] = _change(rng, cur[g])
            steps.append({"op": "data", "group": g, "data": cur[g]})
        else:
            secs = rng.choice([1, 2, 30, 59, 60, 61, 62, 65, 120])
            aged |= secs > 60
            steps.append({"op": "advance", "secs": secs})
    if not aged and rng.random() < 0.35 and steps:
        # let everything expire, then trigger a recomputation by new bounds
        g = rng.randrange(len(groups))
        cur[g] = _change(rng, cur[g])
        steps += [{"op": "advance", "secs": rng.choice([61, 62, 90])}, {"op": "data", "group": g, "data": cur[g]}]
    return {"stage": STAGE, "groups": groups, "extra": extra, "ids_none": ids_none, "pools": pools, "steps": steps}


# --------------------------------------------------------------------------- the real stack
class _Cfg:
    def getini(self, _name: str) -> bool:
        return False


def _pw(x: Any):
    from frequenz.quantities import Power

    return None if x is None else Power.from_watts(float(Fraction(x)))


def _w(p: Any) -> str | None:
    return None if p is None else rat(p.as_watts())


def _b(b: Any) -> list | None:
    return None if b is None else [_w(b.lower), _w(b.upper)]


async def _drive(sc: dict) -> dict:
    from datetime import datetime, timedelta, timezone
    from unittest.mock import MagicMock

    from frequenz.sdk import microgrid, timeseries
    from frequenz.sdk.actor import ResamplerConfig
    from frequenz.sdk.microgrid import _power_distributing as pd
    from frequenz.sdk.microgrid._power_distributing import ComponentPoolStatus
    from frequenz.sdk.microgrid._power_distributing._component_pool_status_tracker import ComponentPoolStatusTracker
    from pytest_mock import MockerFixture
    from tests.timeseries.mock_microgrid import MockMicrogrid
    from tests.utils.component_data_streamer import MockComponentDataStreamer
    from tests.utils.component_data_wrapper import BatteryDataWrapper, InverterDataWrapper

    loop = asyncio.get_running_loop()
    log: list[dict] = []

    def now() -> str:
        return rat(Fraction(loop.time()))

    async def until(t: Fraction) -> None:
        d = float(t) - loop.time()
        assert d > 0, (t, loop.time())
        await asyncio.sleep(d)

    mocker = MockerFixture(_Cfg())
    mg = MockMicrogrid()
    total = sum(g["n"] for g in sc["groups"]) + sc.get("extra", 0)
    mg.add_batteries(total)
    await mg.start(mocker)
    dp_mod = microgrid._data_pipeline  # pylint: disable=protected-access
    dp_mod._DATA_PIPELINE = None
    await dp_mod.initialize(ResamplerConfig(resampling_period=timedelta(seconds=0.1)))
    streamer = MockComponentDataStreamer(mg.mock_client)
    dp = dp_mod._DATA_PIPELINE
    tracker = MagicMock(spec=ComponentPoolStatusTracker)
    tracker.get_working_components.side_effect = set
    mocker.patch("frequenz.sdk.microgrid._power_distributing._component_managers._battery_manager"
                 ".ComponentPoolStatusTracker", return_value=tracker)
    await dp._battery_power_wrapper.status_channel.new_sender().send(
        ComponentPoolStatus(working=set(mg.battery_ids), uncertain=set()))

    # batteries -> groups
    bats_of: list[list[int]] = []
    at = 0
    for g in sc["groups"]:
        bats_of.append(mg.battery_ids[at: at + g["n"]])
        at += g["n"]
    group_of_inv = {mg.bat_inv_map[b]: gi for gi, bs in enumerate(bats_of) for b in bs}
    rest = mg.battery_ids[at:]

    async def set_power(inv_id: int, power: float) -> None:
        log.append({"k": "set", "g": group_of_inv.get(inv_id), "inv": inv_id, "t": now(), "p": rat(power)})

    microgrid.connection_manager.get().api_client.set_power.side_effect = set_power

    def stream(bat_ids: list[int], d: dict, start: bool) -> None:
        ts = datetime.now(tz=timezone.utc)
        fl = {c: {k: float(Fraction(v)) for k, v in d[c].items()} for c in ("bat", "inv")}
        for b in bat_ids:
            bd = BatteryDataWrapper(b, ts, soc=50.0, soc_lower_bound=10.0, soc_upper_bound=90.0, capacity=2000.0,
                                    power_inclusion_lower_bound=fl["bat"]["il"], power_exclusion_lower_bound=fl["bat"]["el"],
                                    power_exclusion_upper_bound=fl["bat"]["eu"], power_inclusion_upper_bound=fl["bat"]["iu"])
            iv = InverterDataWrapper(mg.bat_inv_map[b], ts,
                                     active_power_inclusion_lower_bound=fl["inv"]["il"],
                                     active_power_exclusion_lower_bound=fl["inv"]["el"],
                                     active_power_exclusion_upper_bound=fl["inv"]["eu"],
                                     active_power_inclusion_upper_bound=fl["inv"]["iu"])
            if start:
                streamer.start_streaming(bd, STREAM_PERIOD)
                streamer.start_streaming(iv, STREAM_PERIOD)
            else:
                streamer.update_stream(bd)
                streamer.update_stream(iv)

    tasks: list[asyncio.Task] = []
    latest: dict[int, Any] = {}
    try:
        await until(T_STREAM0)
        for gi, g in enumerate(sc["groups"]):
            stream(bats_of[gi], g["data"], True)
        if rest:
            stream(rest, {"bat": {"il": "-700", "iu": "700", "el": "0", "eu": "0"},
                          "inv": {"il": "-700", "iu": "700", "el": "0", "eu": "0"}}, True)

        await until(T_POOLS)
        pools = []
        for p in sc["pools"]:
            ids = None if sc.get("ids_none") else set(bats_of[p["group"]])
            pools.append(microgrid.new_battery_pool(priority=p["prio"], component_ids=ids, name=p["name"],
                                                    set_operating_point=p["op"]))

        async def reader(entry: dict, rx: Any, conv: Any, keep: int | None = None) -> None:
            async for msg in rx:
                if keep is not None:
                    latest[keep] = msg
                log.append({**entry, "t": now(), **conv(msg)})

        def conv_rep(m: Any) -> dict:
            return {"target": _w(m.target_power), "bounds": _b(m.bounds)}

        def conv_sb(m: Any) -> dict:
            return {"incl": _b(m.inclusion_bounds), "excl": _b(m.exclusion_bounds)}

        def conv_res(m: Any) -> dict:
            kind = ("success" if isinstance(m, pd.Success) else "partial" if isinstance(m, pd.PartialFailure)
                    else "oob" if isinstance(m, pd.OutOfBounds) else "error")
            return {"kind": kind, "req": _w(m.request.power), "succeeded": _w(getattr(m, "succeeded_power", None)),
                    "ids": sorted(m.request.component_ids)}

        await until(T_SUBSCRIBE)
        for k, pool in enumerate(pools):
            tasks.append(asyncio.create_task(reader({"k": "rep", "pool": k}, pool.power_status.new_receiver(limit=500),
                                                    conv_rep, keep=k)))
        for gi in range(len(sc["groups"])):
            mine = [k for k, p in enumerate(sc["pools"]) if p["group"] == gi]
            if not mine:
                continue
            tasks.append(asyncio.create_task(reader(
                {"k": "res", "g": gi}, pools[mine[0]].power_distribution_results.new_receiver(limit=500), conv_res)))
            observer = microgrid.new_battery_pool(priority=-(2 ** 40), component_ids=set(bats_of[gi]), name="zz-observer")
            tasks.append(asyncio.create_task(reader(
                {"k": "sb", "g": gi}, observer._system_power_bounds.new_receiver(limit=500), conv_sb)))  # noqa: SLF001

        times = step_times(sc)
        for i, st in enumerate(sc["steps"]):
            await until(times[i])
            entry: dict = {"k": "step", "i": i, "t": now()}
            log.append(entry)
            if st["op"] == "propose":
                pool = pools[st["pool"]]
                x = psc_power(st)
                rep = latest.get(st["pool"])
                if x is not None and rep is not None:
                    entry["adjust"] = [_w(v) for v in rep.adjust_to_bounds(_pw(x))]
                    entry["seen"] = conv_rep(rep)
                try:
                    if st["method"] == "power":
                        if st["lo"] is None and st["hi"] is None and st.get("default_bounds", True):
                            await pool.propose_power(_pw(st["power"]))
                        else:
                            await pool.propose_power(_pw(st["power"]),
                                                     bounds=timeseries.Bounds(_pw(st["lo"]), _pw(st["hi"])))
                    elif st["method"] == "charge":
                        await pool.propose_charge(_pw(st["power"]))
                    else:
                        await pool.propose_discharge(_pw(st["power"]))
                except ValueError as exc:
                    entry["raised"] = type(exc).__name__
            elif st["op"] == "data":
                stream(bats_of[st["group"]], st["data"], False)
        await until(times[-1])
    finally:
        for t in tasks:
            t.cancel()
        await asyncio.gather(*tasks, return_exceptions=True)
        await asyncio.gather(dp._stop(), streamer.stop(), mg.cleanup())
        mocker.stopall()
        dp_mod._DATA_PIPELINE = None
    return {"log": log, "bats": bats_of, "invs": [[mg.bat_inv_map[b] for b in bs] for bs in bats_of]}


def run_scenario(sc: dict) -> dict:
    import async_solipsism

    loop = async_solipsism.EventLoop()
    try:
        asyncio.set_event_loop(loop)
        return loop.run_until_complete(_drive(sc))
    finally:
        asyncio.set_event_loop(None)
        loop.close()


# --------------------------------------------------------------------------- trace -> events of Drivers/PowerManager.lean
def group_view(sc: dict, trace: dict, g: int) -> dict:
    """Split the trace of one component group into the manager's events.

    Every event = {"ev": model event, "slot": step index or -1, "t", "reports": {pool: [report, …]},
    "sets": [...], "res": result entry | None (for result events), "req": requested power | None}.
    Log order is causal (everything runs on one loop; readers are woken in send order), ticks of the 1 s
    drop timer (started with the actors at T_POOLS) are merged in by time.
    """
    pools = sc["pools"]
    mine = [k for k, p in enumerate(pools) if p["group"] == g]
    times = step_times(sc)
    events: list[dict] = []
    anomalies: list[str] = []
    tick = T_POOLS + 1
    cur: dict | None = None
    requester: dict | None = None
    slot = -1

    def flush(upto: Fraction) -> None:
        nonlocal tick
        while tick < upto:
            events.append({"ev": {"ev": "drop", "now": rat(tick)}, "slot": slot, "t": tick, "reports": {}, "sets": [],
                           "req": None})
            tick += 1
        if tick == upto:
            anomalies.append(f"a harness action coincides with the drop timer at {upto}")

    def new_event(ev: dict, t: Fraction, **kw: Any) -> dict:
        e = {"ev": ev, "slot": slot, "t": t, "reports": {}, "sets": [], "req": None, **kw}
        events.append(e)
        return e

    for e in trace["log"]:
        t = Fraction(e["t"])
        k = e["k"]
        if k == "step":
            flush(t)
            slot = e["i"]
            st = sc["steps"][slot]
            if st["op"] == "propose" and st["pool"] in mine and "raised" not in e:
                p = pools[st["pool"]]
                x = psc_power(st)
                cur = new_event({"ev": "proposal", "op": p["op"],
                                 "p": {"prio": p["prio"], "src": p["name"], "pref": rat(x),
                                       "lo": st.get("lo"), "hi": st.get("hi"), "created": rat(times[slot])}}, t)
                requester = cur
            continue
        if e.get("g", pools[e["pool"]]["group"] if k == "rep" else None) != g:
            continue
        flush(t)
        if k == "sb":
            cur = new_event({"ev": "bounds", "sb": {"incl": e["incl"], "excl": e["excl"]}}, t)
            requester = cur
        elif k == "res":
            if requester is not None and requester["req"] is None:
                requester["req"] = e["req"]
            else:
                anomalies.append(f"result at {t} without a requesting event")
            kind = {"success": "success", "partial": "partial"}.get(e["kind"], "error")
            cur = new_event({"ev": "result", "kind": kind}, t, res=e)
            if kind == "partial":
                requester = cur
        elif k == "rep":
            if cur is None:
                anomalies.append(f"report at {t} before any event")
            else:
                cur["reports"].setdefault(e["pool"], []).append(e)
        elif k == "set":
            if requester is None:
                anomalies.append(f"set_power at {t} without a requesting event")
            else:
                requester["sets"].append(e)
    flush(times[-1])
    return {"events": events, "anomalies": anomalies, "pools": mine}


def kinds_at(sc: dict, g: int) -> dict[int, list[bool]]:
    """priority -> kinds (True = operating point) subscribed on that priority's report channel, in send order (op first)."""
    out: dict[int, set[bool]] = {}
    for p in sc["pools"]:
        if p["group"] == g:
            out.setdefault(p["prio"], set()).add(p["op"])
    return {pr: sorted(ks, reverse=True) for pr, ks in out.items()}


def split_round(sc: dict, g: int, ev: dict, anomalies: list[str]) -> dict[tuple[bool, int], dict]:
    """One `_send_reports` round -> {(is_op, priority): report}.  A report channel is named by component ids and
    priority only, so an op pool and a regular pool with the same priority read BOTH reports (op first)."""
    kinds = kinds_at(sc, g)
    out: dict[tuple[bool, int], dict] = {}
    for k, p in enumerate(sc["pools"]):
        if p["group"] != g:
            continue
        msgs = ev["reports"].get(k, [])
        ks = kinds[p["prio"]]
        if len(ks) == 2 and len(msgs) == 1:
            ks = [p["op"]]   # (a tree whose report channels are separated by kind)
        if len(msgs) != len(ks):
            anomalies.append(f"pool {k} received {len(msgs)} reports in one round at {ev['t']}, expected {len(ks)}")
            continue
        for is_op, m in zip(ks, msgs):
            r = {"target": m["target"], "bounds": m["bounds"]}
            if out.setdefault((is_op, p["prio"]), r) != r:
                anomalies.append(f"readers of priority {p['prio']} disagree at {ev['t']}")
    return out


def model_case(sc: dict, g: int, view: dict) -> tuple[dict, dict]:
    """(input of Drivers/PowerManager.lean, the implementation's outputs in the driver's output format)."""
    kinds = kinds_at(sc, g)
    reg_prios = sorted(pr for pr, ks in kinds.items() if False in ks)
    op_prios = sorted(pr for pr, ks in kinds.items() if True in ks)
    case = {"prios": sorted(kinds), "regPrios": reg_prios, "opPrios": op_prios,
            "events": [e["ev"] for e in view["events"]]}
    outs = []
    reg_t = op_t = None
    anomalies = list(view["anomalies"])
    for e in view["events"]:
        if e["ev"]["ev"] == "drop":
            outs.append({"req": None, "reg": reg_t, "op": op_t, "regRep": None, "opRep": None})
            continue
        rnd = split_round(sc, g, e, anomalies)
        regs = [rnd.get((False, pr)) for pr in reg_prios]
        ops = [rnd.get((True, pr)) for pr in op_prios]
        if regs and regs[0] is not None:
            reg_t = regs[0]["target"]
        if ops and ops[0] is not None:
            op_t = ops[0]["target"]
        for r in regs:
            if r is not None and r["target"] != reg_t:
                anomalies.append(f"regular reports of one round carry different targets at {e['t']}")
        for r in ops:
            if r is not None and r["target"] != op_t:
                anomalies.append(f"op reports of one round carry different targets at {e['t']}")
        outs.append({"req": e["req"], "reg": reg_t, "op": op_t,
                     "regRep": [None if r is None else r["bounds"] for r in regs],
                     "opRep": [None if r is None else r["bounds"] for r in ops]})
    impl: dict = {"out": outs}
    if anomalies:
        impl["anomalies"] = sorted(set(anomalies))[:5]
    return case, impl
