"""C19 — formulas switch to fallback components when a primary fails, and return to the primary.

Real code under test: `MetricFetcher` (`_fetch_next`, `fetch_next_with_fallback`, `_synchronize_and_fetch_fallback`)
with (a) a scripted fake `FallbackMetricFetcher` (a lazily created `Broadcast` receiver, can be closed) and (b) the
real `FallbackFormulaMetricFetcher` over a generator that builds a real `FormulaEngine` summing 1-2 fallback
component channels; driven either directly (`fetch_next()` in a loop, one call per credit) or inside a real
`FormulaEngine` for the formula `#p + #b` (`#b` = a plain second term whose deliveries are the credits).

A case = {"drive": "fetcher"|"engine", "fb": 0 (fake) | 1 | 2 (real, that many components),
          "p0" (tick of round 0), "t0us", "stepus", "events": [["P",tick,val] | ["cP"] | ["F",tick,[val,…]] | ["cF"] | ["B",tick]]}
       | {"drive": "pvpool", "meters": 2|3, "script": [{"m": [meter values], "i": [inverter values], "order": "mi"|"im"}]}
         (full stack: `microgrid.new_pv_pool().power` over the repo's MockMicrogrid — real PVPowerFormula fallback
         generator / `_get_metric_fallback_components`, lock-step; oracle only, not replayed on the model)
       | {"drive": "genfb", "topo": "A"|"B", "formula": grid_power|grid_reactive_power|consumer_power|producer_power|
          pv_power|battery_power, "ticks": n, "missing": {primary meter id: [ticks]}}
         (full stack: the real generator of every formula that has fallbacks, through the real FormulaEnginePool over a
         component graph and a stand-in resampling actor; ACTIVE and REACTIVE power carry different encodings; oracle only)
After every event the loop is settled.  Observed: the result of every `fetch_next()` of the term with the fallback
([tick,val] | "None" | "<ErrorClass>"), `fallback.is_running` at the end, and in engine mode the formula outputs.

Oracle (independent of the Lean model; literal reading of the property):
  started      the fallback is running once the round that saw the first failure (invalid sample or closed
               primary) has completed;
  same-ts      a returned sample of round k carries the timestamp of round k (= the tick every other term of the
               formula is at);
  primary      a valid primary sample is returned as is (also after a recovery);
  fallback     outside the start-up window [r, max(r, f-1)] (r = tick of the first failure, f = first fallback tick
               delivered after the fallback was started) an invalid/absent primary is replaced by the fallback
               sample of the same tick;
  dropped      a round is dropped (None / exception) only at r when the first failure is a closed stream, or when
               both sources are dead;
  formula      (engine mode) every output stamped T equals src(T) + b(T) with src(T) the primary or fallback sample
               stamped T, and every tick outside the start-up window with a valid source is emitted with the true value.
Regime `PrimaryStreamError` (input-only): the primary is closed at tick c while the fallback is not synchronised to
tick c-1 — on the (fixed) code the fetcher then returns `fallback.receive()` unsynchronised.
"""
from __future__ import annotations

import asyncio
from fractions import Fraction
from typing import Any

from . import evaluator_gen as g
from .common import Ctx, python_flags, rat

RULE = ("event schedules (primary samples valid/None/NaN/+inf/-inf in runs, primary close at any tick, fallback component "
        "samples before/with/after the primary sample of the same tick, fallback close, credits of the second term "
        "with lag 0-4) x drive {fetch_next loop, FormulaEngine '#p + #b'} x fallback {fake receiver, real "
        "FallbackFormulaMetricFetcher over 1-2 component channels}; non-trivial = the primary fails at least once "
        "and the fallback delivers after that; plus lock-step fault scripts on microgrid.new_pv_pool().power over the "
        "repo's MockMicrogrid (real PVPowerFormula fallback generator); plus outage scripts of the primary meters on every "
        "generated formula with fallbacks (grid power, grid reactive power, consumer, producer, PV, battery) over two "
        "component graphs with metric-specific encodings; distinct by canonical JSON hash")

REGIME = "PrimaryStreamError"


# ------------------------------------------------------------------------------------------ real code
def _err_name(e: BaseException) -> str:
    from frequenz.channels import ReceiverError

    if isinstance(e, ReceiverError):
        return "ReceiverError"
    return type(e).__name__


async def _run_impl(case: dict) -> dict:
    fe = g.import_engine()
    from frequenz.channels import Broadcast
    from frequenz.quantities import Quantity
    from frequenz.sdk.timeseries.formula_engine._formula_generators._fallback_formula_metric_fetcher import (
        FallbackFormulaMetricFetcher,
    )
    from frequenz.sdk.timeseries.formula_engine._formula_steps import FallbackMetricFetcher, MetricFetcher

    grid = g.Grid(case["t0us"], case["stepus"])
    nfb = case["fb"]
    chan_p = Broadcast(name="P")
    chan_b = Broadcast(name="B")
    chans_f = [Broadcast(name=f"F{i}") for i in range(max(1, nfb))]

    class FakeFallback(FallbackMetricFetcher):  # type: ignore[type-arg]
        """Scripted fallback: a receiver on F0 created by start(); passes samples through unchanged."""

        def __init__(self) -> None:
            super().__init__()
            self._rx = None

        @property
        def name(self) -> str:
            return "fake"

        @property
        def is_running(self) -> bool:
            return self._rx is not None

        def start(self) -> None:
            self._rx = chans_f[0].new_receiver(limit=1000)

        async def ready(self) -> bool:
            assert self._rx is not None
            return await self._rx.ready()

        def consume(self):
            assert self._rx is not None
            return self._rx.consume()

    class Gen:
        """Stands in for a FormulaGenerator: sum of the fallback components, None counted as zero."""

        namespace = "fallback"

        def generate(self):
            b = fe.FormulaBuilder("fallback", Quantity)
            for i, c in enumerate(chans_f):
                if i:
                    b.push_oper("+")
                b.push_metric(f"#f{i}", c.new_receiver(limit=1000), nones_are_zeros=True)
            return b.build()

    fallback = FakeFallback() if nfb == 0 else FallbackFormulaMetricFetcher(Gen())
    results: list[Any] = []
    outputs: list[Any] = []
    engine = None
    task = None
    credits: asyncio.Queue = asyncio.Queue()
    stop: list[bool] = []

    def record(fetcher) -> None:
        orig = fetcher.fetch_next

        async def fetch_next():
            try:
                r = await orig()
            except asyncio.CancelledError:
                raise
            except BaseException as e:  # pylint: disable=broad-except
                if not stop:
                    results.append(_err_name(e))
                raise
            results.append("None" if r is None else g.canon_sample(grid, r))
            return r

        fetcher.fetch_next = fetch_next

    if case["drive"] == "engine":
        b = fe.FormulaBuilder("t", Quantity)
        b.push_metric("#p", chan_p.new_receiver(limit=1000), nones_are_zeros=False, fallback=fallback)
        b.push_oper("+")
        b.push_metric("#b", chan_b.new_receiver(limit=1000), nones_are_zeros=False)
        record(b._metric_fetchers["#p"])  # pylint: disable=protected-access
        engine = b.build()
        out_rx = engine.new_receiver(max_size=1000)
    else:
        fetcher = MetricFetcher("#p", chan_p.new_receiver(limit=1000), nones_are_zeros=False, fallback=fallback)
        record(fetcher)

        async def loop_fetch() -> None:
            while not stop:
                await credits.get()
                try:
                    await fetcher.fetch_next()
                except asyncio.CancelledError:
                    raise
                except BaseException:  # pylint: disable=broad-except
                    pass

        task = asyncio.create_task(loop_fetch())
        out_rx = None

    sp, sb = chan_p.new_sender(), chan_b.new_sender()
    sf = [c.new_sender() for c in chans_f]
    spinning = False
    await g.settle()
    for ev in case["events"]:
        k = ev[0]
        try:
            if k == "P":
                await sp.send(g.mk_sample(grid, ev[1], ev[2]))
            elif k == "cP":
                await chan_p.aclose()
            elif k == "F":
                for i, c in enumerate(sf):
                    await c.send(g.mk_sample(grid, ev[1], ev[2][i]))
            elif k == "cF":
                for c in chans_f:
                    await c.aclose()
            elif k == "B":
                if engine is not None:
                    await sb.send(g.mk_sample(grid, ev[1], b_value(ev[1])))
                else:
                    credits.put_nowait(1)
        except Exception:  # pylint: disable=broad-except  # sending on a closed channel
            pass
        if not await g.settle():
            spinning = True
        if out_rx is not None:
            while len(out_rx):
                outputs.append(g.canon_sample(grid, out_rx.consume()))
    running = bool(fallback.is_running)
    stop.append(True)
    if engine is not None:
        await engine._stop()  # pylint: disable=protected-access
        fb_engine = getattr(fallback, "_formula_engine", None)
        if fb_engine is not None:
            await fb_engine._stop()  # pylint: disable=protected-access
    stop.append(True)
    if task is not None:
        task.cancel()
    return {"rounds": results, "running": running, "outputs": outputs, "spinning": spinning}


def run_impl(case: dict) -> dict:
    return g.run_async(_run_impl(case))


def b_value(tick: int) -> int:
    """Value of the second term at a tick: a multiple of 4096, so sums decode uniquely."""
    return 4096 * (tick + 1)


# ------------------------------------------------------------------------------------------ full stack (PV pool)
async def _run_fullstack(case: dict) -> list:
    """`microgrid.new_pv_pool().power` over the repo's MockMicrogrid: real PVPowerFormula generator
    (`_get_metric_fallback_components`), real FallbackFormulaMetricFetcher, lock-step mock resampler."""
    from contextlib import AsyncExitStack

    from frequenz.sdk import microgrid
    from pytest_mock import MockerFixture
    from tests.timeseries.mock_microgrid import MockMicrogrid

    class _Cfg:  # MockerFixture only asks the config for `mock_use_standalone_module`
        def getini(self, _name: str) -> bool:
            return False

    mocker = MockerFixture(_Cfg())  # type: ignore[arg-type]
    outs: list = []
    try:
        mockgrid = MockMicrogrid(grid_meter=False, mocker=mocker)
        mockgrid.add_solar_inverters(case["meters"])
        async with mockgrid, AsyncExitStack() as stack:
            pool = microgrid.new_pv_pool(priority=5)
            stack.push_async_callback(pool.stop)
            rx = pool.power.new_receiver(max_size=1000)
            for tick in case["script"]:
                sends = {"m": mockgrid.mock_resampler.send_meter_power, "i": mockgrid.mock_resampler.send_pv_inverter_power}
                for which in tick["order"]:
                    await sends[which]([None if v is None else float(v) for v in tick[which]])  # "nan"/"inf"/"-inf" too
                    if tick.get("settle_between", True):
                        await g.settle()
                mockgrid.mock_resampler.next_ts()
                await g.settle()
                got = []
                while len(rx):
                    smp = rx.consume()
                    got.append(None if smp.value is None else rat(smp.value.as_watts()))
                outs.append(got)
    finally:
        mocker.stopall()
    return outs


def oracle_fullstack(ctx: Ctx, case: dict, outs: list) -> None:
    n = case["meters"]
    failed = [False] * n  # the meter has failed before this tick: its fallback is running
    for t, (tick, got) in enumerate(zip(case["script"], outs)):
        exp: Any = Fraction(0)
        for m in range(n):
            mv, iv = tick["m"][m], tick["i"][m]
            if g.is_valid(mv):
                term: Any = Fraction(mv)
            elif failed[m]:
                term = Fraction(iv) if g.is_valid(iv) else Fraction(0)
            else:
                term = None  # start-up: the round of the first failure
            if term is None:
                exp = None
            elif exp is not None:
                exp += term
        for m in range(n):
            if not g.is_valid(tick["m"][m]):
                failed[m] = True
        if got != [None if exp is None else rat(exp)]:
            ctx.violation("fullstack", case, {"detail": f"tick {t}: pv_pool.power emitted {got}, expected "
                                                        f"{[None if exp is None else rat(exp)]}", "outputs": outs})
            return


def gen_fullstack(rng) -> dict:
    n = rng.choice([2, 2, 3])
    ticks = rng.randint(4, 10)
    mstate = [True] * n
    script = []
    for t in range(ticks):
        for m in range(n):
            if rng.random() < 0.3:
                mstate[m] = not mstate[m]
        bad = [None, None, "nan", "inf", "-inf"]  # every encoding of "no valid value"
        script.append({"m": [-(m + 1) * 4 if mstate[m] else rng.choice(bad) for m in range(n)],
                       "i": [-(m + 1) * 256 - t if rng.random() < 0.8 else rng.choice(bad) for m in range(n)],
                       "order": rng.choice(["mi", "im"]), "settle_between": rng.random() < 0.7})
    return {"drive": "pvpool", "meters": n, "script": script}


# ------------------------------------------------------------------------------------------ full stack (generated formulas)
# Every generated formula whose generator builds fallback formulas (grid power / grid REACTIVE power / consumer /
# producer / PV / battery power), built by the real `FormulaEnginePool` over a component graph, fed by a stand-in for the
# resampling actor that answers every `ComponentMetricRequest` (also the ones the lazily started fallback formulas send).
# Readings are physically consistent — a meter reads the sum of what is behind it (+ the site load at the grid meter) for
# EVERY metric — and active and reactive power carry different encodings (leaf c at tick t: active ±(1000·c + t),
# reactive 7·c − t), so a fallback formula built for another metric than the formula it backs gives visibly wrong numbers.
GENFB_TOPO: dict[str, dict] = {
    # GRID -> METER(2) -> two PV inverters: the grid meter is the primary of the inverters
    "A": {"comps": [(1, "GRID", None), (2, "METER", None), (3, "INVERTER", "SOLAR"), (4, "INVERTER", "SOLAR")],
          "conns": [(1, 2), (2, 3), (2, 4)], "load": [], "batteries": [], "primaries": [2]},
    # GRID -> grid METER(2, with the site load) -> PV meter(3)->inv, battery meter(5)->inv->battery, PV meter(8)->2 inv
    "B": {"comps": [(1, "GRID", None), (2, "METER", None), (3, "METER", None), (4, "INVERTER", "SOLAR"),
                    (5, "METER", None), (6, "INVERTER", "BATTERY"), (7, "BATTERY", None), (8, "METER", None),
                    (9, "INVERTER", "SOLAR"), (10, "INVERTER", "SOLAR")],
          "conns": [(1, 2), (2, 3), (3, 4), (2, 5), (5, 6), (6, 7), (2, 8), (8, 9), (8, 10)], "load": [2],
          "batteries": [7], "primaries": [3, 5, 8]},
}
GENFB_FORMULAS = {"grid_power": "ACTIVE_POWER", "grid_reactive_power": "REACTIVE_POWER", "consumer_power": "ACTIVE_POWER",
                  "producer_power": "ACTIVE_POWER", "pv_power": "ACTIVE_POWER", "battery_power": "ACTIVE_POWER"}


def genfb_reading(topo: str, cid: int, metric: str, t: int) -> int | None:
    """What component `cid` measures for `metric` at tick `t` (None: it has no such reading)."""
    tp = GENFB_TOPO[topo]
    kinds = {c: (cat, k) for c, cat, k in tp["comps"]}
    cat, k = kinds[cid]
    if cat == "INVERTER":
        if metric == "ACTIVE_POWER":
            return -(1000 * cid + t) if k == "SOLAR" else 1000 * cid + t
        return 7 * cid - t
    if cat == "METER":
        tot = sum(genfb_reading(topo, b, metric, t) or 0 for a, b in tp["conns"]
                  if a == cid and kinds[b][0] in ("METER", "INVERTER"))
        if cid in tp["load"]:
            tot += (50000 + 3 * t) if metric == "ACTIVE_POWER" else (11 + 2 * t)
        return tot
    return None


def genfb_truth(topo: str, formula: str, t: int) -> int:
    """The physical quantity the formula stands for, OF ITS OWN METRIC, at tick `t` (whichever of the primary meters or
    their fallback components it is computed from)."""
    tp = GENFB_TOPO[topo]
    metric = GENFB_FORMULAS[formula]
    leaves = [(c, k) for c, cat, k in tp["comps"] if cat == "INVERTER"]
    if formula in ("grid_power", "grid_reactive_power"):
        return genfb_reading(topo, 2, metric, t) or 0
    if formula in ("pv_power", "producer_power"):
        return sum(genfb_reading(topo, c, metric, t) or 0 for c, k in leaves if k == "SOLAR")
    if formula == "battery_power":
        return sum(genfb_reading(topo, c, metric, t) or 0 for c, k in leaves if k == "BATTERY")
    return (50000 + 3 * t) if tp["load"] else 0  # consumer_power: the site load


async def _run_genfb(case: dict) -> dict:
    from datetime import datetime, timedelta, timezone
    from types import SimpleNamespace

    g.import_engine()
    from frequenz.channels import Broadcast
    from frequenz.client.microgrid import Component, ComponentCategory, Connection, InverterType
    from frequenz.quantities import Quantity
    from frequenz.sdk._internal._channels import ChannelRegistry
    from frequenz.sdk.microgrid import connection_manager
    from frequenz.sdk.microgrid.component_graph import _MicrogridComponentGraph
    from frequenz.sdk.timeseries import Sample
    from frequenz.sdk.timeseries.formula_engine import _formula_generators as fg
    from frequenz.sdk.timeseries.formula_engine._formula_engine_pool import FormulaEnginePool
    from frequenz.sdk.timeseries.formula_engine._formula_generators._formula_generator import FormulaGeneratorConfig

    tp = GENFB_TOPO[case["topo"]]
    t0 = datetime(2024, 1, 1, tzinfo=timezone.utc)
    graph = _MicrogridComponentGraph(
        components={Component(c, getattr(ComponentCategory, cat), getattr(InverterType, k) if k else None)
                    for c, cat, k in tp["comps"]},
        connections={Connection(a, b) for a, b in tp["conns"]})
    old = connection_manager._CONNECTION_MANAGER  # pylint: disable=protected-access
    connection_manager._CONNECTION_MANAGER = SimpleNamespace(component_graph=graph)  # type: ignore[assignment]
    try:
        registry = ChannelRegistry(name="c19")
        requests: Any = Broadcast(name="resampler-requests")
        req_rx = requests.new_receiver()
        subs: dict[str, Any] = {}

        async def actor() -> None:
            async for req in req_rx:
                name = req.get_channel_name()
                if name not in subs:
                    subs[name] = (req, registry.get_or_create(Sample[Quantity], name).new_sender())

        task = asyncio.create_task(actor())
        pool = FormulaEnginePool("c19", registry, requests.new_sender())
        gens = {"grid_power": fg.GridPowerFormula, "grid_reactive_power": fg.GridReactivePowerFormula,
                "consumer_power": fg.ConsumerPowerFormula, "producer_power": fg.ProducerPowerFormula,
                "pv_power": fg.PVPowerFormula, "battery_power": fg.BatteryPowerFormula}
        f = case["formula"]
        if f == "grid_reactive_power":
            eng = pool.from_reactive_power_formula_generator(f, gens[f])
        elif f == "battery_power":
            eng = pool.from_power_formula_generator(f, gens[f], FormulaGeneratorConfig(component_ids=set(tp["batteries"])))
        else:
            eng = pool.from_power_formula_generator(f, gens[f])
        has_fb: dict[str, bool] = {}
        try:  # which terms the generator gave a fallback (a fact about how the formula was built)
            for name, fetcher in eng._builder._metric_fetchers.items():  # pylint: disable=protected-access
                has_fb["".join(ch for ch in name if ch.isdigit())] = fetcher._fallback is not None
        except AttributeError:
            has_fb = {}
        out = eng.new_receiver(max_size=1000)
        await g.settle()
        outs: list = []
        for t in range(case["ticks"]):
            for req, sender in list(subs.values()):
                if t in case["missing"].get(str(req.component_id), []):
                    # how the missing reading is encoded: None (default) or the floats "nan" / "inf" / "-inf"
                    v: Any = case.get("missing_as", {}).get(str(req.component_id))
                else:
                    v = genfb_reading(case["topo"], req.component_id, req.metric_id.name, t)
                await sender.send(Sample(t0 + timedelta(seconds=t), None if v is None else Quantity(float(v))))
            await g.settle()
            got = []
            while len(out):
                smp = out.consume()
                got.append([int((smp.timestamp - t0).total_seconds()),
                            None if smp.value is None else rat(smp.value.base_value)])
            outs.append(got)
        await pool.stop()
        task.cancel()
        return {"outputs": outs, "has_fallback": has_fb, "formula_text": str(eng),
                "subscribed": sorted(f"{r.component_id}:{r.metric_id.name}" for r, _ in subs.values())}
    finally:
        connection_manager._CONNECTION_MANAGER = old  # pylint: disable=protected-access


def oracle_genfb(ctx: Ctx, case: dict, obs: dict) -> None:
    """value     every emitted sample of tick T is stamped T and a non-None value is the physical quantity OF THE
                 FORMULA'S OWN METRIC at T — with a primary meter missing that is the sum of its fallback components'
                 samples of that metric at the same tick;
       live      a tick is emitted, and with a value, unless a missing primary has no fallback in this formula or is in
                 its start-up window (the tick of its first failure and the next one)."""
    topo, f = case["topo"], case["formula"]
    first_missing = {c: min(ts) for c, ts in case["missing"].items() if ts}
    for t, got in enumerate(obs["outputs"]):
        if len(got) != 1 or got[0][0] != t:
            ctx.violation("genfb-live", case, {"detail": f"tick {t}: emitted {got}, expected one sample stamped {t}", **obs})
            return
        val = got[0][1]
        want = rat(Fraction(genfb_truth(topo, f, t)))
        if val is not None and val != want:
            ctx.violation("genfb-value", case, {"detail": f"tick {t}: {f} = {val}, but the {GENFB_FORMULAS[f]} quantity is "
                                                          f"{want} (primary meters missing: "
                                                          f"{[c for c, ts in case['missing'].items() if t in ts]})", **obs})
            return
        if val is None and obs["has_fallback"]:
            excused = any(t in ts and (not obs["has_fallback"].get(c, False) or t <= first_missing[c] + 1)
                          for c, ts in case["missing"].items())
            if not excused:
                ctx.violation("genfb-live", case, {"detail": f"tick {t}: {f} has no value although every missing primary "
                                                             f"has a fallback that is past its start-up", **obs})
                return


def gen_genfb(rng) -> dict:
    topo = rng.choice(["A", "A", "B"])
    formula = rng.choice([f for f in GENFB_FORMULAS if not (topo == "A" and f == "battery_power")])
    ticks = rng.randint(6, 11)
    missing: dict[str, list[int]] = {}
    for c in GENFB_TOPO[topo]["primaries"]:
        if rng.random() < 0.85:
            a = rng.randint(1, ticks - 3)
            b = rng.randint(a + 2, ticks)
            ts = list(range(a, b))
            if rng.random() < 0.3 and b + 1 < ticks:  # a second outage after a recovery
                ts += list(range(b + 1, ticks))
            missing[str(c)] = ts
    missing_as = {c: rng.choice([None, None, "nan", "inf", "-inf"]) for c in missing}
    return {"drive": "genfb", "topo": topo, "formula": formula, "ticks": ticks, "missing": missing,
            "missing_as": missing_as}


# ------------------------------------------------------------------------------------------ the model's view
def fb_output(vals: list[Any], nfb: int) -> Any:
    """What the fallback source emits for one tick: the fake passes the value through, the real fallback formula
    sums its components counting None/NaN/inf as zero."""
    if nfb == 0:
        return rat(Fraction(vals[0])) if g.is_valid(vals[0]) else None
    return rat(sum(Fraction(v) for v in vals[:nfb] if g.is_valid(v)))


def model_case(case: dict) -> dict:
    evs = []
    for ev in case["events"]:
        if ev[0] == "P":
            evs.append(["P", ev[1], ev[2] if g.is_valid(ev[2]) else None])
        elif ev[0] == "F":
            evs.append(["F", ev[1], fb_output(ev[2], case["fb"])])
        elif ev[0] == "cF":
            if case["fb"] == 0:
                evs.append(["cF"])
            # closing the component channels of a real fallback formula only stalls it: no event for the model
        elif ev[0] == "B":
            evs.append(["req"])
        else:
            evs.append([ev[0]])
    return {"credits0": 1 if case["drive"] == "engine" else 0, "events": evs}


# ------------------------------------------------------------------------------------------ oracle
def analyse(case: dict) -> dict:
    """Input-only facts: primary script, first failure r, close tick c, start position, first fallback tick f."""
    evs = case["events"]
    prim: list[tuple[int, Any]] = []
    pos_p: list[int] = []
    closed_pos = None
    for i, ev in enumerate(evs):
        if ev[0] == "P" and closed_pos is None:
            prim.append((ev[1], ev[2]))
            pos_p.append(i)
        elif ev[0] == "cP" and closed_pos is None:
            closed_pos = i
    p0 = case["p0"]
    n_p = len(prim)
    credits0 = 1 if case["drive"] == "engine" else 0
    pos_c = [-1] * credits0 + [i for i, ev in enumerate(evs) if ev[0] == "B"]
    # first failure (round index)
    r = next((k for k, (_, v) in enumerate(prim) if not g.is_valid(v)), None)
    if r is None and closed_pos is not None:
        r = n_p
    c = n_p if closed_pos is not None else None
    # completion position of rounds 0..r (they never touch the fallback)
    start_pos = None
    if r is not None:
        done = -1
        ok = True
        for k in range(r + 1):
            pp = pos_p[k] if k < n_p else closed_pos
            if pp is None or k >= len(pos_c):
                ok = False
                break
            done = max(done, pp, pos_c[k])
        if ok:
            start_pos = done
    # fallback as seen after the start
    fb: dict[int, Any] = {}
    f = None
    fb_closed = False
    fb_closed_before_start = False
    for i, ev in enumerate(evs):
        if ev[0] == "cF" and case["fb"] == 0:
            fb_closed = True
            if start_pos is None or i <= start_pos:
                fb_closed_before_start = True
        if ev[0] == "cF" and case["fb"] != 0:
            break  # the real fallback formula stalls for good
        if ev[0] == "F" and start_pos is not None and i > start_pos and not fb_closed:
            if f is None:
                f = ev[1]
            fb[ev[1]] = fb_output(ev[2], case["fb"])
    synced = None
    if c is not None and r is not None:
        # H: the fallback is synchronised to the last primary tick when the close is seen
        synced = f is None or ((r <= c - 2 and f <= p0 + c - 1)
                                 or (r == c - 1 and f == p0 + c)
                                 or (r == c and f == p0 + c + 1))
    return {"p0": p0, "prim": prim, "r": r, "c": c, "f": f, "fb": fb, "fb_closed": fb_closed,
            "fb_closed_before_start": fb_closed_before_start, "start_pos": start_pos, "synced": synced}


def oracle(ctx: Ctx, case: dict, obs: dict) -> dict:
    a = analyse(case)
    p0, prim, r, c, f, fb = a["p0"], a["prim"], a["r"], a["c"], a["f"], a["fb"]
    regime_err = REGIME if (c is not None and not a["synced"]) else None
    rounds = obs["rounds"]

    def viol(clause: str, detail: Any, rnd: int | None) -> None:
        # `rnd` = index of the round (= index of the formula output) the complaint is about
        reg = regime_err if (rnd is not None and c is not None and rnd >= c) else None
        ctx.violation(clause, case, {"detail": detail, "rounds": rounds, "outputs": obs["outputs"],
                                     "running": obs["running"], "analysis": {k: a[k] for k in ("r", "c", "f", "synced")}},
                      regime=reg)

    # started
    if r is not None and a["start_pos"] is not None and not obs["running"]:
        viol("started", f"first failure at round {r} was processed but the fallback is not running", None)
    for k, res in enumerate(rounds):
        t = p0 + k
        pv = prim[k][1] if k < len(prim) else None
        p_alive = k < len(prim)
        if isinstance(res, str) and res not in ("None", "ReceiverError"):
            viol("dropped", f"round {k} raised {res}", k)
            continue
        in_startup = r is not None and (k <= r or f is None or t < f)
        if isinstance(res, str):
            allowed = (c is not None and r == c and k == c) or (not p_alive and t not in fb)
            if not allowed:
                viol("dropped", f"round {k} (tick {t}) dropped with {res}", k)
            continue
        ts, val = res
        if ts != t:
            viol("same-ts", f"round {k}: returned timestamp {ts}, expected {t}", k)
            continue
        if p_alive and g.is_valid(pv):
            if val != rat(Fraction(pv)):
                viol("primary", f"round {k}: valid primary {pv} not returned (got {val})", k)
        elif not in_startup and t in fb:
            if val != fb[t]:
                viol("fallback", f"round {k}: expected fallback value {fb[t]} of tick {t}, got {val}", k)
        elif val is not None and not (t in fb and val == fb[t]):
            viol("fallback", f"round {k}: value {val} is neither the primary nor the fallback sample of tick {t}", k)
    # formula level
    if case["drive"] == "engine":
        seen: dict[int, Any] = {}
        prev = None
        for j, (ts, val) in enumerate(obs["outputs"]):
            if not isinstance(ts, int):
                viol("formula", f"output off the grid: {ts}", None)
                continue
            cands = set()
            k = ts - p0
            if 0 <= k < len(prim):
                cands.add(rat(Fraction(prim[k][1]) + b_value(ts)) if g.is_valid(prim[k][1]) else None)
            if ts in fb:
                cands.add(rat(Fraction(fb[ts]) + b_value(ts)) if fb[ts] is not None else None)
            if val not in cands:
                viol("formula", f"output ({ts},{val}) is not computed from the samples stamped {ts}", j)
            if prev is not None and ts <= prev:
                viol("formula", f"output timestamps not increasing: {prev} then {ts}", j)
            prev = ts
            seen.setdefault(ts, val)
        n_b = sum(1 for ev in case["events"] if ev[0] == "B")
        for k in range(min(len(rounds), n_b)):
            t = p0 + k
            pv = prim[k][1] if k < len(prim) else None
            in_startup = r is not None and (k <= r or f is None or t < f)
            true = None
            if k < len(prim) and g.is_valid(pv):
                true = Fraction(pv)
            elif not in_startup and fb.get(t) is not None:
                true = Fraction(fb[t])
            if true is not None and seen.get(t) != rat(true + b_value(t)):
                viol("formula", f"tick {t}: true value {rat(true + b_value(t))} not emitted (got {seen.get(t)})", k)
    return a


# ------------------------------------------------------------------------------------------ generator
def gen_case(rng, small: bool = False) -> dict:
    drive = rng.choice(["fetcher", "engine"])
    fbk = rng.choice([0, 0, 1, 2])
    n = rng.randint(3, 7 if small else 15)
    p0 = rng.choice([0, 0, 1, 3])
    stepus = rng.choice([1_000_000, 250_000, 1, 3_000_000])
    t0us = rng.choice([0, 500_000, 123_456_789])
    # primary script: runs of valid / invalid
    vals: list[Any] = []
    state_valid = rng.random() < 0.8
    for k in range(n):
        if rng.random() < 0.3:
            state_valid = not state_valid
        vals.append(1000 + p0 + k if state_valid else rng.choice([None, None, "nan", "inf", "-inf"]))
    close_at = rng.choice([None, None, rng.randint(0, n)])
    if close_at is not None:
        vals = vals[:close_at]
    if close_at == 0:
        # no apply() ever succeeded: the evaluator is still in its first run and would re-synchronise the term
        # itself (C06 machinery) — that case is driven at the fetcher level only
        drive = "fetcher"
    p_evs = [["P", p0 + k, v] for k, v in enumerate(vals)] + ([["cP"]] if close_at is not None else [])
    # fallback components deliver for every tick of a window around the primary's
    f_lo = p0 - rng.choice([0, 1, 2])
    f_hi = p0 + n + rng.choice([0, 1, 3])
    f_evs: list[Any] = []
    fvalid = True
    for t in range(f_lo, f_hi):
        if rng.random() < 0.2:
            fvalid = not fvalid
        comp = [(2000 + t) if (fvalid or rng.random() < 0.5) else rng.choice([None, "nan", "inf", "-inf"]) for _ in range(max(1, fbk))]
        if max(1, fbk) == 2:
            comp[1] = 64 * (t + 40) if g.is_valid(comp[1]) else comp[1]
        f_evs.append(["F", t, comp])
    if fbk == 0 and rng.random() < 0.15:
        f_evs.insert(rng.randint(0, len(f_evs)), ["cF"])
    b_evs = [["B", p0 + k] for k in range(n + rng.choice([0, 0, 1]))]
    style = rng.random()
    if style < 0.35:
        # lock-step per tick, order inside a tick shuffled; second term lagging by `lag` ticks
        lag = rng.choice([0, 0, 1, 2, 4])
        flag = rng.choice([0, 0, 1, -1, 2])
        evs: list[Any] = []
        pi = fi = bi = 0
        for t in range(f_lo - 2, f_hi + 6):
            group = []
            while pi < len(p_evs) and (p_evs[pi][0] == "cP" or p_evs[pi][1] <= t):
                group.append(p_evs[pi])
                pi += 1
            while fi < len(f_evs) and (f_evs[fi][0] == "cF" or f_evs[fi][1] <= t - flag):
                group.append(f_evs[fi])
                fi += 1
            while bi < len(b_evs) and b_evs[bi][1] <= t - lag:
                group.append(b_evs[bi])
                bi += 1
            # shuffle the group but keep per-stream order
            by = {"P": [e for e in group if e[0] in ("P", "cP")], "F": [e for e in group if e[0] in ("F", "cF")],
                  "B": [e for e in group if e[0] == "B"]}
            evs += g.interleave(rng, [by["P"], by["F"], by["B"]], burst=0.3)
    else:
        evs = g.interleave(rng, [p_evs, f_evs, b_evs], burst=rng.choice([0.2, 0.5, 0.8]))
    return {"drive": drive, "fb": fbk, "p0": p0, "t0us": t0us, "stepus": stepus, "events": evs}


def tags_of(case: dict, a: dict, obs: dict) -> tuple[list[str], bool]:
    tags = [f"drive:{case['drive']}", f"fb:{'fake' if case['fb'] == 0 else 'real' + str(case['fb'])}"]
    if a["r"] is None:
        tags.append("no-failure")
    else:
        tags.append("first-failure:" + ("close" if a["c"] is not None and a["r"] == a["c"] else "invalid"))
        if a["f"] is not None:
            d = a["f"] - (a["p0"] + a["r"])
            tags.append("fb-start-offset:" + ("<=0" if d <= 0 else "1" if d == 1 else ">=2"))
    if a["c"] is not None:
        tags.append("closed:" + ("synced" if a["synced"] else "unsynced"))
    if any(ev[0] == "cF" for ev in case["events"]):
        tags.append("fallback-closed")
    recovered = False
    seen_bad = False
    for _, v in a["prim"]:
        if not g.is_valid(v):
            seen_bad = True
        elif seen_bad:
            recovered = True
    if recovered:
        tags.append("primary-recovers")
    if obs.get("spinning"):
        tags.append("engine-spinning")
    nontrivial = a["r"] is not None and a["f"] is not None and len(obs["rounds"]) > a["r"] + 1
    return tags, nontrivial


def exhaustive_cases(max_ticks: int):
    """All valid/missing/closed patterns up to `max_ticks` ticks x fallback lag x second-term lag (lock-step)."""
    import itertools

    for n in range(1, max_ticks + 1):
        for pat in itertools.product("vm", repeat=n):
            for close in (False, True):
                for flag in (-1, 0, 1, 2):
                    for lag in (0, 1, 2):
                        for drive in ("fetcher", "engine"):
                            evs: list[Any] = []
                            for t in range(-1, n + 4):
                                grp = []
                                if 0 <= t < n:
                                    grp.append(["P", t, 1000 + t if pat[t] == "v" else None])
                                if t == n and close:
                                    grp.append(["cP"])
                                if 0 <= t - flag < n + 3:
                                    grp.append(["F", t - flag, [2000 + t - flag]])
                                if 0 <= t - lag < n + 1:
                                    grp.append(["B", t - lag])
                                evs += grp
                            yield {"drive": drive, "fb": 0, "p0": 0, "t0us": 0, "stepus": 1_000_000, "events": evs}


# ------------------------------------------------------------------------------------------ entry points
def check_case(ctx: Ctx, case: dict) -> tuple[dict, dict] | None:
    if case["drive"] == "pvpool":
        outs = g.run_async(_run_fullstack(case))
        oracle_fullstack(ctx, case, outs)
        ctx.case(case, tags=["drive:pvpool-fullstack", f"meters:{case['meters']}"],
                 nontrivial=any(not g.is_valid(v) for tick in case["script"] for v in tick["m"]))
        return None
    if case["drive"] == "genfb":
        obs = g.run_async(_run_genfb(case))
        oracle_genfb(ctx, case, obs)
        ctx.case(case, tags=["drive:generated-formula-fullstack", f"formula:{case['formula']}", f"topology:{case['topo']}"],
                 nontrivial=any(obs["has_fallback"].get(c, False) and ts for c, ts in case["missing"].items()))
        return None
    obs = run_impl(case)
    a = oracle(ctx, case, obs)
    tags, nontrivial = tags_of(case, a, obs)
    ctx.case(case, tags=tags, nontrivial=nontrivial)
    return model_case(case), {"rounds": obs["rounds"], "running": obs["running"]}


def run(ctx: Ctx) -> None:
    python_flags()
    ctx.rule = RULE
    n = ctx.budget(2500, 30000)
    cases, outs = [], []

    def one(case: dict) -> None:
        r = check_case(ctx, case)
        if r is not None:
            cases.append(r[0])
            outs.append(r[1])

    for case in g.load_corpus("C19"):
        one(case)
    for i in range(n):
        rng = ctx.subrng("case", i)
        one(gen_case(rng, small=i % 3 == 0))
    for i in range(ctx.budget(60, 600)):
        one(gen_fullstack(ctx.subrng("fullstack", i)))
    for i in range(ctx.budget(48, 480)):
        one(gen_genfb(ctx.subrng("genfb", i)))
    if ctx.tier == "thorough":
        for case in exhaustive_cases(4):
            one(case)
    ctx.compare("Fallback", cases, outs, what="fetch_next results per round + is_running")

    from . import datapath  # full-stack stage: the same property through the real sourcing -> resampling -> formula stack
    datapath.run_stage(ctx, {"C19-fallback"}, n_quick=40, n_thorough=600)


def replay(ctx: Ctx, data: dict) -> None:
    python_flags()
    case = data.get("case")
    if not case or ("events" not in case and "script" not in case and case.get("drive") != "genfb"):
        return run(ctx)
    r = check_case(ctx, case)
    if r is not None:
        ctx.compare("Fallback", [r[0]], [r[1]], what="fetch_next results per round + is_running")
