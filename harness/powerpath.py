"""Full-stack stage "power path" of the checks C03 / C04 / C11 / C17  (see `powerpath_gen.py` for what runs).

`run_stage(ctx, clauses, n_quick, n_thorough)` runs the corpus (corpus/powerpath/*.json) and generated scenarios on
the REAL stack through the public pool API, judges the clauses named in `clauses`, and compares every component
group's event history with the Lean model of the power manager (`ctx.compare("PowerManager", …)`).

Oracle clauses (written from properties.jsonl, independent of the Lean model; G = one set of batteries, "kind" =
regular / operating-point actors; "advertised" = the SystemBounds streamed by a battery pool over G):
  C03-envelope  every BatteryPoolReport: its target is zero or outside the advertised exclusion zone; the report of the
                highest-priority pool of a kind carries that kind's system inclusion bounds and the target lies inside
                them; the op target and the total (regular + op target) lie inside the advertised inclusion bounds.
  C03-expiry    once every proposal of a kind is older than the maximum age (> 61 s, the drop timer has 1 s granularity)
                and something triggers a recomputation, that kind's reported target is zero.
  C03-history   the same live proposals and the same component data give the same reported targets when the proposals
                arrive afresh in another order, before or after the data reached its final value (metamorphic re-runs).
  C04-report    a pool proposes x (propose_power / propose_charge(x) = +x / propose_discharge(x) = -x) after
                `adjust_to_bounds(x)` of the latest report on its `power_status` receiver returned (x, x), higher
                priorities are conflict-free and no lower priority of its kind states a preference  =>  the next
                reported target of its kind is x.   regime "SharedPriority": a peer of the same kind and priority.
                (A pool of the OTHER kind with the same priority number is NOT a regime: before 64bd19f both read one
                report channel and the op pool was shown the regular actors' bounds.)
  C11-sum       every request the manager sends (`Result.request`) = reported regular target + reported op target and lies
                in the advertised inclusion bounds; a request answered Success is handed to the inverters unchanged
                (sum of its set_power calls, sum of the latest set_power per inverter after the step settled).
  C17-accept    a non-zero request inside the advertised inclusion bounds and outside the advertised exclusion zone is
                never answered with OutOfBounds.
Observation (outside the 20 properties, counted in the evidence, never a violation): the SUM of an op target and a
regular target may fall inside the exclusion zone; the distributor then answers OutOfBounds and sets nothing.
"""
from __future__ import annotations

import json
import pathlib
import random
import subprocess
from fractions import Fraction
from typing import Any

from . import powerpath_gen as pg
from .common import VERIF, Ctx, python_flags, rat

ALL_CLAUSES = {"C03-envelope", "C03-expiry", "C03-history", "C04-report", "C11-sum", "C17-accept"}
CORPUS = pathlib.Path(__file__).resolve().parent.parent / "corpus" / "powerpath"

RULE = ("power path (full stack): 1-2 battery groups of 1/2/4 identical batteries (+ unused batteries), 1-4 pools per group "
        "(regular / operating point, distinct, shared and cross-kind priorities, component_ids given or None), 4-14 steps of "
        "propose_power(power|None, bounds) / propose_charge / propose_discharge with values at the pool bounds, exclusion "
        "bounds, their halves/doubles +-{0, 1/2, 1, 10, 100}, component-data changes that widen / shrink / shift the bounds or "
        "the exclusion zone, idle periods up to 120 s (expiry); non-trivial = both kinds propose and the bounds change, or a "
        "proposal expires")


def F(x: Any) -> Fraction | None:
    return None if x is None else Fraction(x)


def Z(x: Any) -> Fraction:
    return Fraction(0) if x is None else Fraction(x)


def _prefix(sc: dict, upto: int) -> dict:
    return {**sc, "steps": sc["steps"][: upto + 1]}


# --------------------------------------------------------------------------- input-only helpers
def latest_proposals(sc: dict, g: int, upto: int) -> dict[int, tuple[int, dict]]:
    """pool -> (step index, step) of its latest proposal among the first `upto` steps (raised ones never reach here)."""
    out: dict[int, tuple[int, dict]] = {}
    for i, st in enumerate(sc["steps"][:upto]):
        if st["op"] == "propose" and sc["pools"][st["pool"]]["group"] == g:
            out[st["pool"]] = (i, st)
    return out


def shared_priority(sc: dict, k: int) -> bool:
    p = sc["pools"][k]
    return any(j != k and q["group"] == p["group"] and q["op"] == p["op"] and q["prio"] == p["prio"]
               for j, q in enumerate(sc["pools"]))


def cross_kind_priority(sc: dict, k: int) -> bool:
    p = sc["pools"][k]
    return any(q["group"] == p["group"] and q["op"] != p["op"] and q["prio"] == p["prio"] for q in sc["pools"])


# --------------------------------------------------------------------------- judging one scenario
class Judge:
    def __init__(self, ctx: Ctx, sc: dict, trace: dict, clauses: set[str], obs: dict, quiet: bool = False):
        self.ctx, self.sc, self.trace, self.clauses, self.obs, self.quiet = ctx, sc, trace, clauses, obs, quiet
        self.times = pg.step_times(sc)
        self.raised = {e["i"] for e in trace["log"] if e["k"] == "step" and "raised" in e}
        self.steps_log = {e["i"]: e for e in trace["log"] if e["k"] == "step"}

    def violation(self, clause: str, upto: int, observed: dict, regime: str | None = None) -> None:
        if clause in self.clauses:
            self.ctx.violation(clause, _prefix(self.sc, max(upto, 0)), observed, regime)

    def tag(self, name: str) -> None:
        if not self.quiet:
            self.ctx.tags[name] = self.ctx.tags.get(name, 0) + 1

    def group(self, g: int, view: dict) -> dict:
        sc = self.sc
        kinds = pg.kinds_at(sc, g)
        top = {is_op: max((pr for pr, ks in kinds.items() if is_op in ks), default=None) for is_op in (False, True)}
        sb: dict | None = None
        tgt: dict[bool, str | None] = {False: None, True: None}
        last_set: dict[int, Fraction] = {}
        last_res: dict | None = None
        final: dict[int, dict] = {}        # slot -> the kinds' targets after the last report round of that slot
        anomalies: list[str] = []
        for e in view["events"]:
            ev = e["ev"]
            slot = e["slot"]
            if ev["ev"] == "drop":
                continue
            if ev["ev"] == "bounds":
                sb = ev["sb"]
            if ev["ev"] == "result":
                last_res = e["res"]
                self.result(g, e, sb)
            rnd = pg.split_round(sc, g, e, anomalies)
            for (is_op, pr), r in sorted(rnd.items()):
                tgt[is_op] = r["target"]
                self.envelope_report(g, e, is_op, pr, r, sb, top)
            if rnd and sb is not None:
                self.envelope_total(g, e, tgt, sb)
                self.expiry(g, e, rnd)
            if e["req"] is not None:
                self.request(g, e, tgt, sb)
            for s in e["sets"]:
                last_set[s["inv"]] = Fraction(s["p"])
            if slot >= 0:
                final[slot] = {"reg": tgt[False], "op": tgt[True], "sb": sb, "t": rat(e["t"]),
                               "settled": (rat(sum(last_set.values())) if last_set else None),
                               "last_res": None if last_res is None else last_res["kind"]}
        # settled state after every step: what the inverters were told last = the reported targets
        for slot, f in sorted(final.items()):
            if f["settled"] is not None and f["last_res"] == "success":
                want = Z(f["reg"]) + Z(f["op"])
                if Fraction(f["settled"]) != want:
                    self.violation("C11-sum", slot, {"group": g, "sum_of_latest_set_power_per_inverter": f["settled"],
                                                     "reported_regular": f["reg"], "reported_op": f["op"]})
        for i, st in enumerate(sc["steps"]):
            if st["op"] == "propose" and sc["pools"][st["pool"]]["group"] == g and i not in self.raised:
                self.report_contract(g, i, st, final.get(i))
        return final

    # ---- C03-envelope
    def envelope_report(self, g: int, e: dict, is_op: bool, pr: int, r: dict, sb: dict | None, top: dict) -> None:
        t = F(r["target"])
        what = {"group": g, "kind": "op" if is_op else "regular", "priority": pr, "report": r, "advertised": sb,
                "at": rat(e["t"])}
        if t is None or sb is None:
            return
        ex = sb["excl"]
        if ex is not None and t != 0 and Fraction(ex[0]) < t < Fraction(ex[1]):
            self.violation("C03-envelope", e["slot"], {**what, "why": "reported target inside the exclusion zone"})
        if pr == top[is_op]:
            if r["bounds"] is None:
                if t != 0:
                    self.violation("C03-envelope", e["slot"], {**what, "why": "non-zero target without inclusion bounds"})
            elif not Fraction(r["bounds"][0]) <= t <= Fraction(r["bounds"][1]):
                self.violation("C03-envelope", e["slot"],
                               {**what, "why": "target outside the system inclusion bounds reported to the kind's top priority"})

    def envelope_total(self, g: int, e: dict, tgt: dict, sb: dict) -> None:
        if sb["incl"] is None:
            return
        lo, hi = map(Fraction, sb["incl"])
        op_t, total = Z(tgt[True]), Z(tgt[True]) + Z(tgt[False])
        for name, v in (("operating-point target", op_t), ("regular + operating-point target", total)):
            if not lo <= v <= hi:
                self.violation("C03-envelope", e["slot"],
                               {"group": g, "why": f"{name} outside the advertised inclusion bounds", "value": rat(v),
                                "reported_regular": tgt[False], "reported_op": tgt[True], "advertised": sb, "at": rat(e["t"])})

    # ---- C03-expiry
    def expiry(self, g: int, e: dict, rnd: dict) -> None:
        sc = self.sc
        upto = e["slot"] + 1 if e["ev"]["ev"] != "proposal" else e["slot"]   # the triggering proposal itself is not "old"
        props = latest_proposals(sc, g, max(upto, 0))
        trigger_kind = e["ev"]["op"] if e["ev"]["ev"] == "proposal" else None
        for is_op in (False, True):
            mine = [(i, st) for k, (i, st) in props.items() if sc["pools"][k]["op"] == is_op and i not in self.raised]
            if not mine or trigger_kind == is_op:
                continue
            if all(e["t"] - self.times[i] > pg.MAX_AGE + 1 for i, _ in mine):
                for (k_op, pr), r in rnd.items():
                    if k_op == is_op and Z(r["target"]) != 0:
                        self.violation("C03-expiry", e["slot"],
                                       {"group": g, "kind": "op" if is_op else "regular", "reported_target": r["target"],
                                        "at": rat(e["t"]), "youngest_proposal_age_s": rat(min(e["t"] - self.times[i] for i, _ in mine))})
                        return

    # ---- C11-sum / C17-accept / observation
    def request(self, g: int, e: dict, tgt: dict, sb: dict | None) -> None:
        req = Fraction(e["req"])
        want = Z(tgt[False]) + Z(tgt[True])
        what = {"group": g, "request": e["req"], "reported_regular": tgt[False], "reported_op": tgt[True],
                "advertised": sb, "at": rat(e["t"])}
        if req != want:
            self.violation("C11-sum", e["slot"], {**what, "why": "request != reported regular target + reported op target"})
        if sb is not None and sb["incl"] is not None and not Fraction(sb["incl"][0]) <= req <= Fraction(sb["incl"][1]):
            self.violation("C11-sum", e["slot"], {**what, "why": "request outside the advertised inclusion bounds"})

    def result(self, g: int, e: dict, sb: dict | None) -> None:
        res = e["res"]
        req = Fraction(res["req"])
        # the request this result answers was attached to the requesting event; its set_power calls precede the result
        requester = next((x for x in reversed(self._events_before(g, e)) if x["req"] is not None), None)
        sets = requester["sets"] if requester is not None else []
        what = {"group": g, "result": res, "advertised": sb, "at": rat(e["t"])}
        if res["kind"] == "success":
            s = sum((Fraction(x["p"]) for x in sets), Fraction(0))
            if s != req or F(res["succeeded"]) != req:
                self.violation("C11-sum", e["slot"], {**what, "why": "a request answered Success was not handed over unchanged",
                                                      "sum_of_set_power": rat(s), "set_power": [[x["inv"], x["p"]] for x in sets]})
        if res["kind"] == "oob":
            inside_zone = (sb is not None and sb["excl"] is not None and req != 0
                           and Fraction(sb["excl"][0]) < req < Fraction(sb["excl"][1]))
            in_incl = sb is not None and sb["incl"] is not None and Fraction(sb["incl"][0]) <= req <= Fraction(sb["incl"][1])
            if inside_zone and self.quiet:
                pass
            elif inside_zone:
                self.obs["sum_inside_exclusion_zone_rejected"] = self.obs.get("sum_inside_exclusion_zone_rejected", 0) + 1
                self.ctx.note("observation (outside the 20 properties): regular target + op target fell inside the exclusion "
                              "zone; the manager requested it, the distributor answered OutOfBounds and set nothing")
            elif in_incl:
                self.violation("C17-accept", e["slot"], {**what, "why": "request inside the advertised bounds answered OutOfBounds"})
            else:
                self.violation("C11-sum", e["slot"], {**what, "why": "rejected request lies outside the advertised inclusion bounds"})

    def _events_before(self, g: int, e: dict) -> list[dict]:
        evs = self._views[g]["events"]
        return evs[: evs.index(e)]

    # ---- C04-report
    def report_contract(self, g: int, i: int, st: dict, after: dict | None) -> None:
        sc = self.sc
        x = pg.psc_power(st)
        entry = self.steps_log.get(i, {})
        if x is None or "adjust" not in entry or after is None:
            return
        k = st["pool"]
        me = sc["pools"][k]
        if entry["adjust"] != [rat(x), rat(x)]:
            self.tag("pp:C04 proposal outside the reported range")
            return
        now = self.times[i]
        lo_i, hi_i = None, None
        # The report must describe the CURRENT live set: expiry does not trigger a recomputation or a new report, so a
        # proposal (of either kind: the op target shifts the regular bounds) that was live when the last report was sent
        # and is older than the maximum age now makes the latest report stale.  Outside C04 (it speaks about one
        # proposal set); counted as an observation.
        t_rep = max((e["t"] for e in self._views[g]["events"] if e["ev"]["ev"] != "drop" and e["t"] < now), default=None)
        for j, (ij, _sj) in latest_proposals(sc, g, i).items():
            if j != k and ij not in self.raised and t_rep is not None:
                if t_rep - self.times[ij] <= pg.MAX_AGE + 1 and now - self.times[ij] > pg.MAX_AGE:
                    self.tag("pp:C04 latest report stale (a proposal expired since; no recomputation on expiry)")
                    if not self.quiet and F(after["op" if me["op"] else "reg"]) != x:
                        self.obs["stale_report_after_expiry_not_honoured"] = self.obs.get("stale_report_after_expiry_not_honoured", 0) + 1
                        self.ctx.note("observation: proposals that expire are dropped silently - no recomputation, no request, no "
                                      "new report until the next event; a power inside the (stale) reported bounds was not adopted")
                    return
        for j, (ij, sj) in latest_proposals(sc, g, i).items():
            q = sc["pools"][j]
            if j == k or q["op"] != me["op"] or ij in self.raised:
                continue
            age = now - self.times[ij]
            if q["prio"] < me["prio"] and pg.psc_power(sj) is not None and age <= pg.MAX_AGE + 1:
                return                          # a lower priority states a preference: outside the clause
            if q["prio"] > me["prio"]:
                if pg.MAX_AGE < age <= pg.MAX_AGE + 1:
                    return                      # may or may not have been dropped yet
                if age > pg.MAX_AGE + 1:
                    continue
                a, b = F(sj.get("lo")), F(sj.get("hi"))
                if a is not None and b is not None and a > b:
                    return                      # conflicting set: outside C04's quantifier
                lo_i = a if lo_i is None else (lo_i if a is None else max(lo_i, a))
                hi_i = b if hi_i is None else (hi_i if b is None else min(hi_i, b))
                if lo_i is not None and hi_i is not None and lo_i > hi_i:
                    return
        seen = entry["seen"]["bounds"]
        if seen is None:
            return
        # the higher priorities' bounds must leave something of the system bounds (conflict-free); `seen` is what the
        # pool was told, so x inside it and a non-empty plain intersection is all that is required here
        if (lo_i is not None and lo_i > Fraction(seen[1])) or (hi_i is not None and hi_i < Fraction(seen[0])):
            return
        got = after["op" if me["op"] else "reg"]
        self.tag("pp:C04 report contract judged")
        if F(got) != x:
            regime = "SharedPriority" if shared_priority(sc, k) else None
            self.violation("C04-report", i, {"group": g, "pool": k, "proposed": rat(x), "method": st["method"],
                                             "report_seen": entry["seen"], "adjust_to_bounds": entry["adjust"],
                                             "reported_target_after": got,
                                             "priority_shared_with_other_kind": cross_kind_priority(sc, k)}, regime)

    def run(self) -> tuple[list[dict], list[dict], dict]:
        self._views = {g: pg.group_view(self.sc, self.trace, g) for g in range(len(self.sc["groups"]))}
        cases, impls, finals = [], [], {}
        for g, view in self._views.items():
            if not view["pools"]:
                continue
            finals[g] = self.group(g, view)
            c, o = pg.model_case(self.sc, g, view)
            cases.append(c)
            impls.append(o)
        return cases, impls, finals


# --------------------------------------------------------------------------- C03-history (metamorphic re-runs)
def history_variants(sc: dict, g: int, finals: dict, raised: set[int], rng: random.Random) -> list[tuple[int, dict]]:
    """Fresh scenarios that end with the same live proposals and the same data as `sc` does after its last step that
    touched group g: (a) final data from the start, live proposals in a shuffled order; (b) original data, live
    proposals (other order), THEN the data change.  Returns [(judged step, scenario)]."""
    times = pg.step_times(sc)
    last = max((i for i, st in enumerate(sc["steps"])
                if (st["op"] == "propose" and sc["pools"][st["pool"]]["group"] == g and i not in raised)
                or (st["op"] == "data" and st["group"] == g)), default=None)
    if last is None or last not in finals:
        return []
    t_end = Fraction(finals[last]["t"])
    live = []
    for k, (i, st) in latest_proposals(sc, g, last + 1).items():
        if i in raised:
            continue
        age = t_end - times[i]
        if pg.MAX_AGE < age <= pg.MAX_AGE + 1:
            return []                            # may or may not have been dropped when the targets were computed
        if age <= pg.MAX_AGE:
            live.append(st)
    if not live:
        return []
    data = pg.data_at(sc, g, last + 1)
    base = {**sc, "groups": [dict(gr) for gr in sc["groups"]]}
    out = []
    order = live[:]
    rng.shuffle(order)
    if order == live and len(live) > 1:
        order.reverse()
    a = {**base, "steps": order}
    a["groups"][g] = {**sc["groups"][g], "data": data}
    out.append((last, a))
    if data != sc["groups"][g]["data"]:
        order2 = live[::-1]
        out.append((last, {**base, "steps": order2 + [{"op": "data", "group": g, "data": data}]}))
    return out


def check_history(ctx: Ctx, sc: dict, trace: dict, finals: dict, rng: random.Random) -> None:
    raised = {e["i"] for e in trace["log"] if e["k"] == "step" and "raised" in e}
    for g in finals:
        for last, var in history_variants(sc, g, finals[g], raised, rng):
            vt = pg.run_scenario(var)
            view = pg.group_view(var, vt, g)
            j = Judge(ctx, var, vt, set(), {}, quiet=True)
            j._views = {g: view}  # noqa: SLF001
            vf = j.group(g, view)
            if not vf:
                continue
            end = vf[max(vf)]
            ref = finals[g][last]
            ctx.tags["pp:C03 history re-runs"] = ctx.tags.get("pp:C03 history re-runs", 0) + 1
            if ref["sb"] != end["sb"]:
                continue                          # the pool did not advertise the same bounds: not the same situation
            if (Z(ref["reg"]), Z(ref["op"])) != (Z(end["reg"]), Z(end["op"])):
                ctx.violation("C03-history", _prefix(sc, last),
                              {"group": g, "original": {"regular": ref["reg"], "op": ref["op"]},
                               "fresh_order": {"regular": end["reg"], "op": end["op"]}, "bounds": ref["sb"],
                               "reordered_scenario": var})


# --------------------------------------------------------------------------- the stage
def load_corpus() -> list[dict]:
    return [json.loads(p.read_text()) for p in sorted(CORPUS.glob("*.json"))] if CORPUS.exists() else []


def tags_of(sc: dict, trace: dict) -> tuple[list[str], bool]:
    tags = {"powerpath"}
    props = [st for st in sc["steps"] if st["op"] == "propose"]
    kinds = {sc["pools"][st["pool"]]["op"] for st in props if st.get("power") is not None}
    if len(sc["groups"]) > 1:
        tags.add("pp:two-groups")
    if sc.get("extra"):
        tags.add("pp:unused-batteries")
    if sc.get("ids_none"):
        tags.add("pp:component_ids=None")
    if kinds == {True, False}:
        tags.add("pp:op+regular")
    if any(st["op"] == "data" for st in sc["steps"]):
        tags.add("pp:data-change")
    if any(st["op"] == "advance" and st["secs"] > 60 for st in sc["steps"]):
        tags.add("pp:expiry")
    for m in ("charge", "discharge"):
        if any(st["method"] == m for st in props):
            tags.add(f"pp:propose_{m}")
    if any(st.get("power") is None for st in props):
        tags.add("pp:None-proposal")
    if any(pg.excl_zone_active(pg.data_at(sc, g, len(sc["steps"]))) for g in range(len(sc["groups"]))):
        tags.add("pp:exclusion-zone")
    if any(shared_priority(sc, k) for k in range(len(sc["pools"]))):
        tags.add("pp:shared-priority")
    if any(cross_kind_priority(sc, k) for k in range(len(sc["pools"]))):
        tags.add("pp:op-and-regular-same-priority")
    if any(e["k"] == "res" and e["kind"] == "oob" for e in trace["log"]):
        tags.add("pp:OutOfBounds-answer")
    nontrivial = ("pp:op+regular" in tags and "pp:data-change" in tags) or "pp:expiry" in tags
    return sorted(tags), nontrivial


def run_stage(ctx: Ctx, clauses: set[str], n_quick: int = 15, n_thorough: int = 300) -> None:
    python_flags()
    unknown = set(clauses) - ALL_CLAUSES
    if unknown:
        raise ValueError(f"powerpath: unknown clauses {sorted(unknown)}")
    ctx.note("power path stage (full stack through the public pool API), clauses judged: " + ", ".join(sorted(clauses))
             + "; " + RULE)
    scenarios: list[dict] = []
    if ctx.replay:
        try:
            case = json.loads(pathlib.Path(ctx.replay).read_text()).get("case") or {}
            if isinstance(case, dict) and case.get("stage") == pg.STAGE:
                scenarios.append(case)
        except (OSError, ValueError):
            pass
    scenarios += load_corpus()
    for i in range(ctx.budget(n_quick, n_thorough)):
        scenarios.append(pg.gen_scenario(ctx.subrng("powerpath", i)))
    if ctx.model_available:
        # the checks C03 / C04 / C17 do not build the power-manager model themselves
        subprocess.run([str(VERIF / "tools" / "lake_build.sh"), "Frequenz.Model.PowerManager", "Frequenz.Model.JsonUtil"],
                       capture_output=True, check=False)
    obs: dict = ctx.extra.setdefault("observations", {})
    cases: list[dict] = []
    impls: list[dict] = []
    for n, sc in enumerate(scenarios):
        trace = pg.run_scenario(sc)
        obs_before = dict(obs)
        judge = Judge(ctx, sc, trace, set(clauses), obs)
        c, o, finals = judge.run()
        cases += c
        impls += o
        if "C03-history" in clauses:
            check_history(ctx, sc, trace, finals, ctx.subrng("powerpath-history", n))
        tags, nontrivial = tags_of(sc, trace)
        ctx.case({k: v for k, v in sc.items() if k not in ("name", "why", "expect")}, tags=tags, nontrivial=nontrivial)
        expect = str(sc.get("expect", ""))
        if expect.startswith("observation:") and obs.get(expect[12:], 0) == obs_before.get(expect[12:], 0):
            ctx.note(f"corpus scenario {sc.get('name')}: the recorded observation was not reproduced")
    ctx.compare("PowerManager", cases, impls,
                what="power path: requests (Result.request = sum of set_power), reported targets and bounds per priority")
