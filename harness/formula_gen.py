"""Generators, the independent reference evaluator and the runners of the REAL formula engine (C05, C13).

Case kinds (same JSON goes to `lean/Drivers/Formula.lean`):
  tokenize : {"kind","s"}                              real: list(Tokenizer(s))
  build    : {"kind","toks"}                           real: FormulaBuilder.push_* + finalize -> step reprs
  run      : {"kind","toks","rounds"[,"ast"]}          real: FormulaBuilder(...).build() engine fed through Broadcast channels
             ("ast" = the expression tree the fully parenthesised token stream was rendered from, incl. clip nodes
             ["clip",[lo,hi],a]: the reference of the oracle; the Lean driver ignores it)
  string   : {"kind","s","z","zids","rounds"}          real: ResampledFormulaBuilder.from_string (per-id flags: same loop
                                                             with push_component_metric(id, nones_are_zeros=flag(id)))
  ho       : {"kind","tree","z","rounds"[,"prog"]}     real: level-1 engines composed with the Python operators/methods,
                                                             then HigherOrderFormulaBuilder.build(nones_are_zeros=z).
             "tree" is the expression as written (a value); "prog" (optional) says how it is written in Python with
             builder OBJECTS bound to variables and reused: [{"let": node} | {"drop": node} …, {"ret": node}], where a node
             may be {"var": k} (the k-th let) wherever a builder may stand; "drop" = an operation whose result is thrown away;
             {"build": node[, "z": bool][, "judge": true]} = `.build(...)` is called on that builder at this point of the
             program (a build HISTORY); the engine that is fed and judged is the one returned by the statement marked
             "judge" (else by the final "ret"), and "tree" is the expression of THAT builder; "names": "same" (default) =
             every build of the program uses the same engine name, "distinct" = its own.
Optional "backlog": {"<id>": [[ts, value], ...]} (string / run kinds): samples OLDER than the first round that already
wait in the input streams when the engine starts (streams whose source started earlier); the engine must drop them while
it synchronises, so the expected output is still one sample per round.  The Lean driver ignores the key.
All engines run on ONE `async_solipsism` loop per batch (virtual clock).  A round = one sample per input stream,
all of one timestamp; the engine's answer is awaited with a (virtual) timeout — no answer = the sample was dropped.
Values: rationals as strings; inputs restricted so that every float operation of the real run is exact.
"""
from __future__ import annotations

import asyncio
import itertools
import math
import random
from datetime import datetime, timedelta, timezone
from fractions import Fraction
from typing import Any

from .common import rat

WS = [" ", "\n", "\r", "\t"]
OPS_STR = ["+", "-", "*", "/"]
BIN_API = ["+", "-", "*", "/", "max", "min"]
UN_API = ["consumption", "production"]
T0 = datetime(2024, 1, 1, tzinfo=timezone.utc)


# ======================================================================= reference semantics (oracle)
class Undefined(Exception):
    """The arithmetic value does not exist (a zero divisor)."""


def parse_formula(s: str) -> Any:
    """Independent recursive-descent parser:  E := T (('+'|'-') T)*,  T := F (('*'|'/') F)*,  F := '#'digits | '(' E ')'.
    Returns ("m", id) | ("bin", op, l, r); raises ValueError when the string is not in the grammar."""
    toks: list[tuple[str, Any]] = []
    i = 0
    while i < len(s):
        c = s[i]
        if c in WS:
            i += 1
        elif c in "+-*/()":
            toks.append(("o", c))
            i += 1
        elif c == "#":
            j = i + 1
            while j < len(s) and s[j] in "0123456789":
                j += 1
            if j == i + 1:
                raise ValueError("no digits")
            toks.append(("m", int(s[i + 1:j])))
            i = j
        else:
            raise ValueError(f"bad char {c!r}")
    pos = 0

    def peek():
        return toks[pos] if pos < len(toks) else None

    def parse_f():
        nonlocal pos
        t = peek()
        if t is None:
            raise ValueError("unexpected end")
        pos += 1
        if t[0] == "m":
            return ("m", t[1])
        if t == ("o", "("):
            e = parse_e()
            if peek() != ("o", ")"):
                raise ValueError("expected )")
            pos += 1
            return e
        raise ValueError(f"unexpected {t}")

    def parse_t():
        nonlocal pos
        l = parse_f()
        while peek() in (("o", "*"), ("o", "/")):
            op = toks[pos][1]
            pos += 1
            r = parse_f()
            l = ("bin", op, l, r)
        return l

    def parse_e():
        nonlocal pos
        l = parse_t()
        while peek() in (("o", "+"), ("o", "-")):
            op = toks[pos][1]
            pos += 1
            r = parse_t()
            l = ("bin", op, l, r)
        return l

    e = parse_e()
    if pos != len(toks):
        raise ValueError("trailing tokens")
    return e


def ast_ids(a: Any) -> set[int]:
    if a[0] == "m":
        return {a[1]}
    if a[0] == "c":
        return set()
    if a[0] == "bin":
        return ast_ids(a[2]) | ast_ids(a[3])
    return ast_ids(a[2])


def arith(a: Any, val: dict[int, Fraction]) -> Fraction:
    """Ordinary arithmetic over the rationals; raises Undefined on a zero divisor."""
    if a[0] == "m":
        return val[a[1]]
    if a[0] == "c":
        return Fraction(a[1])
    if a[0] == "un":
        v = arith(a[2], val)
        return max(v, Fraction(0)) if a[1] == "consumption" else max(-v, Fraction(0))
    if a[0] == "clip":
        v = arith(a[2], val)
        lo, hi = a[1]
        if lo is not None:
            v = max(v, Fraction(lo))
        if hi is not None:
            v = min(v, Fraction(hi))
        return v
    _, op, l, r = a
    x = arith(l, val)
    y = arith(r, val)
    if op == "+":
        return x + y
    if op == "-":
        return x - y
    if op == "*":
        return x * y
    if op == "/":
        if y == 0:
            raise Undefined()
        return x / y
    if op == "max":
        return max(x, y)
    if op == "min":
        return min(x, y)
    raise AssertionError(op)


def inp_missing(v: Any) -> bool:
    return v is None or v in ("nan", "inf", "-inf")


def expected_sample(a: Any, env: dict[str, Any], zflag) -> str | None:
    """What C13 (and C05 on defined rounds) demand for one round: None when an input of the expression is
    missing on a stream that does not zero missing values, or when the value is undefined; else the value."""
    vals: dict[int, Fraction] = {}
    for i in ast_ids(a):
        v = env.get(str(i))
        if inp_missing(v):
            if not zflag(i):
                return None
            vals[i] = Fraction(0)
        else:
            vals[i] = Fraction(v)
    try:
        return rat(arith(a, vals))
    except Undefined:
        return None


def ho_ast(t: dict) -> Any:
    if "start" in t:
        return ("m", t["start"])
    b = ho_ast(t["b"])
    if "un" in t:
        return ("un", t["un"], b)
    if "eng" in t:
        return ("bin", t["o"], b, ("m", t["eng"]))
    if "const" in t:
        return ("bin", t["o"], b, ("c", t["const"]))
    return ("bin", t["o"], b, ho_ast(t["r"]))


# ======================================================================= exactness of a float run
def _dyadic(x: Fraction) -> bool:
    d = x.denominator
    return d & (d - 1) == 0 and d <= 2 ** 60 and abs(x.numerator) < 2 ** 40


def postfix_exact(steps: list[str], env: dict[str, Any]) -> bool:
    """Replay the real postfix program over the rationals: True when every intermediate value is a small dyadic
    rational, so the float run is exact — under NaN-strict max/min and under the builtin's `max(x, nan) = x`.
    (Filter on inputs only; nothing is concluded from it.)"""
    return _postfix_exact(steps, env, True) and _postfix_exact(steps, env, False)


def _postfix_exact(steps: list[str], env: dict[str, Any], strict: bool) -> bool:
    st: list[Fraction | None] = []
    try:
        for s in steps:
            if s.startswith("#"):
                name, _, z = s.partition(":")
                v = env.get(name[1:])
                st.append((Fraction(0) if z else None) if inp_missing(v) else Fraction(v))
            elif s.startswith("c:"):
                st.append(Fraction(s[2:]))
            elif s in ("consumption", "production"):
                v = st.pop()
                st.append(None if v is None else (max(v, Fraction(0)) if s == "consumption" else max(-v, Fraction(0))))
            elif s.startswith("clip("):
                lo, hi = s[5:-1].split(",")
                v = st.pop()
                if v is not None and lo != "None":
                    v = max(v, Fraction(lo))
                if v is not None and hi != "None":
                    v = min(v, Fraction(hi))
                st.append(v)
            elif s == "(":
                continue
            else:
                b = st.pop()
                a = st.pop()
                if a is None or b is None:
                    st.append(a if (not strict and s in ("max", "min")) else None)
                    continue
                if s == "+":
                    r = a + b
                elif s == "-":
                    r = a - b
                elif s == "*":
                    r = a * b
                elif s == "/":
                    if b == 0:
                        st.append(None)
                        continue
                    r = a / b
                elif s == "max":
                    r = max(a, b)
                else:
                    r = min(a, b)
                if not _dyadic(r):
                    return False
                st.append(r)
    except IndexError:
        return True  # malformed program: it raises before any arithmetic matters
    return True


# ======================================================================= generators
def gen_ids(rng: random.Random) -> list[str]:
    """3–4 component ids as digit strings (multi-digit, leading zeros, one pair aliasing after int())."""
    pool = ["1", "2", "3", "7", "10", "12", "007", "42", "5", "05", "100"]
    return rng.sample(pool, rng.randint(2, 4))


def ws(rng: random.Random) -> str:
    r = rng.random()
    if r < 0.45:
        return ""
    if r < 0.8:
        return " "
    return "".join(rng.choice(WS) for _ in range(rng.randint(1, 3)))


def gen_string(rng: random.Random, ids: list[str], depth: int, n_ops: int | None = None) -> str:
    """A random string of the grammar E/T/F with random whitespace; nesting depth <= depth."""

    def f(d: int) -> str:
        if d <= 0 or rng.random() < 0.62:
            return ws(rng) + "#" + rng.choice(ids) + ws(rng)
        return ws(rng) + "(" + e(d - 1) + ")" + ws(rng)

    def t(d: int) -> str:
        s = f(d)
        while rng.random() < 0.42:
            s += rng.choice("*/") + f(d)
        return s

    def e(d: int) -> str:
        s = t(d)
        while rng.random() < 0.45:
            s += rng.choice("+-") + t(d)
        return s

    return e(depth)


def gen_malformed_string(rng: random.Random) -> str:
    alphabet = "#0123456789+-*/() \t\nx.#12"
    return "".join(rng.choice(alphabet) for _ in range(rng.randint(0, 14)))


def tree_shapes(k: int):
    """All binary tree shapes with k internal nodes."""
    if k == 0:
        yield None
        return
    for i in range(k):
        for l in tree_shapes(i):
            for r in tree_shapes(k - 1 - i):
                yield (l, r)


def shape_to_string(shape, ops: list[str], ids: list[str], full_parens: bool) -> str:
    """Render a binary tree (operators in in-order) with the parentheses standard precedence needs (or all)."""
    it_ops = iter(ops)
    it_ids = itertools.cycle(ids)

    def build(sh):
        if sh is None:
            return ("m", next(it_ids))
        l = build(sh[0])
        op = next(it_ops)
        r = build(sh[1])
        return ("bin", op, l, r)

    def level(op: str) -> int:
        return 1 if op in "+-" else 2

    def show(n) -> str:
        if n[0] == "m":
            return "#" + n[1]
        _, op, l, r = n
        ls, rs = show(l), show(r)
        if l[0] == "bin" and (full_parens or level(l[1]) < level(op)):
            ls = "(" + ls + ")"
        if r[0] == "bin" and (full_parens or level(r[1]) <= level(op)):
            rs = "(" + rs + ")"
        return f"{ls} {op} {rs}"

    return show(build(shape))


def exhaustive_strings(max_ops: int, ids: list[str]):
    """Every operator sequence × every parenthesisation with <= max_ops operators (ids cycled over the leaves)."""
    for k in range(max_ops + 1):
        for shape in tree_shapes(k):
            for ops in itertools.product(OPS_STR, repeat=k):
                yield shape_to_string(shape, list(ops), ids, False)


VALUE_POOL = [0, 0, 1, -1, 2, -2, 3, 4, -4, 8, Fraction(1, 2), Fraction(-1, 2), Fraction(1, 4), 16, 5, -3, 6, 10]


TINY = Fraction(1, 2 ** 40)          # 9.1e-13: non-zero, far below any "close to zero" tolerance, exact in a double
TINY_POOL = [TINY, -TINY, 3 * TINY, Fraction(1, 2 ** 31), -Fraction(5, 2 ** 34), 1 + TINY, 1 - TINY, -1 - TINY]


def gen_value(rng: random.Random, p_missing: float) -> Any:
    r = rng.random()
    if r < p_missing:
        return rng.choice([None, None, "nan", "inf", "-inf"])
    if r > 0.96:
        return rat(rng.choice(TINY_POOL))   # tiny denominators / differences of nearly equal operands
    return rat(Fraction(rng.choice(VALUE_POOL)))


def gen_round(rng: random.Random, ids: list[int], ts: int, p_missing: float) -> dict:
    return {"ts": ts, "env": {str(i): gen_value(rng, p_missing) for i in ids}}


def gen_rounds(rng: random.Random, ids: list[int], n: int, p_missing: float, steps: list[str] | None = None) -> list[dict]:
    """n rounds with increasing timestamps; when `steps` (the real postfix) is given, a round whose float run would
    not be exact is redrawn (up to 12 times, then dropped)."""
    out = []
    ts = rng.randint(0, 5)
    for _ in range(n):
        for _try in range(12):
            r = gen_round(rng, ids, ts, p_missing if _try < 6 else 0.0)
            if steps is None or postfix_exact(steps, r["env"]):
                out.append(r)
                break
        ts += rng.choice([1, 1, 1, 2, 5])
    return out


def gen_ho(rng: random.Random, engines: list[int], depth: int, min_ops: int = 1) -> dict:
    """A random composition tree (>= min_ops operations at the root spine)."""

    def const_for(op: str) -> str:
        return rat(Fraction(rng.choice([0, 1, 2, -2, 4, Fraction(1, 2), 8, -1])))

    def builder(d: int, need: int) -> dict:
        node: dict = {"start": rng.choice(engines)}
        n = max(need, rng.randint(1, 3) if d > 0 else 1)
        for _ in range(n):
            r = rng.random()
            if r < 0.16:
                node = {"b": node, "un": rng.choice(UN_API)}
                continue
            op = rng.choice(BIN_API)
            r = rng.random()
            if r < 0.45:
                node = {"b": node, "o": op, "eng": rng.choice(engines)}
            elif r < 0.65:
                node = {"b": node, "o": op, "const": const_for(op)}
            elif d > 0:
                node = {"b": node, "o": op, "r": builder(d - 1, 1)}
            else:
                node = {"b": node, "o": op, "eng": rng.choice(engines)}
        return node

    return builder(depth, min_ops)


def ho_expand(node: dict, defs: list[dict]) -> dict:
    """The expression a prog node denotes (variables replaced by the expressions they were bound to)."""
    if "var" in node:
        return defs[node["var"]]
    if "start" in node:
        return node
    out = dict(node)
    out["b"] = ho_expand(node["b"], defs)
    if "r" in node:
        out["r"] = ho_expand(node["r"], defs)
    return out


def ho_prog_tree(prog: list[dict]) -> dict:
    """The expression of the JUDGED build: the statement {"build": node, "judge": true}, else the final {"ret": node}."""
    defs: list[dict] = []
    for st in prog:
        if "let" in st:
            defs.append(ho_expand(st["let"], defs))
        elif "ret" in st or ("build" in st and st.get("judge")):
            return ho_expand(st.get("ret") or st["build"], defs)
    raise ValueError("prog without ret / judged build")


def gen_ho_prog(rng: random.Random, engines: list[int], depth: int) -> list[dict]:
    """A composition written with builder objects bound to variables and REUSED: in two expressions, twice inside one
    expression, and after an operation on them whose result is discarded."""

    def rhs(nvars: int, d: int) -> dict:
        r = rng.random()
        if r < 0.35:
            return {"eng": rng.choice(engines)}
        if r < 0.5:
            return {"const": rat(Fraction(rng.choice([0, 1, 2, -2, 4, Fraction(1, 2)])))}
        if nvars and r < 0.85:
            return {"r": {"var": rng.randrange(nvars)}}
        return {"r": gen_ho(rng, engines, max(d - 1, 0))}

    def expr(nvars: int, d: int, must_use_var: bool) -> dict:
        node: dict = {"var": rng.randrange(nvars)} if nvars and (must_use_var or rng.random() < 0.6) \
            else {"start": rng.choice(engines)}
        for _ in range(rng.randint(1, 2 + d)):
            if rng.random() < 0.15:
                node = {"b": node, "un": rng.choice(UN_API)}
            else:
                node = {"b": node, "o": rng.choice(BIN_API), **rhs(nvars, d)}
        return node

    pattern = rng.random()
    prog: list[dict] = [{"let": gen_ho(rng, engines, min(depth, 1))}]
    if pattern < 0.25:      # x * x
        ret = {"b": {"var": 0}, "o": rng.choice(BIN_API), "r": {"var": 0}}
        if rng.random() < 0.5:
            ret = {"b": ret, "o": rng.choice(BIN_API), **rhs(1, depth)}
        prog.append({"ret": ret})
    elif pattern < 0.5:     # x = …; x <op> …  (discarded); z = x <op> …
        for _ in range(rng.randint(1, 2)):
            prog.append({"drop": expr(1, 0, True)})
        prog.append({"ret": expr(1, depth, True)})
    elif pattern < 0.75:    # x used in two expressions
        prog.append({"let": expr(1, 1, True)})
        prog.append({"ret": {"b": {"var": rng.randrange(2)}, "o": rng.choice(BIN_API), "r": {"var": rng.randrange(2)}}})
    else:                   # free mix
        nv = 1
        for _ in range(rng.randint(1, 3)):
            if rng.random() < 0.5:
                prog.append({"let": expr(nv, 1, False)})
                nv += 1
            else:
                prog.append({"drop": expr(nv, 1, True)})
        prog.append({"ret": expr(nv, depth, True)})
    return prog


def gen_tok_stream(rng: random.Random, ids: list[int], valid: bool) -> list[dict]:
    """Token calls on a bare FormulaBuilder: infix over all ten operator strings, constants, clippers and
    per-metric nones_are_zeros flags (the first flag of a name wins: `setdefault`)."""
    flags = {i: rng.random() < 0.4 for i in ids}

    def metric() -> dict:
        i = rng.choice(ids)
        z = flags[i] if rng.random() < 0.85 else (not flags[i])
        return {"t": "m", "n": i, "z": z}

    def atom(d: int) -> list[dict]:
        r = rng.random()
        if d > 0 and r < 0.3:
            inner = expr(d - 1)
            out = [{"t": "o", "o": "("}] + inner + [{"t": "o", "o": ")"}]
        elif r < 0.42:
            out = [{"t": "c", "c": rat(Fraction(rng.choice([0, 1, 2, -3, Fraction(1, 2), 4])))}]
        else:
            out = [metric()]
        if rng.random() < 0.12:
            lo = rng.choice([None, "0", "-2", "1"])
            hi = rng.choice([None, "0", "4", "1"])
            out.append({"t": "clip", "lo": lo, "hi": hi})
        if rng.random() < 0.12:
            out.append({"t": "o", "o": rng.choice(UN_API)})
        return out

    def expr(d: int) -> list[dict]:
        out = atom(d)
        while rng.random() < 0.55:
            out.append({"t": "o", "o": rng.choice(BIN_API)})
            out += atom(d)
        return out

    if valid:
        return expr(2)
    n = rng.randint(0, 9)
    alphabet = ["+", "-", "*", "/", "(", ")", "max", "min", "consumption", "production"]
    out = []
    for _ in range(n):
        r = rng.random()
        if r < 0.45:
            out.append(metric())
        elif r < 0.55:
            out.append({"t": "c", "c": rat(Fraction(rng.choice([0, 1, 2])))})
        else:
            out.append({"t": "o", "o": rng.choice(alphabet)})
    return out


# ======================================================================= clip steps (push_clipper), tiny denominators, backlogs
def tree_toks(a: Any, flags: dict[int, bool]) -> list[dict]:
    """Render an expression tree as the `push_*` calls of a FULLY PARENTHESISED infix expression (so its meaning does
    not depend on any precedence); a clip node is `push_clipper` right after its (atomic or parenthesised) operand."""
    if a[0] == "m":
        return [{"t": "m", "n": a[1], "z": flags[a[1]]}]
    if a[0] == "c":
        return [{"t": "c", "c": a[1]}]
    if a[0] == "clip":
        return tree_toks(a[2], flags) + [{"t": "clip", "lo": a[1][0], "hi": a[1][1]}]
    if a[0] == "bin":
        return [{"t": "o", "o": "("}] + tree_toks(a[2], flags) + [{"t": "o", "o": a[1]}] + tree_toks(a[3], flags) + \
               [{"t": "o", "o": ")"}]
    raise ValueError(a[0])


CLIP_BOUNDS = [["0", None], [None, "4"], ["0", "4"], ["-2", "1"], [None, None], ["1", None], [None, "-1"],
               ["3", "1"]]     # lower > upper: the lower bound is applied first, so the result is the upper bound


def clip_case(a: Any, flags: dict[int, bool], rounds: list[dict] | None, gen=None) -> dict:
    c = {"kind": "run", "toks": tree_toks(a, flags), "ast": a, "rounds": rounds}
    if gen is not None:
        c["_gen"] = gen
    return c


def clip_grid() -> list[dict]:
    """Every bound configuration x {clip of an input, clip of a sum, clip as left / right operand, clip of a clip}
    x missing encoding x nones_are_zeros flag, plus present operands below / inside / above the range."""
    cases = []
    ts = 0
    for lo, hi in CLIP_BOUNDS:
        b = [lo, hi]
        shapes = [
            (["clip", b, ["m", 1]], [1]),
            (["clip", b, ["bin", "+", ["m", 1], ["m", 2]]], [1, 2]),
            (["bin", "+", ["m", 1], ["clip", b, ["m", 2]]], [1, 2]),
            (["bin", "*", ["clip", b, ["m", 1]], ["m", 2]], [1, 2]),
            (["bin", "max", ["clip", b, ["bin", "-", ["m", 1], ["m", 2]]], ["c", "1"]], [1, 2]),
            (["clip", ["-1", "2"], ["clip", b, ["m", 1]]], [1]),
        ]
        for a, ids in shapes:
            for z in (False, True):
                rounds = []
                for enc in (None, "nan", "inf", "-inf"):
                    for pattern in range(1, 1 << len(ids)):
                        ts += 1
                        rounds.append({"ts": ts, "env": {str(i): (enc if (pattern >> k) & 1 else ["3", "-5"][k])
                                                         for k, i in enumerate(ids)}})
                for vals in (["-5", "1"], ["1/2", "0"], ["8", "-1"], ["0", "0"], ["4", "4"]):
                    ts += 1
                    rounds.append({"ts": ts, "env": {str(i): vals[k] for k, i in enumerate(ids)}})
                cases.append(clip_case(a, {i: z for i in ids}, rounds))
    return cases


def gen_clip_tree(rng: random.Random, ids: list[int], depth: int) -> Any:
    r = rng.random()
    if depth <= 0 or r < 0.3:
        a: Any = ["m", rng.choice(ids)] if rng.random() < 0.85 else ["c", rat(Fraction(rng.choice([0, 1, 2, -3, 4])))]
    else:
        a = ["bin", rng.choice(BIN_API), gen_clip_tree(rng, ids, depth - 1), gen_clip_tree(rng, ids, depth - 1)]
    if rng.random() < 0.35:
        a = ["clip", rng.choice(CLIP_BOUNDS), a]
    return a


def gen_clip_cases(ctx, n: int, p_missing: float) -> list[dict]:
    cases = []
    for i in range(n):
        rng = ctx.subrng("clip", i)
        ids = rng.sample([1, 2, 3, 4], rng.randint(2, 3))
        a = gen_clip_tree(rng, ids, rng.choice([1, 2, 2, 3]))
        if "clip" not in ast_ops(a):
            a = ["clip", rng.choice(CLIP_BOUNDS), a]
        used = sorted(ast_ids(a))
        if not used:
            continue
        flags = {k: rng.random() < 0.35 for k in used}
        cases.append(clip_case(a, flags, None, gen=(f"{ctx.prop}/{ctx.seed}/cliprounds/{i}", rng.randint(3, 5), p_missing)))
    return cases


def tiny_cases() -> list[dict]:
    """Divisions whose denominator is tiny but NOT zero (an input of 2^-40, a difference of nearly equal operands): the
    quotient is finite and exactly representable, so a value must be emitted; exact zeros beside them for contrast."""
    t, one = rat(TINY), rat(1 + TINY)
    cases = []
    r2 = [{"1": rat(3 * TINY), "2": t}, {"1": "1", "2": t}, {"1": t, "2": rat(-TINY)}, {"1": "5", "2": rat(Fraction(1, 2 ** 31))},
          {"1": "5", "2": "0"}, {"1": "0", "2": t}, {"1": t, "2": t}]
    r3 = [{"1": "2", "2": one, "3": "1"}, {"1": t, "2": one, "3": "1"}, {"1": "3", "2": "1", "3": one},
          {"1": "3", "2": "1", "3": "1"}, {"1": "4", "2": t, "3": rat(-TINY)}]

    def rounds(envs):
        return [{"ts": k + 1, "env": dict(e)} for k, e in enumerate(envs)]

    for z in (False, True):
        cases.append({"kind": "string", "s": "#1 / #2", "z": z, "zids": [], "rounds": rounds(r2), "tiny": True})
        cases.append({"kind": "string", "s": "#1 / (#2 - #3)", "z": z, "zids": [], "rounds": rounds(r3), "tiny": True})
        cases.append({"kind": "string", "s": "#1 + #1 / (#2 - #3)", "z": z, "zids": [], "rounds": rounds(r3), "tiny": True})
        cases.append({"kind": "ho", "tree": {"b": {"start": 1}, "o": "/", "eng": 2}, "z": z, "rounds": rounds(r2), "tiny": True})
        cases.append({"kind": "ho", "tree": {"b": {"start": 1}, "o": "/", "r": {"b": {"start": 2}, "o": "-", "eng": 3}},
                      "z": z, "rounds": rounds(r3), "tiny": True})
        cases.append({"kind": "ho", "tree": {"b": {"start": 1}, "o": "/", "const": t}, "z": z,
                      "rounds": rounds([{"1": "3"}, {"1": t}, {"1": "0"}]), "tiny": True})
        a = ["bin", "/", ["m", 1], ["clip", [None, "1"], ["m", 2]]]
        cases.append(dict(clip_case(a, {1: z, 2: z}, rounds(r2)), tiny=True))
    # keep only rounds whose IEEE evaluation is exact (a property of the inputs: float vs rational evaluation of the tree)
    for c in cases:
        a = case_ast(c)
        if c["kind"] == "run":
            continue
        keep = []
        for rd in c["rounds"]:
            try:
                want = arith(a, {i: Fraction(rd["env"][str(i)]) for i in ast_ids(a)})
                got = float_eval(a, rd["env"])
                exact = math.isfinite(got) and Fraction(got) == want
            except Undefined:
                exact = True
            if exact:
                keep.append(rd)
        assert len(keep) >= len(c["rounds"]) - 1, c
        c["rounds"] = keep
    return cases


def backlog_cases(ctx, n: int) -> list[dict]:
    """Staggered start: >= 3 input streams; at least two of them already hold samples of the SAME older timestamps when
    the engine starts, one more may hold a shorter backlog, at least one starts with the first round.  Every value
    encodes (stream, timestamp), so a sample computed from inputs of different timestamps has the wrong value.
    Expressions over + - * (integers: exact)."""
    cases = []
    for i in range(n):
        rng = ctx.subrng("backlog", i)
        k = rng.choice([3, 3, 4])
        ids = rng.sample([1, 2, 3, 5, 7, 12], k)
        shape = rng.choice(list(tree_shapes(k - 1)))
        ops = [rng.choice("+-*") for _ in range(k - 1)]
        s = shape_to_string(shape, ops, [str(x) for x in ids], rng.random() < 0.3)
        start = rng.randint(3, 6)
        depth = rng.randint(1, 3)                      # how many older timestamps the lagging group holds
        order = ids[:]
        rng.shuffle(order)
        lag = order[:rng.randint(2, k - 1)]            # >= 2 streams share the oldest first timestamp
        rest = order[len(lag):]
        mid = rest[1:] if (len(rest) > 1 and depth > 1 and rng.random() < 0.6) else []   # a shorter backlog

        def val(stream: int, ts: int) -> str:
            return rat(Fraction((ids.index(stream) + 1) * 16 + ts))

        backlog = {str(x): [[t, val(x, t)] for t in range(start - depth, start)] for x in lag}
        for x in mid:
            backlog[str(x)] = [[t, val(x, t)] for t in range(start - 1, start)]
        rounds = [{"ts": t, "env": {str(x): val(x, t) for x in ids}} for t in range(start, start + rng.randint(2, 4))]
        cases.append({"kind": "string", "s": s, "z": rng.random() < 0.3, "zids": [], "rounds": rounds, "backlog": backlog})
    return cases


def _history_case(prog: list[dict], z: bool, gen) -> dict:
    return {"kind": "ho", "z": z, "rounds": None, "_gen": gen, "prog": prog, "tree": ho_prog_tree(prog)}


def build_history_cases(ctx, n: int) -> list[dict]:
    """Builder objects that are BUILT at some point of the program and then composed further and built again: every
    operator and method with the built builder as left and as right operand, several levels, the same builder built
    twice, the derived builder built before its original.  The judged engine is the one a marked `build` returned; its
    output must be the value of the expression of the builder it was built from (not of any other build)."""
    cases = []
    k = 0

    def gen(tag):
        nonlocal k
        k += 1
        return (f"{ctx.prop}/{ctx.seed}/history/{tag}/{k}", 3, 0.05)

    x0 = {"b": {"start": 1}, "o": "+", "eng": 2}
    for z in (False, True):
        for op in BIN_API:
            c = {"const": "2"} if op in "*/" else {"const": "3"}
            # x built, then used as left operand (engine / constant / builder on the right) and built again
            for rhs in ({"eng": 3}, c, {"r": {"b": {"start": 3}, "o": "-", "eng": 1}}):
                cases.append(_history_case([{"let": x0}, {"build": {"var": 0}}, {"ret": {"b": {"var": 0}, "o": op, **rhs}}], z, gen("l")))
            # x built, then used as RIGHT operand
            cases.append(_history_case([{"let": x0}, {"build": {"var": 0}},
                                        {"ret": {"b": {"b": {"start": 3}, "o": "*", "const": "2"}, "o": op, "r": {"var": 0}}}], z, gen("r")))
            # two levels: x built, y = x <op> e3 built, z = y - x judged
            cases.append(_history_case([{"let": x0}, {"build": {"var": 0}}, {"let": {"b": {"var": 0}, "o": op, "eng": 3}},
                                        {"build": {"var": 1}}, {"ret": {"b": {"var": 1}, "o": "-", "r": {"var": 0}}}], z, gen("2")))
            # the derived builder is built BEFORE the original; the original is judged
            cases.append(_history_case([{"let": x0}, {"let": {"b": {"var": 0}, "o": op, "eng": 3}}, {"build": {"var": 1}},
                                        {"build": {"var": 0}, "judge": True}], z, gen("d")))
            # the intermediate build is the judged one, the program goes on afterwards
            cases.append(_history_case([{"let": x0}, {"build": {"var": 0}}, {"let": {"b": {"var": 0}, "o": op, "eng": 3}},
                                        {"build": {"var": 1}, "judge": True}, {"let": {"b": {"var": 1}, "o": "+", "eng": 1}},
                                        {"build": {"var": 2}}], z, gen("m")))
        for un in UN_API:
            cases.append(_history_case([{"let": x0}, {"build": {"var": 0}}, {"ret": {"b": {"var": 0}, "un": un}}], z, gen("u")))
            cases.append(_history_case([{"let": {"b": x0, "un": un}}, {"build": {"var": 0}},
                                        {"ret": {"b": {"var": 0}, "o": "-", "eng": 3}}], z, gen("u2")))
        # the same builder built twice (second engine judged), with a different flag in between
        cases.append(_history_case([{"let": x0}, {"build": {"var": 0}, "z": not z}, {"build": {"var": 0}, "judge": True}], z, gen("t")))
        cases.append(_history_case([{"let": x0}, {"build": {"var": 0}}, {"build": {"var": 0}}, {"ret": {"b": {"var": 0}, "o": "*", "const": "2"}}],
                                   z, gen("t2")))
    for i in range(n):
        rng = ctx.subrng("history", i)
        engines = rng.sample([1, 2, 3, 4, 5], rng.randint(2, 4))
        prog: list[dict] = [{"let": gen_ho(rng, engines, rng.choice([0, 1]))}]
        nv = 1
        builds = []
        for _ in range(rng.randint(2, 5)):
            r = rng.random()
            if r < 0.45:
                prog.append({"build": {"var": rng.randrange(nv)}, "z": rng.random() < 0.3})
                builds.append(len(prog) - 1)
            else:
                src = {"var": rng.randrange(nv)}
                if rng.random() < 0.15:
                    node = {"b": src, "un": rng.choice(UN_API)}
                else:
                    op = rng.choice(BIN_API)
                    q = rng.random()
                    if q < 0.35:
                        node = {"b": src, "o": op, "eng": rng.choice(engines)}
                    elif q < 0.5:
                        node = {"b": src, "o": op, "const": rat(Fraction(rng.choice([1, 2, -2, 4, Fraction(1, 2)])))}
                    elif q < 0.8:
                        node = {"b": src, "o": op, "r": {"var": rng.randrange(nv)}}
                    else:
                        node = {"b": gen_ho(rng, engines, 0), "o": op, "r": src}
                prog.append({"let": node})
                nv += 1
        if not builds:
            prog.insert(1, {"build": {"var": 0}})
            builds.append(1)
        if rng.random() < 0.6:
            prog.append({"ret": {"var": nv - 1}} if rng.random() < 0.5 else
                        {"ret": {"b": {"var": rng.randrange(nv)}, "o": rng.choice(BIN_API), "r": {"var": rng.randrange(nv)}}})
        else:
            j = rng.choice(builds)
            prog[j] = dict(prog[j], judge=True)
            prog[j].pop("z", None)
        c = _history_case(prog, rng.random() < 0.3, (f"{ctx.prop}/{ctx.seed}/history/rnd/{i}", rng.randint(3, 4), 0.06))
        c["names"] = rng.choice(["same", "same", "distinct"])     # every build under one name / under its own name
        cases.append(c)
    return cases


def backlog_missing_cases(ctx, n: int) -> list[dict]:
    """Staggered start where the SKIPPED samples (older than the first common timestamp) and the samples of the
    synchronised timestamp differ in missing-ness (None/NaN/+-inf vs a value, both directions), with and without
    nones_are_zeros (per build and per stream): the sample emitted for a timestamp must be None exactly when an input
    needed FOR THAT TIMESTAMP is missing — what was skipped must not matter.  Fixed grid + random cases."""
    cases = []
    encs = [None, "nan", "inf", "-inf"]
    for skipped, current in [(e, "5") for e in encs] + [("5", e) for e in encs] + [("3", "5"), (None, "nan")]:
        for z, zids in ((False, []), (True, []), (False, [1]), (True, [1])):
            for s, lagging in (("#1 + #2", 1), ("#2 - #1", 1), ("#1 * #2", 2)):
                other = 2 if lagging == 1 else 1
                rounds = [{"ts": 2, "env": {str(lagging): current, str(other): "7"}},
                          {"ts": 3, "env": {str(lagging): "4", str(other): skipped}},
                          {"ts": 4, "env": {str(lagging): skipped, str(other): "1"}}]
                cases.append({"kind": "string", "s": s, "z": z, "zids": zids, "rounds": rounds,
                              "backlog": {str(lagging): [[0, skipped], [1, "9"]] if z else [[1, skipped]]}})
    for i in range(n):
        rng = ctx.subrng("backlog-missing", i)
        k = rng.choice([2, 3, 3, 4])
        ids = rng.sample([1, 2, 3, 5, 7, 12], k)
        shape = rng.choice(list(tree_shapes(k - 1)))
        ops = [rng.choice("+-*") for _ in range(k - 1)]
        s = shape_to_string(shape, ops, [str(x) for x in ids], rng.random() < 0.3)
        start = rng.randint(3, 6)
        depth = rng.randint(1, 3)
        order = ids[:]
        rng.shuffle(order)
        lag = order[:rng.randint(1, k - 1)]

        def val(stream: int, ts: int, p: float) -> Any:
            if rng.random() < p:
                return rng.choice(encs)
            return rat(Fraction((ids.index(stream) + 1) * 16 + ts))

        rounds = [{"ts": t, "env": {str(x): val(x, t, 0.2) for x in ids}} for t in range(start, start + rng.randint(2, 4))]
        backlog = {}
        for x in lag:
            items = [[t, val(x, t, 0.4)] for t in range(start - depth, start)]
            # the oldest skipped sample and the first synchronised one differ in missing-ness
            if inp_missing(items[0][1]) == inp_missing(rounds[0]["env"][str(x)]):
                items[0][1] = rat(Fraction(99)) if inp_missing(items[0][1]) else rng.choice(encs)
            backlog[str(x)] = items
        zids = [x for x in ids if rng.random() < 0.4] if rng.random() < 0.4 else []
        cases.append({"kind": "string", "s": s, "z": rng.random() < 0.4, "zids": zids, "rounds": rounds, "backlog": backlog})
    return cases


# ======================================================================= the real code
def _imports():
    import frequenz.sdk.microgrid  # noqa: F401  (breaks an import cycle of the formula_engine package)
    from frequenz.channels import Broadcast
    from frequenz.client.microgrid import ComponentMetricId
    from frequenz.quantities import Quantity
    from frequenz.sdk._internal._channels import ChannelRegistry
    from frequenz.sdk.microgrid._data_sourcing import ComponentMetricRequest
    from frequenz.sdk.timeseries import Sample
    from frequenz.sdk.timeseries.formula_engine import _formula_steps as fs
    from frequenz.sdk.timeseries.formula_engine._formula_engine import (FormulaBuilder, FormulaEngine,
                                                                        HigherOrderFormulaBuilder)
    from frequenz.sdk.timeseries.formula_engine._resampled_formula_builder import ResampledFormulaBuilder
    from frequenz.sdk.timeseries.formula_engine._tokenizer import Tokenizer, TokenType

    return locals()


_R: dict | None = None


def R() -> dict:
    global _R
    if _R is None:
        _R = _imports()
    return _R


def step_repr(s: Any) -> str:
    fs = R()["fs"]
    if isinstance(s, fs.MetricFetcher):
        return repr(s) + (":z" if s._nones_are_zeros else "")  # pylint: disable=protected-access
    if isinstance(s, fs.ConstantValue):
        return "c:" + rat(s.value)
    if isinstance(s, fs.Clipper):
        return f"clip({'None' if s.min_value is None else rat(s.min_value)},{'None' if s.max_value is None else rat(s.max_value)})"
    return repr(s)


def real_tokenize(s: str) -> dict:
    r = R()
    try:
        toks = list(r["Tokenizer"](s))
    except ValueError:
        return {"err": "ValueError"}
    return {"toks": [["m" if t.type == r["TokenType"].COMPONENT_METRIC else "o", t.value] for t in toks]}


def _quantity(v: Any):
    Q = R()["Quantity"]
    if v is None:
        return None
    if v == "nan":
        return Q(math.nan)
    if v == "inf":
        return Q(math.inf)
    if v == "-inf":
        return Q(-math.inf)
    return Q(float(Fraction(v)))


def _emitted(x: float) -> str:
    """An emitted (non-None) value: exact rational, or the name of a non-finite float (which C13 forbids)."""
    if math.isnan(x):
        return "nan"
    if math.isinf(x):
        return "inf" if x > 0 else "-inf"
    return rat(x)


async def _send_backlog(case: dict, senders: dict[int, Any]) -> None:
    """Samples that already wait in the input streams when the engine starts (older than the first round)."""
    Sample = R()["Sample"]
    for i, items in sorted((case.get("backlog") or {}).items()):
        for ts, v in items:
            await senders[int(i)].send(Sample(T0 + timedelta(seconds=ts), _quantity(v)))


async def _feed_and_collect(rx, senders: dict[int, Any], rounds: list[dict], gaps: dict | None = None) -> list:
    Sample = R()["Sample"]
    out = []
    for rd in rounds:
        ts = T0 + timedelta(seconds=rd["ts"])
        for i, snd in senders.items():
            if gaps and rd["ts"] in gaps.get(str(i), []):
                continue        # this stream has NO sample for this timestamp
            await snd.send(Sample(ts, _quantity(rd["env"].get(str(i)))))
        try:
            while True:  # until one (virtual) second of silence: 0 samples = dropped, >1 would be a finding
                s = await asyncio.wait_for(rx.receive(), 1.0)
                secs = (s.timestamp - T0).total_seconds()
                out.append([int(secs), None if s.value is None else _emitted(s.value.base_value)])
        except asyncio.TimeoutError:
            pass
    return out


def _new_builder(toks: list[dict]):
    r = R()
    builder = r["FormulaBuilder"]("f", r["Quantity"])
    chans: dict[int, Any] = {}
    for t in toks:
        if t["t"] == "m":
            if t["n"] not in chans:
                chans[t["n"]] = r["Broadcast"](name=f"ch{t['n']}")
            builder.push_metric(f"#{t['n']}", chans[t["n"]].new_receiver(), nones_are_zeros=t["z"])
        elif t["t"] == "c":
            builder.push_constant(float(Fraction(t["c"])))
        elif t["t"] == "o":
            builder.push_oper(t["o"])
        elif t["t"] == "clip":
            builder.push_clipper(None if t["lo"] is None else float(Fraction(t["lo"])),
                                 None if t["hi"] is None else float(Fraction(t["hi"])))
    return builder, chans


def real_build(toks: list[dict]) -> dict:
    builder, _ = _new_builder(toks)
    steps, _f = builder.finalize()
    return {"steps": [step_repr(s) for s in steps]}


def _fill_rounds(case: dict, steps: list[str], ids: list[int]) -> list[dict]:
    """Rounds are drawn once the real postfix program is known (`_gen` = seed, count, P(missing)), so that rounds on
    which the float run would be inexact can be redrawn; the concrete rounds are stored in the case."""
    if case.get("rounds") is None:
        seed, n, p = case.pop("_gen")
        case["rounds"] = gen_rounds(random.Random(seed), ids, n, p, steps)
    return case["rounds"]


async def real_run(case: dict) -> dict:
    toks = case["toks"]
    builder, chans = _new_builder(toks)
    engine = builder.build()
    steps = [step_repr(s) for s in builder._steps]  # pylint: disable=protected-access
    rounds = _fill_rounds(case, steps, sorted(chans))
    if not chans:
        # an engine without inputs spins forever without ever yielding to the loop: not runnable, only compiled
        raise ValueError("run case without a metric")
    senders = {i: c.new_sender() for i, c in chans.items()}
    await _send_backlog(case, senders)
    rx = engine.new_receiver()
    await asyncio.sleep(0)
    out = await _feed_and_collect(rx, senders, rounds)
    await engine._stop()  # pylint: disable=protected-access
    return {"steps": steps, "out": out}


def _string_builder(s: str, z: bool, zids: list[int]):
    r = R()
    reg = r["ChannelRegistry"](name="verif")
    req = r["Broadcast"](name="requests")
    builder = r["ResampledFormulaBuilder"]("ns", "f", reg, req.new_sender(), r["ComponentMetricId"].ACTIVE_POWER,
                                           r["Quantity"])
    if not zids:
        engine = builder.from_string(s, nones_are_zeros=z)
    else:
        # the loop of `from_string`, with a per-component flag
        for token in r["Tokenizer"](s):
            if token.type == r["TokenType"].COMPONENT_METRIC:
                cid = int(token.value)
                builder.push_component_metric(cid, nones_are_zeros=(not z) if cid in zids else z)
            else:
                builder.push_oper(token.value)
        engine = builder.build()
    return reg, req, builder, engine


def real_string_steps(s: str, z: bool, zids: list[int]) -> dict:
    try:
        _reg, _req, builder, _engine = _string_builder(s, z, zids)
    except ValueError:
        return {"err": "ValueError"}
    return {"steps": [step_repr(x) for x in builder._steps]}  # pylint: disable=protected-access


async def real_string(case: dict) -> dict:
    r = R()
    s, z, zids = case["s"], case["z"], case["zids"]
    try:
        reg, _req, builder, engine = _string_builder(s, z, zids)
    except ValueError:
        if case.get("rounds") is None:
            case.pop("_gen", None)
            case["rounds"] = []
        return {"err": "ValueError"}
    steps = [step_repr(x) for x in builder._steps]  # pylint: disable=protected-access
    ids = sorted({int(n[1:]) for n in builder._metric_fetchers})  # pylint: disable=protected-access
    rounds = _fill_rounds(case, steps, ids)
    if not ids:
        # no input stream: the real engine would spin without ever yielding; such a program (operators and
        # parentheses only) can never leave exactly one value on the stack, so nothing is ever emitted
        return {"steps": steps, "out": []}
    senders = {}
    for i in ids:
        name = r["ComponentMetricRequest"]("ns", i, r["ComponentMetricId"].ACTIVE_POWER, None).get_channel_name()
        senders[i] = reg.get_or_create(r["Sample"][r["Quantity"]], name).new_sender()
    await _send_backlog(case, senders)
    rx = engine.new_receiver()
    await asyncio.sleep(0)
    out = await _feed_and_collect(rx, senders, rounds, case.get("gaps"))
    await engine._stop()  # pylint: disable=protected-access
    return {"steps": steps, "out": out}


def _ho_engines(tree: dict) -> set[int]:
    if "var" in tree:
        return set()
    if "start" in tree:
        return {tree["start"]}
    s = _ho_engines(tree["b"])
    if "eng" in tree:
        s.add(tree["eng"])
    if "r" in tree:
        s |= _ho_engines(tree["r"])
    return s


def _ho_apply(node: dict, engines: dict[int, Any], variables: list | None = None):
    """Evaluate the tree with the REAL operators / methods of FormulaEngine and HigherOrderFormulaBuilder.
    {"var": k} is the Python OBJECT the k-th `let` produced (no copy: this is what reusing a builder means)."""
    Q = R()["Quantity"]
    if "var" in node:
        return variables[node["var"]]
    if "start" in node:
        return engines[node["start"]]
    b = _ho_apply(node["b"], engines, variables)
    if "un" in node:
        return b.consumption() if node["un"] == "consumption" else b.production()
    op = node["o"]
    if "eng" in node:
        other = engines[node["eng"]]
    elif "const" in node:
        c = float(Fraction(node["const"]))
        other = c if op in "*/" else Q(c)
    else:
        other = _ho_apply(node["r"], engines, variables)
    if op == "+":
        return b + other
    if op == "-":
        return b - other
    if op == "*":
        return b * other
    if op == "/":
        return b / other
    if op == "max":
        return b.max(other)
    return b.min(other)


def _ho_tok_repr(typ, value) -> str:
    r = R()
    if typ == r["TokenType"].COMPONENT_METRIC:
        return value._name  # pylint: disable=protected-access
    if typ == r["TokenType"].CONSTANT:
        return "c:" + rat(value.base_value if isinstance(value, r["Quantity"]) else value)
    return value


async def real_ho(case: dict) -> dict:
    r = R()
    tree, z = case["tree"], case["z"]
    ids = sorted(_ho_engines(tree))
    # engines that only occur in discarded / unused sub-expressions exist too, but are never fed
    all_ids = set(ids)
    for st in case.get("prog") or []:
        for node in st.values():
            if isinstance(node, dict):
                all_ids |= _ho_engines(node)
    chans = {i: r["Broadcast"](name=f"in{i}") for i in sorted(all_ids)}
    engines = {}
    for i in sorted(all_ids):
        name = f"#{i}"
        b = r["FormulaBuilder"](name, create_method=r["Quantity"])
        b.push_metric(name, chans[i].new_receiver(), nones_are_zeros=False)
        engines[i] = r["FormulaEngine"](b, create_method=r["Quantity"])
    if case.get("prog"):
        if ho_prog_tree(case["prog"]) != tree:
            raise AssertionError("harness: prog and tree of the case disagree")
        variables: list = []
        hob = None
        judged = None
        for k, st in enumerate(case["prog"]):
            if "let" in st:
                variables.append(_ho_apply(st["let"], engines, variables))
            elif "drop" in st:
                _ho_apply(st["drop"], engines, variables)
            elif "build" in st:
                b = _ho_apply(st["build"], engines, variables)
                bname = "l2" if case.get("names", "same") == "same" else f"l2-{k}"
                if st.get("judge"):
                    judged = ([_ho_tok_repr(t, v) for t, v in b._steps],  # pylint: disable=protected-access
                              b.build(bname, nones_are_zeros=z))
                else:
                    b.build(bname, nones_are_zeros=st.get("z", z))    # built, never started
            else:
                hob = _ho_apply(st["ret"], engines, variables)
    else:
        judged = None
        hob = _ho_apply(tree, engines)
    if judged is not None:
        toks, engine = judged
    else:
        toks = [_ho_tok_repr(t, v) for t, v in hob._steps]  # pylint: disable=protected-access
        engine = hob.build("l2", nones_are_zeros=z)
    steps = [step_repr(x) for x in engine._builder._steps]  # pylint: disable=protected-access
    rounds = _fill_rounds(case, steps, ids)
    rx = engine.new_receiver()
    await asyncio.sleep(0)
    out = await _feed_and_collect(rx, {i: chans[i].new_sender() for i in ids}, rounds)
    await engine._stop()  # pylint: disable=protected-access
    for e in engines.values():
        await e._stop()  # pylint: disable=protected-access
    return {"toks": toks, "steps": steps, "out": out}


async def _run_async(cases: list[dict]) -> list:
    outs = []
    for c in cases:
        k = c["kind"]
        try:
            if k == "tokenize":
                outs.append(real_tokenize(c["s"]))
            elif k == "build":
                outs.append(real_build(c["toks"]))
            elif k == "run":
                outs.append(await real_run(c))
            elif k == "string":
                outs.append(await real_string(c))
            elif k == "ho":
                outs.append(await real_ho(c))
            else:
                raise ValueError(k)
        except Exception as e:  # pylint: disable=broad-except
            # the real code failed where the model does not: reported as a mismatch / violation, not a crash
            if c.get("rounds") is None:
                c.pop("_gen", None)
                c["rounds"] = []
            outs.append({"exc": type(e).__name__})
    return outs


def run_real(cases: list[dict]) -> list:
    """Run a batch of cases on the real code, on a fresh async_solipsism loop."""
    import warnings

    import async_solipsism

    warnings.simplefilter("ignore")
    loop = async_solipsism.EventLoop()
    asyncio.set_event_loop(loop)
    try:
        return loop.run_until_complete(_run_async(cases))
    finally:
        loop.close()
        asyncio.set_event_loop(None)


# ======================================================================= shared checking (oracle + correspondence)
def case_ast(case: dict) -> Any | None:
    """The reference expression of a case (independent of the model): the independent parse of a formula string /
    the composition tree itself.  None for cases outside the grammar (malformed: only model = code is required)."""
    if case["kind"] == "string":
        try:
            return parse_formula(case["s"])
        except ValueError:
            return None
    if case["kind"] == "ho":
        return ho_ast(case["tree"])
    if case["kind"] == "run" and case.get("ast") is not None:
        return case["ast"]
    return None


def case_zflag(case: dict):
    if case["kind"] == "string":
        z, zids = case["z"], set(case["zids"])
        return lambda i: (not z) if i in zids else z
    if case["kind"] == "run":
        first: dict[int, bool] = {}
        for t in case["toks"]:
            if t["t"] == "m":
                first.setdefault(t["n"], t["z"])   # `setdefault` in push_metric: the first flag of a name wins
        return lambda i: first[i]
    return lambda i: case["z"]


def ast_ops(a: Any) -> list[str]:
    if a[0] in ("m", "c"):
        return []
    if a[0] == "un":
        return ast_ops(a[2]) + [a[1]]
    if a[0] == "clip":
        return ast_ops(a[2]) + ["clip"]
    return ast_ops(a[2]) + [a[1]] + ast_ops(a[3])


def case_tags(case: dict, a: Any | None) -> tuple[list[str], bool]:
    tags = [case["kind"]]
    nontrivial = False
    if a is not None:
        ops = ast_ops(a)
        tags.append(f"ops={min(len(ops), 6)}{'+' if len(ops) >= 6 else ''}")
        if case["kind"] == "string":
            if "(" in case["s"]:
                tags.append("parens")
            if any(c in case["s"] for c in "\n\r\t"):
                tags.append("ws-control")
            seq = [c for c in case["s"] if c in "+-*/()"]
            flat = "".join(seq)
            if "+-" in flat or "*/" in flat:
                tags.append("reassociated(a+b-c|a*b/c)")
            if case["zids"]:
                tags.append("per-id-flags")
        if case.get("prog"):
            tags.append("builder-reuse")
            if any("build" in st for st in case["prog"]):
                tags.append("build-history")
        if any(o in ops for o in ("max", "min")):
            tags.append("minmax")
        if any(o in ops for o in UN_API):
            tags.append("cons/prod")
        if "clip" in ops:
            tags.append("clip")
        if case.get("backlog"):
            tags.append("backlog(staggered start)")
        if case.get("tiny"):
            tags.append("tiny-denominator")
        if "/" in ops:
            tags.append("division")
        nontrivial = len(ops) >= 2 and len(set(ops)) >= 2
    elif case["kind"] in ("string", "tokenize"):
        tags.append("malformed")
    for rd in case.get("rounds") or []:
        if any(inp_missing(v) for v in rd["env"].values()):
            tags.append("round:missing")
            break
    if case.get("z") or case.get("zids"):
        tags.append("nones_are_zeros")
    return tags, nontrivial


def oracle(ctx, prop: str, case: dict, impl: dict, a: Any) -> None:
    """Evaluate the property on the REAL engine's output for every round of the case.
    C05: in a round where every input of the expression is present and the expression is defined, the formula's output
         for that timestamp is the arithmetic value; and no number is ever emitted for an undefined expression.
    C13: exactly one sample per round, carrying the round's timestamp and the value demanded by `expected_sample`."""
    if "exc" in impl:
        ctx.violation("the real builder/engine raised " + impl["exc"], case, impl)
        return
    if "err" in impl:
        ctx.violation("a well-formed formula string was rejected by the tokenizer / from_string", case, impl)
        return
    zflag = case_zflag(case)
    ids = ast_ids(a)
    by_ts: dict[int, list] = {}
    for ts, v in impl.get("out") or []:
        by_ts.setdefault(ts, []).append(v)
    round_ts = {rd["ts"] for rd in case["rounds"]}
    for ts in by_ts:
        if ts not in round_ts:
            ctx.violation("sample with a timestamp that is no input timestamp", case, {"ts": ts, "out": impl["out"]})
            return
    for rd in case["rounds"]:
        got = by_ts.get(rd["ts"], [])
        want = expected_sample(a, rd["env"], zflag)
        any_missing = any(inp_missing(rd["env"].get(str(i))) for i in ids)
        if prop == "C05":
            if any_missing:
                continue
            if want is None:
                if any(v is not None for v in got):
                    ctx.violation("a number was emitted for an undefined expression (zero divisor)", case,
                                  {"round": rd, "emitted": got})
                    return
                ctx.tags["round:zero-divisor"] = ctx.tags.get("round:zero-divisor", 0) + 1
                continue
            if got and any(v != want for v in got):
                ctx.violation("emitted value differs from the arithmetic value of the expression", case,
                              {"round": rd, "emitted": got, "expected": want})
                return
            if not got:
                ctx.violation("no value was emitted for a defined expression (all inputs present, no zero divisor)", case,
                              {"round": rd, "emitted": got, "expected": want})
                return
        else:
            if len(got) != 1:
                ctx.violation("total: not exactly one sample for an input timestamp", case,
                              {"round": rd, "emitted": got, "expected": [want]})
                return
            if got[0] != want:
                clause = "none-iff" if (got[0] is None) != (want is None) else "value"
                ctx.violation(clause + ": emitted value differs from what the inputs of the round demand", case,
                              {"round": rd, "emitted": got[0], "expected": want})
                return


def check_cases(ctx, prop: str, cases: list[dict]) -> None:
    """Real run, oracle, bookkeeping, then the correspondence with the Lean model — in chunks, so a violation found
    early is reported even if something later goes wrong."""
    CH = 4000
    for k in range(0, len(cases), CH):
        chunk = cases[k:k + CH]
        impl = run_real(chunk)
        for c, i in zip(chunk, impl):
            a = case_ast(c)
            tags, nontrivial = case_tags(c, a)
            ctx.case(c, tags=tags, nontrivial=nontrivial)
            if a is not None:
                oracle(ctx, prop, c, i, a)
            elif "exc" in i:
                ctx.violation("the real builder/engine raised " + i["exc"], c, i)
        ctx.compare("Formula", chunk, impl, what="tokens / postfix steps / emitted samples")
        if ctx.boost > 1 and ctx.violations:
            # the enlarged search of a broken proof / correspondence has its failing input: no need for the rest
            ctx.note(f"boosted search stopped after {min(k + CH, len(cases))} of {len(cases)} cases: failing input found")
            break


# ======================================================================= start-up alignment that fails first (gaps)
def gap_cases(ctx, n: int, p_missing: float) -> list[dict]:
    """Streams that start out of step AND whose first alignment fails: the lagging stream holds one older sample and
    has NO sample for the first common timestamp (a gap), so its next sample is already newer than the other streams'
    first one; the engine drops that round and must align again.  Values encode (stream, timestamp).  Which rounds are
    answered is the subject of C06; here every sample that IS emitted is judged against the inputs of ITS timestamp."""
    cases = []
    encs = [None, "nan", "inf", "-inf"]
    for i in range(n):
        rng = ctx.subrng("gap", i)
        k = rng.choice([2, 2, 3])
        ids = rng.sample([1, 2, 3, 5, 7], k)
        shape = rng.choice(list(tree_shapes(k - 1)))
        s = shape_to_string(shape, [rng.choice("+-*") for _ in range(k - 1)], [str(x) for x in ids], False)
        start = rng.randint(2, 5)
        lag = rng.choice(ids)

        def val(stream: int, ts: int) -> Any:
            if rng.random() < p_missing:
                return rng.choice(encs)
            return rat(Fraction((ids.index(stream) + 1) * 16 + ts))

        rounds = [{"ts": t, "env": {str(x): val(x, t) for x in ids}} for t in range(start, start + rng.randint(5, 7))]
        cases.append({"kind": "string", "s": s, "z": rng.random() < 0.3, "zids": [], "rounds": rounds,
                      "backlog": {str(lag): [[start - 1, val(lag, start - 1)]]}, "gaps": {str(lag): [start]}})
    return cases


def check_gap_cases(ctx, prop: str, cases: list[dict]) -> None:
    """Oracle only (the exact model has one aligned round per timestamp): every emitted sample must carry a timestamp
    at which every input of the expression has a sample, and its value must be what THOSE inputs demand (C05: the
    arithmetic value when all are present and it is defined, never a number for an undefined one; C13: exactly the
    demanded value / None).  Tokens and post-fix steps are still compared with the model (rounds stripped)."""
    impl = run_real(cases)
    for c, i in zip(cases, impl):
        a = case_ast(c)
        ctx.case(c, tags=[c["kind"], "gap(first alignment fails)"], nontrivial=True)
        if "exc" in i or "err" in i:
            ctx.violation("the real builder/engine failed: " + str(i.get("exc") or i.get("err")), c, i)
            continue
        zflag = case_zflag(c)
        ids = ast_ids(a)
        by_ts = {rd["ts"]: rd for rd in c["rounds"]}
        for ts, v in i.get("out") or []:
            rd = by_ts.get(ts)
            if rd is None or any(ts in (c.get("gaps") or {}).get(str(x), []) for x in ids):
                ctx.violation("a sample was emitted for a timestamp at which not every input has a sample", c,
                              {"ts": ts, "emitted": v, "out": i["out"]})
                break
            want = expected_sample(a, rd["env"], zflag)
            ctx.tags["gap:judged-sample"] = ctx.tags.get("gap:judged-sample", 0) + 1
            if prop == "C05":
                if any(inp_missing(rd["env"].get(str(x))) for x in ids):
                    continue
                bad = (v is not None) if want is None else (v != want)
            else:
                bad = v != want
            if bad:
                ctx.violation("emitted value differs from what the inputs of ITS timestamp demand (after a failed first "
                              "alignment)", c, {"round": rd, "emitted": v, "expected": want, "out": i["out"]})
                break
    ctx.compare("Formula", [dict(c, rounds=[]) for c in cases], [dict(i, out=[]) if "out" in i else i for i in impl],
                what="tokens / postfix steps of the failed-first-alignment stream")


# ======================================================================= non-finite RESULTS from finite inputs (C13)
EXTREME_POOL = [1e200, -1e200, 1e308, -1e308, 1.5e154, 5e-324, -5e-324, 1e-320, 1e-200, 2.0, 1.0, -1.0, 0.5, 3.0, 1e100]

NONFINITE_TEMPLATES: list[tuple[dict, list[dict[str, float]]]] = [
    ({"kind": "string", "s": "#1 * #2"}, [{"1": 1e200, "2": 1e200}, {"1": -1e200, "2": 1e200}]),
    ({"kind": "string", "s": "#1 / #2"}, [{"1": 1.0, "2": 5e-324}, {"1": -3.0, "2": 1e-320}]),
    ({"kind": "string", "s": "#1 + #2"}, [{"1": 1e308, "2": 1e308}]),
    ({"kind": "string", "s": "#1 - #2"}, [{"1": -1e308, "2": 1e308}]),
    ({"kind": "string", "s": "#3 + #1 * #2 - #3"}, [{"1": 1e200, "2": 1e200, "3": 1.0}]),
    ({"kind": "string", "s": "(#1 + #3) / (#2 * #2) + #3"}, [{"1": 1.0, "2": 1e-200, "3": 2.0}]),
    ({"kind": "string", "s": "#1 * #2 * #2"}, [{"1": 3.0, "2": 1e200}]),
    ({"kind": "ho", "tree": {"b": {"b": {"start": 1}, "o": "*", "eng": 2}, "o": "max", "eng": 3}},
     [{"1": 1e200, "2": 1e200, "3": 1.0}]),
    ({"kind": "ho", "tree": {"b": {"b": {"start": 1}, "o": "*", "eng": 2}, "un": "production"}},
     [{"1": -1e200, "2": 1e200}]),
    ({"kind": "ho", "tree": {"b": {"b": {"start": 1}, "o": "/", "const": rat(5e-324)}, "un": "consumption"}},
     [{"1": 1.0}]),
    ({"kind": "ho", "tree": {"b": {"b": {"start": 1}, "o": "*", "const": rat(1e200)}, "o": "*", "eng": 1}},
     [{"1": 1e200}]),
    ({"kind": "ho", "tree": {"b": {"start": 3}, "o": "min", "r": {"b": {"start": 1}, "o": "+", "eng": 2}}},
     [{"1": -1e308, "2": -1e308, "3": 0.5}]),
]


def _fdiv(x: float, y: float) -> float:
    return math.nan if y == 0 or math.isnan(x) or math.isnan(y) else x / y


def _fminmax(f, x: float, y: float) -> float:
    return math.nan if math.isnan(x) or math.isnan(y) else f(x, y)


def float_eval(a: Any, env: dict[str, Any]) -> float:
    """Independent IEEE evaluation of the expression in standard order (finite inputs; NaN-strict, x/0 = NaN)."""
    if a[0] == "m":
        return float(Fraction(env[str(a[1])]))
    if a[0] == "c":
        return float(Fraction(a[1]))
    if a[0] == "un":
        v = float_eval(a[2], env)
        return _fminmax(max, v if a[1] == "consumption" else -v, 0.0)
    _, op, l, r = a
    x, y = float_eval(l, env), float_eval(r, env)
    if op == "+":
        return x + y
    if op == "-":
        return x - y
    if op == "*":
        return x * y
    if op == "/":
        return _fdiv(x, y)
    return _fminmax(max if op == "max" else min, x, y)


def postfix_float(steps: list[str], env: dict[str, Any]) -> float | None:
    """The same in the order of the real post-fix program (a FILTER: `a*b/c` is compiled as `a*(b/c)`, and an
    intermediate overflow may or may not survive a different order).  None = malformed program."""
    st: list[float] = []
    try:
        for s in steps:
            if s.startswith("#"):
                st.append(float(Fraction(env[s.partition(":")[0][1:]])))
            elif s.startswith("c:"):
                st.append(float(Fraction(s[2:])))
            elif s in ("consumption", "production"):
                v = st.pop()
                st.append(_fminmax(max, v if s == "consumption" else -v, 0.0))
            elif s == "(" or s.startswith("clip("):
                continue
            else:
                y = st.pop()
                x = st.pop()
                st.append(x + y if s == "+" else x - y if s == "-" else x * y if s == "*" else _fdiv(x, y) if s == "/"
                          else _fminmax(max if s == "max" else min, x, y))
    except (IndexError, KeyError):
        return None
    return st[0] if len(st) == 1 else None


def gen_nonfinite_cases(ctx, n: int) -> list[dict]:
    """Expressions over FINITE inputs whose IEEE evaluation is not finite (overflowing products and sums, divisions by
    subnormals, inf - inf, also inside larger expressions).  Rounds with a finite result are kept only to check that
    a sample is emitted."""
    cases = []
    for tpl, envs in NONFINITE_TEMPLATES:
        for z in (False, True):
            c = dict(tpl, z=z, nonfinite=True, rounds=[{"ts": k + 1, "env": {i: rat(v) for i, v in e.items()}}
                                                        for k, e in enumerate(envs)])
            if c["kind"] == "string":
                c["zids"] = []
            cases.append(c)
    for i in range(n):
        rng = ctx.subrng("nonfinite", i)
        if rng.random() < 0.5:
            ids = rng.sample(["1", "2", "3", "7"], rng.randint(2, 3))
            c = {"kind": "string", "s": gen_string(rng, ids, rng.choice([1, 2])), "z": rng.random() < 0.3, "zids": []}
        else:
            engines = rng.sample([1, 2, 3, 4], rng.randint(2, 3))
            c = {"kind": "ho", "tree": gen_ho(rng, engines, rng.choice([1, 2])), "z": rng.random() < 0.3}
        a = case_ast(c)
        ids_ = sorted(ast_ids(a))
        rounds, bad = [], 0
        for _try in range(40):
            env = {str(k): rat(rng.choice(EXTREME_POOL)) for k in ids_}
            if not math.isfinite(float_eval(a, env)):
                bad += 1
                rounds.append(env)
            elif len(rounds) - bad < 1:
                rounds.append(env)
            if bad >= 3:
                break
        if bad:
            c.update(nonfinite=True, rounds=[{"ts": k + 1, "env": e} for k, e in enumerate(rounds)])
            cases.append(c)
    return cases


def check_nonfinite(ctx, cases: list[dict]) -> None:
    """Real engines on the non-finite-result stream, judged by the oracle only: when the IEEE value of the expression is
    not finite — in the independent standard-order evaluation AND in the order of the post-fix program — the sample of
    that timestamp must be None; in every round exactly one sample.  The exact-rational model has no overflow, so only
    tokens and post-fix steps are compared with it (rounds stripped)."""
    impl = run_real(cases)
    for c, i in zip(cases, impl):
        a = case_ast(c)
        ctx.case(c, tags=[c["kind"], "nonfinite-result"], nontrivial=True)
        if "exc" in i or "err" in i:
            ctx.violation("the real builder/engine failed: " + str(i.get("exc") or i.get("err")), c, i)
            continue
        by_ts: dict[int, list] = {}
        for ts, v in i.get("out") or []:
            by_ts.setdefault(ts, []).append(v)
        for rd in c["rounds"]:
            got = by_ts.get(rd["ts"], [])
            if len(got) != 1:
                ctx.violation("total: not exactly one sample for an input timestamp", c, {"round": rd, "emitted": got})
                break
            std = float_eval(a, rd["env"])
            pf = postfix_float(i["steps"], rd["env"])
            if not math.isfinite(std) and pf is not None and not math.isfinite(pf):
                ctx.tags["round:nonfinite-result"] = ctx.tags.get("round:nonfinite-result", 0) + 1
                if got[0] is not None:
                    ctx.violation("none-iff: the result computed from finite inputs is not finite but a value was emitted "
                                  "instead of None", c, {"round": rd, "emitted": got[0], "expected": None,
                                                         "ieee_result": repr(std)})
                    break
    ctx.compare("Formula", [dict(c, rounds=[]) for c in cases], [dict(i, out=[]) if "out" in i else i for i in impl],
                what="tokens / postfix steps of the non-finite-result stream")
