"""Generators, implementation runner, reference regime tagger and oracle for the battery distribution
algorithm (C01, C02).

A *case* is the JSON document the Lean driver `Drivers/Distribution.lean` reads:
    {"power": rat, "exp": nat, "failed": rat|None,
     "groups": [{"bats": [{"id","cap","soc","soc_lo","soc_hi","il","el","eu","iu"}],
                 "invs": [{"id","il","el","eu","iu"}]}]}
`invs` is listed in the iteration order of `frozenset(inverter_ids)` as the real code builds it on the side of
the request (the only place where the algorithm depends on set iteration order).

Keys only the harness reads (the driver ignores them):
  "ts" (per battery / inverter) : sample time in seconds after TS — an unchanged component keeps its timestamp;
  "history": [case, …]          : calls made BEFORE this one on the SAME `BatteryDistributionAlgorithm` instance (the
                                  `BatteryManager` keeps one); the case's outputs are those of the last call;
  "adjust_power": bool          : flag of the `Request` handed to the real `BatteryManager` (default true);
  "fail_ids": [inverter id]     : inverters whose `set_power` call fails;
  "fail_kinds": {id: kind}      : how it fails: "out_of_range" (OperationOutOfRange), "api_error" (another ApiClientError),
                                  "unknown" (any other exception), "timeout" (no answer within the request timeout);
  "manager_sequence": [case, …] : (replay files of C02) requests made one after the other through ONE real `BatteryManager`
                                  reading latest-value caches; a component whose data is unchanged keeps its message object.
Float runs: every case is also run on IEEE doubles; the oracle clauses are applied to the float outputs as well (same
tolerance), also where the float run takes another branch than the exact one (`float_only` violations).  `gen_float_residue`
produces the shapes where that happens (exponents 4–8: ratio residues above the 1e-9 tolerance of `is_close_to_zero`).
"""
from __future__ import annotations

import asyncio
import math
import random
from datetime import datetime, timedelta, timezone
from fractions import Fraction
from typing import Any, Callable
from unittest import mock

from .common import rat

TS = datetime(2024, 1, 1, tzinfo=timezone.utc)
CLOSE_TOL = Fraction(1, 10**9)
REL_TOL = Fraction(1, 10**9)
ADJ_THRESHOLD = Fraction(-1, 10)


# --------------------------------------------------------------------------- exact numbers
class Q(Fraction):
    """A `fractions.Fraction` whose arithmetic absorbs floats exactly.

    The algorithm initialises its accumulators with float literals (`0.0`); `0.0 + Fraction` would silently
    turn the whole run into floats.  Every finite float is a rational, so absorbing is exact.
    """

    __slots__ = ()

    @staticmethod
    def _lift(x: Any) -> "Q | None":
        if isinstance(x, Q):
            return x
        if isinstance(x, bool):
            return None
        if isinstance(x, float):
            if math.isnan(x) or math.isinf(x):
                return None
            return Q(Fraction(x))
        if isinstance(x, (int, Fraction)):
            return Q(x)
        return None


def _binop(name: str, reflected: bool) -> Callable[[Q, Any], Any]:
    base = getattr(Fraction, name)

    def op(self: Q, other: Any) -> Any:
        o = Q._lift(other)
        if o is None:
            return base(self, other)
        r = base(self, o)
        return Q(r) if isinstance(r, Fraction) else r

    op.__name__ = name
    return op


for _n in ("__add__", "__sub__", "__mul__", "__truediv__"):
    setattr(Q, _n, _binop(_n, False))
for _n in ("__radd__", "__rsub__", "__rmul__", "__rtruediv__"):
    setattr(Q, _n, _binop(_n, True))


def _unop(name: str) -> Callable[[Q], Q]:
    base = getattr(Fraction, name)

    def op(self: Q) -> Q:
        return Q(base(self))

    return op


for _n in ("__neg__", "__pos__", "__abs__"):
    setattr(Q, _n, _unop(_n))


def _qpow(self: Q, other: Any, mod: Any = None) -> Any:
    r = Fraction.__pow__(self, other)
    return Q(r) if isinstance(r, Fraction) else r


Q.__pow__ = _qpow  # type: ignore[method-assign,assignment]


def F(x: Any) -> Fraction:
    return Fraction(x)


# --------------------------------------------------------------------------- case <-> real objects
def side_is_supply(case: dict) -> bool:
    return not (F(case["power"]) > 0)


def iteration_order(invs: list[dict], supply: bool) -> list[int]:
    """Iteration order of `frozenset(inverter_ids)` exactly as `_compute_battery_availability_ratio` and
    `_distribute_power` build it: ids sorted by (exclusion bound on the request's side, id) descending."""
    excl = {i["id"]: (-F(i["el"]) if supply else F(i["eu"])) for i in invs}
    ids = [i["id"] for i in invs]
    ids.sort(key=lambda item: (excl[item], item), reverse=True)
    return list(frozenset(ids))


def order_invs(invs: list[dict], supply: bool) -> list[dict]:
    by = {i["id"]: i for i in invs}
    return [by[k] for k in iteration_order(invs, supply)]


def build_components(case: dict, num: Callable[[str], Any]) -> list[Any]:
    from frequenz.sdk.microgrid._power_distributing._distribution_algorithm import (
        AggregatedBatteryData,
        InvBatPair,
    )
    from tests.utils.component_data_wrapper import BatteryDataWrapper, InverterDataWrapper

    comps = []
    for g in case["groups"]:
        bats = [
            BatteryDataWrapper(
                component_id=b["id"], timestamp=TS + timedelta(seconds=int(b.get("ts", 0))),
                capacity=num(b["cap"]), soc=num(b["soc"]),
                soc_lower_bound=num(b["soc_lo"]), soc_upper_bound=num(b["soc_hi"]),
                power_inclusion_lower_bound=num(b["il"]), power_exclusion_lower_bound=num(b["el"]),
                power_exclusion_upper_bound=num(b["eu"]), power_inclusion_upper_bound=num(b["iu"]),
            )
            for b in g["bats"]
        ]
        invs = [
            InverterDataWrapper(
                component_id=i["id"], timestamp=TS + timedelta(seconds=int(i.get("ts", 0))),
                active_power_inclusion_lower_bound=num(i["il"]), active_power_exclusion_lower_bound=num(i["el"]),
                active_power_exclusion_upper_bound=num(i["eu"]), active_power_inclusion_upper_bound=num(i["iu"]),
            )
            for i in g["invs"]
        ]
        comps.append(InvBatPair(AggregatedBatteryData(bats), invs))
    return comps


def run_impl(case: dict, exact: bool = True) -> dict:
    """Run the REAL `distribute_power`; exact=True on `Q` numbers, else on floats."""
    from frequenz.sdk.microgrid._power_distributing._distribution_algorithm import BatteryDistributionAlgorithm

    num: Callable[[str], Any] = (lambda s: Q(Fraction(s))) if exact else (lambda s: float(Fraction(s)))
    algo = BatteryDistributionAlgorithm(int(case["exp"]))
    for h in case.get("history") or []:  # earlier calls on the same instance (their results do not matter here)
        try:
            algo.distribute_power(num(h["power"]), build_components(h, num))
        except ValueError:
            pass
    comps = build_components(case, num)
    try:
        res = algo.distribute_power(num(case["power"]), comps)
    except ValueError:
        return {"error": "ValueError"}
    if exact:
        return {"dist": {str(k): rat(v) for k, v in res.distribution.items()}, "rem": rat(res.remaining_power)}
    return {"dist": {str(k): float(v) for k, v in res.distribution.items()}, "rem": float(res.remaining_power)}


# --------------------------------------------------------------------------- domain of the property (python side)
def aggregate(bats: list[dict]) -> dict:
    n = len(bats)
    cap = sum(F(b["cap"]) for b in bats)
    out = {
        "cap": cap,
        "iu": sum(F(b["iu"]) for b in bats), "il": sum(F(b["il"]) for b in bats),
        "eu": max(F(b["eu"]) for b in bats) * n, "el": min(F(b["el"]) for b in bats) * n,
    }
    if cap != 0:
        out["soc"] = sum(F(b["soc"]) * F(b["cap"]) for b in bats) / cap
        out["soc_hi"] = sum(F(b["soc_hi"]) * F(b["cap"]) for b in bats) / cap
        out["soc_lo"] = sum(F(b["soc_lo"]) * F(b["cap"]) for b in bats) / cap
    else:
        out["soc"] = out["soc_hi"] = out["soc_lo"] = None
    return out


def ordered(il: Fraction, el: Fraction, eu: Fraction, iu: Fraction) -> bool:
    return il <= el <= 0 <= eu <= iu


def group_side(g: dict, supply: bool) -> dict:
    """Numbers of one group on the request's side, written from the property text / docstrings:
    battery bounds aggregated, inverter inclusion bounds clipped by the battery's, minimum power and
    inclusion bound of the pair."""
    a = aggregate(g["bats"])
    if supply:
        bexcl, bincl = -a["el"], -a["il"]
        invs = [{"id": i["id"], "excl": -F(i["el"]), "incl": -max(F(i["il"]), a["il"])} for i in g["invs"]]
        avail = None if a["soc"] is None else max(Fraction(0), a["soc"] - a["soc_lo"])
    else:
        bexcl, bincl = a["eu"], a["iu"]
        invs = [{"id": i["id"], "excl": F(i["eu"]), "incl": min(F(i["iu"]), a["iu"])} for i in g["invs"]]
        avail = None if a["soc"] is None else max(Fraction(0), a["soc_hi"] - a["soc"])
    return {
        "agg": a, "bexcl": bexcl, "bincl": bincl, "invs": invs, "avail": Fraction(0) if avail is None else avail,
        "min_p": max(bexcl, min(i["excl"] for i in invs)), "ub": min(sum(i["incl"] for i in invs), bincl),
    }


def consistent(case: dict) -> bool:
    if not case["groups"]:
        return False
    for g in case["groups"]:
        if not g["bats"] or not g["invs"]:
            return False
        for b in g["bats"]:
            if not (F(b["cap"]) > 0 and ordered(F(b["il"]), F(b["el"]), F(b["eu"]), F(b["iu"]))):
                return False
        for i in g["invs"]:
            if not ordered(F(i["il"]), F(i["el"]), F(i["eu"]), F(i["iu"])):
                return False
        for supply in (False, True):
            s = group_side(g, supply)
            if not s["min_p"] <= s["ub"]:
                return False
    return True


def advertised_excl(case: dict) -> tuple[Fraction, Fraction]:
    """Exclusion bounds the battery pool ADVERTISES (docstring of `PowerBoundsCalculator`: per battery set the
    larger of the aggregated battery bound and the sum of the inverter bounds; summed over the sets)."""
    lo = hi = Fraction(0)
    for g in case["groups"]:
        a = aggregate(g["bats"])
        lo += min(a["el"], sum(F(i["el"]) for i in g["invs"]))
        hi += max(a["eu"], sum(F(i["eu"]) for i in g["invs"]))
    return lo, hi


def enforced_excl(case: dict) -> tuple[Fraction, Fraction]:
    """Exclusion bounds `BatteryManager._get_bounds` enforces (never stricter than the advertised ones)."""
    aggs = [aggregate(g["bats"]) for g in case["groups"]]
    lo = min(sum(a["el"] for a in aggs), sum(F(i["el"]) for g in case["groups"] for i in g["invs"]))
    hi = max(sum(a["eu"] for a in aggs), sum(F(i["eu"]) for g in case["groups"] for i in g["invs"]))
    return lo, hi


def admitted(case: dict) -> bool:
    """The quantifier of C01/C02: non-zero and |power| >= the ADVERTISED exclusion bound."""
    p = F(case["power"])
    if abs(p) <= CLOSE_TOL:
        return False
    lo, hi = advertised_excl(case)
    return not lo < p < hi


def manager_admits(case: dict) -> bool:
    p = F(case["power"])
    if abs(p) <= CLOSE_TOL:
        return True
    lo, hi = enforced_excl(case)
    return not lo < p < hi


def real_domain_probe(case: dict) -> dict:
    """The REAL `PowerBoundsCalculator.calculate` and the REAL `BatteryManager._check_request` on the case's
    component data (floats): advertised exclusion bounds and whether the manager forwards the request."""
    from frequenz.client.microgrid import ComponentMetricId as M
    from frequenz.quantities import Power
    from frequenz.sdk.microgrid._power_distributing._component_managers._battery_manager import BatteryManager
    from frequenz.sdk.microgrid._power_distributing.request import Request
    from frequenz.sdk.timeseries.battery_pool._component_metrics import ComponentMetricsData
    from frequenz.sdk.timeseries.battery_pool._metric_calculator import PowerBoundsCalculator

    bm = [M.POWER_INCLUSION_LOWER_BOUND, M.POWER_EXCLUSION_LOWER_BOUND, M.POWER_EXCLUSION_UPPER_BOUND,
          M.POWER_INCLUSION_UPPER_BOUND]
    im = [M.ACTIVE_POWER_INCLUSION_LOWER_BOUND, M.ACTIVE_POWER_EXCLUSION_LOWER_BOUND,
          M.ACTIVE_POWER_EXCLUSION_UPPER_BOUND, M.ACTIVE_POWER_INCLUSION_UPPER_BOUND]
    calc = PowerBoundsCalculator.__new__(PowerBoundsCalculator)
    calc._bat_inv_map, calc._bat_bats_map = {}, {}  # type: ignore[attr-defined]
    calc._battery_metrics, calc._inverter_metrics = bm, im  # type: ignore[attr-defined]
    md = {}
    for g in case["groups"]:
        bids = frozenset(b["id"] for b in g["bats"])
        iids = frozenset(i["id"] for i in g["invs"])
        for b in g["bats"]:
            calc._bat_inv_map[b["id"]] = iids  # type: ignore[attr-defined]
            calc._bat_bats_map[b["id"]] = bids  # type: ignore[attr-defined]
            md[b["id"]] = ComponentMetricsData(b["id"], TS, dict(zip(bm, (float(F(b[k])) for k in ("il", "el", "eu", "iu")))))
        for i in g["invs"]:
            md[i["id"]] = ComponentMetricsData(i["id"], TS, dict(zip(im, (float(F(i[k])) for k in ("il", "el", "eu", "iu")))))
    sb = calc.calculate(md, {b["id"] for g in case["groups"] for b in g["bats"]})
    out: dict[str, Any] = {"adv_excl": None}
    if sb.exclusion_bounds is not None:
        out["adv_excl"] = (sb.exclusion_bounds.lower.as_watts(), sb.exclusion_bounds.upper.as_watts())
    mgr = BatteryManager.__new__(BatteryManager)
    bat_ids = frozenset(b["id"] for g in case["groups"] for b in g["bats"])
    mgr._battery_caches = {b: None for b in bat_ids}  # type: ignore[attr-defined]
    req = Request(power=Power.from_watts(float(F(case["power"]))), component_ids=bat_ids, adjust_power=True)
    out["manager_admits"] = mgr._check_request(req, build_components(case, lambda s: float(Fraction(s)))) is None  # pylint: disable=protected-access
    return out


def real_check_request(case: dict, adjust_power: bool) -> bool:
    """The REAL `BatteryManager._check_request` (floats): does the manager forward the request with this flag?"""
    from frequenz.quantities import Power
    from frequenz.sdk.microgrid._power_distributing._component_managers._battery_manager import BatteryManager
    from frequenz.sdk.microgrid._power_distributing.request import Request

    mgr = BatteryManager.__new__(BatteryManager)
    bat_ids = frozenset(b["id"] for g in case["groups"] for b in g["bats"])
    mgr._battery_caches = {b: None for b in bat_ids}  # type: ignore[attr-defined]
    req = Request(power=Power.from_watts(float(F(case["power"]))), component_ids=bat_ids, adjust_power=adjust_power)
    return mgr._check_request(req, build_components(case, lambda s: float(Fraction(s)))) is None  # pylint: disable=protected-access


# --------------------------------------------------------------------------- reference regime tagger
def _close0(v: Fraction) -> bool:
    return abs(v) <= CLOSE_TOL


def _isclose(a: Fraction, b: Fraction) -> bool:
    return abs(a - b) <= REL_TOL * max(abs(a), abs(b))


def regimes(case: dict) -> list[str]:
    """Regime tags of a case, computed from the INPUT by an instrumented re-implementation of the pinned
    algorithm over exact rationals (independent of the Lean model; cross-checked against it through the driver)."""
    p = F(case["power"])
    if _close0(p):
        return []
    supply = not p > 0
    P = -p if supply else p
    exp = int(case["exp"])
    sides = [group_side(g, supply) for g in case["groups"]]
    total = sum(s["agg"]["cap"] for s in sides)
    if _close0(total):
        return []
    items = []
    for s in sides:
        ratio = s["agg"]["cap"] / total * (s["avail"] ** exp)
        items.append({"s": s, "ratio": ratio, "min_p": s["min_p"], "ub": s["ub"]})
    S = sum(it["ratio"] for it in items)
    if _close0(S):
        return []
    items.sort(key=lambda it: (it["min_p"], it["ratio"]), reverse=True)
    flags = set()
    if exp == 0 and any(it["s"]["avail"] == 0 for it in items):
        flags.add("exp0")
    R = U = Fraction(0)
    rho = S
    entries = []
    for it in items:
        if _close0(rho):
            entries.append({"it": it, "active": False, "ub": Fraction(0), "p": Fraction(0), "exc": None, "dfc": None})
            continue
        c = (P - R) * it["ratio"] / rho
        R += max(c, it["min_p"])
        U += it["ratio"]
        rho = S - U
        e = {"it": it, "active": True, "ub": it["ub"], "p": it["min_p"], "exc": None, "dfc": None}
        if c > it["ub"]:
            e["exc"] = it["ub"] - it["min_p"]
        elif c < it["min_p"]:
            e["dfc"] = c - it["min_p"]
        else:
            e["exc"] = c - it["min_p"]
        entries.append(e)
        if it["s"]["avail"] == 0 and it["min_p"] > 0:
            flags.add("zero_ratio_min")
    D = sum(e["p"] for e in entries)
    for e in entries:
        if e["dfc"] is None:
            continue
        d = e["dfc"]
        while not _close0(d) and d < 0:
            cands = [x for x in entries if x["exc"] is not None]
            if not cands:
                break
            best = cands[0]
            for x in cands[1:]:
                if x["exc"] > best["exc"]:
                    best = x
            lp = best["exc"]
            if _close0(lp) or lp < 0:
                break
            if lp >= -d or _isclose(lp, -d):
                if lp < -d:
                    flags.add("isclose_cover")
                best["exc"] = lp + d
                d = Fraction(0)
            else:
                d += lp
                best["exc"] = Fraction(0)
        if d < ADJ_THRESHOLD:
            left = P - D
            if left > -d:
                D += d
                flags.add("adjust")
            elif left > 0:
                D += left
                flags.add("adjust")
    for e in entries:
        if e["exc"] is not None:
            D += e["exc"]
            e["p"] += e["exc"]
    left = P - D
    if left < 0:
        flags.add("overcommit")
    if not _close0(left):
        for e in entries:
            if _close0(left) or _close0(e["p"]):
                continue
            add = min(e["ub"] - e["p"], left)
            e["p"] += add
            left -= add
    for e in entries:
        invs = e["it"]["s"]["invs"]
        if len(invs) == 1:
            continue
        rem = e["p"]
        by = {i["id"]: i for i in invs}
        # the case lists the inverters in frozenset iteration order
        for i in invs:
            if not _close0(rem) and by[i["id"]]["excl"] <= rem:
                rem -= min(by[i["id"]]["incl"], rem)
        if rem != 0:
            flags.add("split_infeasible")
    return sorted(flags)


FLAG_ORDER = ["adjust", "split_infeasible", "overcommit", "isclose_cover", "exp0", "zero_ratio_min"]


def flags_canonical(flags: list[str]) -> list[str]:
    return [f for f in FLAG_ORDER if f in flags]


# --------------------------------------------------------------------------- manager report (reference arithmetic)
def manager_report(case: dict, rem: Fraction) -> dict:
    """What `BatteryManager._distribute_power` reports, per its docstring-level contract: everything not
    reported as excess or failed is reported as succeeded."""
    p = F(case["power"])
    failed = case.get("failed")
    f = Fraction(0) if failed is None else F(failed)
    return {"succeeded": rat(p - rem - f), "failed": rat(f), "excess": rat(rem)}


def _api_failure(kind: str) -> BaseException:
    """The exception a scripted `set_power` outcome raises (the kinds `_parse_result` tells apart)."""
    import grpc.aio
    from frequenz.client.microgrid import ApiClientError, OperationOutOfRange

    if kind == "out_of_range":  # the component is fine, it only rejected this value
        return OperationOutOfRange(server_url="grpc://fake", operation="set_power", grpc_error=mock.MagicMock(spec=grpc.aio.AioRpcError))
    if kind == "api_error":
        return ApiClientError(server_url="grpc://fake", operation="set_power", description="scripted", retryable=False)
    return RuntimeError("scripted failure")


def run_manager(case: dict, dist: dict[int, float], rem: float, fail_ids: set[int], adjust_power: bool = True,
                fail_kinds: dict[int, str] | None = None) -> dict:
    """Drive the REAL `BatteryManager._distribute_power` with a fake API client whose `set_power` outcomes are scripted per
    inverter (accepted / OperationOutOfRange / another ApiClientError / an unknown exception / no answer within the
    timeout); returns the reported succeeded/failed/excess powers and the `set_power` calls received by the client (floats)."""
    fail_kinds = fail_kinds or {}
    from frequenz.quantities import Power
    from frequenz.sdk.microgrid import connection_manager
    from frequenz.sdk.microgrid._power_distributing._component_managers._battery_manager import BatteryManager
    from frequenz.sdk.microgrid._power_distributing._distribution_algorithm import DistributionResult
    from frequenz.sdk.microgrid._power_distributing.request import Request
    from frequenz.sdk.microgrid._power_distributing.result import PartialFailure, Success

    calls: list[tuple[int, float]] = []

    class _Api:
        async def set_power(self, inverter_id: int, power: float) -> None:
            calls.append((inverter_id, power))
            if inverter_id in fail_ids:
                kind = fail_kinds.get(inverter_id, "unknown")
                if kind == "timeout":
                    await asyncio.sleep(3600)
                raise _api_failure(kind)  # `_parse_result` counts every exception (and a cancelled task) as failed

    class _Conn:
        api_client = _Api()

    class _Tracker:
        async def update_status(self, ok: set[int], bad: set[int]) -> None:
            return None

    mgr = BatteryManager.__new__(BatteryManager)
    inv_bats: dict[int, frozenset[int]] = {}
    bat_ids: set[int] = set()
    for g in case["groups"]:
        bids = frozenset(b["id"] for b in g["bats"])
        bat_ids |= bids
        for i in g["invs"]:
            inv_bats[i["id"]] = bids
    mgr._inv_bats_map = inv_bats  # type: ignore[attr-defined]
    mgr._component_pool_status_tracker = _Tracker()  # type: ignore[attr-defined]
    mgr._api_power_request_timeout = timedelta(seconds=0.02 if "timeout" in fail_kinds.values() else 5)  # type: ignore[attr-defined]
    req = Request(power=Power.from_watts(float(F(case["power"]))), component_ids=frozenset(bat_ids),
                  adjust_power=adjust_power)
    result = DistributionResult(distribution=dict(dist), remaining_power=rem)

    async def go() -> Any:
        with mock.patch.object(connection_manager, "get", return_value=_Conn()):
            return await mgr._distribute_power(req, result)  # pylint: disable=protected-access

    res = asyncio.run(go())
    out = {"calls": calls, "kind": type(res).__name__}
    if isinstance(res, (Success, PartialFailure)):
        out["succeeded"] = res.succeeded_power.as_watts()
        out["excess"] = res.excess_power.as_watts()
        out["failed"] = res.failed_power.as_watts() if isinstance(res, PartialFailure) else 0.0
    return out


# --------------------------------------------------------------------------- several requests through ONE BatteryManager
def _bare_manager(groups: list[dict], exp: int, caches: dict, sent: list) -> Any:
    """A real `BatteryManager` without a microgrid: `__init__` is replaced by its plain attribute initialisations (every
    `self.<attr> = <literal / empty container>` of the CURRENT source, so an attribute a change adds exists), the component
    maps of `groups`, latest-value caches that hand out the message objects in `caches`, a status tracker for which every
    battery works, the real distribution algorithm and a results sender that records."""
    import ast as _ast
    import inspect
    import textwrap
    from frequenz.sdk.microgrid._power_distributing._component_managers._battery_manager import BatteryManager
    from frequenz.sdk.microgrid._power_distributing._distribution_algorithm import BatteryDistributionAlgorithm

    mgr = BatteryManager.__new__(BatteryManager)
    try:
        init = _ast.parse(textwrap.dedent(inspect.getsource(BatteryManager.__init__))).body[0]
        for st in _ast.walk(init):
            tgt = st.targets[0] if isinstance(st, _ast.Assign) and len(st.targets) == 1 else (
                st.target if isinstance(st, _ast.AnnAssign) and st.value is not None else None)
            if isinstance(tgt, _ast.Attribute) and isinstance(tgt.value, _ast.Name) and tgt.value.id == "self":
                v = st.value
                try:
                    val = _ast.literal_eval(v)
                except (ValueError, SyntaxError):
                    if isinstance(v, _ast.Call) and isinstance(v.func, _ast.Name) and v.func.id in ("set", "dict", "list") and not v.args:
                        val = {"set": set, "dict": dict, "list": list}[v.func.id]()
                    else:
                        continue
                setattr(mgr, tgt.attr, val)
    except (OSError, TypeError, IndexError):
        pass

    class _Cache:
        def __init__(self, key: tuple) -> None:
            self.key = key

        def has_value(self) -> bool:
            return self.key in caches

        def get(self) -> Any:
            return caches[self.key]

    class _Tracker:
        def get_working_components(self, ids: Any) -> set[int]:
            return set(ids)

        async def update_status(self, ok: set[int], bad: set[int]) -> None:
            return None

    class _Sender:
        async def send(self, result: Any) -> None:
            sent.append(result)

    bat_invs: dict[int, frozenset[int]] = {}
    inv_bats: dict[int, frozenset[int]] = {}
    bat_bats: dict[int, frozenset[int]] = {}
    inv_invs: dict[int, frozenset[int]] = {}
    for g in groups:
        bids = frozenset(b["id"] for b in g["bats"])
        iids = frozenset(i["id"] for i in g["invs"])
        for b in bids:
            bat_invs[b], bat_bats[b] = iids, bids
        for i in iids:
            inv_bats[i], inv_invs[i] = bids, iids
    mgr._battery_ids = set(bat_bats)  # type: ignore[attr-defined]
    mgr._bat_invs_map, mgr._inv_bats_map = bat_invs, inv_bats  # type: ignore[attr-defined]
    mgr._bat_bats_map, mgr._inv_invs_map = bat_bats, inv_invs  # type: ignore[attr-defined]
    mgr._battery_caches = {b: _Cache(("b", b)) for b in bat_bats}  # type: ignore[attr-defined]
    mgr._inverter_caches = {i: _Cache(("i", i)) for i in inv_bats}  # type: ignore[attr-defined]
    mgr._component_pool_status_tracker = _Tracker()  # type: ignore[attr-defined]
    mgr._distribution_algorithm = BatteryDistributionAlgorithm(exp)  # type: ignore[attr-defined]
    mgr._results_sender = _Sender()  # type: ignore[attr-defined]
    mgr._api_power_request_timeout = timedelta(seconds=5)  # type: ignore[attr-defined]
    return mgr


def run_manager_sequence(steps: list[dict]) -> list[dict]:
    """Every step's request through (a) ONE long-lived real `BatteryManager` and (b) a fresh one, both reading the LATEST
    messages.  A component whose data did not change since the previous step keeps the very same message object (no new
    message arrived); a changed one gets a new object.  Returns per step {"kind", "calls", "excess"} of both."""
    from frequenz.quantities import Power
    from frequenz.sdk.microgrid import connection_manager
    from frequenz.sdk.microgrid._power_distributing.request import Request
    from frequenz.sdk.microgrid._power_distributing.result import PartialFailure, Success
    from tests.utils.component_data_wrapper import BatteryDataWrapper, InverterDataWrapper

    fl = lambda v: float(Fraction(v))  # noqa: E731
    caches: dict[tuple, Any] = {}
    prints: dict[tuple, tuple] = {}
    calls: list[tuple[int, float]] = []

    class _Api:
        async def set_power(self, inverter_id: int, power: float) -> None:
            calls.append((inverter_id, power))

    class _Conn:
        api_client = _Api()

    def publish(step: dict, k: int) -> dict[str, list[int]]:
        fresh: dict[str, list[int]] = {"bats": [], "invs": []}
        k = int(step.get("msg_ts", k))  # the time stamp new messages of this step carry (may be equal to / older than before)
        nan = float("nan")
        for g in step["groups"]:
            for b in g["bats"]:
                fp = tuple(b[x] for x in ("cap", "soc", "soc_lo", "soc_hi", "il", "el", "eu", "iu"))
                if prints.get(("b", b["id"])) != fp:
                    prints[("b", b["id"])] = fp
                    fresh["bats"].append(b["id"])
                    caches[("b", b["id"])] = BatteryDataWrapper(
                        component_id=b["id"], timestamp=TS + timedelta(seconds=k), capacity=fl(b["cap"]), soc=fl(b["soc"]),
                        soc_lower_bound=fl(b["soc_lo"]), soc_upper_bound=fl(b["soc_hi"]),
                        power_inclusion_lower_bound=fl(b["il"]), power_exclusion_lower_bound=fl(b["el"]),
                        power_exclusion_upper_bound=fl(b["eu"]), power_inclusion_upper_bound=fl(b["iu"]))
            for i in g["invs"]:
                fp = tuple(i[x] for x in ("il", "el", "eu", "iu")) + (bool(i.get("nan_incl")),)
                if prints.get(("i", i["id"])) != fp:
                    prints[("i", i["id"])] = fp
                    fresh["invs"].append(i["id"])
                    caches[("i", i["id"])] = InverterDataWrapper(
                        component_id=i["id"], timestamp=TS + timedelta(seconds=k),
                        active_power_inclusion_lower_bound=nan if i.get("nan_incl") else fl(i["il"]),
                        active_power_exclusion_lower_bound=fl(i["el"]), active_power_exclusion_upper_bound=fl(i["eu"]),
                        active_power_inclusion_upper_bound=nan if i.get("nan_incl") else fl(i["iu"]))
        return fresh

    async def one(mgr: Any, sent: list, step: dict) -> dict:
        calls.clear()
        sent.clear()
        bat_ids = frozenset(b["id"] for g in step["groups"] for b in g["bats"])
        req = Request(power=Power.from_watts(fl(step["power"])), component_ids=bat_ids, adjust_power=True)
        await mgr.distribute_power(req)
        res = sent[-1] if sent else None
        out: dict = {"kind": type(res).__name__, "calls": sorted(calls)}
        if isinstance(res, (Success, PartialFailure)):
            out["excess"] = res.excess_power.as_watts()
        return out

    async def go() -> list[dict]:
        outs = []
        sent_long: list = []
        long_lived = _bare_manager(steps[0]["groups"], int(steps[0]["exp"]), caches, sent_long)
        with mock.patch.object(connection_manager, "get", return_value=_Conn()):
            for k, step in enumerate(steps):
                fresh_ids = publish(step, k)
                a = await one(long_lived, sent_long, step)
                sent_new: list = []
                b = await one(_bare_manager(step["groups"], int(step["exp"]), caches, sent_new), sent_new, step)
                outs.append({"long_lived": a, "fresh": b, "new_messages": fresh_ids})
        return outs

    return asyncio.run(go())


def gen_manager_sequence(rng: random.Random) -> list[dict]:
    """`gen_sequence`, plus what only a manager sees: new messages whose time stamp is NOT newer than the previous ones
    (equal or older, `msg_ts`) although their content changed, and an inverter (any position in its set) whose latest message
    has NaN inclusion bounds (`nan_incl`) for one request."""
    import copy

    steps = [copy.deepcopy(_strip_history(s)) for s in gen_sequence(rng)]
    for k in range(1, len(steps)):
        if rng.random() < 0.35:
            steps[k]["msg_ts"] = rng.choice([0, k - 1, k - 1, -5])
        if rng.random() < 0.25:
            multi = [g for g in steps[k]["groups"] if len(g["invs"]) > 1]
            g = rng.choice(multi) if multi and rng.random() < 0.8 else rng.choice(steps[k]["groups"])
            rng.choice(g["invs"])["nan_incl"] = True
    return steps


def process_manager_sequence(ctx: Any, prop: str, steps: list[dict]) -> None:
    """C02 per request of a sequence through one manager, against the LATEST component data: the set-points the long-lived
    manager commands satisfy the clauses for the data of that step, and are the ones a fresh manager commands."""
    plain = [_strip_history(s) for s in steps]
    try:
        outs = run_manager_sequence(plain)
    except Exception as e:  # noqa: BLE001  (a manager that crashes on a sequence is reported with the sequence)
        ctx.violation(f"{prop}.manager-sequence-crash", {"manager_sequence": plain}, {"error": f"{type(e).__name__}: {e}"[:300]}, regime=None)
        return
    for k, (step, o) in enumerate(zip(plain, outs)):
        a, b = o["long_lived"], o["fresh"]
        nm = o["new_messages"]
        mode = "none" if not nm["bats"] and not nm["invs"] else ("inverter-only" if not nm["bats"] else (
            "battery-only" if not nm["invs"] else "both"))
        tags = [f"mgrseq:step{min(k, 3)}", f"mgrseq:new-{mode}", "mgrseq:" + a["kind"]]
        where = {"manager_sequence": plain[:k + 1], "step": k}
        nan_groups = [g for g in step["groups"] if any(i.get("nan_incl") for i in g["invs"])]
        nan_ids = {i["id"] for g in nan_groups for i in g["invs"]}
        if nan_groups:
            tags.append("mgrseq:nan-inverter-bounds")
        if step.get("msg_ts") is not None and k and int(step["msg_ts"]) < k:
            tags.append("mgrseq:non-newer-timestamp")
        same = a["kind"] == b["kind"] and a.get("excess") == b.get("excess") and len(a["calls"]) == len(b["calls"]) and all(
            x[0] == y[0] and (x[1] == y[1] or (x[1] != x[1] and y[1] != y[1])) for x, y in zip(a["calls"], b["calls"]))
        bad_calls = [c for c in a["calls"] if c[0] in nan_ids or c[1] != c[1]]
        if bad_calls:
            # an inverter whose latest message has no (NaN) inclusion bounds has no bounds a set-point could respect: its
            # battery set must be left out; and no set-point may be NaN
            ctx.violation(f"{prop}.manager-nan-data", where,
                          {"note": "a battery set with NaN inverter inclusion bounds is commanded / a NaN set-point is sent",
                           "nan_inverters": sorted(i["id"] for g in nan_groups for i in g["invs"] if i.get("nan_incl")),
                           "calls": [[c[0], str(c[1])] for c in bad_calls]}, regime=None)
        elif not same:
            ctx.violation(f"{prop}.manager-latest-data", where,
                          {"note": "the long-lived manager does not command what a fresh manager commands for the latest data",
                           "new_messages": nm, "long_lived": a, "fresh": b}, regime=None)
        else:
            sub = {**step, "groups": [g for g in step["groups"] if g not in nan_groups]}
            if "excess" in a and sub["groups"] and consistent(sub) and admitted(sub) and set(i for i, _ in a["calls"]) == {
                    i["id"] for g in sub["groups"] for i in g["invs"]}:
                flags = flags_canonical(regimes(sub))
                obs = {"dist": {str(i): rat(v) for i, v in a["calls"]}, "rem": rat(a["excess"])}
                for clause, observed in oracle(sub, obs, prop):
                    ctx.violation(f"{prop}.{clause}", where, {"manager_commands": obs, **observed}, regime=regime_of(clause, flags))
        ctx.case(where if k else step, tags=tags, nontrivial=k > 0 and mode != "none")


# --------------------------------------------------------------------------- the oracle (literal property clauses)
def oracle(case: dict, out: dict, prop: str) -> list[tuple[str, Any]]:
    """Evaluate the clauses of C01 / C02 on the outputs of the real code.  Returns [(clause, observed)].
    Independent of the Lean model and of `regimes()`; tolerance 1e-6 relative to max(1, |request|)."""
    p = F(case["power"])
    tol = Fraction(1, 10**6) * max(Fraction(1), abs(p))
    dist = {int(k): F(v) for k, v in out["dist"].items()}
    rem = F(out["rem"])
    bad: list[tuple[str, Any]] = []
    sgn = 1 if p > 0 else -1
    if prop == "C01":
        total = sum(dist.values())
        # conservation is exact outside the known regimes up to the code's own 1e-9 tolerances (and float rounding, ~1e-15
        # relative): 1e-7 relative leaves two orders of magnitude and still sees a few watts lost from a MW-scale request
        if abs(total + rem - p) > tol / 10:
            bad.append(("sum", {"setpoints": rat(total), "remainder": rat(rem), "request": rat(p),
                                "created": rat(total + rem - p)}))
        wrong = {k: rat(v) for k, v in dist.items() if v * sgn < -tol}
        if wrong:
            bad.append(("sign", {"setpoints_against_request": wrong}))
        if rem * sgn < -tol or abs(rem) > abs(p) + tol:
            bad.append(("remainder", {"remainder": rat(rem), "request": rat(p)}))
        return bad
    supply = sgn < 0
    for g in case["groups"]:
        a = aggregate(g["bats"])
        ids = [i["id"] for i in g["invs"]]
        for i in g["invs"]:
            v = dist[i["id"]]
            if abs(v) <= tol:
                continue
            lo, hi = (F(i["il"]), F(i["el"])) if supply else (F(i["eu"]), F(i["iu"]))
            if not lo - tol <= v <= hi + tol:
                bad.append(("inverter-bounds", {"inverter": i["id"], "setpoint": rat(v), "allowed": [rat(lo), rat(hi)]}))
        tot = sum(dist[k] for k in ids)
        if abs(tot) > tol:
            lo, hi = (a["il"], a["el"]) if supply else (a["eu"], a["iu"])
            if not lo - tol <= tot <= hi + tol:
                bad.append(("group-bounds", {"inverters": ids, "total": rat(tot), "allowed": [rat(lo), rat(hi)]}))
        if a["soc"] is not None:
            at_limit = a["soc"] <= a["soc_lo"] if supply else a["soc"] >= a["soc_hi"]
            if at_limit and any(abs(dist[k]) > tol for k in ids):
                bad.append(("no-headroom", {"inverters": ids, "setpoints": [rat(dist[k]) for k in ids],
                                            "soc": rat(a["soc"]), "limit": rat(a["soc_lo"] if supply else a["soc_hi"])}))
    return bad


CLAUSE_REGIMES = {
    "sum": ["adjust", "split_infeasible"],
    "sign": [],
    "remainder": ["adjust"],
    "inverter-bounds": [],
    "group-bounds": ["split_infeasible"],
    "no-headroom": ["exp0", "zero_ratio_min"],
}


def possible_regimes(case: dict) -> list[str]:
    """The known regimes the INPUT does not rule out, whatever branches a run takes (necessary conditions read off the
    data): `adjust` needs a group with a positive minimum power on the request's side, `split_infeasible` a group with
    several inverters, `exp0` exponent 0 and a group without headroom, `zero_ratio_min` a group without headroom and with
    a positive minimum power."""
    supply = side_is_supply(case)
    try:
        sides = [group_side(g, supply) for g in case["groups"]]
    except (ZeroDivisionError, KeyError, ValueError):
        return list(FLAG_ORDER)
    out = []
    if any(s["min_p"] > 0 for s in sides):
        out.append("adjust")
    if any(len(g["invs"]) > 1 for g in case["groups"]):
        out.append("split_infeasible")
    if int(case["exp"]) == 0 and any(s["avail"] == 0 for s in sides):
        out.append("exp0")
    if any(s["avail"] == 0 and s["min_p"] > 0 for s in sides):
        out.append("zero_ratio_min")
    return out


def regime_of(clause: str, flags: list[str]) -> str | None:
    for r in CLAUSE_REGIMES[clause]:
        if r in flags:
            return r
    return None


# --------------------------------------------------------------------------- generators
def _lat(rng: random.Random) -> dict:
    scale = rng.choice([1, 10, 10, 100, 100, 1000])
    return {"scale": scale, "anchors": sorted({rng.randint(1, 12) * scale for _ in range(rng.randint(2, 4))})}


def _near(rng: random.Random, v: Fraction, scale: int) -> Fraction:
    return v + rng.choice([0, 0, 0, 0, 1, -1, Fraction(1, 2), -Fraction(1, 2), scale, -scale])


def _bounds(rng: random.Random, lat: dict, big: bool) -> tuple[Fraction, Fraction, Fraction, Fraction]:
    """(il, el, eu, iu) with il <= el <= 0 <= eu <= iu."""
    a = lat["anchors"]
    iu = Fraction(rng.choice(a)) * (rng.choice([1, 2, 3]) if big else 1)
    r = rng.random()
    if r < 0.5:
        eu = Fraction(0)
    elif r < 0.6:
        eu = iu
    else:
        eu = min(iu, Fraction(rng.choice(a)) / rng.choice([1, 2, 4, 10]))
    if rng.random() < 0.6:
        il, el = -iu, -eu
    else:
        il = -Fraction(rng.choice(a)) * (rng.choice([1, 2, 3]) if big else 1)
        r = rng.random()
        el = Fraction(0) if r < 0.5 else (il if r < 0.6 else max(il, -Fraction(rng.choice(a)) / rng.choice([1, 2, 4, 10])))
    return il, el, eu, iu


def gen_case(rng: random.Random, next_id: list[int] | None = None, lat_out: dict | None = None) -> dict:
    """A consistent-by-construction case (may still be outside the admitted requests)."""
    lat = _lat(rng)
    if lat_out is not None:
        lat_out.update(lat)
    ngroups = rng.choice([1, 2, 2, 2, 3, 3, 4, 5])
    ids = list(range(1, 60))
    rng.shuffle(ids)
    groups = []
    soc_lo = Fraction(rng.choice([0, 10, 20]))
    soc_hi = Fraction(rng.choice([80, 90, 100]))
    for _ in range(ngroups):
        nb = 1 if rng.random() < 0.75 else 2
        ni = rng.choice([1, 1, 1, 2, 2, 3])
        bats = []
        for _ in range(nb):
            il, el, eu, iu = _bounds(rng, lat, big=True)
            r = rng.random()
            if r < 0.22:
                soc = rng.choice([soc_hi, soc_hi, soc_hi + 5, soc_lo, soc_lo, soc_lo - 5])
            elif r < 0.4:
                soc = rng.choice([soc_hi - Fraction(1, 2), soc_lo + Fraction(1, 2), soc_hi - 1, soc_lo + 1])
            else:
                soc = Fraction(rng.randint(int(soc_lo) * 2, int(soc_hi) * 2), 2)
            lo_b, hi_b = soc_lo, soc_hi
            if rng.random() < 0.1:
                lo_b, hi_b = soc_lo + rng.choice([0, 5]), soc_hi - rng.choice([0, 5])
            bats.append({"id": ids.pop(), "cap": rat(Fraction(rng.choice([1, 1, 2, 3, 5, 10, 50])) * rng.choice([1, 1, 1000])),
                         "soc": rat(soc), "soc_lo": rat(lo_b), "soc_hi": rat(hi_b),
                         "il": rat(il), "el": rat(el), "eu": rat(eu), "iu": rat(iu)})
        invs = []
        for _ in range(ni):
            il, el, eu, iu = _bounds(rng, lat, big=False)
            invs.append({"id": ids.pop(), "il": rat(il), "el": rat(el), "eu": rat(eu), "iu": rat(iu)})
        groups.append({"bats": bats, "invs": invs})
    case = {"power": "1", "exp": rng.choice([1, 1, 1, 1, 1, 0, 2, 3]), "failed": None, "groups": groups}
    # repair "group minimum power <= group inclusion bound" by lowering exclusion bounds
    for g in groups:
        for supply in (False, True):
            for _ in range(6):
                s = group_side(g, supply)
                if s["min_p"] <= s["ub"]:
                    break
                k_e = "el" if supply else "eu"
                for c in g["bats"] + g["invs"]:
                    c[k_e] = rat(F(c[k_e]) / 2 if abs(F(c[k_e])) > 1 else 0)
    case["power"] = rat(gen_request(rng, case, lat))
    finish_case(case)
    return case


def _repair_min_le_incl(groups: list[dict]) -> None:
    """"group minimum power <= group inclusion bound" by lowering exclusion bounds (as in `gen_case`)."""
    for g in groups:
        for supply in (False, True):
            for _ in range(6):
                s = group_side(g, supply)
                if s["min_p"] <= s["ub"]:
                    break
                k_e = "el" if supply else "eu"
                for c in g["bats"] + g["invs"]:
                    c[k_e] = rat(F(c[k_e]) / 2 if abs(F(c[k_e])) > 1 else 0)


def _strip_history(case: dict) -> dict:
    return {k: v for k, v in case.items() if k != "history"}


def gen_sequence(rng: random.Random) -> list[dict]:
    """2-4 calls on ONE algorithm instance, as the `BatteryManager` makes them: between two calls the batteries publish
    new data (derated / widened inclusion bounds, changed exclusion bounds, SoC moved to / off a limit) while the
    inverter samples stay the same, or the other way round, or both, or nothing changes; the next request goes in the
    same or in the opposite direction (often the very same request, or one at the new inclusion / advertised bounds).
    A component that did not change keeps its timestamp `ts`; a changed one gets the index of the call.  Every call is
    a case of its own whose `history` lists the calls before it."""
    import copy

    lat: dict = {}
    base = gen_case(rng, lat_out=lat)
    steps = [base]
    for k in range(1, rng.choice([2, 2, 3, 3, 4])):
        cur = steps[-1]
        nxt = copy.deepcopy(_strip_history(cur))
        kind = rng.choice(["bat", "bat", "bat", "bat", "inv", "inv", "both", "none"])
        anchors = lat["anchors"]

        def new_bounds(c: dict, big: bool) -> None:
            r = rng.random()
            il, el, eu, iu = (F(c[x]) for x in ("il", "el", "eu", "iu"))
            if r < 0.4:  # derate
                f = rng.choice([2, 2, 4, Fraction(5, 2)])
                il, iu = il / f, iu / f
                el, eu = max(el, il), min(eu, iu)
            elif r < 0.55:  # widen
                f = rng.choice([2, 3])
                il, iu = il * f, iu * f
            elif r < 0.7:  # one-sided derating
                if rng.random() < 0.5:
                    iu = max(eu, iu / 2)
                else:
                    il = min(el, il / 2)
            elif r < 0.85:  # exclusion zone appears / disappears / moves
                e = Fraction(0) if rng.random() < 0.4 else min(iu, -il, Fraction(rng.choice(anchors)) / rng.choice([1, 2, 4, 10]))
                el, eu = -e, e
            else:
                il, el, eu, iu = _bounds(rng, lat, big)
            c.update({"il": rat(il), "el": rat(el), "eu": rat(eu), "iu": rat(iu)})

        before = copy.deepcopy(nxt["groups"])
        picked = [g for g in nxt["groups"] if rng.random() < 0.6] or [rng.choice(nxt["groups"])]
        if kind in ("bat", "both"):
            for g in picked:
                for b in g["bats"]:
                    if rng.random() < 0.7:
                        new_bounds(b, big=True)
                    if rng.random() < 0.3:
                        lo_b, hi_b = F(b["soc_lo"]), F(b["soc_hi"])
                        b["soc"] = rat(rng.choice([hi_b, lo_b, (lo_b + hi_b) / 2, hi_b - Fraction(1, 2), lo_b + 1]))
        if kind in ("inv", "both"):
            for g in picked:
                for i in g["invs"]:
                    if rng.random() < 0.7:
                        new_bounds(i, big=False)
        _repair_min_le_incl(nxt["groups"])
        nxt["power"] = "1"
        if not consistent(nxt):
            nxt["groups"] = before
        # unchanged component => unchanged timestamp
        for g_old, g_new in zip(before, nxt["groups"]):
            for key in ("bats", "invs"):
                old = {c["id"]: c for c in g_old[key]}
                for c in g_new[key]:
                    o = old[c["id"]]
                    same = all(c[x] == o[x] for x in c if x != "ts")
                    c["ts"] = o.get("ts", 0) if same else k
        prev = F(cur["power"])
        same_dir = rng.random() < 0.7
        r = rng.random()
        if same_dir and r < 0.35:
            req = prev
        else:
            req = gen_request(rng, nxt, lat)
            for _ in range(8):
                if (req < 0) == (prev < 0) if same_dir else (req < 0) != (prev < 0):
                    break
                req = gen_request(rng, nxt, lat)
        nxt["power"] = rat(req)
        nxt.pop("fail_ids", None)
        nxt["failed"] = None
        finish_case(nxt)
        nxt["history"] = [_strip_history(h) for h in steps]
        steps.append(nxt)
    return steps


def finish_case(case: dict) -> None:
    """Put the inverters of each group into frozenset iteration order for the side of the request."""
    supply = side_is_supply(case)
    for g in case["groups"]:
        g["invs"] = order_invs(g["invs"], supply)


def gen_request(rng: random.Random, case: dict, lat: dict) -> Fraction:
    supply = rng.random() < 0.45
    sides = [group_side(g, supply) for g in case["groups"]]
    lo, hi = advertised_excl(case)
    adv = -lo if supply else hi
    elo, ehi = enforced_excl(case)
    enf = -elo if supply else ehi
    sum_min = sum(s["min_p"] for s in sides)
    sum_ub = sum(s["ub"] for s in sides)
    live = [s for s in sides if s["avail"] > 0]
    cands = [adv, adv, enf, sum_min, sum_ub, sum_ub, (adv + sum_ub) / 2, sum_ub * Fraction(3, 2), sum_ub + 1,
             sum(s["ub"] for s in live) if live else sum_ub, max([s["min_p"] for s in sides] + [Fraction(1)]),
             Fraction(rng.choice(lat["anchors"])), Fraction(rng.randint(1, 40) * lat["scale"], 4)]
    # shares that land exactly on a group's minimum power or inclusion bound
    tot = sum(s["agg"]["cap"] * s["avail"] for s in sides)
    if tot > 0:
        for s in sides:
            w = s["agg"]["cap"] * s["avail"] / tot
            if w > 0:
                cands.append(s["min_p"] / w)
                cands.append(s["ub"] / w)
    v = rng.choice(cands)
    r = rng.random()
    if r < 0.5:
        v = _near(rng, v, lat["scale"])
    elif r < 0.56:
        v = v * (1 + Fraction(rng.choice([1, -1]), 10**10))
    elif r < 0.6:
        v = v + Fraction(rng.choice([1, -1, 2]), 10**9)
    r = rng.random()
    if r < 0.8 and v < adv:
        v = adv + rng.choice([0, 0, 1, Fraction(1, 2), lat["scale"]])
    elif r < 0.88 and v < enf:
        v = enf + rng.choice([0, 1, Fraction(1, 2)])  # forwarded by the manager, maybe not advertised
    if v <= 0:
        v = adv if adv > 0 else Fraction(lat["scale"])
    return -v if supply else v


def gen_isclose(rng: random.Random) -> dict:
    """Two equal groups where the second group's excess covers the first group's deficit exactly
    (exclusion bound = 3/4 of the request), then one number is moved by ~1e-10 relative: exercises the
    `math.isclose` shortcut of the deficit covering (regime tag `isclose_cover`)."""
    scale = Fraction(rng.choice([1, 4, 100, 1000, 12345]))
    P = 100 * scale
    e = 75 * scale
    wiggle = rng.choice([0, 1, -1, 2, -2, 5, 15, -15]) * Fraction(1, 10**10)
    e = e * (1 + wiggle)
    if rng.random() < 0.3:
        P = P * (1 + rng.choice([1, -1]) * Fraction(3, 10**10))
    incl = 400 * scale
    ids = list(range(1, 40))
    rng.shuffle(ids)

    def grp(excl: Fraction) -> dict:
        return {"bats": [{"id": ids.pop(), "cap": "10", "soc": "50", "soc_lo": "10", "soc_hi": "90", "il": rat(-incl),
                          "el": rat(-excl), "eu": rat(excl), "iu": rat(incl)}],
                "invs": [{"id": ids.pop(), "il": rat(-incl), "el": "0", "eu": "0", "iu": rat(incl)}]}

    groups = [grp(e), grp(Fraction(0))]
    if rng.random() < 0.4:
        groups.append(grp(Fraction(0)))
        P = P * Fraction(3, 2)
    rng.shuffle(groups)
    case = {"power": rat(P if rng.random() < 0.5 else -P), "exp": 1, "failed": None, "groups": groups}
    finish_case(case)
    return case


def gen_float_residue(rng: random.Random) -> dict:
    """Shapes where IEEE doubles and exact rationals can take different branches: a large distribution exponent (4–8)
    makes the availability ratios huge, so `sum_ratio - used_ratio` ends at a rounding residue far above the 1e-9 absolute
    tolerance of `is_close_to_zero` instead of at 0.  Several single-inverter pairs of uneven SoC (non-dyadic decimals) and
    capacity, no exclusion bounds, one battery exactly at the SoC limit of the request's side (it is sorted last), and a
    request above what the pairs with headroom can take but within the advertised inclusion bounds."""
    n = rng.randint(4, 12)
    ids = list(range(1, 60))
    rng.shuffle(ids)
    supply = rng.random() < 0.4
    soc_lo, soc_hi = Fraction(rng.choice([0, 10, 20])), Fraction(rng.choice([80, 90, 100]))
    incl = Fraction(rng.choice([500, 1000, 1000, 2500]))
    full = set(rng.sample(range(n), rng.choice([1, 1, 1, 2])))
    groups = []
    for k in range(n):
        if k in full:
            soc = soc_lo if supply else soc_hi
        else:
            soc = Fraction(rng.randint(int(soc_lo) * 10 + 1, int(soc_hi) * 10 - 1), 10)
        cap = Fraction(rng.choice([5000, 7500, 10000, 10000, 12000, 20000]))
        bi = incl * rng.choice([1, 1, 2])
        groups.append({"bats": [{"id": ids.pop(), "cap": rat(cap), "soc": rat(soc), "soc_lo": rat(soc_lo), "soc_hi": rat(soc_hi),
                                 "il": rat(-bi), "el": "0", "eu": "0", "iu": rat(bi)}],
                       "invs": [{"id": ids.pop(), "il": rat(-incl), "el": "0", "eu": "0", "iu": rat(incl)}]})
    room = incl * (n - len(full))
    total = incl * n
    p = rng.choice([room + incl * Fraction(9, 10), room + 1, total, room + incl / 2, room, room - incl / 3])
    case = {"power": rat(-p if supply else p), "exp": rng.choice([4, 4, 5, 6, 8]), "failed": None, "groups": groups}
    finish_case(case)
    return case


def gen_large_scale(rng: random.Random) -> dict:
    """MW/GW-scale pools with W-scale overshoots (exact rationals): 2–6 pairs with inclusion bounds of 1–50 MW (or GW), the
    request = the pool's inclusion bound, or the power at which ONE group's proportional share reaches its inclusion
    bound, plus a few watts.  The overshoot is far below 1e-6 of the request and far above float noise: it must be moved
    to another group or reported as remainder."""
    unit = Fraction(rng.choice([10**6, 10**6, 10**6, 10**5, 10**9]))
    n = rng.randint(2, 6)
    ids = list(range(1, 60))
    rng.shuffle(ids)
    supply = rng.random() < 0.4
    soc_lo, soc_hi = Fraction(rng.choice([0, 10, 20])), Fraction(rng.choice([80, 90, 100]))
    groups = []
    for _ in range(n):
        iu = unit * rng.choice([1, 1, 2, 3, 5, 10, 50])
        ni = rng.choice([1, 1, 1, 2])
        eu = Fraction(0) if rng.random() < 0.7 else unit / rng.choice([10, 100])
        soc = Fraction(rng.randint(int(soc_lo) * 2 + 1, int(soc_hi) * 2 - 1), 2)
        bats = [{"id": ids.pop(), "cap": rat(Fraction(rng.choice([1, 2, 5, 10])) * 1000), "soc": rat(soc), "soc_lo": rat(soc_lo),
                 "soc_hi": rat(soc_hi), "il": rat(-iu), "el": rat(-eu), "eu": rat(eu), "iu": rat(iu)}]
        invs = [{"id": ids.pop(), "il": rat(-iu / ni), "el": "0", "eu": "0", "iu": rat(iu / ni)} for _ in range(ni)]
        groups.append({"bats": bats, "invs": invs})
    case = {"power": "1", "exp": rng.choice([1, 1, 1, 2]), "failed": None, "groups": groups}
    sides = [group_side(g, supply) for g in groups]
    total_ub = sum(s["ub"] for s in sides)
    delta = Fraction(rng.choice([1, 4, 10, 10, Fraction(1, 2), 100, 3]))
    tot = sum(s["agg"]["cap"] * s["avail"] ** int(case["exp"]) for s in sides)
    cands = [total_ub + delta, total_ub + delta]
    if tot > 0:
        ws = [(s["ub"] / (s["agg"]["cap"] * s["avail"] ** int(case["exp"]) / tot), s) for s in sides if s["avail"] > 0]
        if ws:
            p1, s1 = min(ws, key=lambda x: x[0])  # the first group to reach its inclusion bound
            w1 = s1["agg"]["cap"] * s1["avail"] ** int(case["exp"]) / tot
            cands.append(p1 + delta / w1)
    p = rng.choice(cands)
    lo, hi = advertised_excl(case)
    p = max(p, -lo if supply else hi)
    case["power"] = rat(-p if supply else p)
    finish_case(case)
    return case


def gen_malformed(rng: random.Random) -> dict:
    """Inputs outside the quantifier's domain: only model = code is required."""
    case = gen_case(rng)
    kind = rng.choice(["zero", "tiny", "inside-excl", "bounds", "bounds", "cap0", "allcap0", "tinycap", "soc-limits",
                       "neg-incl"])
    gs = case["groups"]
    if kind == "zero":
        case["power"] = rng.choice(["0", "1/1000000000", "-1/2000000000"])
    elif kind == "tiny":
        case["power"] = rat(Fraction(rng.choice([2, 3, -2, 15]), 10**9))
    elif kind == "inside-excl":
        lo, hi = advertised_excl(case)
        case["power"] = rat(hi / 2 if hi > 0 else (lo / 2 if lo < 0 else Fraction(1)))
    elif kind == "bounds":
        c = rng.choice(rng.choice(gs)[rng.choice(["bats", "invs"])])
        k = rng.choice(["il", "el", "eu", "iu"])
        c[k] = rat(-F(c[k]) if rng.random() < 0.5 else F(c[k]) * 3 + rng.choice([0, 1, -1]))
    elif kind == "cap0":
        for b in rng.choice(gs)["bats"]:
            b["cap"] = "0"
    elif kind == "allcap0":
        for g in gs:
            for b in g["bats"]:
                b["cap"] = rng.choice(["0", "0", "1/4000000000"])
    elif kind == "tinycap":
        for g in gs:
            for b in g["bats"]:
                b["cap"] = rat(Fraction(rng.choice([1, 3, 7]), 10**9 * rng.choice([1, 2, 4])))
    elif kind == "soc-limits":
        b = rng.choice(rng.choice(gs)["bats"])
        b["soc_lo"], b["soc_hi"] = b["soc_hi"], b["soc_lo"]
    elif kind == "neg-incl":
        c = rng.choice(rng.choice(gs)["invs"])
        c["iu"], c["il"] = c["il"], c["iu"]
    finish_case(case)
    return case


def exhaustive_small(limit: int | None = None) -> list[dict]:
    """Bounded-exhaustive scope of the thorough tier: 2 single-battery/single-inverter groups over a lattice of
    exclusion bounds × headroom × six requests × both signs."""
    out = []
    excls = [0, 50, 100]
    for e1b in excls:
        for e1i in excls:
            for e2b in excls:
                for e2i in excls:
                    for soc1 in (50, 90):
                        for soc2 in (50, 90, 70):
                            for iu2 in (100, 200):
                                groups = []
                                for k, (eb, ei, soc, iu) in enumerate([(e1b, e1i, soc1, 200), (e2b, e2i, soc2, iu2)]):
                                    groups.append({
                                        "bats": [{"id": 1 + 2 * k, "cap": "10", "soc": str(soc), "soc_lo": "10", "soc_hi": "90",
                                                  "il": str(-iu), "el": str(-eb), "eu": str(eb), "iu": str(iu)}],
                                        "invs": [{"id": 2 + 2 * k, "il": "-200", "el": str(-ei), "eu": str(ei), "iu": "200"}]})
                                enf = max(e1b + e2b, e1i + e2i)
                                adv = max(e1b, e1i) + max(e2b, e2i)
                                for req in sorted({enf, adv, adv + 1, adv + 30, 200 + iu2, 201 + iu2, max(adv, 150)}):
                                    if req == 0:
                                        continue
                                    for sgn in (1, -1):
                                        out.append({"power": str(sgn * req), "exp": 1, "failed": None,
                                                    "groups": [dict(g) for g in groups]})
                                        if limit is not None and len(out) >= limit:
                                            return out
    return out


# --------------------------------------------------------------------------- shared runner of C01 / C02
RULE = ("1-5 battery groups (1-2 batteries x 1-3 inverters, ids shuffled so that frozenset order varies), bounds "
        "from a per-case lattice of anchors incl. zero / equal-to-inclusion exclusion bounds, SoC at / next to / "
        "beyond its limits, exponent 0-3; request = an advertised bound, sum of minimum powers, sum of inclusion "
        "bounds, a share landing exactly on a group's bound, each +-{0, 1/2, 1, unit, 1e-10 rel, 1e-9}; both signs; "
        "~12% malformed (outside the domain, only model = code). non-trivial = consistent, admitted, >=2 groups "
        "and at least one of: non-zero exclusion bound, group without headroom, multi-inverter group, request "
        "beyond the inclusion bounds; distinct by canonical JSON hash.  Every 8th case of C01 also goes through the "
        "real BatteryManager._distribute_power (fake API client) with adjust_power in {True, False} (False only where "
        "the real _check_request forwards it) and scripted set_power failures.  In addition sequences of 2-4 calls on "
        "ONE BatteryDistributionAlgorithm instance: between calls only the batteries / only the inverters / both / "
        "nothing change (derating, widening, exclusion zones, SoC to a limit; unchanged component = unchanged "
        "timestamp), next request in the same or the opposite direction; every call is checked against the data of "
        "THAT call and compared with the stateless model")


def corpus_cases(prop: str) -> list[dict]:
    import json
    import pathlib

    d = pathlib.Path(__file__).resolve().parent.parent / "corpus" / prop
    out = []
    if d.exists():
        for p in sorted(d.glob("*.json")):
            c = json.loads(p.read_text())
            out.append(c.get("case", c))
    return out


def sequence_tags(case: dict) -> list[str]:
    """What changed between the previous call on the instance and this one."""
    prev = case["history"][-1]
    old = {c["id"]: c for g in prev["groups"] for c in g["bats"] + g["invs"]}
    bat = any({x: v for x, v in b.items() if x != "ts"} != {x: v for x, v in old[b["id"]].items() if x != "ts"}
              for g in case["groups"] for b in g["bats"])
    inv = any({x: v for x, v in i.items() if x != "ts"} != {x: v for x, v in old[i["id"]].items() if x != "ts"}
              for g in case["groups"] for i in g["invs"])
    what = "both" if bat and inv else ("batteries-only" if bat else ("inverters-only" if inv else "nothing"))
    same = (F(prev["power"]) > 0) == (F(case["power"]) > 0)
    return ["seq", f"seq:changed-{what}", "seq:same-direction" if same else "seq:opposite-direction",
            f"seq:call-{len(case['history']) + 1}"]


def case_tags(case: dict, flags: list[str], cons: bool, adm: bool) -> tuple[list[str], bool]:
    tags = [f"regime:{f}" for f in flags]
    p = F(case["power"])
    tags.append("supply" if p < 0 else "consume")
    tags.append(f"groups:{len(case['groups'])}")
    multi = any(len(g["invs"]) > 1 for g in case["groups"])
    excl = any(F(c["eu"]) != 0 or F(c["el"]) != 0 for g in case["groups"] for c in g["bats"] + g["invs"])
    if multi:
        tags.append("multi-inverter")
    if any(len(g["bats"]) > 1 for g in case["groups"]):
        tags.append("multi-battery")
    if excl:
        tags.append("exclusion-bounds")
    tags.append(f"exp:{case['exp']}")
    if not cons:
        tags.append("inconsistent")
    if not adm:
        tags.append("not-admitted")
        if manager_admits(case) and abs(p) > CLOSE_TOL:
            tags.append("forwarded-by-manager-only")
    supply = not p > 0
    nohead = False
    beyond = False
    if cons:
        sides = [group_side(g, supply) for g in case["groups"]]
        nohead = any(s["avail"] == 0 for s in sides)
        beyond = abs(p) > sum(s["ub"] for s in sides)
        if nohead:
            tags.append("no-headroom-group")
        if beyond:
            tags.append("beyond-inclusion")
        if not flags and adm:
            tags.append("regime:none")
    nontrivial = cons and adm and len(case["groups"]) >= 2 and (excl or nohead or multi or beyond)
    return tags, nontrivial


def process(ctx: Any, prop: str, case: dict, mgr_probe: bool, domain_probe: bool = False, seq: bool = False) -> dict:
    """Run one case on the real code (exact + float), tag it, evaluate the oracle, return the canonical
    implementation-side output for the comparison with the Lean driver."""
    out = run_impl(case, exact=True)
    flags = flags_canonical(regimes(case))
    cons, adm = consistent(case), admitted(case)
    tags, nontrivial = case_tags(case, flags, cons, adm)
    if case.get("history"):
        tags += sequence_tags(case)
    if "error" in out:
        ctx.case(case, tags=tags + ["ValueError"], nontrivial=False)
        return {"error": out["error"], "consistent": cons, "admitted": adm, "manager_admits": manager_admits(case)}
    p = F(case["power"])
    scale = max(Fraction(1), abs(p))
    # float run: measure the rounding gap
    fl = run_impl(case, exact=False)
    gap = max([abs(F(fl["rem"]) - F(out["rem"]))] + [abs(F(fl["dist"][k]) - F(v)) for k, v in out["dist"].items()]) / scale
    ctx.extra["float_gap_worst_rel"] = max(ctx.extra.get("float_gap_worst_rel", 0.0), float(gap))
    if gap <= Fraction(1, 10**6):
        # rounding gap proper (cases where float and exact runs take the same branches)
        ctx.extra["float_gap_max_rel"] = max(ctx.extra.get("float_gap_max_rel", 0.0), float(gap))
    else:
        # a comparison flipped under rounding (e.g. a share landing exactly on an exclusion bound)
        tags.append("float-divergent")
        ctx.extra["float_divergent_cases"] = ctx.extra.get("float_divergent_cases", 0) + 1
        if "float_divergent_example" not in ctx.extra:
            ctx.extra["float_divergent_example"] = {"case": case, "exact": out, "float": fl}
    in_domain = cons and adm
    if in_domain:
        for clause, observed in oracle(case, out, prop):
            ctx.violation(f"{prop}.{clause}", case, {"impl": out, **observed}, regime=regime_of(clause, flags))
        # the float outputs are what the hardware receives: same clauses, same tolerance — also where the float run takes
        # another branch than the exact one (`float-divergent`): a violation that exists in IEEE doubles only is a violation
        flr = {"dist": {k: rat(v) for k, v in fl["dist"].items()}, "rem": rat(fl["rem"])}
        divergent = gap > Fraction(1, 10**6)
        for clause, observed in oracle(case, flr, prop):
            if not any(v["case"] is case and v["clause"] == f"{prop}.{clause}" for v in ctx.violations[-8:]):
                # a float run that took other branches may sit in a known regime the exact run is not in: it is attributed
                # to a known regime of the clause only if the INPUT makes that regime possible at all
                reg = regime_of(clause, possible_regimes(case)) if divergent else regime_of(clause, flags)
                ctx.violation(f"{prop}.{clause}", case, {"impl_float": flr, "float_only": divergent, **observed}, regime=reg)
    # the domain predicates against the REAL PowerBoundsCalculator / _check_request (floats)
    if domain_probe and cons:
        rp = real_domain_probe(case)
        lo, hi = advertised_excl(case)
        tolp = 1e-9 * max(1.0, float(abs(lo)), float(abs(hi)))
        margin = min(abs(p - lo), abs(p - hi))
        elo, ehi = enforced_excl(case)
        emargin = min(abs(p - elo), abs(p - ehi))
        if rp["adv_excl"] is None or abs(rp["adv_excl"][0] - float(lo)) > tolp or abs(rp["adv_excl"][1] - float(hi)) > tolp:
            ctx.mismatch(case, rp, {"adv_excl": [rat(lo), rat(hi)]}, "PowerBoundsCalculator.calculate vs advertised_excl()")
        elif emargin > tolp and abs(p) > 2 * CLOSE_TOL and rp["manager_admits"] != manager_admits(case):
            ctx.mismatch(case, rp, {"manager_admits": manager_admits(case)}, "BatteryManager._check_request vs manager_admits()")
        elif adm and margin > tolp and not rp["manager_admits"]:
            ctx.violation(f"{prop}.domain", case, {"note": "advertised bounds admit the request, the manager rejects it", **rp},
                          regime=None)
    # what the battery manager reports
    if prop == "C01" and mgr_probe and in_domain and gap <= Fraction(1, 10**6):
        fail_ids = set(case.get("fail_ids") or [])
        # the flag of the request: `adjust_power=False` only where the real `_check_request` forwards such a request
        # (inside the inclusion bounds) — the remainder can still be non-zero there (a battery at its SoC limit)
        adjust = bool(case.get("adjust_power", True))
        if not adjust and not real_check_request(case, False):
            adjust = True
            tags.append("manager:no-adjust-rejected")
        r = run_manager(case, {int(k): v for k, v in fl["dist"].items()}, fl["rem"], fail_ids, adjust,
                        {int(k): v for k, v in (case.get("fail_kinds") or {}).items()})
        for kind in sorted(set((case.get("fail_kinds") or {}).values())):
            tags.append("manager:api-" + kind)
        if len(fail_ids) == 1:
            tags.append("manager:one-inverter-rejected")
        tol = float(scale) * 1e-6
        commanded_ok = sum(w for i, w in r["calls"] if i not in fail_ids)
        commanded_all = sum(w for _, w in r["calls"])
        tags.append("manager:" + r["kind"])
        tags.append("manager:adjust" if adjust else "manager:no-adjust")
        if abs(fl["rem"]) > tol:
            tags.append("manager:remainder" if adjust else "manager:no-adjust+remainder")
        if sorted(r["calls"]) != sorted((int(k), v) for k, v in fl["dist"].items()):
            ctx.violation("C01.commanded", case, {"set_power_calls": r["calls"], "distribution": fl["dist"]}, regime=None)
        elif "succeeded" in r:
            # the property's sum clause observed at the manager: what was actually commanded + the reported excess
            if abs(commanded_all + r["excess"] - float(p)) > tol:
                ctx.violation("C01.commanded-plus-excess", case,
                              {**r, "commanded": commanded_all, "request": float(p), "adjust_power": adjust},
                              regime=regime_of("sum", flags))
            if abs(r["succeeded"] + r["failed"] + r["excess"] - float(p)) > tol:
                ctx.violation("C01.report-sum", case, r, regime=None)
            if abs(r["succeeded"] - commanded_ok) > tol:
                ctx.violation("C01.reported-vs-commanded", case, {**r, "commanded_ok": commanded_ok},
                              regime=regime_of("sum", flags))
            ref = manager_report(case, F(out["rem"]))
            if any(abs(r[k] - float(F(ref[k]))) > tol for k in ("succeeded", "failed", "excess")):
                ctx.mismatch(case, r, ref, "BatteryManager._distribute_power report vs reference arithmetic")
    ctx.case(case, tags=tags, nontrivial=nontrivial)
    return {"dist": out["dist"], "rem": out["rem"], "flags": flags, "consistent": cons, "admitted": adm,
            "manager_admits": manager_admits(case), "mgr": manager_report(case, F(out["rem"]))}


def prepare_failed(case: dict, rng: random.Random) -> None:
    """Script a partial API failure: pick inverters whose `set_power` fails; `failed` = their exact power."""
    ids = [i["id"] for g in case["groups"] for i in g["invs"]]
    fail = [i for i in ids if rng.random() < 0.3]
    if not fail:
        return
    out = run_impl(case, exact=True)
    if "error" in out:
        return
    if rng.random() < 0.4:
        fail = [rng.choice(fail)]  # exactly one inverter is rejected, every other set-point is accepted
    case["fail_ids"] = fail
    # how the API refuses: the manager must account for the refused set-point whatever the reason
    case["fail_kinds"] = {str(i): rng.choice(["out_of_range", "out_of_range", "api_error", "unknown", "timeout"] if rng.random() < 0.9
                                             else ["timeout"]) for i in fail}
    if len(fail) == 1 and rng.random() < 0.5:
        case["fail_kinds"] = {str(fail[0]): "out_of_range"}
    case["failed"] = rat(sum(F(out["dist"][str(i)]) for i in fail))


def run_property(ctx: Any, prop: str) -> None:
    from .common import python_flags

    python_flags()
    ctx.rule = RULE
    n = ctx.budget(quick=2500, thorough=40000)
    cases: list[dict] = []
    outs: list[dict] = []
    for c in corpus_cases("C01") + corpus_cases("C02"):
        cases.append(c)
        outs.append(process(ctx, prop, c, mgr_probe=True, domain_probe=True))
    for i in range(n):
        rng = ctx.subrng("case", i)
        r = rng.random()
        case = gen_malformed(rng) if r < 0.12 else (gen_isclose(rng) if r < 0.14 else (
            gen_float_residue(rng) if r < 0.19 else (gen_large_scale(rng) if r < 0.24 else gen_case(rng))))
        probe = prop == "C01" and i % 8 == 0
        if probe and rng.random() < 0.5:
            prepare_failed(case, rng)
        if probe:
            case["adjust_power"] = rng.random() < 0.5
        cases.append(case)
        outs.append(process(ctx, prop, case, mgr_probe=probe, domain_probe=i % 5 == 1))
    # sequences of calls on one long-lived instance
    for i in range(ctx.budget(quick=170, thorough=2500)):
        rng = ctx.subrng("sequence", i)
        for k, case in enumerate(gen_sequence(rng)):
            if k == 0:
                continue  # the first call of a sequence is an ordinary case (covered above)
            cases.append(case)
            outs.append(process(ctx, prop, case, mgr_probe=False, seq=True))
    if prop == "C02":
        # several requests through ONE real BatteryManager, the component data changing in between
        for i in range(ctx.budget(quick=60, thorough=800)):
            process_manager_sequence(ctx, prop, gen_manager_sequence(ctx.subrng("manager-sequence", i)))
    if ctx.tier == "thorough":
        for c in exhaustive_small():
            finish_case(c)
            cases.append(c)
            outs.append(process(ctx, prop, c, mgr_probe=False))
    ctx.compare("Distribution", cases, outs, what="distribute_power set-points, remainder, regime tags, domain predicates")


def replay_property(ctx: Any, prop: str, data: dict) -> None:
    from .common import python_flags

    python_flags()
    case = data.get("case")
    if case and "manager_sequence" in case:
        process_manager_sequence(ctx, prop, case["manager_sequence"])
        return None
    if not case or "groups" not in case:
        return run_property(ctx, prop)
    out = process(ctx, prop, case, mgr_probe=prop == "C01", domain_probe=True)
    ctx.compare("Distribution", [case], [out], what="replayed case")
