"""Shared harness machinery: context, Lean driver access, canonical forms, outcome bookkeeping.

Every property module `harness/cXX.py` exposes `run(ctx)`.  It generates cases from `ctx.rng`
(seeded by VERIF_SEED), runs the REAL code of /repo in-process, runs the Lean model through a
line-protocol driver on the same cases, and reports through `ctx`:

    ctx.case(case, tags=[...], nontrivial=bool)     one explored case (counted, hashed, sampled)
    ctx.violation(clause, case, observed, regime)   the property predicate failed on the IMPLEMENTATION
    ctx.mismatch(case, impl, model, what)           model and implementation disagree
    ctx.note(text)                                  free text into the evidence

`regime` is a tag computed from the *input* of the case; a violation is suppressed as a known
finding only if `known_findings.json` lists a finding for this property with that regime.
"""
from __future__ import annotations

import hashlib
import json
import os
import pathlib
import random
import subprocess
import sys
import time
from fractions import Fraction
from typing import Any, Iterable

VERIF = pathlib.Path(__file__).resolve().parent.parent
LEAN_DIR = VERIF / "lean"
REPO = pathlib.Path(os.environ.get("VERIF_REPO", "/repo"))
OUT = VERIF / "out"

GUARD = "FREQUENZ_SDK_PYTHON_VERIF"


# --------------------------------------------------------------------------- rationals
def rat(x: Any) -> str | None:
    """Canonical rational string ("n" or "n/d") for ints, Fractions and exactly representable floats."""
    if x is None:
        return None
    if isinstance(x, bool):
        raise TypeError("bool is not a rational")
    fr = Fraction(x)
    return str(fr.numerator) if fr.denominator == 1 else f"{fr.numerator}/{fr.denominator}"


def unrat(s: str | None) -> Fraction | None:
    if s is None:
        return None
    return Fraction(s)


def canon(obj: Any) -> str:
    return json.dumps(obj, sort_keys=True, separators=(",", ":"))


# --------------------------------------------------------------------------- Lean driver
class LeanDriverError(Exception):
    pass


_lake_env: dict[str, str] | None = None


def lake_env() -> dict[str, str]:
    """Environment of `lake env` (computed once; avoids a lake start per driver call)."""
    global _lake_env
    if _lake_env is None:
        out = subprocess.run(
            ["lake", "env", "printenv"], cwd=LEAN_DIR, capture_output=True, text=True, check=True
        ).stdout
        env = dict(os.environ)
        for line in out.splitlines():
            if "=" in line:
                k, v = line.split("=", 1)
                if k in ("LEAN_PATH", "LEAN_SRC_PATH", "LD_LIBRARY_PATH", "PATH", "LEAN_SYSROOT", "LAKE", "LAKE_HOME"):
                    env[k] = v
        _lake_env = env
    return _lake_env


def lean_run(driver: str, cases: Iterable[Any], timeout: float = 900.0) -> list[Any]:
    """Pipe one JSON document per line through `lean --run Drivers/<driver>.lean`."""
    lines = [canon(c) for c in cases]
    if not lines:
        return []
    try:
        p = subprocess.run(
            ["lean", "--run", f"Drivers/{driver}.lean"],
            cwd=LEAN_DIR,
            input="\n".join(lines) + "\n",
            capture_output=True,
            text=True,
            timeout=timeout,
            env=lake_env(),
        )
    except subprocess.TimeoutExpired as e:
        raise LeanDriverError(f"driver {driver} timed out") from e
    if p.returncode != 0:
        raise LeanDriverError(f"driver {driver} failed: {p.stderr[-2000:] or p.stdout[-2000:]}")
    outs = [json.loads(line) for line in p.stdout.splitlines() if line.strip()]
    if len(outs) != len(lines):
        raise LeanDriverError(f"driver {driver}: {len(lines)} inputs, {len(outs)} outputs; stderr={p.stderr[-500:]}")
    return outs


# --------------------------------------------------------------------------- context
class Ctx:
    def __init__(self, prop: str, tier: str, seed: int, boost: int = 1, replay: str | None = None,
                 model_available: bool = True):
        self.prop = prop
        self.tier = tier
        self.seed = seed
        self.boost = boost
        self.replay = replay
        self.model_available = model_available
        self.rng = random.Random(f"{prop}/{seed}")
        self.evaluations = 0
        self.nontrivial_hashes: set[str] = set()
        self.tags: dict[str, int] = {}
        self.samples: list[Any] = []
        self.violations: list[dict] = []
        self.mismatches: list[dict] = []
        self.notes: list[str] = []
        self.traces_validated = 0
        self.extra: dict[str, Any] = {}
        self.rule = ""
        self.t0 = time.time()
        self.deadline: float | None = None

    # ---- budget
    def budget(self, quick: int, thorough: int) -> int:
        n = quick if self.tier == "quick" else thorough
        return n * self.boost

    def subrng(self, *key: Any) -> random.Random:
        return random.Random(f"{self.prop}/{self.seed}/" + "/".join(map(str, key)))

    # ---- recording
    def case(self, case: Any, tags: Iterable[str] = (), nontrivial: bool = True, validated: bool = False) -> None:
        self.evaluations += 1
        for t in tags:
            self.tags[t] = self.tags.get(t, 0) + 1
        if nontrivial:
            self.nontrivial_hashes.add(hashlib.sha1(canon(case).encode()).hexdigest()[:16])
        if validated:
            self.traces_validated += 1
        if len(self.samples) < 3 or (len(self.samples) < 6 and self.evaluations % 97 == 0):
            self.samples.append(case)

    def violation(self, clause: str, case: Any, observed: Any = None, regime: str | None = None) -> None:
        self.violations.append({"clause": clause, "case": case, "observed": observed, "regime": regime})

    def mismatch(self, case: Any, impl: Any, model: Any, what: str = "") -> None:
        self.mismatches.append({"what": what, "case": case, "impl": impl, "model": model})

    def note(self, text: str) -> None:
        if text not in self.notes:
            self.notes.append(text)

    # ---- model/impl comparison helper
    def compare(self, driver: str, cases: list[Any], impl_outs: list[Any], what: str = "") -> list[Any] | None:
        """Run `cases` through the Lean driver and diff with `impl_outs` (canonical JSON equality)."""
        if not self.model_available:
            return None
        try:
            model_outs = lean_run(driver, cases)
        except LeanDriverError as e:
            self.model_available = False
            self.extra["driver_error"] = str(e)[:1500]
            self.mismatch({"driver": driver}, None, None, f"model driver unavailable: {str(e)[:300]}")
            return None
        for c, i, m in zip(cases, impl_outs, model_outs):
            self.traces_validated += 1
            if canon(i) != canon(m):
                self.mismatch(c, i, m, what)
        return model_outs


def python_flags() -> None:
    import logging

    logging.disable(logging.CRITICAL)
    os.environ.setdefault(GUARD, "1")
    if str(REPO) not in sys.path:
        sys.path.insert(0, str(REPO))  # `tests.utils` helpers
    if REPO != pathlib.Path("/repo") and str(REPO / "src") not in sys.path:
        # checking another tree (a scratch worktree with a seeded change): import frequenz.sdk from there
        sys.path.insert(0, str(REPO / "src"))
        import frequenz  # namespace package: make sure the scratch tree's portion is searched first

        frequenz.__path__ = [str(REPO / "src" / "frequenz")] + [p for p in frequenz.__path__ if p != str(REPO / "src" / "frequenz")]
