"""C04 — lower-priority preferences are honoured only inside higher-priority bounds.

Oracle on the REAL `Matryoshka` (independent of the Lean model; exact Fractions):
  closest : for a conflict-free proposal set the target equals the admissible value closest to the
            preference of the lowest-priority actor that stated one (ties -> lower value; a
            preference of exactly 0 is adopted when 0 is inside the intersection and neither end of
            it lies inside the exclusion zone), admissible = (system bounds ∩ bounds of all
            strictly-higher-priority actors) minus the open exclusion zone;
  report  : for every actor a and probe power x:  adjust_to_bounds(x) on the report for a's priority
            returns (x, x)  <=>  proposing x as a (lower priorities stating no preference) yields x;
  empty   : adding a proposal with neither power nor bounds (new actor, any priority) changes nothing.
Regime `SharedPriority` (input predicate: two live proposals have the same priority) marks the
known finding: reports are keyed by priority only.
Correspondence: operation scripts (propose/status/adjust) through the Lean driver, exact equality.
"""
from __future__ import annotations

import json
import pathlib
from fractions import Fraction

from . import matryoshka_gen as g
from .common import Ctx, python_flags, rat

RULE = ("conflict-free proposal sets (2-6 actors, bounds built around a common admissible core point, values on a "
        "lattice of anchors ± {0,1/2,1}); probes x at every interval end ± {0,1/2}; non-trivial = >=2 proposals with "
        "bounds and an exclusion zone or a preference outside the admissible set; distinct by canonical JSON hash")


def F(x):
    return None if x is None else Fraction(x)


def in_zone(ex, x):
    return ex is not None and ex[0] < x < ex[1]


def groups_desc(props):
    prios = sorted({p["prio"] for p in props}, reverse=True)
    return [[p for p in props if p["prio"] == pr] for pr in prios]


def narrow(I, ps):
    lo, hi = I
    for p in ps:
        if p["lo"] is not None:
            lo = max(lo, F(p["lo"]))
        if p["hi"] is not None:
            hi = min(hi, F(p["hi"]))
    return (lo, hi)


def usable(I, ex):
    return I[0] <= I[1] and not (in_zone(ex, I[0]) and in_zone(ex, I[1]))


def conflict_free(sb, props):
    """Literal reading of the quantifier: intersect by strictly descending priority (same-priority
    peers together); the intersection minus the zone must stay non-empty."""
    if sb["incl"] is None:
        return False
    I = (F(sb["incl"][0]), F(sb["incl"][1]))
    ex = eff_excl(sb)
    if not usable(I, ex):
        return False
    for grp in groups_desc(props):
        I = narrow(I, grp)
        if not usable(I, ex):
            return False
    return True


def eff_excl(sb):
    if sb["excl"] is None:
        return None
    lo, hi = F(sb["excl"][0]), F(sb["excl"][1])
    return None if (lo == 0 and hi == 0) else (lo, hi)


def closest(I, ex, v):
    lo, hi = I
    if v == 0 and lo <= 0 <= hi and not in_zone(ex, lo) and not in_zone(ex, hi):
        return Fraction(0)
    cands = [lo, hi, v]
    if ex is not None:
        cands += [ex[0], ex[1]]
    adm = [c for c in cands if lo <= c <= hi and not in_zone(ex, c)]
    assert adm, "usable interval has an admissible end-point"
    return min(adm, key=lambda c: (abs(c - v), c))


def expected_target(sb, props):
    """(expected target, shared-priority-ambiguity) by the literal statement."""
    I = (F(sb["incl"][0]), F(sb["incl"][1]))
    ex = eff_excl(sb)
    exp = Fraction(0)
    ambiguous = False
    for grp in groups_desc(props):
        prefs = [p for p in grp if p["pref"] is not None]
        if prefs:
            if len(prefs) > 1:
                ambiguous = True
            exp = closest(I, ex, F(prefs[-1]["pref"]))
        I = narrow(I, grp)
    return exp, ambiguous


def gen_case(rng, distinct: bool) -> dict:
    anchors = g.lattice(rng)
    for _ in range(50):
        sb = g.gen_sb(rng, anchors, True)
        if sb["incl"] is None:
            continue
        lo, hi = F(sb["incl"][0]), F(sb["incl"][1])
        ex = eff_excl(sb)
        pts = [x for x in [lo, hi] + ([ex[0], ex[1]] if ex else []) + [g.near(rng, anchors) for _ in range(3)]
               if lo <= x <= hi and not in_zone(ex, x)]
        if not pts:
            continue
        core = rng.choice(pts)
        n = rng.randint(1, 6)
        prios = rng.sample(range(-4, 9), n) if distinct else [rng.randint(0, 3) for _ in range(n)]
        srcs = rng.sample(g.SRC_IDS, n)
        props = []
        for pr, src in zip(prios, srcs):
            plo = None if rng.random() < 0.4 else min(core, g.near(rng, anchors))
            phi = None if rng.random() < 0.4 else max(core, g.near(rng, anchors))
            if rng.random() < 0.15:  # exactly at the core / zone edge
                plo = core
            pref = None if rng.random() < 0.35 else g.near(rng, anchors)
            props.append({"prio": pr, "src": src, "pref": rat(pref), "lo": rat(plo), "hi": rat(phi), "created": "0"})
        return {"sb": sb, "props": props}
    return {"sb": {"incl": ["-10", "10"], "excl": None}, "props": []}


def target_of(sb, props, order=None):
    m = g.new_manager()
    res = None
    for p in (order or props):
        res = g.run_op_impl(m, {"op": "calc", "p": p, "sb": sb, "must": True})
    if res is None:
        res = g.run_op_impl(m, {"op": "calc", "p": None, "sb": sb, "must": True})
    return m, (None if res is None else Fraction(res))


def check_case(ctx: Ctx, case: dict, rng) -> dict:
    sb, props = case["sb"], case["props"]
    shared = len({p["prio"] for p in props}) < len(props)
    regime = "SharedPriority" if shared else None
    cf = conflict_free(sb, props)
    tags = {"conflict-free" if cf else "conflicting", "shared-prio" if shared else "distinct-prio"}
    script_ops = [{"op": "calc", "p": p, "sb": sb, "must": True} for p in props]
    m, tgt = target_of(sb, props)
    if cf and props:
        exp, amb = expected_target(sb, props)
        if not amb and tgt != exp:
            ctx.violation("closest", case, {"target": rat(tgt), "expected": rat(exp)}, regime)
        # empty proposal of a new actor
        e = {"prio": rng.choice([p["prio"] for p in props] + [-9, 20, 2]) if not shared else rng.randint(-9, 20),
             "src": "empty-actor", "pref": None, "lo": None, "hi": None, "created": "0"}
        if not shared and e["prio"] in {p["prio"] for p in props}:
            e["prio"] = 21
        pos = rng.randint(0, len(props))
        _, tgt_e = target_of(sb, props, props[:pos] + [e] + props[pos:])
        if tgt_e != tgt:
            ctx.violation("empty-proposal-neutral", {"sb": sb, "props": props, "empty": e},
                          {"target": rat(tgt), "with_empty": rat(tgt_e)}, regime)
        # report vs effective range, for up to 3 actors
        I0 = (F(sb["incl"][0]), F(sb["incl"][1]))
        ex = eff_excl(sb)
        ends = {I0[0], I0[1], Fraction(0)} | ({ex[0], ex[1]} if ex else set())
        for p in props:
            ends |= {F(p[k]) for k in ("lo", "hi", "pref") if p[k] is not None}
        probes = sorted({e_ + d for e_ in ends for d in (0, Fraction(1, 2), -Fraction(1, 2))})
        for a in rng.sample(props, min(3, len(props))):
            a_regime = "SharedPriority" if any(q is not a and q["prio"] == a["prio"] for q in props) else None
            lower_cleared = [dict(q, pref=None) if q["prio"] < a["prio"] else q for q in props]
            for x in rng.sample(probes, min(6, len(probes))):
                lo_, hi_ = g.run_op_impl(m, {"op": "adjust", "prio": a["prio"], "sb": sb, "power": rat(x)})
                predicted = (lo_ == rat(x) and hi_ == rat(x))
                trial = [dict(q, pref=rat(x)) if q is a or (q["prio"], q["src"]) == (a["prio"], a["src"]) else q
                         for q in lower_cleared]
                # the set with a's preference replaced must itself be conflict-free (bounds unchanged => it is)
                _, t2 = target_of(sb, trial)
                adopted = (t2 == x)
                script_ops.append({"op": "adjust", "prio": a["prio"], "sb": sb, "power": rat(x)})
                if predicted != adopted:
                    ctx.violation("report-is-effective-range",
                                  {"sb": sb, "props": props, "actor": a, "x": rat(x)},
                                  {"adjust_to_bounds": [lo_, hi_], "target_when_proposed": rat(t2)}, a_regime)
            script_ops.append({"op": "status", "prio": a["prio"], "sb": sb})
    if any(p["lo"] is not None or p["hi"] is not None for p in props):
        tags.add("bounded")
    if eff_excl(sb):
        tags.add("excl-zone")
    nontrivial = cf and len(props) >= 2 and "bounded" in tags
    ctx.case(case, tags=sorted(tags), nontrivial=nontrivial)
    return {"ops": script_ops}


def load_corpus() -> list[dict]:
    d = pathlib.Path(__file__).resolve().parent.parent / "corpus" / "C04"
    return [json.loads(p.read_text()) for p in sorted(d.glob("*.json"))] if d.exists() else []


def run(ctx: Ctx) -> None:
    python_flags()
    ctx.rule = RULE
    n = ctx.budget(700, 20000)
    scripts = []
    cases = load_corpus() + []
    for i in range(n):
        rng = ctx.subrng("case", i)
        cases.append(gen_case(rng, distinct=rng.random() < 0.8))
    for i, case in enumerate(cases):
        scripts.append(check_case(ctx, case, ctx.subrng("probe", i)))
    # correspondence: the scripts (proposals, then every adjust/status probe) through the Lean model
    impl_outs = [g.run_script_impl(s)[1] for s in scripts]
    ctx.compare("Matryoshka", scripts, impl_outs, what="C04 script outputs")
    # plus general scripts with distinct priorities
    gen_scripts = []
    for i in range(ctx.budget(300, 8000)):
        rng = ctx.subrng("script", i)
        gen_scripts.append(g.gen_script(rng, rng.randint(4, 20), in_domain=True, distinct_prios=rng.random() < 0.7))
    ctx.compare("Matryoshka", gen_scripts, [g.run_script_impl(s)[1] for s in gen_scripts], what="Matryoshka scripts")
    from . import powerpath  # full-stack stage: the same property through the public pool API (real actors)
    powerpath.run_stage(ctx, {"C04-report"}, n_quick=60, n_thorough=800)


def replay(ctx: Ctx, data: dict) -> None:
    python_flags()
    case = data.get("case") or {}
    if "sb" in case and "props" in case:
        s = check_case(ctx, {"sb": case["sb"], "props": case["props"]}, ctx.subrng("replay"))
        ctx.compare("Matryoshka", [s], [g.run_script_impl(s)[1]])
    else:
        run(ctx)
