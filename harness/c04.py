"""C04 — lower-priority preferences are honoured only inside higher-priority bounds.

Oracle on the REAL `Matryoshka` (independent of the Lean model; exact Fractions):
  closest : for a conflict-free proposal set the target equals the admissible value closest to the
            preference of the lowest-priority actor that stated one (ties -> lower value; a
            preference of exactly 0 is adopted when 0 is inside the intersection and neither end of
            it lies inside the exclusion zone), admissible = (system bounds ∩ bounds of all
            strictly-higher-priority actors) minus the open exclusion zone;
  report  : for every priority level q (of an actor, or between/below/above the actors = a new actor
            without bounds) and probe power x:  adjust_to_bounds(x) on the report sent for q returns
            (x, x)  <=>  proposing x at q (lower priorities stating no preference) yields x.  Both sides
            are observed on the real object (get_status vs. calculate_target_power);
  empty   : adding a proposal with neither power nor bounds (new actor, any priority) changes nothing;
  history : the clauses quantify over histories.  Operation scripts on ONE manager interleave proposals,
            refreshes, `drop_old_proposals` at instants where some but not all proposals expire, and status
            reads taken BEFORE any new proposal arrives.  At every status read whose live proposal set
            (reference semantics: latest proposal per actor that no executed drop has expired) is
            compatible, (i) the report clause is evaluated with the report as read from the manager under
            test and the adoption observed on a copy of that very manager, and (ii) the report must answer
            every probe like the report of a fresh manager fed only the live proposals (the effective range
            is a function of the live set — C03 —, hence so is a report that equals it).
Compatible sets: the literal reading (intersect by descending priority; the intersection minus the zone
never empties).  Bounds that lie *strictly inside the exclusion zone with both ends* contain no usable
power at all; the manager documents that such bounds "don't narrow the bounds further", i.e. they
restrict nobody.  Sets that are compatible once those void bounds are disregarded are covered too
(tag `void-bounds`), but only with the clauses that need no notion of "admissible value" for the void
actor: report and empty.  `closest` is asserted for literally compatible sets only.
Regime `SharedPriority` (input predicate: two live proposals have the same priority) marks the
known finding: reports are keyed by priority only.
Correspondence: every script (proposals, drops, every status/adjust probe) through the Lean driver,
exact equality.
"""
from __future__ import annotations

import copy
import json
import pathlib
from fractions import Fraction

from . import matryoshka_gen as g
from .common import Ctx, python_flags, rat

RULE = ("conflict-free proposal sets (2-6 actors, bounds built around a common admissible core point, values on a "
        "lattice of anchors ± {0,1/2,1}), incl. sets where 1-2 higher-priority actors state bounds strictly inside "
        "the exclusion zone (with/without preference) above narrowing intermediate actors; reports queried at every "
        "priority level (actors, between, below, above) with probes x at every interval end ± {0,1/2} and at the ends "
        "of the reported range; history scripts (staggered proposals, refreshes, drops around the expiry instant of "
        "a silent actor, status reads before any new proposal); every 8th case/script mixes in tiny non-zero magnitudes "
        "(±2^-40, ±2^-54, ±2^-60, smallest subnormal, the doubles at/around 1e-9) for preferences and bounds; non-trivial = >=2 proposals with bounds and an "
        "exclusion zone or a preference outside the admissible set; distinct by canonical JSON hash")

HALF = Fraction(1, 2)


def F(x):
    return None if x is None else Fraction(x)


def in_zone(ex, x):
    return ex is not None and ex[0] < x < ex[1]


def groups_desc(props):
    prios = sorted({p["prio"] for p in props}, reverse=True)
    return [[p for p in props if p["prio"] == pr] for pr in prios]


def narrow(I, ps):
    lo, hi = I
    for p in ps:
        if p["lo"] is not None:
            lo = max(lo, F(p["lo"]))
        if p["hi"] is not None:
            hi = min(hi, F(p["hi"]))
    return (lo, hi)


def usable(I, ex):
    return I[0] <= I[1] and not (in_zone(ex, I[0]) and in_zone(ex, I[1]))


def conflict_free(sb, props):
    """Literal reading of the quantifier: intersect by strictly descending priority (same-priority
    peers together); the intersection minus the zone must stay non-empty."""
    if sb["incl"] is None:
        return False
    I = (F(sb["incl"][0]), F(sb["incl"][1]))
    ex = eff_excl(sb)
    if not usable(I, ex):
        return False
    for grp in groups_desc(props):
        I = narrow(I, grp)
        if not usable(I, ex):
            return False
    return True


def eff_excl(sb):
    if sb["excl"] is None:
        return None
    lo, hi = F(sb["excl"][0]), F(sb["excl"][1])
    return None if (lo == 0 and hi == 0) else (lo, hi)


def is_void(p, ex) -> bool:
    """Input predicate: the proposal states both bounds and both lie strictly inside the exclusion zone
    (no usable power satisfies them; documented as not restricting anybody)."""
    return (ex is not None and p["lo"] is not None and p["hi"] is not None
            and in_zone(ex, F(p["lo"])) and in_zone(ex, F(p["hi"])))


def compatibility(sb, props) -> str | None:
    """'literal' | 'void-discounted' | None — computed from the input only."""
    if sb["incl"] is None or not g.sb_in_domain(sb):
        return None
    if conflict_free(sb, props):
        return "literal"
    ex = eff_excl(sb)
    if any(is_void(p, ex) for p in props):
        if conflict_free(sb, [dict(p, lo=None, hi=None) if is_void(p, ex) else p for p in props]):
            return "void-discounted"
    return None


def closest(I, ex, v):
    lo, hi = I
    if v == 0 and lo <= 0 <= hi and not in_zone(ex, lo) and not in_zone(ex, hi):
        return Fraction(0)
    cands = [lo, hi, v]
    if ex is not None:
        cands += [ex[0], ex[1]]
    adm = [c for c in cands if lo <= c <= hi and not in_zone(ex, c)]
    assert adm, "usable interval has an admissible end-point"
    return min(adm, key=lambda c: (abs(c - v), c))


def expected_target(sb, props):
    """(expected target, shared-priority-ambiguity) by the literal statement."""
    I = (F(sb["incl"][0]), F(sb["incl"][1]))
    ex = eff_excl(sb)
    exp = Fraction(0)
    ambiguous = False
    for grp in groups_desc(props):
        prefs = [p for p in grp if p["pref"] is not None]
        if prefs:
            if len(prefs) > 1:
                ambiguous = True
            exp = closest(I, ex, F(prefs[-1]["pref"]))
        I = narrow(I, grp)
    return exp, ambiguous


# --------------------------------------------------------------------------- generators
def _tiny_or(rng, tiny: bool, v, p: float):
    """In tiny mode replace a drawn value by a tiny non-zero magnitude with probability p."""
    return g.tiny(rng) if tiny and rng.random() < p else v


def gen_case(rng, distinct: bool, tiny: bool = False) -> dict:
    """tiny: preferences (p=1/2) and bounds (p=1/5, kept on the right side of the core point) are replaced by tiny
    non-zero magnitudes (2^-40 … smallest subnormal, the doubles around 1e-9)."""
    anchors = g.lattice(rng)
    for _ in range(50):
        sb = g.gen_sb(rng, anchors, True)
        if sb["incl"] is None:
            continue
        lo, hi = F(sb["incl"][0]), F(sb["incl"][1])
        ex = eff_excl(sb)
        pts = [x for x in [lo, hi] + ([ex[0], ex[1]] if ex else []) + [g.near(rng, anchors) for _ in range(3)]
               if lo <= x <= hi and not in_zone(ex, x)]
        if not pts:
            continue
        core = rng.choice(pts)
        n = rng.randint(1, 6)
        prios = rng.sample(range(-4, 9), n) if distinct else [rng.randint(0, 3) for _ in range(n)]
        srcs = rng.sample(g.SRC_IDS, n)
        props = []
        for pr, src in zip(prios, srcs):
            plo = None if rng.random() < 0.4 else min(core, _tiny_or(rng, tiny, g.near(rng, anchors), 0.2))
            phi = None if rng.random() < 0.4 else max(core, _tiny_or(rng, tiny, g.near(rng, anchors), 0.2))
            if rng.random() < 0.15:  # exactly at the core / zone edge
                plo = core
            pref = None if rng.random() < 0.35 else g.tie_safe(_tiny_or(rng, tiny, g.near(rng, anchors), 0.7), [sb])
            props.append({"prio": pr, "src": src, "pref": rat(pref), "lo": rat(plo), "hi": rat(phi), "created": "0"})
        return {"sb": sb, "props": props}
    return {"sb": {"incl": ["-10", "10"], "excl": None}, "props": []}


def gen_void_case(rng, tiny: bool = False) -> dict:
    """3-6 actors with distinct priorities and a non-trivial exclusion zone; 1-2 actors (not the lowest) state
    bounds with BOTH ends strictly inside the zone (with / without a preference); the others are built around a
    common admissible core point, and at least one actor below the first void one states bounds."""
    s = rng.choice([1, 1, 10, 100])
    widths = [2, 3, 5, 10, 30]
    elo = -Fraction(rng.choice(widths) * s)
    ehi = -elo if rng.random() < 0.5 else Fraction(rng.choice(widths) * s)
    outs = [0, HALF, 1, 5 * s, 20 * s, 170 * s]
    lo, hi = elo - rng.choice(outs), ehi + rng.choice(outs)
    r = rng.random()
    if r < 0.06:        # one end of the system bounds inside the zone
        lo = elo + 1
    elif r < 0.12:
        hi = ehi - 1
    ins = sorted(x for x in {elo + HALF, elo + 1, ehi - HALF, ehi - 1, Fraction(0), HALF, -HALF, Fraction(1),
                             Fraction(-1), (elo + ehi) / 2} if elo < x < ehi)
    if tiny:   # tiny non-zero magnitudes are strictly inside every non-trivial zone
        ins = sorted(set(ins) | {g.tiny(rng) for _ in range(4)})
    adm = sorted(x for x in {lo, hi, elo, ehi, elo - HALF, elo - 1, ehi + HALF, ehi + 1, lo + 1, hi - 1,
                             (lo + elo) / 2, (hi + ehi) / 2} if lo <= x <= hi and not elo < x < ehi)
    core = rng.choice(adm)
    anchors = sorted({Fraction(0), elo, ehi, lo, hi, core, rng.choice(adm)})
    n = rng.randint(3, 6)
    prios = sorted(rng.sample(range(-4, 9), n), reverse=True)
    srcs = rng.sample(g.SRC_IDS, n)
    first_void = rng.randint(0, n - 3) if rng.random() < 0.85 else rng.randint(0, n - 2)
    voids = {first_void}
    if rng.random() < 0.3:
        voids.add(rng.randint(0, n - 2))
    forced = rng.randint(first_void + 1, max(first_void + 1, n - 2))     # an intermediate actor with bounds
    props = []
    for i, (pr, src) in enumerate(zip(prios, srcs)):
        if i in voids:
            a, b = rng.choice(ins), rng.choice(ins)
            plo, phi = min(a, b), max(a, b)
            r = rng.random()
            pref = None if r < 0.4 else (rng.choice(ins) if r < 0.6 else g.near(rng, anchors))
            if tiny and pref is not None and rng.random() < 0.5:
                pref = g.tiny(rng)
        else:
            plo = None if rng.random() < 0.35 else min(core, g.near(rng, anchors))
            phi = None if rng.random() < 0.35 else max(core, g.near(rng, anchors))
            if i == forced and plo is None and phi is None:
                if rng.random() < 0.5:
                    plo = min(core, g.near(rng, anchors))
                else:
                    phi = max(core, g.near(rng, anchors))
            if rng.random() < 0.15:
                plo = core
            pref = None if rng.random() < 0.35 else _tiny_or(rng, tiny, g.near(rng, anchors), 0.5)
        props.append({"prio": pr, "src": src, "pref": rat(pref), "lo": rat(plo), "hi": rat(phi), "created": "0"})
    rng.shuffle(props)
    sb = {"incl": [rat(lo), rat(hi)], "excl": [rat(elo), rat(ehi)]}
    for p in props:
        p["pref"] = rat(g.tie_safe(F(p["pref"]), [sb]))
    return {"sb": sb, "props": props}


def query_levels(props) -> list[int]:
    """Every priority level a report can be asked for: each actor's, the level just below each actor
    (between two actors / below the lowest) and the level above the highest."""
    prios = {p["prio"] for p in props}
    lv = set(prios) | {pr - 1 for pr in prios}
    if prios:
        lv.add(max(prios) + 1)
    return sorted(lv, reverse=True)


def gen_expiry_script(rng) -> dict:
    """One manager, constant system bounds: staggered proposals, status reads, then rounds of
    {some actors refresh, the others stay silent; drop at an instant around the expiry of a silent actor
    (so that some but not all proposals expire); optional re-evaluation without a proposal; status reads for
    several priority levels BEFORE any new proposal arrives}."""
    r = rng.random()
    tiny = rng.random() < 0.12
    base = gen_void_case(rng, tiny) if r < 0.35 else gen_case(rng, distinct=rng.random() < 0.85, tiny=tiny)
    sb, props = base["sb"], base["props"]
    if len(props) < 2:
        base = gen_void_case(rng, tiny)
        sb, props = base["sb"], base["props"]
    levels = query_levels(props)
    t = Fraction(rng.randint(0, 50))
    ops: list[dict] = []
    created: dict[tuple, Fraction] = {}

    def propose(p):
        nonlocal t
        q = dict(p, created=rat(t))
        if rng.random() < 0.2 and (p["pref"] is None or F(p["pref"]).denominator <= 2):
            q["pref"] = rat(None if rng.random() < 0.3 else (F(p["pref"]) or Fraction(0)) + rng.choice([-1, 1, HALF]))
        ops.append({"op": "calc", "p": q, "sb": sb, "must": rng.random() < 0.3})
        created[(p["prio"], p["src"])] = t
        t += rng.choice([0, 0, 1, 5, 10, 30])

    def reads(k):
        for _ in range(k):
            q = rng.choice(levels)
            ops.append({"op": "status", "prio": q, "sb": sb})

    order = list(props)
    rng.shuffle(order)
    for p in order:
        propose(p)
    reads(rng.randint(1, 3))
    for _ in range(rng.randint(1, 3)):
        k = rng.randint(1, max(1, len(props) - 1))
        silent = rng.sample(props, k)
        for p in props:
            if p not in silent and rng.random() < 0.7:
                propose(p)
        if rng.random() < 0.5:
            reads(rng.randint(1, 2))
        c = created[(lambda p: (p["prio"], p["src"]))(rng.choice(silent))]
        t = max(t, c + g.MAX_AGE + rng.choice([-1, 0, HALF, 1, 1, 10, 30]))
        ops.append({"op": "drop", "now": rat(t), "maxAge": rat(g.MAX_AGE)})
        if rng.random() < 0.4:
            ops.append({"op": "calc", "p": None, "sb": sb, "must": rng.random() < 0.5})
        reads(rng.randint(1, 4))
    return {"ops": ops}


# --------------------------------------------------------------------------- oracle
def target_of(sb, props, order=None):
    m = g.new_manager()
    res = None
    for p in (order or props):
        res = g.run_op_impl(m, {"op": "calc", "p": p, "sb": sb, "must": True})
    if res is None:
        res = g.run_op_impl(m, {"op": "calc", "p": None, "sb": sb, "must": True})
    return m, (None if res is None else Fraction(res))


def probe_points(sb, props) -> list[Fraction]:
    I0 = (F(sb["incl"][0]), F(sb["incl"][1]))
    ex = eff_excl(sb)
    ends = {I0[0], I0[1], Fraction(0)} | ({ex[0], ex[1]} if ex else set())
    for p in props:
        ends |= {F(p[k]) for k in ("lo", "hi", "pref") if p[k] is not None}
    return sorted(x for x in {e_ + d for e_ in ends for d in (0, HALF, -HALF)} if g.float_exact(x))


def pick_probes(rng, probes, reps, n) -> list[Fraction]:
    """All probes (n None), else the ends of the reported range(s) ± 1/2 plus n sampled ones."""
    if n is None:
        extra = set(probes)
    else:
        extra = set(rng.sample(probes, min(n, len(probes))))
    for rep in reps:
        b = g.report_bounds(rep)
        if b is not None:
            extra |= {b[0], b[1], b[0] - HALF, b[0] + HALF, b[1] - HALF, b[1] + HALF}
    return sorted(x for x in extra if g.float_exact(x))


def check_report(ctx: Ctx, sb, props, q, rep, xs, doc, now="0", base=None) -> list[tuple[Fraction, list]]:
    """The report clause for priority level q.  `rep` is the report as read from the manager under test;
    the adoption is observed on `base` (a copy of the manager under test; a fresh manager fed `props` if None)
    after the actors below q have withdrawn their preference (bounds kept)."""
    mine = [p for p in props if p["prio"] == q]
    regime = "SharedPriority" if len(mine) > 1 else None
    if mine:
        actor = min(mine, key=lambda p: p["src"])
    else:
        actor = {"prio": q, "src": "probe-actor", "pref": None, "lo": None, "hi": None, "created": now}
    tm = base if base is not None else g.new_manager()
    for p in props:
        if p["prio"] < q and p["pref"] is not None:
            g.run_op_impl(tm, {"op": "calc", "p": dict(p, pref=None), "sb": sb, "must": True})
        elif base is None:
            g.run_op_impl(tm, {"op": "calc", "p": p, "sb": sb, "must": True})
    outs = []
    for x in xs:
        adj = g.adjust_on(rep, x)
        outs.append((x, adj))
        predicted = adj == [rat(x), rat(x)]
        t2 = g.run_op_impl(tm, {"op": "calc", "p": dict(actor, pref=rat(x), created=now), "sb": sb, "must": True})
        adopted = t2 is not None and Fraction(t2) == x
        if predicted != adopted:
            ctx.violation("report-is-effective-range", dict(doc, query=q, actor=actor, x=rat(x)),
                          {"reported_bounds": g.report_json(rep), "adjust_to_bounds": adj,
                           "target_when_proposed": t2}, regime)
    return outs


def check_case(ctx: Ctx, case: dict, rng, full: bool = False) -> dict:
    sb, props = case["sb"], case["props"]
    shared = len({p["prio"] for p in props}) < len(props)
    regime = "SharedPriority" if shared else None
    compat = compatibility(sb, props) if props else None
    cf = compat == "literal"
    ex = eff_excl(sb) if sb["incl"] is not None else None
    tags = {"conflict-free" if cf else ("void-compatible" if compat else "conflicting"),
            "shared-prio" if shared else "distinct-prio"}
    if any(is_void(p, ex) for p in props):
        tags.add("void-bounds")
    script_ops = [{"op": "calc", "p": p, "sb": sb, "must": True} for p in props]
    m, tgt = target_of(sb, props)
    if compat:
        if cf:
            exp, amb = expected_target(sb, props)
            if not amb and tgt != exp:
                ctx.violation("closest", case, {"target": rat(tgt), "expected": rat(exp)}, regime)
        # empty proposal of a new actor
        e = case.get("empty")
        if e is None:
            e = {"prio": rng.choice([p["prio"] for p in props] + [-9, 20, 2]) if not shared else rng.randint(-9, 20),
                 "src": "empty-actor", "pref": None, "lo": None, "hi": None, "created": "0"}
            if not shared and e["prio"] in {p["prio"] for p in props}:
                e["prio"] = 21
        pos = rng.randint(0, len(props))
        _, tgt_e = target_of(sb, props, props[:pos] + [e] + props[pos:])
        if tgt_e != tgt:
            ctx.violation("empty-proposal-neutral", {"sb": sb, "props": props, "empty": e},
                          {"target": rat(tgt), "with_empty": rat(tgt_e)}, regime)
        # report vs effective range
        levels = query_levels(props)
        if not (full or compat == "void-discounted"):
            mine = sorted({p["prio"] for p in props})
            levels = rng.sample(mine, min(3, len(mine))) + [rng.choice(levels)]
            levels = sorted(set(levels), reverse=True)
        probes = probe_points(sb, props)
        for q in levels:
            rep = g.get_report(m, q, sb)
            xs = pick_probes(rng, probes, [rep], None if full else 6)
            for x, _ in check_report(ctx, sb, props, q, rep, xs, {"sb": sb, "props": props}):
                script_ops.append({"op": "adjust", "prio": q, "sb": sb, "power": rat(x)})
            script_ops.append({"op": "status", "prio": q, "sb": sb})
            if q not in {p["prio"] for p in props}:
                tags.add("query-between")
    if any(p[k] is not None and 0 < abs(F(p[k])) < Fraction(1, 10 ** 6) for p in props for k in ("pref", "lo", "hi")):
        tags.add("tiny-magnitude")
    if any(p["lo"] is not None or p["hi"] is not None for p in props):
        tags.add("bounded")
    if ex:
        tags.add("excl-zone")
    nontrivial = bool(compat) and len(props) >= 2 and "bounded" in tags
    ctx.case(case, tags=sorted(tags), nontrivial=nontrivial)
    return {"ops": script_ops}


def check_history(ctx: Ctx, script: dict, rng, full: bool = False) -> tuple[dict, dict]:
    """Run an operation script on ONE real manager; evaluate the report clauses at every status read.
    Returns (script augmented with the adjust probes, implementation outputs) for the correspondence."""
    ops = script["ops"]
    m = g.new_manager()
    ops_aug: list[dict] = []
    outs: list = []
    tags: set[str] = set()
    now = Fraction(0)
    partial_drop_seen = False
    checked = 0
    for i, op in enumerate(ops):
        kind = op["op"]
        if kind == "calc" and op["p"] is not None:
            now = max(now, Fraction(op["p"]["created"]))
        if kind == "drop":
            now = max(now, Fraction(op["now"]))
            before = g.live_proposals(ops, i)
            after = g.live_proposals(ops, i + 1)
            if after and len(after) < len(before):
                partial_drop_seen = True
                tags.add("partial-expiry")
        if kind != "status":
            ops_aug.append(op)
            outs.append(g.run_op_impl(m, op))
            continue
        q, sb = op["prio"], op["sb"]
        rep = g.get_report(m, q, sb)
        ops_aug.append(op)
        outs.append(g.report_json(rep))
        live = g.live_proposals(ops, i)
        compat = compatibility(sb, live) if live else None
        if not compat:
            continue
        checked += 1
        if partial_drop_seen:
            tags.add("status-after-partial-expiry")
        if compat == "void-discounted":
            tags.add("void-bounds")
        # (ii) a fresh manager fed only the live proposals
        fresh = g.new_manager()
        for p in live:
            g.run_op_impl(fresh, {"op": "calc", "p": p, "sb": sb, "must": True})
        rep_f = g.get_report(fresh, q, sb)
        xs = pick_probes(rng, probe_points(sb, live), [rep, rep_f], None if full else 4)
        doc = {"ops": ops[: i + 1]}
        for x in xs:
            a1, a2 = g.adjust_on(rep, x), g.adjust_on(rep_f, x)
            if a1 != a2:
                ctx.violation("report-depends-only-on-live-proposals", dict(doc, query=q, x=rat(x)),
                              {"live": live, "report": g.report_json(rep), "adjust_to_bounds": a1,
                               "fresh_manager_report": g.report_json(rep_f), "fresh_adjust_to_bounds": a2})
                break
        # (i) the report as read vs. what the manager under test (a copy of it) does with the preference
        try:
            base = copy.deepcopy(m)
        except Exception:  # noqa: BLE001  (a manager that cannot be copied: observe the adoption on a fresh one)
            base = None
            tags.add("manager-not-copyable")
        for x, adj in check_report(ctx, sb, live, q, rep, xs, doc, now=rat(now), base=base):
            ops_aug.append({"op": "adjust", "prio": q, "sb": sb, "power": rat(x)})
            outs.append(adj)
    if any(o["op"] == "drop" for o in ops):
        tags.add("expiry")
    tags.add("history")
    ctx.case(script, tags=sorted(tags), nontrivial=checked > 0 and "status-after-partial-expiry" in tags)
    return {"ops": ops_aug}, {"out": outs}


def load_corpus() -> list[dict]:
    d = pathlib.Path(__file__).resolve().parent.parent / "corpus" / "C04"
    return [json.loads(p.read_text()) for p in sorted(d.glob("*.json"))] if d.exists() else []


def run(ctx: Ctx) -> None:
    python_flags()
    ctx.rule = RULE
    scripts, impl_outs = [], []

    def do_case(case, rng, full=False):
        s = check_case(ctx, case, rng, full)
        scripts.append(s)
        impl_outs.append(g.run_script_impl(s)[1])

    def do_history(script, rng, full=False):
        s, o = check_history(ctx, script, rng, full)
        scripts.append(s)
        impl_outs.append(o)

    for i, case in enumerate(load_corpus()):
        (do_history if "ops" in case else do_case)(case, ctx.subrng("corpus", i), True)
    for i in range(ctx.budget(700, 16000)):
        rng = ctx.subrng("case", i)
        do_case(gen_case(rng, distinct=rng.random() < 0.8, tiny=i % 5 == 4), ctx.subrng("probe", i))
    for i in range(ctx.budget(200, 3000)):
        do_case(gen_void_case(ctx.subrng("void", i), tiny=i % 8 == 7), ctx.subrng("void-probe", i))
    for i in range(ctx.budget(250, 3000)):
        do_history(gen_expiry_script(ctx.subrng("expiry", i)), ctx.subrng("expiry-probe", i))
    # general scripts (changing bounds, replacements, arbitrary proposals): same history oracle where it applies
    for i in range(ctx.budget(300, 8000)):
        rng = ctx.subrng("script", i)
        do_history(g.gen_script(rng, rng.randint(4, 20), in_domain=True, distinct_prios=rng.random() < 0.7,
                                tiny_values=i % 8 == 7),
                   ctx.subrng("script-probe", i))
    # correspondence: every script (proposals, drops, every adjust/status probe) through the Lean model
    ctx.compare("Matryoshka", scripts, impl_outs, what="C04 script outputs")
    from . import powerpath  # full-stack stage: the same property through the public pool API (real actors)
    powerpath.run_stage(ctx, {"C04-report"}, n_quick=60, n_thorough=800)


def replay(ctx: Ctx, data: dict) -> None:
    python_flags()
    case = data.get("case") or {}
    if "ops" in case:
        s, o = check_history(ctx, {"ops": case["ops"]}, ctx.subrng("replay"), full=True)
        ctx.compare("Matryoshka", [s], [o])
    elif "sb" in case and "props" in case:
        c = {"sb": case["sb"], "props": case["props"]}
        if "empty" in case:
            c["empty"] = case["empty"]
        s = check_case(ctx, c, ctx.subrng("replay"), full=True)
        ctx.compare("Matryoshka", [s], [g.run_script_impl(s)[1]])
    else:
        run(ctx)
