"""C05 — formula output equals the arithmetic value of the expression.

Oracle on the REAL engines (independent of the Lean model): the formula string is parsed by an independent
recursive-descent parser (standard precedence, left to right) / the composition tree is taken as it is; for every round
in which all inputs of the expression are present and no divisor is zero, the value emitted by the real engine must
equal the exact rational value of that expression; for an undefined expression no number may be emitted.
Correspondence with the model (exact): (a) tokens of `Tokenizer`, (b) `[repr(step)]` after `finalize()` for generated
`push_*` call sequences, the deque of the composition API, (c) the samples emitted by real engines fed through
`Broadcast` channels on an `async_solipsism` loop (inputs chosen so that every float operation is exact).
"""
from __future__ import annotations

import json
import pathlib

from . import formula_gen as g
from .common import Ctx, python_flags

RULE = ("formula strings of the grammar E/T/F (random nesting <=3, random whitespace incl. \\n\\r\\t, 2-4 ids with "
        "multi-digit / leading-zero spellings), composition-API trees (depth <=3, engines reused, constants, max/min, "
        "consumption/production; 30% written with builder OBJECTS reused: in two expressions, twice in one, after a "
        "discarded operation), push_* call sequences on a bare FormulaBuilder (all ten operators, constants, clippers, "
        "per-metric flags), malformed strings / token streams (only model=code); 3-5 rounds per engine with values from "
        "{0,±1,±2,3,±4,8,±1/2,1/4,...} (4%: tiny non-zero magnitudes 2^-40, 1±2^-40) so that sub-expressions and divisors hit 0 "
        "or come close to it, some inputs missing; a staggered-start family (>=3 streams, >=2 of them holding a backlog of the "
        "same older timestamps when the engine starts, values encoding (stream, timestamp): every emitted value must be the "
        "expression over the inputs stamped with the emitted timestamp); clip trees (push_clipper); build HISTORIES of the composition API (a builder that was built is composed further — every "
        "operator/method, as left and as right operand, several levels — and built again; built twice; derived built before the "
        "original: the judged engine must compute the tree of the builder it was built from); thorough adds every "
        "operator sequence x every parenthesisation with <=4 operators over 3 ids.  non-trivial = >=2 operators of >=2 "
        "kinds; distinct by canonical JSON hash of the case incl. its rounds")


def corpus(prop: str) -> list[dict]:
    d = pathlib.Path(__file__).resolve().parent.parent / "corpus" / prop
    return [json.loads(p.read_text()) for p in sorted(d.glob("*.json"))] if d.exists() else []


def gen_cases(ctx: Ctx, n: int, p_missing: float, per_id_flags: float) -> list[dict]:
    cases: list[dict] = []
    for i in range(n):
        rng = ctx.subrng("case", i)
        r = rng.random()
        seed = f"{ctx.prop}/{ctx.seed}/rounds/{i}"
        if r < 0.40:
            ids = g.gen_ids(rng)
            s = g.gen_string(rng, ids, rng.choice([1, 2, 2, 3]))
            iids = sorted({int(x) for x in ids})
            zids = [x for x in iids if rng.random() < 0.5] if rng.random() < per_id_flags else []
            cases.append({"kind": "string", "s": s, "z": rng.random() < 0.35, "zids": zids, "rounds": None,
                          "_gen": (seed, rng.randint(3, 5), p_missing)})
        elif r < 0.72:
            engines = rng.sample([1, 2, 3, 4, 5], rng.randint(2, 4))
            case = {"kind": "ho", "z": rng.random() < 0.35, "rounds": None, "_gen": (seed, rng.randint(3, 5), p_missing)}
            if rng.random() < 0.3:
                # builder objects bound to variables and reused; the expression as written is `tree`
                case["prog"] = g.gen_ho_prog(rng, engines, rng.choice([1, 2]))
                case["tree"] = g.ho_prog_tree(case["prog"])
            else:
                case["tree"] = g.gen_ho(rng, engines, rng.choice([1, 2, 2, 3]))
            cases.append(case)
        elif r < 0.84:
            toks = g.gen_tok_stream(rng, [1, 2, 3], True)
            if any(t["t"] == "m" for t in toks):
                cases.append({"kind": "run", "toks": toks, "rounds": None, "_gen": (seed, 3, p_missing)})
            else:
                cases.append({"kind": "build", "toks": toks})
        elif r < 0.90:
            cases.append({"kind": "build", "toks": g.gen_tok_stream(rng, [1, 2, 3], False)})
        elif r < 0.95:
            cases.append({"kind": "tokenize", "s": g.gen_malformed_string(rng)})
        else:
            cases.append({"kind": "string", "s": g.gen_malformed_string(rng), "z": False, "zids": [], "rounds": None,
                          "_gen": (seed, 2, p_missing)})
    return cases


def exhaustive(ctx: Ctx, stride: int) -> list[dict]:
    """Every operator sequence x every parenthesisation with <= 4 operators (ids cycled over 3 ids)."""
    cases = []
    for k, s in enumerate(g.exhaustive_strings(4, ["1", "2", "3"])):
        if k % stride:
            continue
        cases.append({"kind": "string", "s": s, "z": False, "zids": [], "rounds": None,
                      "_gen": (f"{ctx.prop}/{ctx.seed}/exh/{k}", 3, 0.0)})
    return cases


def run(ctx: Ctx) -> None:
    python_flags()
    ctx.rule = RULE
    cases = corpus("C05")
    gap_corpus = [c for c in cases if c.get("gaps")]
    cases = [c for c in cases if not c.get("gaps")]
    n = ctx.budget(quick=6000, thorough=60000)
    cases += gen_cases(ctx, n, p_missing=0.06, per_id_flags=0.2)
    # staggered start (streams with backlogs of older samples), tiny non-zero divisors, clip steps
    cases += g.backlog_cases(ctx, max(60, n // 40))
    cases += g.build_history_cases(ctx, max(80, n // 30))
    cases += g.tiny_cases()
    cases += g.gen_clip_cases(ctx, max(60, n // 40), p_missing=0.06)
    # bounded-exhaustive small scope: all of it in the thorough tier, a slice of it in the quick tier
    cases += exhaustive(ctx, 1 if ctx.tier == "thorough" else 8)
    g.check_gap_cases(ctx, "C05", gap_corpus + g.gap_cases(ctx, max(60, n // 50), p_missing=0.0))
    g.check_cases(ctx, "C05", cases)

    from . import datapath  # full-stack stage: the same property through the real sourcing -> resampling -> formula stack
    datapath.run_stage(ctx, {"C05-value"}, n_quick=40, n_thorough=600)


def replay(ctx: Ctx, data: dict) -> None:
    python_flags()
    case = data.get("case")
    if not isinstance(case, dict) or "kind" not in case:
        return run(ctx)
    if case.get("gaps"):
        return g.check_gap_cases(ctx, "C05", [case])
    g.check_cases(ctx, "C05", [case])
