"""C09 — ring buffer / moving window behaves as a sliding time-indexed map.

Oracle on the REAL `OrderedRingBuffer` / `MovingWindow` (independent of the Lean model): a reference dict
`{slot: last valid value}` + newest slot (harness/ringbuffer_gen.Ref) predicts, after every update, the
rejection, the gap list, `count_valid`, `count_covered`, `oldest/newest_timestamp`, and at the end every
`window(i, j)`, `window(dt1, dt2)` (aligned, unaligned, closer than one period), `at(i)`, `at(dt)`,
`MovingWindow[...]`.  Correspondence: the same case through `lean/Drivers/RingBuffer.lean`, compared exactly
(including `fill_value=None` raw reads, which expose the stale slot contents the model must also track).
"""
from __future__ import annotations

import json
import pathlib
from typing import Any

from . import ringbuffer_gen as g
from .common import Ctx, python_flags

RULE = ("a case = capacity 1-6, period (even µs; odd µs only in the model=code stream), align point, list/numpy "
        "container, datetimes in UTC or (25 %) in a non-UTC zone — Europe/Berlin, America/New_York, Lord Howe, fixed "
        "offsets — with the window around a DST switch (the oracle works on instants), the buffer dumped/loaded or "
        "deep-copied at random points of the history incl. before the first update (20 %), 1-25 updates placed relative to the current window (in order, inside, skipping, jump >= capacity, "
        "around the reject boundary; on/next to the grid and around the half-way point; value/None/NaN), then after "
        "EVERY update gaps/counts/oldest/newest and at the end 40-324 index windows, 37+ datetime windows (fill_value NaN, "
        "0, 0.0, negative, fractional, None; every explicit fill value through OrderedRingBuffer.window AND "
        "MovingWindow.window; plus datetime windows placed relative to both ends of the stored span: entirely "
        "after the newest / before the oldest slot, straddling, exactly one period outside, far away, on and off "
        "the grid, raw reads with and without force_copy — a legal range never raises), at(i) for "
        "|i| <= cap+2, at(dt); thorough adds the exhaustive state graph of capacity 3 over 9 slots x {value,None,NaN} "
        "to depth 6; non-trivial = >= 3 accepted updates incl. a missing value, a skipped slot, an out-of-order or an "
        "off-grid timestamp; distinct by canonical JSON hash")


def tags_of(case: dict) -> tuple[list[str], bool]:
    ref = g.Ref(case)
    tags = {f"cap{case['cap']}" if case["cap"] <= 2 else "cap>=3", case["container"]}
    accepted = 0
    interesting = False
    for op in case["ops"]:
        k = ref.slot(op["ts"])
        prev = ref.newest
        if (op["ts"] - case["align"]) % case["period"] != 0:
            tags.add("off-grid")
            interesting = True
            if 2 * ((op["ts"] - case["align"]) % case["period"]) == case["period"]:
                tags.add("half-way")
        if op["v"] is None:
            tags.add("missing-value")
            interesting = True
        if prev is not None:
            if k < prev - case["cap"] + 1:
                tags.add("rejected-too-old")
            elif k - prev >= case["cap"]:
                tags.add("jump>=cap")
            elif k > prev + 1:
                tags.add("skip")
                interesting = True
            elif k < prev:
                tags.add("out-of-order")
                interesting = True
                if k not in ref.vals and op["v"] is not None:
                    tags.add("fills-gap")
            elif k == prev:
                tags.add("overwrite-newest")
        if not ref.update(op):
            accepted += 1
    if len(ref.gaps()) >= 2:
        tags.add("gaps>=2")
    if case.get("pickle"):
        tags.add("dump-load")
    if case.get("tz"):
        tags.add("tz:non-utc")
        from .ringbuffer_gen import DST_SWITCHES
        if any(abs(op["ts"] - sw) <= (case["cap"] + 1) * case["period"] for op in case["ops"] for sw in DST_SWITCHES):
            tags.add("tz:around-dst-switch")
    for k, how in case.get("reload", []):
        tags.add(f"reload:{how}")
        if k == 0:
            tags.add("reload:before-first-update")
    for q in case["q"]:
        if q["k"] == "wts":
            if (q["a"] - case["align"]) % case["period"] or (q["b"] - case["align"]) % case["period"]:
                tags.add("q:unaligned-window")
            if 0 < q["b"] - q["a"] < case["period"]:
                tags.add("q:sub-period-window")
    return sorted(tags), accepted >= 3 and interesting


def check_one(ctx: Ctx, case: dict, record: bool = True) -> dict:
    out, notes = g.run_impl(case)
    for clause, observed, regime in g.check_case(case, out, notes):
        ctx.violation(clause, case, observed, regime=regime)
    if record:
        tags, nontrivial = tags_of(case)
        ctx.case({k: v for k, v in case.items() if k != "q"} | {"n_queries": len(case["q"])}, tags=tags, nontrivial=nontrivial)
    return out


def load_corpus() -> list[dict]:
    d = pathlib.Path(__file__).resolve().parent.parent / "corpus" / "C09"
    return [json.loads(p.read_text()) for p in sorted(d.glob("*.json"))] if d.exists() else []


# ----------------------------------------------------------------------------- bounded-exhaustive scope
def exhaustive(ctx: Ctx, depth: int, cases: list[dict], outs: list[dict]) -> None:
    """Every update history of length <= depth over 9 slots x {value, None, NaN} on a 3-slot buffer.

    The buffer's behaviour depends only on its state, so the histories are explored as a graph: from every
    distinct reachable (real buffer state, reference state) all 27 updates are executed on a copy of the REAL
    buffer; the rejection flag of every transition is checked; every state reached for the first time is checked
    by the oracle in full (observers + the fixed query set) and one history leading to it goes to the Lean driver.
    Values alternate 1/2 with the depth so that "the LAST valid value wins" is observable while states still merge.
    """
    cap, period, align = 3, 1_000_000, 0
    base = {"cap": cap, "period": period, "align": align, "init": g.init_for(cap), "pickle": False}
    seen: set[str] = set()
    frontier: list[tuple[list[dict], list[dict], Any, g.Ref]] = []
    transitions = 0
    for container in ("list", "numpy"):
        case0 = dict(base, container=container, ops=[], q=[])
        frontier.append(([], [], g.Real(case0), g.Ref(case0)))
    queries = exhaustive_queries(cap, period, align)
    for level in range(depth):
        nxt: list[tuple[list[dict], list[dict], Any, g.Ref]] = []
        for hist, steps, real, ref in frontier:
            container = "numpy" if hasattr(real.rb._buffer, "dtype") else "list"  # pylint: disable=protected-access
            for slot in range(9):
                for kind in ("val", "none", "nan"):
                    op = {"ts": align + slot * period, "v": str(1 + level % 2) if kind == "val" else None,
                          "nan": kind == "nan"}
                    r2 = real.clone()
                    rej = r2.update(op)
                    ref2 = g.Ref(base)
                    ref2.newest, ref2.vals = ref.newest, dict(ref.vals)
                    exp_rej = ref2.update(op)
                    transitions += 1
                    ops = hist + [op]
                    if rej != exp_rej:
                        ctx.violation("reject-old", dict(base, container=container, ops=ops, q=[]),
                                      {"step": level, "expected": exp_rej, "observed": rej})
                    st = r2.observe(rej)
                    key = json.dumps([container, st["gaps"], st["old"], st["new"], st["cv"], st["cc"],
                                      [g.val_out(x) for x in r2.rb._buffer],  # pylint: disable=protected-access
                                      ref2.newest, sorted(ref2.vals.items())])
                    if key in seen:
                        continue
                    seen.add(key)
                    case = dict(base, container=container, ops=ops, q=queries)
                    qs, notes = [], []
                    for q in queries:
                        res, note = r2.query(q)
                        qs.append(res)
                        if note:
                            notes.append(note)
                    out = {"steps": steps + [st], "q": qs}
                    for clause, observed, regime in g.check_case(case, out, notes):
                        ctx.violation(clause, case, observed, regime=regime)
                    tags, nontrivial = tags_of(case)
                    ctx.case({k: v for k, v in case.items() if k != "q"} | {"n_queries": len(queries)},
                             tags=tags + ["exhaustive"], nontrivial=nontrivial)
                    cases.append(case)
                    outs.append(out)
                    nxt.append((ops, steps + [st], r2, ref2))
        frontier = nxt
    ctx.extra["exhaustive_scope"] = {"capacity": cap, "slots": 9, "value_kinds": 3, "depth": depth,
                               "transitions_executed": transitions, "distinct_states": len(seen)}


_EXQ: dict[tuple, list[dict]] = {}


def exhaustive_queries(cap: int, period: int, align: int) -> list[dict]:
    key = (cap, period, align)
    if key not in _EXQ:
        qs: list[dict] = []
        idx = [None] + list(range(-cap - 1, cap + 2))
        qs += [{"k": "widx", "i": i, "j": j, "fill": None} for i in idx for j in idx]
        ts = [align + k * period + o for k in range(-1, 10) for o in (0, 400_000, 500_000, 600_000)]
        for a in ts[::3]:
            for b in ts[::4]:
                qs.append({"k": "wts", "a": a, "b": b, "fill": None})
        qs += [{"k": "wts", "a": a, "b": a + d, "fill": None} for a in ts for d in (200_000, 1_000_000)]
        qs += [{"k": "widx", "i": None, "j": None, "fill": "raw"}]
        qs += [{"k": "widx", "i": None, "j": None, "fill": f, "fi": fi} for f, fi in g.FILLS]
        qs += [{"k": "wts", "a": align - period, "b": align + 10 * period, "fill": f, "fi": fi} for f, fi in g.FILLS]
        qs += [{"k": "ati", "i": i} for i in range(-cap - 1, cap + 2)]
        qs += [{"k": "att", "t": t} for t in ts]
        # raw reads with and without a copy, also for ranges outside the stored span
        qs += [{"k": "wts", "a": a, "b": a + d, "fill": "raw", "fc": fc}
               for a in ts[::2] for d in (600_000, 2_000_000) for fc in (True, False)]
        _EXQ[key] = qs
    return _EXQ[key]


# ----------------------------------------------------------------------------- entry points
def run(ctx: Ctx) -> None:
    python_flags()
    ctx.rule = RULE
    cases: list[dict] = []
    outs: list[dict] = []
    for case in load_corpus():
        cases.append(case)
        outs.append(check_one(ctx, case))
    n = ctx.budget(quick=700, thorough=9000)
    if ctx.boost > 1:
        # Boosted failing-input search (proof or correspondence no longer checks).  When the corpus has already
        # produced a failing input outside the known regimes there is nothing left to search for: fall back to the
        # plain budget.  Otherwise search harder, but stay inside the time budget of a tier.
        known = {k.get("regime") for k in getattr(ctx, "known", []) if k.get("status") == "known"}
        if any(v["regime"] not in known for v in ctx.violations):
            n //= ctx.boost
        else:
            n = min(n, 12000)
    for i in range(n):
        rng = ctx.subrng("case", i)
        case = g.gen_case(rng)
        if i % 10 == 0:  # richer query set every tenth case; every 50th: ALL windows placed relative to the span's ends
            case["q"] = g.gen_queries(rng, case, rich=True) + g.span_queries(case, None if i % 50 == 0 else rng)
        cases.append(case)
        outs.append(check_one(ctx, case))
    # odd-µs periods: `sampling_period / 2` is not exact there and the rounding of `normalize_timestamp` is not
    # "nearest"; the slot grid itself is outside C09, so this stream only requires model = code.
    odd_cases, odd_outs = [], []
    for i in range(max(20, n // 20)):
        case = g.gen_case(ctx.subrng("odd", i), odd_period=True)
        out, _notes = g.run_impl(case)
        odd_cases.append(case)
        odd_outs.append(out)
        ctx.case({k: v for k, v in case.items() if k != "q"}, tags=["odd-period(model=code only)"], nontrivial=False)
    if ctx.tier == "thorough":
        exhaustive(ctx, 6, cases, outs)
    ctx.compare("RingBuffer", cases + odd_cases, outs + odd_outs, what="ring buffer observers and queries")


def replay(ctx: Ctx, data: dict) -> None:
    python_flags()
    case = data.get("case")
    if not case or "ops" not in case:
        return run(ctx)
    out = check_one(ctx, case)
    ctx.compare("RingBuffer", [case], [out], what="ring buffer observers and queries")
