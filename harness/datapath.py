"""Full-stack stage "data path" of the checks C05 C06 C07 C08 C12 C13 C19 C20 (see `datapath_gen.py` for what runs).

`run_stage(ctx, clauses, n_quick, n_thorough)` runs the corpus (corpus/datapath/*.json) and generated scenarios on the
REAL measurement stack (fake microgrid API client -> DataSourcingActor -> ComponentMetricsResamplingActor/Resampler ->
formula generators with fallback fetchers -> FormulaEngines behind the public `microgrid.*` accessors) and judges the
clauses named in `clauses`.  The oracle is written from properties.jsonl and uses no Lean model.  It works in layers
that meet at two observed interfaces: the stream the data sourcing actor feeds every resampled series with, and the
resampled series itself (the harness listens on both channels of every series the resampler holds).

 raw messages -> source stream of a series (s = one series = (namespace, component, metric))
  C20-once     the source stream of s carries exactly the component's messages handed to the API client after s was
               subscribed: one sample (that metric's value, the message's timestamp) per message, each once, in order,
               at once; earlier subscriptions are unaffected by later ones (each series is judged on its own, also
               when a request is placed back-to-back with a message — that one message may or may not reach the NEW
               series, every other series must get it).
 source stream -> resampled series (T = a tick)
  C08-window   what the resampling function was handed for (s, T) is exactly the valid (not None/NaN) samples delivered
               to s, stamped in (T - max_age * max(period, input period), T], in arrival order, limited to the deque
               the resampler configured (input period and deque length are READ BACK from the resampler after each
               tick, as harness/c08.py does); the value sent for (s, T) is the mean of exactly these, None iff none.
 resampled series -> formula outputs (F = one formula; a logical-meter formula is judged against the REQUESTED string, a
 generated one against `str(engine)`)
  C07-timeline every output timestamp of every formula lies on `align_to + k * period` (align_to None: anchored at the
               resampler's creation), the first tick lies in [creation, creation + 2 periods], every series and every
               formula emits every tick after its inputs became available exactly once, in order — one shared timeline.
  C06-single-ts the output stamped T is computed from the resampled samples stamped T: reported when ONE assignment of
               tick offsets to the terms explains every wrong output of a formula, or an output has no input stamped T.
  C05-value    the output stamped T equals the expression evaluated with ordinary precedence / left-to-right
               associativity on those inputs, to float tolerance.
  C13-none     the output is None exactly when a term is missing (None/NaN/inf) on a stream that does not count missing
               as zero (meters; logical-meter formulas started with nones_are_zeros=False), or a division by zero.
  C19-fallback a term that is a PV / battery / EV meter (topology alone), or a grid meter the generator gave a fallback,
               takes the sum of its successors' resampled samples of the SAME tick while its own sample is missing,
               from the tick after the first failure (that one tick is the start-up the unchanged code legitimately
               has, as in harness/c19.py), and its own sample again as soon as that is valid.
  C12-balance  on ticks where every series of the judged formulas holds the same complete valid window of a coherent
               scenario and was resampled correctly: grid = consumer + producer + battery + ev, and each of grid,
               consumer, producer, battery, pv, ev equals the true total of its devices (a meter reads the sum below it
               plus its load, message by message).  Regime "NoGridMeterMixedMeter" (known finding of C12): the same
               input predicate as graph_gen.regime_consumer.
A stack that stops making progress (a task spinning at one virtual instant; wall-clock watchdog) violates every clause
that promises an output per tick.  Regime "PrimaryStreamError" (known finding of C19) needs a CLOSED resampled channel,
which this stack never produces (a dead raw stream makes the resampler drop the series; the channel stays open), so
it cannot arise here.
"""
from __future__ import annotations

import json
import math
import pathlib
import re
from datetime import timedelta
from typing import Any

from . import datapath_gen as pg
from .common import Ctx, python_flags

ALL_CLAUSES = {"C05-value", "C06-single-ts", "C07-timeline", "C08-window", "C12-balance", "C13-none", "C19-fallback",
               "C20-once"}
CORPUS = pathlib.Path(__file__).resolve().parent.parent / "corpus" / "datapath"
WALL0 = pg.WALL0

RULE = ("data path (full stack): component trees with 1-3 meters, 0-2 battery inverters, 0-2 PV inverters, 0-1 EV "
        "chargers, with/without grid meter and dedicated meters; raw data at period/4 … 3 periods per component "
        "(coherent or per-component rates/phases/stamp shifts incl. stamps exactly on T and T-W and future stamps), "
        "NaN / gap / inf stretches mostly on a primary meter with a fallback; resampler periods 0.25-2 s, max age "
        "1-3, initial buffer 2-16, align_to None/past/future/shifted, created on/off the grid; grid/consumer/producer/"
        "battery/pv/ev formulas and logical-meter string formulas requested with the resampler or up to 5 periods later; "
        "non-trivial = a fallback is used, or a late request, or an off-grid creation")


def _tol(a: float, b: float) -> bool:
    return abs(a - b) <= 1e-9 * max(1.0, abs(a), abs(b))


def _valid(v: Any) -> bool:
    return isinstance(v, (int, float)) and math.isfinite(v)


# --------------------------------------------------------------------------- formula strings
_TOK = re.compile(r"\s*(#\d+|[-+*/()])")


def parse_formula(text: str) -> Any:
    """'#a - (#b + #c) * #d' -> nested tuples ("id", n) | (op, lhs, rhs); ordinary precedence, left associative."""
    toks: list[str] = []
    pos = 0
    text = text.strip()
    while pos < len(text):
        m = _TOK.match(text, pos)
        if not m:
            raise ValueError(f"cannot read formula {text!r} at {pos}")
        toks.append(m.group(1))
        pos = m.end()
    i = 0

    def factor() -> Any:
        nonlocal i
        if i >= len(toks):
            raise ValueError("unexpected end")
        t = toks[i]
        i += 1
        if t == "(":
            e = expr()
            if i >= len(toks) or toks[i] != ")":
                raise ValueError("missing )")
            i += 1
            return e
        if t.startswith("#"):
            return ("id", int(t[1:]))
        raise ValueError(f"unexpected {t}")

    def term() -> Any:
        nonlocal i
        e = factor()
        while i < len(toks) and toks[i] in "*/":
            op = toks[i]
            i += 1
            e = (op, e, factor())
        return e

    def expr() -> Any:
        nonlocal i
        e = term()
        while i < len(toks) and toks[i] in "+-":
            op = toks[i]
            i += 1
            e = (op, e, term())
        return e

    out = expr()
    if i != len(toks):
        raise ValueError(f"trailing {toks[i:]}")
    return out


def ids_of(ast: Any) -> list[int]:
    if ast[0] == "id":
        return [ast[1]]
    return ids_of(ast[1]) + [x for x in ids_of(ast[2]) if x not in ids_of(ast[1])]


def evaluate(ast: Any, env: dict[int, float | None]) -> float | None:
    """Ordinary arithmetic; None (missing) propagates; a division by zero or a non-finite result is None."""
    if ast[0] == "id":
        return env[ast[1]]
    a, b = evaluate(ast[1], env), evaluate(ast[2], env)
    if a is None or b is None:
        return None
    op = ast[0]
    try:
        r = a + b if op == "+" else a - b if op == "-" else a * b if op == "*" else a / b
    except ZeroDivisionError:
        return None
    return r if math.isfinite(r) else None


# --------------------------------------------------------------------------- the judge of one scenario
class Judge:
    def __init__(self, ctx: Ctx, sc: dict, trace: dict, clauses: set[str]):
        self.ctx, self.sc, self.trace, self.clauses = ctx, sc, trace, clauses
        self.tree = sc["tree"]
        self.p = sc["period"]
        self.plan = pg.raw_plan(sc)
        self.tags: set[str] = set()
        self.reported: set[tuple] = set()
        self.regime12: str | None = pg.regime_consumer(self.tree)     # known finding of C12, same tag as harness/c12.py
        # resampled series
        self.series: dict[str, dict] = {}
        for name, rows in trace["series"].items():
            meta = pg.parse_series(name)
            if meta is None or meta["metric"] not in ("ACTIVE_POWER", "REACTIVE_POWER"):
                continue
            self.series[name] = {**meta, "rows": rows, "at": {r[1]: r[2] for r in rows}}
        self.exp_windows: dict[str, dict[int, list[dict]]] = {}
        self.timeline_bad: set[str] = set()

    # ---- bookkeeping
    def violation(self, clause: str, observed: dict, regime: str | None = None, key: Any = None) -> None:
        if clause not in self.clauses:
            return
        k = (clause, key)
        if key is not None and k in self.reported:
            return
        self.reported.add(k)
        if sum(1 for c, _ in self.reported if c == clause) > 4 and key is not None:
            return                                # a handful of witnesses per clause and scenario is enough
        self.ctx.violation(clause, self.case(), observed, regime)

    def case(self) -> dict:
        return {k: v for k, v in self.sc.items() if k not in ("name", "why", "expect")}

    def find_series(self, kind: str, cid: int, fb: bool, metric: str = "ACTIVE_POWER") -> str | None:
        for name, s in self.series.items():
            if s["kind"] == kind and s["cid"] == cid and s["fb"] == fb and s["metric"] == metric:
                return name
        return None

    # ---- snapshots
    def state_after(self, name: str, t_tick: int) -> dict | None:
        """(input period, deque length) of a series as read back after the tick processed at loop time `t_tick`:
        the first snapshot after it, provided it was taken before the next tick."""
        for sn in self.trace["snaps"]:
            if sn["t"] > t_tick:
                if sn["t"] >= t_tick + self.p:
                    return None
                return sn["series"].get(name)
        return None

    def first_seen(self, name: str) -> tuple[int | None, int]:
        """(time of the last snapshot without the series, time of the first snapshot with it)."""
        prev = None
        for sn in self.trace["snaps"]:
            if name in sn["series"]:
                return prev, sn["t"]
            prev = sn["t"]
        return prev, self.sc["end"]

    # ---- layer 1
    def msg_value(self, m: dict, metric: str) -> Any:
        """What a message carries for a metric: "nan" / "inf" or a number (reactive power is a fixed function of the
        active power, so one plan serves both metrics)."""
        if isinstance(m["v"], str):
            return m["v"]
        return float(pg.reactive_of(m["v"]) if metric == "REACTIVE_POWER" else m["v"])

    def delivered(self, name: str, s: dict) -> tuple[list[dict], list[dict], bool]:
        """(what the data sourcing actor sent the series: valid samples in arrival order, the messages that MAY also have
        reached it because the request was placed back-to-back with them, observed?)  Every entry = {"send", "ts",
        "val", "j"}.  Judges C20-once on the way: the source channel must carry exactly the component's messages handed
        to the API client after the subscription — each once, in order, (metric value, message timestamp)."""
        t_before, t_seen = self.first_seen(name)
        metric = s["metric"]
        plan = self.plan.get(s["cid"], [])
        certain = [m for m in plan if m["send"] > t_seen]
        optional = [{"send": m["send"], "ts": m["ts"], "val": self.msg_value(m, metric), "j": m["j"]}
                    for m in plan if m["send"] <= t_seen and (t_before is None or m["send"] > t_before) and m["v"] != "nan"]
        rows = self.trace.get("source", {}).get(name)
        want = [[m["send"], m["ts"], self.msg_value(m, metric)] for m in certain]
        if rows is None:
            return ([{"send": m["send"], "ts": m["ts"], "val": self.msg_value(m, metric), "j": m["j"]}
                     for m in certain if m["v"] != "nan"], optional, False)
        got = [[r[0], r[1], r[2]] for r in rows]
        if got != want:
            jmap = {(m["ts"], self.msg_value(m, metric)): m["j"] for m in plan}
            lost = [w for w in want if w not in got]
            extra = [g for g in got if g not in want]
            why = ("a message handed to the API client after the subscription did not reach the stream" if lost else
                   "a sample that is not (metric value, timestamp) of a message of this component handed over after the "
                   "subscription reached the stream, or one reached it twice / late" if extra else
                   "messages reached the stream duplicated or reordered")
            self.violation("C20-once", {"why": why, "series": name, "component": s["cid"], "metric": metric,
                                        "missing [send, ts, value]": [[w[0], w[1] - WALL0, w[2]] for w in lost[:6]],
                                        "unexpected [recv, ts, value]": [[g[0], g[1] - WALL0, g[2]] for g in extra[:6]],
                                        "delivered": len(got), "handed_over": len(want)}, key=(name, "c20"))
        else:
            jmap = {(m["ts"], self.msg_value(m, metric)): m["j"] for m in plan}
        out = [{"send": r[0], "ts": r[1], "val": r[2], "j": jmap.get((r[1], r[2]))} for r in rows if r[2] != "nan" and r[2] is not None]
        return out, optional, True

    def simulate(self, name: str, s: dict, with_optional: bool, msgs: list[dict], optional: list[dict]) -> list[dict]:
        """Replay the series' deque from what was delivered to it: per tick the expected window."""
        sc, p = self.sc, self.p
        ma = pg.max_age(sc)
        feed = sorted(msgs + (optional if with_optional else []), key=lambda m: m["send"])
        buf: list[dict] = []
        maxlen = sc["init_len"]
        k = 0
        out: list[dict] = []
        for recv_t, T, val in s["rows"]:
            while k < len(feed) and feed[k]["send"] < recv_t:
                buf.append(feed[k])
                k += 1
                if len(buf) > maxlen:
                    buf = buf[-maxlen:]
            st = self.state_after(name, recv_t)
            if st is None:
                self.tags.add("dp:tick-without-readback")
                out.append({"T": T, "val": val, "exp": None})
                continue
            if st["maxlen"] != maxlen:
                maxlen = st["maxlen"]
                buf = buf[-maxlen:]
            ip = st["ip"]
            span = timedelta(microseconds=max(p, ip) if ip is not None else p) * ma
            w = pg.us_of(pg.EPOCH + span)
            exp = [m for m in buf if T - w < m["ts"] <= T]
            if ip is not None and ip > p:
                self.tags.add("dp:window-by-input-period")
            if any(m["ts"] == T for m in exp) or any(m["ts"] == T - w for m in buf):
                self.tags.add("dp:sample-exactly-on-window-edge")
            if any(m["ts"] > T for m in buf):
                self.tags.add("dp:future-stamped-sample-buffered")
            if len(buf) == maxlen and buf and T - w < buf[0]["ts"] and k > len(buf):
                self.tags.add("dp:window-limited-by-buffer")
            out.append({"T": T, "val": val, "exp": exp, "w": w, "ip": ip, "maxlen": maxlen})
        return out

    def judge_series(self, name: str, s: dict, sim: list[dict], calls: dict, props_id: int | None, have_T: bool,
                     known: set) -> list[tuple]:
        """All complaints about the resampling of one series under one replay: [(clause, observed, key)]."""
        bad: list[tuple] = []
        for row in sim:
            T, val, exp = row["T"], row["val"], row["exp"]
            if exp is None:
                continue
            what = {"series": name, "tick": T - WALL0, "window_us": row["w"], "input_period_us": row["ip"],
                    "deque_len": row["maxlen"]}
            vals = [m["val"] for m in exp]
            nums = [float("inf") if v == "inf" else float("-inf") if v == "-inf" else v for v in vals]
            if not exp:
                if val is not None:
                    bad.append(("C08-window", {**what, "why": "a value was emitted although no received valid sample lies "
                                               "in the window", "emitted": val}, (name, T, "v")))
            else:
                mean = math.fsum(nums) / len(nums) if all(map(math.isfinite, nums)) else sum(nums) / len(nums)
                ok = (isinstance(val, str) and not math.isfinite(mean) and (val == "nan") == math.isnan(mean)) or (
                    _valid(val) and math.isfinite(mean) and _tol(val, mean))
                if not ok:
                    bad.append(("C08-window", {**what, "why": "emitted value is not the resampling function (mean) of the "
                                               "received valid samples stamped in the window", "emitted": val,
                                               "expected": pg._num(mean),  # noqa: SLF001
                                               "window [raw index, ts, value]": [[m["j"], m["ts"] - WALL0, v] for m, v in zip(exp, vals)]},
                                (name, T, "v")))
            if have_T and props_id is not None:
                c = calls.get((props_id, T))
                got = [] if c is None else [(ts, v) for ts, v in c["samples"]]
                want = [(m["ts"], v) for m, v in zip(exp, vals)]
                if got != want:
                    bad += self.attribute_window(name, T, row["w"], got, want, what, known)
        return bad

    def layer1(self) -> None:
        p = self.p
        calls: dict[tuple[int, int], dict] = {}
        have_T = all(c["T"] is not None for c in self.trace["calls"])
        for c in self.trace["calls"]:
            if c["T"] is not None:
                if (c["props"], c["T"]) in calls:
                    self.violation("C07-timeline", {"why": "the resampling function ran twice for one series and tick",
                                                    "tick": c["T"] - WALL0}, key=("dup-call", c["props"], c["T"]))
                calls[(c["props"], c["T"])] = c
        if not have_T or not self.trace["snaps"]:
            self.tags.add("dp:no-window-trace")
        for name, s in self.series.items():
            props_id = next((sn["series"][name]["props"] for sn in self.trace["snaps"] if name in sn["series"]), None)
            msgs, optional, observed = self.delivered(name, s)
            if not observed:
                self.tags.add("dp:source-channel-not-observed")
            known = {(m["ts"], m["val"]) for m in msgs + optional}
            sim = self.simulate(name, s, False, msgs, optional)
            bad = self.judge_series(name, s, sim, calls, props_id, have_T, known)
            if optional:
                self.tags.add("dp:request-back-to-back-with-a-message")
                sim2 = self.simulate(name, s, True, msgs, optional)
                bad2 = self.judge_series(name, s, sim2, calls, props_id, have_T, known)
                if len(bad2) < len(bad):
                    sim, bad = sim2, bad2
            for clause, observed_, key in bad:
                self.violation(clause, observed_, key=key)
            self.exp_windows[name] = {r["T"]: r["exp"] for r in sim if r["exp"] is not None}
            # the series' own timeline
            ts_list = [r[1] for r in s["rows"]]
            for a, b in zip(ts_list, ts_list[1:]):
                if b - a != p:
                    self.violation("C07-timeline", {"why": "a resampled series skipped, repeated or reordered a tick",
                                                    "series": name, "ticks": [a - WALL0, b - WALL0]}, key=(name, "series-step"))
                    break

    def attribute_window(self, name: str, T: int, w: int, got: list, want: list, what: dict, known: set) -> list[tuple]:
        """The resampling function was handed `got` instead of `want` (both (ts, value) lists)."""
        detail = {**what, "handed": [[ts - WALL0, v] for ts, v in got], "expected": [[ts - WALL0, v] for ts, v in want]}
        alien = [x for x in got if x not in known]
        dup = len(set(got)) != len(got)
        outside = [x for x in got if not T - w < x[0] <= T or x[1] == "nan"]
        lost = [x for x in want if x not in got]
        extra = [x for x in got if x not in want and x in known]
        why = ("a sample that was never delivered to the series was handed to the resampling function" if alien else
               "a delivered sample was handed over twice" if dup else
               "a sample outside (T - W, T] or an invalid one was handed to the resampling function" if outside else
               "a delivered valid sample stamped in (T - W, T] was not handed to the resampling function" if lost else
               "a sample the deque should no longer hold was handed to the resampling function" if extra else
               "the samples were handed over in another order than they arrived")
        return [("C08-window", {**detail, "why": why}, (name, "handed"))]

    # ---- layer 2
    def ticks(self) -> list[int] | None:
        """The one timeline all formulas must share: first observed tick + k * period (judged by `timeline`)."""
        firsts = [rows[0][1] for rows in self.trace["outs"].values() if rows]
        firsts += [s["rows"][0][1] for s in self.series.values() if s["rows"]]
        if not firsts:
            return None
        t0 = min(firsts)
        out = []
        t = t0
        while t - WALL0 < self.sc["end"]:
            out.append(t)
            t += self.p
        return out

    def timeline(self, ticks: list[int]) -> None:
        sc, p = self.sc, self.p
        create = pg.creation(sc)
        t0 = ticks[0]
        anchor = WALL0 + (create if sc["align"] is None else sc["align"])
        if (t0 - anchor) % p != 0:
            self.violation("C07-timeline", {"why": "the first tick is not on the grid align_to + k * period",
                                            "first_tick": t0 - WALL0, "align_to": sc["align"], "creation": create},
                           key="grid")
        if not create <= t0 - WALL0 <= create + 2 * p:
            self.violation("C07-timeline", {"why": "the first tick is not within [creation, creation + 2 periods]",
                                            "first_tick": t0 - WALL0, "creation": create}, key="first")
        if (create - (sc["align"] or 0)) % p != 0 and sc["align"] is not None:
            self.tags.add("dp:created-off-grid")
        for f in sc["formulas"]:
            rows = self.trace["outs"].get(f["name"])
            if rows is None:
                continue
            got = [r[1] for r in rows]
            start = self.inputs_available(f)
            want = [t for t in ticks if t - WALL0 > start]
            if f["at"] > create:
                self.tags.add("dp:late-request")
            if start < f["at"]:
                self.tags.add("dp:inputs-with-backlog")
            if got != want:
                self.timeline_bad.add(f["name"])
                off = [t - WALL0 for t in got if (t - anchor) % p != 0]
                self.violation("C07-timeline", {"why": "a formula's output timestamps are not the ticks after its inputs "
                                                "became available, each once and in order" + (" (off the grid)" if off else ""),
                                                "formula": f["name"], "requested_at": f["at"], "inputs_available_at": start,
                                                "got": [t - WALL0 for t in got][:40], "want": [t - WALL0 for t in want][:40]},
                               key=("formula", f["name"]))

    def term_ids(self, f: dict) -> list[int]:
        info = self.trace["info"].get(f["name"], {})
        try:
            return ids_of(parse_formula(f["expr"] if f["kind"] == "lm" else info["str"]))
        except (KeyError, ValueError):
            return [int(x) for x in re.findall(r"#(\d+)", f.get("expr", ""))]

    def inputs_available(self, f: dict) -> int:
        """LOOP time from which every input of the formula delivers: an input stream starts when the engine's receiver
        exists (the engine was built) AND its series is subscribed (by this formula's request or, for logical-meter
        formulas, which share one namespace, by an earlier one for the same component and metric)."""
        built = f.get("build", f["at"])
        if f["kind"] != "lm":
            return f["at"]
        start = built
        for c in self.term_ids(f):
            sub = min(g["at"] for g in self.sc["formulas"]
                      if g["kind"] == "lm" and g.get("metric", "ACTIVE_POWER") == f.get("metric", "ACTIVE_POWER")
                      and c in self.term_ids(g) and g["name"] in self.trace["outs"])
            if max(built, sub) < f["at"]:
                self.tags.add("dp:input-with-backlog-at-request")
            start = max(start, built, sub)
        return start

    def naz(self, f: dict, cid: int) -> bool:
        if f["kind"] == "lm":
            return bool(f["naz"])
        return pg.kind_of(self.tree, cid) != "meter"

    def formula(self, f: dict, ticks: list[int]) -> dict[int, float | None]:
        """Judge every output of one formula; returns {T: observed value}."""
        info = self.trace["info"].get(f["name"], {})
        rows = self.trace["outs"].get(f["name"], [])
        if "str" not in info:
            self.tags.add(f"dp:{f['kind']}-not-generated")
            return {}
        try:
            # a logical-meter formula is judged against the REQUESTED string; a generated one against what the engine
            # prints for itself (its truth against the topology is C12-balance's subject)
            ast = parse_formula(f["expr"] if f["kind"] == "lm" else info["str"])
        except ValueError:
            self.tags.add("dp:formula-string-not-understood")
            return {}
        terms = ids_of(ast)
        metric = f.get("metric", "ACTIVE_POWER") if f["kind"] == "lm" else "ACTIVE_POWER"
        prim = {c: self.find_series(f["kind"], c, False, metric) for c in terms}
        # which terms have a fallback: a PV / battery / EV meter always (the property's own example); any other meter
        # in front of devices of one kind (the grid meter) when the formula was built with one for it
        built = info.get("has_fb", {})
        fbs = {c: (pg.fallback_of(self.tree, c)
                   if f["kind"] != "lm" and (pg.dedicated_meter(self.tree, c) or built.get(str(c))) else [])
               for c in terms}
        started: dict[int, int] = {}              # term -> tick of its first failure
        observed: dict[int, float | None] = {}
        pending: list[tuple] = []

        def sample(name: str | None, T: int) -> tuple[bool, Any]:
            if name is None or T not in self.series[name]["at"]:
                return False, None
            return True, self.series[name]["at"][T]

        def term_value(v: Any, zero: bool) -> float | None:
            if _valid(v):
                return float(v)
            return 0.0 if zero else None

        for _recv, T, val in rows:
            observed[T] = val
            env: dict[int, float | None] = {}
            stale_fb: dict[int, float] = {}        # recovered primaries: what the (now unused) fallback would give
            missing_input: list[int] = []
            in_fallback: list[int] = []
            for c in terms:
                have, v = sample(prim[c], T)
                if not have:
                    missing_input.append(c)
                    env[c] = term_value(None, self.naz(f, c))
                    continue
                if _valid(v) or not fbs[c]:
                    env[c] = term_value(v, self.naz(f, c))
                    if fbs[c] and c in started:
                        fb_now = [sample(self.find_series(f["kind"], d, True), T) for d in fbs[c]]
                        if all(h for h, _ in fb_now):
                            stale_fb[c] = math.fsum(term_value(x, True) or 0.0 for _, x in fb_now)
                    continue
                # the primary is missing and the topology gives the term a fallback
                in_fallback.append(c)
                self.tags.add("dp:primary-missing-with-fallback")
                if c not in started:
                    started[c] = T
                    env[c] = term_value(v, self.naz(f, c))     # start-up: the tick of the first failure
                    continue
                fb_rows = [sample(self.find_series(f["kind"], d, True), T) for d in fbs[c]]
                if all(h for h, _ in fb_rows):
                    self.tags.add("dp:fallback-used")
                    env[c] = math.fsum(term_value(x, True) or 0.0 for _, x in fb_rows)
                else:
                    # the fallback series have not ticked yet: bounded start-up (one period after the first failure)
                    env[c] = term_value(v, self.naz(f, c))
                    if T - started[c] > 2 * self.p:
                        self.violation("C19-fallback", {"why": "the fallback of a term is not running two periods after "
                                                        "the primary's first failure", "formula": f["name"], "term": c,
                                                        "fallback_components": fbs[c], "first_failure": started[c] - WALL0,
                                                        "tick": T - WALL0}, key=(f["name"], c, "not-running"))
            if missing_input:
                self.violation("C06-single-ts", {"why": "an output is stamped with a tick for which an input series has no "
                                                 "sample", "formula": f["name"], "tick": T - WALL0, "terms": missing_input},
                               key=(f["name"], "no-input"))
                continue
            want = evaluate(ast, env)
            got = float(val) if _valid(val) else None
            if (want is None and got is None) or (want is not None and got is not None and _tol(want, got)):
                continue
            what = {"formula": f["name"], "engine": info["str"], "tick": T - WALL0, "emitted": val, "expected": want,
                    "inputs_at_tick": {str(c): env[c] for c in terms}}
            if in_fallback:
                self.violation("C19-fallback", {**what, "why": "primary meter missing: the term must be the sum of its "
                                                "fallback components' samples of the same tick (after the tick of the first "
                                                "failure)", "terms_on_fallback": in_fallback,
                                                "fallback_components": {str(c): fbs[c] for c in in_fallback}},
                               key=(f["name"], "fb"))
                continue
            # a wrong value or a wrong None: decided after the last output, because mis-synchronised inputs (C06) show
            # as ONE assignment of tick offsets to the terms that explains every wrong output of the formula
            r_fb = evaluate(ast, {**env, **stale_fb}) if stale_fb else None
            pending.append(({**what, "zeroed_terms": [c for c in terms if self.naz(f, c)]},
                            (want is None) != (got is None), self.explanations(ast, terms, prim, f, T, got),
                            r_fb is not None and got is not None and _tol(r_fb, got)))
        common: set[tuple] | None = None
        for _what, _none, expl, _fb in pending:
            common = expl if common is None else common & expl
        if not common and f["name"] in self.timeline_bad and pending and all(expl for _w, _n, expl, _f in pending):
            # the formula's timestamps are out of order as well and every wrong output is explained by inputs of other
            # ticks (not by one fixed lag): still a synchronisation failure, not an arithmetic one
            common = set(pending[0][2])
        for what, noneness, _expl, fb_seen in pending:
            if fb_seen:
                self.violation("C19-fallback", {**what, "why": "the primary has recovered but the fallback sum is still used"},
                               key=(f["name"], "fb-return"))
            elif common:
                self.violation("C06-single-ts", {**what, "why": "the outputs are the formula on input samples of other ticks",
                                                 "tick_offset_per_term": dict(zip(map(str, terms), sorted(common)[0]))},
                               key=(f["name"], "mixed"))
            elif noneness:
                self.violation("C13-none", {**what, "why": "None exactly when a needed input is missing on a stream that "
                                            "does not count missing as zero (or the result is undefined)"},
                               key=(f["name"], "none"))
            else:
                self.violation("C05-value", {**what, "why": "the value is not the expression evaluated on the inputs stamped "
                                             "with the output's tick"}, key=(f["name"], "value"))
        return observed

    def explanations(self, ast: Any, terms: list[int], prim: dict, f: dict, T: int, got: float | None) -> set[tuple]:
        """Every assignment of tick offsets to the terms (not all zero) under which the formula gives the emitted value."""
        if len(terms) > 5:
            return set()
        lag = (f["at"] - f.get("build", f["at"])) // self.p + 2
        offs = list(range(-max(3, min(8, lag)), 2))
        cands: list[list[tuple]] = []
        for c in terms:
            col = []
            at = self.series[prim[c]]["at"] if prim[c] else {}
            for o in offs:
                v = at.get(T + o * self.p, "absent")
                if v != "absent":
                    col.append((o, float(v) if _valid(v) else (0.0 if self.naz(f, c) else None)))
            cands.append(col)
        found: set[tuple] = set()

        def rec(i: int, env: dict, vec: tuple) -> None:
            if len(found) > 200:
                return
            if i == len(terms):
                if any(vec):
                    r = evaluate(ast, env)
                    if (r is None and got is None) or (r is not None and got is not None and _tol(r, got)):
                        found.add(vec)
                return
            for o, v in cands[i]:
                env[terms[i]] = v
                rec(i + 1, env, vec + (o,))

        rec(0, {}, ())
        return found

    # ---- C12
    def balance(self, observed: dict[str, dict[int, float | None]], ticks: list[int]) -> None:
        sc = self.sc
        need = ("grid", "consumer", "producer", "battery", "ev")
        if not pg.coherent(sc):
            return
        names = {f["name"] for f in sc["formulas"]}
        nodes = pg.all_nodes(self.tree)
        devs = {k: [n["id"] for n in nodes if n["k"] == k] for k in pg.DEVICE_KINDS}
        meters = [n["id"] for n in nodes if n["k"] == "meter"]
        for T in ticks:
            # clean tick: every power series of the judged formulas holds the same complete valid window
            idx: set[tuple] = set()
            clean = True
            judged = [k for k in ("grid", "consumer", "producer", "battery", "pv", "ev") if k in names and T in observed.get(k, {})]
            if not judged:
                continue
            for name, s in self.series.items():
                if s["kind"] not in judged or s["cid"] == pg.NON_EXISTING:
                    continue
                win = self.exp_windows.get(name, {}).get(T)
                if win is None or not win or any(isinstance(m["val"], str) or m["j"] is None for m in win) or s["fb"]:
                    clean = False
                    break
                got = s["at"].get(T)
                if not _valid(got) or not _tol(float(got), math.fsum(m["val"] for m in win) / len(win)):
                    clean = False                 # the resampled value itself is off: C08's subject, not C12's
                    break
                idx.add(tuple(m["j"] for m in win))
            if not clean or len(idx) != 1:
                continue
            js = next(iter(idx))
            # every component's own stream must be whole over these indices (a meter physically sums devices whose
            # data may be missing; then the formulas legitimately differ from the truth)
            whole = all(pg.fault_at(sc["streams"][str(c)], j) is None for c in self.plan for j in js)
            if not whole:
                continue
            self.tags.add("dp:balance-judged")

            def mean(f: Any) -> float:
                return math.fsum(f(j) for j in js) / len(js)

            truth = {"battery": mean(lambda j: sum(pg.physical(sc, d, j, True) for d in devs["batInv"])),
                     "pv": mean(lambda j: sum(pg.physical(sc, d, j, True) for d in devs["pvInv"])),
                     "ev": mean(lambda j: sum(pg.physical(sc, d, j, True) for d in devs["ev"])),
                     "consumer": mean(lambda j: sum(pg.load_of(sc, m, j) for m in meters))}
            truth["producer"] = truth["pv"]
            truth["grid"] = truth["consumer"] + truth["producer"] + truth["battery"] + truth["ev"]
            vals = {k: observed[k][T] for k in judged}
            for k in judged:
                v = vals[k]
                if not _valid(v) or abs(float(v) - truth[k]) > 1e-6 * max(1.0, abs(truth[k])):
                    reg = self.regime12 if k == "consumer" else None
                    self.violation("C12-balance", {"why": f"{k} formula != true total of its devices", "tick": T - WALL0,
                                                   "value": v, "true": truth[k], "raw_indices": list(js),
                                                   "engine": self.trace["info"].get(k, {}).get("str")}, reg, key=("total", k))
            if all(k in vals and _valid(vals[k]) for k in need):
                rhs = vals["consumer"] + vals["producer"] + vals["battery"] + vals["ev"]
                if abs(vals["grid"] - rhs) > 1e-6 * max(1.0, abs(rhs)):
                    self.violation("C12-balance", {"why": "grid != consumer + producer + battery + ev", "tick": T - WALL0,
                                                   "values": vals}, self.regime12, key="balance")

    def run(self) -> None:
        self.layer1()
        ticks = self.ticks()
        if ticks is None:
            if any(self.trace["outs"].get(f["name"]) is not None for f in self.sc["formulas"]):
                self.violation("C07-timeline", {"why": "no formula emitted anything"}, key="silent")
            return
        self.timeline(ticks)
        observed = {f["name"]: self.formula(f, ticks) for f in self.sc["formulas"]}
        self.balance(observed, ticks)


# --------------------------------------------------------------------------- the stage
def load_corpus() -> list[dict]:
    """Scenarios of corpus/datapath/, run first on every run.  Entries with a "disabled" field document an observation
    that would stall the run (see docs/DESIGN-datapath.md); they only run through `./check … --replay <file>`."""
    if not CORPUS.exists():
        return []
    out = [json.loads(p.read_text()) for p in sorted(CORPUS.glob("*.json"))]
    return [sc for sc in out if "disabled" not in sc]


def tags_of(sc: dict, judge: Judge) -> tuple[list[str], bool]:
    tags = {"datapath"} | judge.tags
    tags.add("dp:coherent" if pg.coherent(sc) else "dp:per-component-rates")
    tags.add("dp:align-none" if sc["align"] is None else "dp:align-given")
    rates = {st["ip"] for st in sc["streams"].values()}
    if any(r < sc["period"] for r in rates):
        tags.add("dp:raw-faster-than-period")
    if any(r > sc["period"] for r in rates):
        tags.add("dp:raw-slower-than-period")
    if any(r == sc["period"] for r in rates):
        tags.add("dp:raw-equal-to-period")
    if any(f["kind"] == "lm" for f in sc["formulas"]):
        tags.add("dp:logical-meter-formula")
    if len(sc["tree"]["succ"]) != 1 or sc["tree"]["succ"][0]["k"] != "meter":
        tags.add("dp:no-grid-meter")
    if judge.regime12:
        tags.add(f"dp:regime-{judge.regime12}")
    if any(st["faults"] for st in sc["streams"].values()):
        tags.add("dp:faults")
    nontrivial = bool({"dp:fallback-used", "dp:late-request", "dp:created-off-grid"} & tags)
    return sorted(tags), nontrivial


PROGRESS_CLAUSES = ("C07-timeline", "C06-single-ts", "C13-none", "C19-fallback")


def run_one(ctx: Ctx, sc: dict, clauses: set[str], watchdog_s: float = 90.0) -> Judge:
    trace = pg.run_scenario(sc, watchdog_s=watchdog_s)
    judge = Judge(ctx, sc, trace, clauses)
    for n in trace["notes"]:
        ctx.note("data path: " + n)
    if trace.get("hung"):
        # some task re-schedules itself without ever waiting: virtual time cannot advance, no further tick can fire,
        # no formula emits again (every clause that promises an output per tick is violated from here on)
        obs = ctx.extra.setdefault("observations", {})
        obs["event_loop_spin"] = obs.get("event_loop_spin", 0) + 1
        for clause in PROGRESS_CLAUSES:
            judge.violation(clause, {"why": "the stack stopped making progress: the event loop spins at one instant, no "
                                     "further tick fires and no formula emits again", "virtual_time_us": trace.get("at")},
                            key="hung")
        return judge
    judge.run()
    return judge


def run_stage(ctx: Ctx, clauses: set[str], n_quick: int = 40, n_thorough: int = 600) -> None:
    python_flags()
    unknown = set(clauses) - ALL_CLAUSES
    if unknown:
        raise ValueError(f"datapath: unknown clauses {sorted(unknown)}")
    ctx.note("data path stage (full stack through the public microgrid.* accessors), clauses judged: "
             + ", ".join(sorted(clauses)) + "; " + RULE)
    scenarios: list[dict] = []
    if ctx.replay:
        try:
            doc = json.loads(pathlib.Path(ctx.replay).read_text())
            case = doc if doc.get("stage") == pg.STAGE else (doc.get("case") or {})   # a corpus file or a replay file
            if isinstance(case, dict) and case.get("stage") == pg.STAGE:
                scenarios.append(case)
        except (OSError, ValueError):
            pass
    scenarios += load_corpus()
    for i in range(ctx.budget(n_quick, n_thorough)):
        scenarios.append(pg.gen_scenario(ctx.subrng("datapath", i)))
    for sc in scenarios:
        before = len(ctx.violations)
        judge = run_one(ctx, sc, set(clauses))
        tags, nontrivial = tags_of(sc, judge)
        ctx.case(judge.case(), tags=tags, nontrivial=nontrivial)
        expect = str(sc.get("expect", ""))
        if expect.startswith("regime:") and "C12-balance" in clauses and not any(
                v["regime"] == expect[7:] for v in ctx.violations[before:]):
            ctx.note(f"corpus scenario {sc.get('name')}: the recorded known finding was not reproduced")
