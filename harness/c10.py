"""C10 — actors restart after failures only, never run twice concurrently, stop cleanly; run() returns when all finished.

Oracle on the REAL `Actor` / `BackgroundService` / `run` (independent of the Lean model), per case:
  restart-chain   : the entries/exits of `_run()` of every run-loop task form a chain enter 0, exit 0, enter 1, …;
                    `enter n+1` only after `exit n` with a FAILURE and n < limit, not before the restart delay.
                    A failure is an error that is an `Exception` (plain, or an ExceptionGroup); a return, a
                    CancelledError, any other BaseException (custom classes shaped like SystemExit/KeyboardInterrupt)
                    and a BaseExceptionGroup that is not an ExceptionGroup (a non-Exception member, e.g. from a child
                    of a TaskGroup) are not (`actor_gen.FAILURE_KINDS`, computed with isinstance on the real errors)
  restart-missing : after `exit n` with a failure and n < limit, with no cancel()/stop() touching the actor
                    during the delay, `_run()` is entered again exactly when the delay has elapsed
  single-run      : invocations of one actor (over all its run-loop tasks) never overlap in time;
                    `start()` on a running actor creates no task
  stop-quiescent  : when stop() returns, no task of the service is pending (tasks that existed at the call and tasks
                    added while it was waiting)
  stop-cancels    : every task that was pending when stop() started (or was added while it waited) received a
                    cancellation
  stop-surfaces   : the group raised by stop() has no CancelledError, every member is the error of a finished task of
                    the service, without duplicates; every non-cancellation error of a task that was in `_tasks` at
                    the call or was added before the return is in this group (or in that of an overlapping call)
  wait-quiescent / wait-surfaces : same for wait() (its group also carries the CancelledErrors)
  run-all         : run(*actors) returns at the first instant at which every actor has been idle (no pending task)
                    at least once since the call — not earlier, not later
  cancel-and-await-quiescent / -outcome : `_internal._asyncio.cancel_and_await(task)` returned ⇒ `task.done()`
                    (task not started / running / already cancelled once or several times / done; 1-3 concurrent
                    callers); it raises nothing, or the task's own Exception/BaseException — never CancelledError
Correspondence: the same case through `lean/Drivers/Actor.lean`, all observations compared exactly.
"""
from __future__ import annotations

import json
import pathlib

from . import actor_gen as g
from .common import Ctx, python_flags

RULE = ("1-3 probe actors (restart limit 0/1/2/3/None, 1-4 scripted `_run` invocations with 0-3 await points, outcome "
        "return/Exception/BaseException/CancelledError raised by the code itself/custom BaseException subclasses shaped "
        "like SystemExit and KeyboardInterrupt/ExceptionGroup/BaseExceptionGroup of Exceptions only (= ExceptionGroup)/"
        "BaseExceptionGroup of non-Exceptions/mixed BaseExceptionGroup, scripted reaction to a delivered cancellation incl. clean-up "
        "delay and 'exception while being cancelled'), 1-7 control groups of 1-3 synchronous ops (start/cancel/stop/"
        "wait/add task/run) at instants on a half-second lattice ± 1 ms (just before/after the internal timers: run end, "
        "restart-delay expiry, clean-up end); extra tasks may register a clean-up task when cancelled; thorough adds the "
        "exhaustive product limit{0,1,2,None} x outcomes^3 x {stop,cancel,wait} x 14 positions; non-trivial = a restart, "
        "a cancellation delivered to a started task, or a task added while a call is waiting; plus (1/4 of the budget) "
        "cancel_and_await cases: a probe task with 0-3 clean-up awaits per delivered cancellation, bare cancel() calls and "
        "1-3 concurrent cancel_and_await callers from every prior state (thorough: exhaustive small product); distinct by "
        "JSON hash")

KNOWN_REGIME = "TaskAddedDuringWait"


def regime_of(case: dict) -> str | None:
    """Input-only tag: a task can be registered while a stop()/wait()/run() is waiting.

    Registration = `add`, `start`, the start inside `run`, or the clean-up task an extra task spawns when cancelled.
    The ops of one group are synchronous, so inside a group only a `run` placed after a call starts late enough.
    """
    seen_call = False
    for grp in case["ctl"]:
        call_in_group = False
        for op in grp["ops"]:
            k = op["op"]
            if k == "add" and op.get("spawn"):
                return KNOWN_REGIME
            if k in ("add", "start", "run") and seen_call:
                return KNOWN_REGIME
            if k == "run" and call_in_group:
                return KNOWN_REGIME
            if k in ("stop", "wait", "run"):
                call_in_group = True
        seen_call = seen_call or call_in_group
    return None


# --------------------------------------------------------------------------------------- oracle
def oracle(case: dict, obs: dict, facts: dict) -> list[tuple[str, dict]]:
    bad: list[tuple[str, dict]] = []
    delay = facts["restart_delay_us"]
    horizon = case["end"]
    n = len(case["limits"])
    for a in range(n):
        limit = case["limits"][a]
        cancel_ops = facts["cancel_ops"][a]
        stop_windows = [(c["t"], c["ret"] if c["ret"] is not None else horizon) for c in facts["calls"][a] if c["kind"] == "stop"]
        intervals = []
        for li, h in enumerate(obs["hist"][a]):
            prev = None
            for ev in h:
                if ev[0] == "enter":
                    k, t = ev[1], ev[2]
                    if prev is None:
                        if k != 0:
                            bad.append(("restart-chain", {"actor": a, "task": li, "why": "first entry is not invocation 0", "hist": h}))
                    elif prev[0] != "exit" or prev[1] + 1 != k:
                        bad.append(("restart-chain", {"actor": a, "task": li, "why": "entry without a preceding exit", "hist": h}))
                    else:
                        if prev[2] not in g.FAILURE_KINDS:
                            bad.append(("restart-chain", {"actor": a, "task": li, "why": f"re-invoked after {prev[2]}", "hist": h}))
                        if limit is not None and prev[1] >= limit:
                            bad.append(("restart-chain", {"actor": a, "task": li, "why": "re-invoked beyond the restart limit", "hist": h}))
                        if t < prev[3] + delay:
                            bad.append(("restart-chain", {"actor": a, "task": li, "why": "re-invoked before the restart delay", "hist": h}))
                    intervals.append([t, None, li, k])
                else:
                    k, o, t = ev[1], ev[2], ev[3]
                    if prev is None or prev[0] != "enter" or prev[1] != k:
                        bad.append(("restart-chain", {"actor": a, "task": li, "why": "exit without entry", "hist": h}))
                    else:
                        intervals[-1][1] = t
                prev = ev
            if prev is not None and prev[0] == "exit" and prev[2] in g.FAILURE_KINDS and (limit is None or prev[1] < limit):
                due = prev[3] + delay
                disturbed = any(prev[3] <= c <= due for c in cancel_ops) or any(s <= due and e >= prev[3] for s, e in stop_windows)
                if due < horizon and not disturbed:
                    bad.append(("restart-missing", {"actor": a, "task": li, "due": due, "hist": h}))
            # an `exit exc` that WAS followed by an entry: must be exactly at the expiry of the delay
            for x, y in zip(h, h[1:]):
                if x[0] == "exit" and y[0] == "enter" and x[2] in g.FAILURE_KINDS and y[2] != x[3] + delay:
                    late = y[2] > x[3] + delay
                    if late:
                        bad.append(("restart-missing", {"actor": a, "task": li, "why": "re-invoked later than the restart delay", "hist": h}))
        intervals.sort(key=lambda iv: iv[0])
        for x, y in zip(intervals, intervals[1:]):
            if x[1] is None or y[0] < x[1]:
                bad.append(("single-run", {"actor": a, "first": x, "second": y}))
        if facts["start_noop"][a]:
            bad.append(("single-run", {"actor": a, "why": "start() on a running actor created a task", "at": facts["start_noop"][a]}))

        created, done_at, final = facts["created"][a], facts["done_at"][a], facts["final"][a]["tasks"]
        calls = facts["calls"][a]
        run_windows = [(r["t"], r["ret"] if r["ret"] is not None else horizon) for r in facts["runs"] if a in r["as"]]
        for ci, c in enumerate(calls):
            if c["ret"] is None:
                continue
            kind = c["kind"]
            snap = c["snap_at_ret"]
            pending = sorted(l for l, s in snap["tasks"].items() if s == "pending")
            if pending:
                bad.append((f"{kind}-quiescent", {"actor": a, "call": ci, "t_call": c["t"], "t_ret": c["ret"], "pending_at_return": pending}))
            at_call = c["snap_at_call"]
            added = {l for l, t in created.items() if c["t"] <= t <= c["ret"] and l not in at_call["tasks"]}
            in_scope = set(at_call["owned"]) | added
            if kind == "stop":
                for l in sorted(in_scope):
                    if l not in added and at_call["tasks"].get(l) != "pending":
                        continue
                    seen = [t for t in facts["cancel_seen"][a].get(l, []) if t >= c["t"]]
                    fin = snap["tasks"].get(l)
                    if seen or fin == "cancelled":
                        continue
                    if done_at.get(l) == c["t"]:
                        continue  # ended by itself in the very loop iteration in which stop() started
                    if l in added:
                        # a task added while stop() waited may end by itself before stop() gets to it; it is a
                        # violation only when stop() evidently sat out its natural end (it alone ended at the return)
                        same = [m for m in in_scope if done_at.get(m) == c["ret"]]
                        if not (done_at.get(l) == c["ret"] and same == [l] and c["ret"] > created[l]):
                            continue
                    bad.append(("stop-cancels", {"actor": a, "call": ci, "task": l, "state_at_return": fin}))
            # surfaced errors
            raised = c["raised"]
            labelled = [r for r in raised if r[0] != "*"]
            n_cancelled = sum(1 for r in raised if r[1] == "cancelled")
            if kind == "stop" and n_cancelled:
                bad.append(("stop-surfaces", {"actor": a, "call": ci, "why": "CancelledError in the group", "raised": raised}))
            if len({r[0] for r in labelled}) != len(labelled):
                bad.append((f"{kind}-surfaces", {"actor": a, "call": ci, "why": "duplicate", "raised": raised}))
            for lab, k in labelled:
                if snap["tasks"].get(lab) != k:
                    bad.append((f"{kind}-surfaces", {"actor": a, "call": ci, "why": "not the error of a finished task", "entry": [lab, k]}))
            overlapping = [o for oi, o in enumerate(calls) if oi != ci and o["t"] <= c["ret"] and (o["ret"] is None or o["ret"] >= c["t"])]
            overlapping_run = any(s <= c["ret"] and e >= c["t"] for s, e in run_windows)
            others = {r[0] for o in overlapping for r in o["raised"]}
            for l in sorted(in_scope):
                st = snap["tasks"].get(l)
                if st in g.ERROR_KINDS and [l, st] not in raised and l not in others and not overlapping_run:
                    bad.append((f"{kind}-surfaces", {"actor": a, "call": ci, "why": "error not surfaced", "task": l, "state": st, "raised": raised}))
            if kind == "wait" and not overlapping and not overlapping_run:
                exp_cancelled = sum(1 for l in in_scope if snap["tasks"].get(l) == "cancelled")
                if n_cancelled != exp_cancelled:
                    bad.append(("wait-surfaces", {"actor": a, "call": ci, "why": "CancelledError count", "raised": raised, "expected": exp_cancelled}))

    # run(): first instant since the call at which every actor has been idle once
    for ri, r in enumerate(facts["runs"]):
        expected: int | None = r["t"]
        for a in r["as"]:
            created, done_at = facts["created"][a], facts["done_at"][a]
            cands = sorted({r["t"]} | {t for t in done_at.values() if t >= r["t"]})
            idle = None
            for t in cands:
                alive = [l for l, tc in created.items() if tc <= t and not (l in done_at and done_at[l] <= t)]
                if not alive:
                    idle = t
                    break
            if idle is None:
                expected = None
                break
            expected = max(expected, idle)
        if expected != r["ret"] and not (expected is not None and expected > horizon):
            bad.append(("run-all", {"run": ri, "actors": r["as"], "t_call": r["t"], "returned": r["ret"], "all_idle_at": expected}))
    return bad


def nontrivial(case: dict, obs: dict, facts: dict, tags: list[str]) -> bool:
    restarted = any(ev[0] == "enter" and ev[1] > 0 for hs in obs["hist"] for h in hs for ev in h)
    cancelled_mid = any(v for cs in facts["cancel_seen"] for v in cs.values())
    if restarted:
        tags.append("restarted")
    if cancelled_mid:
        tags.append("cancel-delivered")
    return restarted or cancelled_mid or "add-after-call" in tags or "spawn-on-cancel" in tags


def check_case(ctx: Ctx, case: dict, extra_tags: tuple[str, ...] = ()) -> dict:
    obs, facts = g.run_case_impl(case)
    tags = g.tags_of(case) + list(extra_tags)
    reg = regime_of(case)
    if reg:
        tags.append("regime:" + reg)
    seen = set()
    for clause, info in oracle(case, obs, facts):
        if clause in seen:
            continue
        seen.add(clause)
        regime = reg if clause in ("stop-quiescent", "stop-cancels", "stop-surfaces", "wait-quiescent",
                                   "wait-surfaces", "run-all") else None
        ctx.violation(clause, case, info, regime=regime)
    ctx.case(case, tags=tags, nontrivial=nontrivial(case, obs, facts, tags))
    return obs


# --------------------------------------------------------------------------------------- cancel_and_await
def oracle_caa(case: dict, obs: dict, facts: dict) -> list[tuple[str, dict]]:
    """`cancel_and_await` returned ⇒ `task.done()`; it swallows the task's CancelledError and propagates only the
    task's own Exception / BaseException / group (nothing when the task was already done at the call)."""
    bad = []
    for ci, c in enumerate(facts["callers"]):
        if c["ret"] is None:
            continue
        if not c["task_done_at_ret"]:
            bad.append(("cancel-and-await-quiescent", {"call": ci, "t_call": c["t"], "t_ret": c["ret"],
                                                       "task_done_at": facts["done_at"], "task_state": facts["state"]}))
            continue
        if c["raised"] == "cancelled":
            bad.append(("cancel-and-await-outcome", {"call": ci, "why": "CancelledError leaked", "task_state": facts["state"]}))
        elif c["done_at_call"]:
            if c["raised"] != "none":
                bad.append(("cancel-and-await-outcome", {"call": ci, "why": "raised although the task was done at the call", "raised": c["raised"]}))
        else:
            want = facts["state"] if facts["state"] in g.ERROR_KINDS else "none"
            if c["raised"] != want:
                bad.append(("cancel-and-await-outcome", {"call": ci, "raised": c["raised"], "task_state": facts["state"]}))
    return bad


def check_caa(ctx: Ctx, case: dict, extra_tags: tuple[str, ...] = ()) -> dict:
    obs, facts = g.run_caa_impl(case)
    ops = [op for grp in case["ctl"] for op in grp["ops"]]
    tags = ["caa", f"caa:callers={min(ops.count('caa'), 3)}", f"caa:bare-cancels={min(ops.count('cancel'), 3)}",
            "caa:first=" + "+".join(case["ctl"][0]["ops"])] + list(extra_tags)
    if any(o["k"] > 0 for o in case["task"]["oc"]):
        tags.append("caa:slow-cleanup")
    seen = set()
    for clause, info in oracle_caa(case, obs, facts):
        if clause not in seen:
            seen.add(clause)
            ctx.violation(clause, case, info, regime=None)
    ctx.case(case, tags=tags, nontrivial=ops.count("caa") >= 1 and (ops.count("cancel") >= 1 or ops.count("caa") >= 2
                                                                    or "caa:slow-cleanup" in tags))
    return obs


def load_corpus() -> list[dict]:
    d = pathlib.Path(__file__).resolve().parent.parent / "corpus" / "C10"
    return [json.loads(p.read_text()) for p in sorted(d.glob("*.json"))] if d.exists() else []


def run(ctx: Ctx) -> None:
    python_flags()
    ctx.rule = RULE
    n = ctx.budget(4000, 40000)
    cases, outs = [], []
    for c in load_corpus():
        c = {k: v for k, v in c.items() if k != "note"}
        cases.append(c)
        outs.append(check_caa(ctx, c, ("corpus",)) if c.get("kind") == "caa" else check_case(ctx, c, ("corpus",)))
    if ctx.tier == "thorough":
        for c in g.exhaustive_cases():
            cases.append(c)
            outs.append(check_case(ctx, c, ("exhaustive",)))
        for c in g.exhaustive_caa_cases():
            cases.append(c)
            outs.append(check_caa(ctx, c, ("exhaustive",)))
    for i in range(n):
        c = g.gen_case(ctx.subrng("case", i))
        cases.append(c)
        outs.append(check_case(ctx, c))
    for i in range(max(n // 4, 1)):
        c = g.gen_caa_case(ctx.subrng("caa", i))
        cases.append(c)
        outs.append(check_caa(ctx, c))
    ctx.compare("Actor", cases, outs, what="C10 observations (run history, call results, run() returns, samples)")


def replay(ctx: Ctx, data: dict) -> None:
    python_flags()
    case = data.get("case")
    if not case or "ctl" not in case:
        return run(ctx)
    case = {k: v for k, v in case.items() if k != "note"}
    if case.get("kind") == "caa":
        out = check_caa(ctx, case, ("replay",))
        ctx.compare("Actor", [case], [out])
        return None
    case = {k: v for k, v in case.items() if k in ("limits", "actors", "ctl", "end")}
    out = check_case(ctx, case, ("replay",))
    ctx.compare("Actor", [case], [out])
