"""C18 — pool SoC and capacity are the documented aggregates of working batteries.

Real code driven (no copy of its logic in this file): `LatestBatteryMetricsFetcher.fetch_next` (NaN -> missing,
time-out -> empty metrics), the `SendOnUpdate` cache with the real `update_working_batteries` (eviction), and
`SoCCalculator.calculate` / `CapacityCalculator.calculate` on `(cached metrics, working set)` — all on exact rationals.

Oracle (independent of the Lean model), on pool snapshots = batteries with their latest message + working subset:
  none-iff   value is None exactly when no battery is working, cached and has every required metric;
  formula    SoC = Σ w·s / Σ w with w = capacity·(upper−lower), s = clamp((soc−lower)/(upper−lower)·100, 0, 100) over
             the qualifying batteries with distinct limits (equal limits: weight 0), a value within 1e-9 (relative) of
             100 may be reported as exactly 100; capacity = Σ capacity·(upper−lower)/100;
  range      0 <= SoC <= 100                                     (domain: capacity >= 0, lower <= upper)
  monotone   raising one qualifying battery's SoC never lowers the pool SoC            (same domain)
  scale      multiplying every capacity by k > 0 leaves the pool SoC unchanged        (same domain)
  excluded   replacing the message of a non-qualifying battery, or dropping it, changes neither value.
The last three re-run the REAL code on the modified snapshot.  Known finding `NearZeroTotal` (regime computed from the
input): the usable total ×100 (before or after scaling) is non-zero but within the absolute 1e-9 tolerance of
`is_close_to_zero`, where the code answers 0 %.
Histories (messages / time-outs / working-set updates interleaved with calculations) check the cache glue: model =
code on every calculation, and none-iff + formula against a Python tracker of "latest message since it last stopped
working".  A small stream runs the REAL `SendOnUpdate` objects with their asyncio tasks (async_solipsism loop, mocked
API channels as in the repo's tests) and requires the streamed samples to equal the model's.
Stream histories: every battery keeps sending, ONE metric of one battery changes by a tiny relative amount per sample
(1e-7 … 1 ulp; long drifts of 5e-7 … 1e-8 per sample over hundreds of samples); after every read sample the value
STREAMED by the real `SendOnUpdate` must be the documented aggregate of the latest data (oracle only).
Correspondence: every script through `Drivers/PoolSoc.lean`, outputs compared exactly.
"""
from __future__ import annotations

import copy
import json
import pathlib
import random
from fractions import Fraction

from . import pool_gen as g
from .common import Ctx, python_flags, rat

TOL = Fraction(1, 10**9)

RULE = ("pool snapshots of 1-5 batteries: capacity from {0, 2^-40, 2^-20, 1/2, 1, 100, 1000, 5000, 2^20} or 1..4000, SoC "
        "limits from {0,10,20,50,80,90,100} (equal 15%, nearly equal 7%), SoC on/around the limits, 10% no message, 15% "
        "NaN metrics, working subsets, 25% tiny-capacity pools around the 1e-9 tolerance; each snapshot re-run with a "
        "raised SoC, scaled capacities (k in {2,1/2,3,1000,2^20,2^-20}) and scrambled non-qualifying batteries; plus "
        "histories of 3-14 events (data / time-out / working-set update / calc); plus histories through the real "
        "SendOnUpdate(SoCCalculator / CapacityCalculator) tasks: one metric of one battery changes by 1e-7 … 1e-12 / 1 ulp "
        "per sample (3-7 samples) or by 5e-7 / 1e-7 / 1e-8 per sample over 200-600 samples, the streamed value must be the "
        "documented aggregate of the latest data after every read sample.  non-trivial = >= 2 qualifying "
        "batteries with different weights or an edge (equal limits, SoC outside limits, tolerance crossing); distinct by "
        "canonical JSON hash")


def qualifying(snap: dict, keys=("capacity", "lo", "hi", "soc")) -> list[dict]:
    return [d for d in snap["bats"] if d["id"] in snap["working"] and d["has"] and all(d[k] is not None for k in keys)]


def isclose(a: Fraction, b: Fraction) -> bool:
    return abs(a - b) <= TOL * max(abs(a), abs(b))


def ambiguous_limits(d: dict) -> bool:
    """limits distinct but indistinguishable to `math.isclose`: the documented formula and the code differ by design"""
    lo, hi = Fraction(d["lo"]), Fraction(d["hi"])
    return lo != hi and isclose(hi, lo)


def total_x100(qual: list[dict], k: Fraction = Fraction(1)) -> Fraction:
    return sum((k * Fraction(d["capacity"]) * (Fraction(d["hi"]) - Fraction(d["lo"])) for d in qual), Fraction(0))


def near_zero(w: Fraction) -> bool:
    return w != 0 and abs(w) <= TOL


def expected_soc(qual: list[dict]) -> Fraction | None:
    used = total = Fraction(0)
    for d in qual:
        cap, lo, hi, soc = (Fraction(d[k]) for k in ("capacity", "lo", "hi", "soc"))
        if hi == lo:
            continue
        s = min(max((soc - lo) / (hi - lo) * 100, Fraction(0)), Fraction(100))
        used += cap * (hi - lo) * s
        total += cap * (hi - lo)
    return None if total == 0 else used / total


def in_domain(qual: list[dict]) -> bool:
    return all(Fraction(d["capacity"]) >= 0 and Fraction(d["lo"]) <= Fraction(d["hi"]) for d in qual)


class Crashed(Exception):
    pass


def value_of(s) -> Fraction | None:
    if isinstance(s, str):
        raise Crashed(s)
    return None if s is None else Fraction(s["v"])


def soc_of(out: dict) -> Fraction | None:
    return value_of(out["out"][-1]["soc"])


def cap_of(out: dict) -> Fraction | None:
    return value_of(out["out"][-1]["cap"])


def check_values(ctx: Ctx, case: dict, qual: list[dict], qual_cap: list[dict], soc, cap, label: str = "") -> None:
    """none-iff, formula, range on one calculation."""
    if (soc is None) != (not qual):
        ctx.violation("none-iff" + label, case, {"soc": rat(soc), "qualifying": [d["id"] for d in qual]})
    if (cap is None) != (not qual_cap):
        ctx.violation("none-iff-capacity" + label, case, {"cap": rat(cap), "qualifying": [d["id"] for d in qual_cap]})
    if cap is not None:
        exp = sum((Fraction(d["capacity"]) * (Fraction(d["hi"]) - Fraction(d["lo"])) / 100 for d in qual_cap), Fraction(0))
        if cap != exp:
            ctx.violation("formula-capacity" + label, case, {"cap": rat(cap), "expected": rat(exp)})
    if soc is None or not qual:
        return
    dom = in_domain(qual)
    if dom and not 0 <= soc <= 100:
        ctx.violation("range" + label, case, {"soc": rat(soc)})
    if dom and not any(ambiguous_limits(d) for d in qual):
        exp = expected_soc(qual)
        w = total_x100(qual)
        if exp is not None:
            ok = soc == exp or (soc == 100 and isclose(exp, Fraction(100)))
            if not ok:
                ctx.violation("formula" + label, case, {"soc": rat(soc), "weighted_mean": rat(exp), "total_x100": rat(w)},
                              regime="NearZeroTotal" if near_zero(w) else None)


def check_snapshot(ctx: Ctx, snap: dict, rng: random.Random, scripts: list, outs: list) -> None:
    try:
        _check_snapshot(ctx, snap, rng, scripts, outs)
    except Crashed as e:
        ctx.violation("calculator-raised", {"snapshot": snap}, {"error": str(e)})
        ctx.case({"snapshot": snap}, tags=["crash"], nontrivial=False)


def _check_snapshot(ctx: Ctx, snap: dict, rng: random.Random, scripts: list, outs: list) -> None:
    script = g.static_script(snap)
    out = g.run_c18_impl(script)
    scripts.append(script)
    outs.append(out)
    case = {"snapshot": snap}
    qual, qual_cap = qualifying(snap), qualifying(snap, ("capacity", "lo", "hi"))
    soc, cap = soc_of(out), cap_of(out)
    check_values(ctx, case, qual, qual_cap, soc, cap)
    if ctx.evaluations % 4 == 0 and not (qual and abs(total_x100(qual)) <= 2 * TOL):
        # float-vs-exact sweep: the same snapshot on IEEE doubles (measured, not assumed)
        with g.float_pass():
            fo = g.run_c18_impl(script)
        gap = max(g.rel_gap(None if soc is None else rat(soc), None if soc_of(fo) is None else rat(soc_of(fo))),
                  g.rel_gap(None if cap is None else rat(cap), None if cap_of(fo) is None else rat(cap_of(fo))))
        ctx.extra["float_gap_max_rel"] = max(ctx.extra.get("float_gap_max_rel", 0.0), gap)
        ctx.extra["float_runs"] = ctx.extra.get("float_runs", 0) + 1
        if gap > 1e-6:
            ctx.note(f"float sensitivity: relative gap {gap:.3g} between the float and the exact run on {case}")
    dom = in_domain(qual)
    w = total_x100(qual)
    tags = ["snapshot", f"qualifying={min(len(qual), 3)}{'+' if len(qual) > 3 else ''}"]
    if not dom:
        tags.append("outside-domain")
    if any(Fraction(d["lo"]) == Fraction(d["hi"]) for d in qual):
        tags.append("equal-limits")
    if any(ambiguous_limits(d) for d in qual):
        tags.append("nearly-equal-limits")
    if any(not Fraction(d["lo"]) <= Fraction(d["soc"]) <= Fraction(d["hi"]) for d in qual):
        tags.append("soc-outside-limits")
    if qual and abs(w) <= TOL:
        tags.append("total-within-tolerance")
    if len(qual) != len([d for d in snap["bats"]]):
        tags.append("some-excluded")
    if soc == 100 or soc == 0:
        tags.append("soc-at-end")
    # ---- monotone: raise the SoC of one qualifying battery
    if dom and qual:
        for d in rng.sample(qual, k=min(2, len(qual))):
            delta = rng.choice([Fraction(1, 1024), Fraction(1), Fraction(7), Fraction(50), Fraction(200)])
            snap2 = copy.deepcopy(snap)
            next(x for x in snap2["bats"] if x["id"] == d["id"])["soc"] = rat(Fraction(d["soc"]) + delta)
            s2 = g.static_script(snap2)
            o2 = g.run_c18_impl(s2)
            scripts.append(s2)
            outs.append(o2)
            soc2 = soc_of(o2)
            if soc is None or soc2 is None or soc2 < soc:
                ctx.violation("monotone", {"snapshot": snap, "raised": d["id"], "by": rat(delta)},
                              {"soc_before": rat(soc), "soc_after": rat(soc2)})
    # ---- scale: multiply every capacity by k
    if dom and qual:
        for k in rng.sample([Fraction(2), Fraction(1, 2), Fraction(3), Fraction(1000), Fraction(2**20), Fraction(1, 2**20)], k=2):
            snap2 = copy.deepcopy(snap)
            for x in snap2["bats"]:
                if x["capacity"] is not None:
                    x["capacity"] = rat(Fraction(x["capacity"]) * k)
            s2 = g.static_script(snap2)
            o2 = g.run_c18_impl(s2)
            scripts.append(s2)
            outs.append(o2)
            soc2 = soc_of(o2)
            crossing = (abs(w) <= TOL) != (abs(k * w) <= TOL)
            if crossing:
                tags.append("scale-crosses-tolerance")
            if soc2 != soc:
                ctx.violation("scale", {"snapshot": snap, "factor": rat(k)},
                              {"soc": rat(soc), "soc_scaled": rat(soc2), "total_x100": rat(w), "scaled_total_x100": rat(k * w)},
                              regime="NearZeroTotal" if crossing else None)
    # ---- excluded: scramble / drop the batteries that do not qualify
    others = [d for d in snap["bats"] if d not in qual_cap]
    if others:
        snap2 = copy.deepcopy(snap)
        for x in snap2["bats"]:
            if x["id"] in [d["id"] for d in others]:
                fresh = g.gen_battery_data(rng, True)
                for key in ("capacity", "lo", "hi", "soc"):
                    if x[key] is not None:  # keep what makes it non-qualifying (NaN metric / no message / not working)
                        x[key] = fresh[key]
                if x["id"] in snap["working"] and x["has"] and all(x[k2] is not None for k2 in ("capacity", "lo", "hi")):
                    x["has"] = False
        s2 = g.static_script(snap2)
        o2 = g.run_c18_impl(s2)
        scripts.append(s2)
        outs.append(o2)
        snap3 = {"bats": [d for d in snap["bats"] if d in qual_cap], "working": [b for b in snap["working"]]}
        s3 = g.static_script(snap3)
        o3 = g.run_c18_impl(s3)
        scripts.append(s3)
        outs.append(o3)
        if cap_of(o2) != cap or cap_of(o3) != cap:
            ctx.violation("excluded-capacity", case, {"cap": rat(cap), "scrambled": rat(cap_of(o2)), "dropped": rat(cap_of(o3))})
        # for the SoC only batteries outside `qual` may change: redo with the SoC-specific set
    others_soc = [d for d in snap["bats"] if d not in qual]
    if others_soc:
        snap4 = {"bats": [d for d in snap["bats"] if d in qual], "working": list(snap["working"])}
        s4 = g.static_script(snap4)
        o4 = g.run_c18_impl(s4)
        scripts.append(s4)
        outs.append(o4)
        if soc_of(o4) != soc:
            ctx.violation("excluded", case, {"soc": rat(soc), "without_non_qualifying": rat(soc_of(o4))})
    weights = {Fraction(d["capacity"]) * (Fraction(d["hi"]) - Fraction(d["lo"])) for d in qual}
    nontrivial = len(weights) >= 2 or any(t in tags for t in ("equal-limits", "soc-outside-limits", "total-within-tolerance",
                                                                "scale-crosses-tolerance", "nearly-equal-limits"))
    ctx.case(case, tags=sorted(set(tags)), nontrivial=nontrivial)


def track(script: dict):
    """Python tracker of the documented cache semantics: yields, at every calc, the snapshot the pool should see."""
    ids = script["batteries"]
    working = [b for b in script["working"] if b in ids]
    latest: dict[int, dict] = {}
    for op in script["ops"]:
        if op["op"] == "data":
            latest[op["id"]] = {"id": op["id"], "has": True, **{k: op[k] for k in ("ts", "capacity", "lo", "hi", "soc")}}
        elif op["op"] == "silent":
            latest[op["id"]] = {"id": op["id"], "has": True, "ts": op["ts"], "capacity": None, "lo": None, "hi": None, "soc": None}
        elif op["op"] == "working":
            new = [b for b in ids if b in op["ids"]]
            for b in working:
                if b not in new:
                    latest.pop(b, None)
            working = new
        else:
            bats = [latest.get(b, {"id": b, "has": False, "ts": 0, "capacity": None, "lo": None, "hi": None, "soc": None}) for b in ids]
            yield {"bats": copy.deepcopy(bats), "working": list(working)}


def check_script(ctx: Ctx, script: dict, scripts: list, outs: list) -> None:
    out = g.run_c18_impl(script)
    scripts.append(script)
    outs.append(out)
    case = {"script": script}
    evicting = False
    for k, (snap, res) in enumerate(zip(track(script), out["out"])):
        try:
            soc, cap = value_of(res["soc"]), value_of(res["cap"])
        except Crashed as e:
            ctx.violation("calculator-raised", case, {"error": str(e), "calc": k})
            continue
        check_values(ctx, case, qualifying(snap), qualifying(snap, ("capacity", "lo", "hi")), soc, cap, label=f"@calc{k}")
    seen_data = set()
    for op in script["ops"]:
        if op["op"] == "data":
            seen_data.add(op["id"])
        if op["op"] == "working" and any(b in seen_data and b not in op["ids"] for b in script["batteries"]):
            evicting = True
    ctx.case(case, tags=["history"] + (["history-with-eviction"] if evicting else []), nontrivial=evicting or len(script["ops"]) > 6)


def check_fullstack(ctx: Ctx, snap: dict, new_working: list[int], scripts: list, outs: list) -> None:
    """The real `SendOnUpdate` objects with their asyncio tasks on the virtual-time loop, fed through the mocked API
    channels; their streamed results must be what the synchronous seam (and hence the model) computes."""
    script = g.fullstack_script(snap, new_working)
    streamed = g.run_c18_fullstack(snap, new_working)
    case = {"script": script, "fullstack": True}
    for k, (view, res) in enumerate(zip(track(script), streamed)):
        try:
            soc, cap = value_of(res["soc"]), value_of(res["cap"])
        except Crashed as e:
            ctx.violation("stream-broken", case, {"reading": k, "observed": str(e)})
            continue
        check_values(ctx, case, qualifying(view), qualifying(view, ("capacity", "lo", "hi")), soc, cap, label=f"@stream{k}")
    scripts.append(script)
    outs.append({"out": streamed})
    ctx.case(case, tags=["full-stack SendOnUpdate (asyncio tasks, mock API channels)"], nontrivial=True)


def check_stream(ctx: Ctx, hist: dict, only_last: bool = False) -> None:
    """A history through the real `SendOnUpdate` + `SoCCalculator` / `CapacityCalculator` (asyncio tasks, virtual clock):
    after every read sample the STREAMED pool SoC / capacity must be the documented aggregate of the LATEST data of
    every battery (none-iff, formula, range — exact rationals).  Oracle only: the streamed sample's timestamp is that of
    the last recalculation, which the synchronous scripts of the model do not describe."""
    streamed = g.run_c18_stream(hist)
    reads = list(hist.get("read", range(len(hist["steps"]))))
    n = len(hist["steps"])
    for j, (k, res) in enumerate(zip(reads, streamed)):
        if only_last and j != len(reads) - 1:
            continue
        case = {"stream": {**hist, "steps": hist["steps"][:k + 1], "read": [r for r in reads if r <= k]}}
        view = {"bats": [{"has": True, "ts": 100 * (k + 1) + d["id"] % 50, **d} for d in hist["steps"][k]],
                "working": list(hist["working"])}
        try:
            soc, cap = value_of(res["soc"]), value_of(res["cap"])
        except Crashed as e:
            ctx.violation("stream-broken", case, {"sample": k, "observed": str(e)})
            continue
        check_values(ctx, case, qualifying(view), qualifying(view, ("capacity", "lo", "hi")), soc, cap, label="@stream")
        tags = ["stream history (real SendOnUpdate)"]
        if k > 0:
            prev, cur = hist["steps"][k - 1], hist["steps"][k]
            rel = [abs(Fraction(c[x]) - Fraction(p[x])) / abs(Fraction(p[x])) for p, c in zip(prev, cur)
                   for x in ("capacity", "lo", "hi", "soc") if p[x] != c[x] and Fraction(p[x]) != 0]
            if rel and max(rel) < Fraction(1, 10**6):
                tags.append("stream:change<=1e-6-relative-per-sample")
        if n >= 100:
            tags.append("stream:long-history(>=100 samples)")
        ctx.case(case, tags=tags, nontrivial=k > 0)


def load_corpus() -> list[dict]:
    d = pathlib.Path(__file__).resolve().parent.parent / "corpus" / "C18"
    return [json.loads(p.read_text()) for p in sorted(d.glob("*.json"))] if d.exists() else []


def run_case_json(ctx: Ctx, case: dict, rng: random.Random, scripts: list, outs: list) -> None:
    if "stream" in case:  # the last read sample of a history through the real SendOnUpdate objects
        check_stream(ctx, case["stream"], only_last=True)
        return
    if "snapshot" in case:
        check_snapshot(ctx, case["snapshot"], rng, scripts, outs)
    elif "script" in case:
        check_script(ctx, case["script"], scripts, outs)
    if "scale" in case:  # pinned scaling factor (witnesses of the NearZeroTotal finding)
        snap, k = case["snapshot"], Fraction(case["scale"])
        qual = qualifying(snap)
        snap2 = copy.deepcopy(snap)
        for x in snap2["bats"]:
            if x["capacity"] is not None:
                x["capacity"] = rat(Fraction(x["capacity"]) * k)
        o1, o2 = g.run_c18_impl(g.static_script(snap)), g.run_c18_impl(g.static_script(snap2))
        w = total_x100(qual)
        if isinstance(o1["out"][-1]["soc"], str) or isinstance(o2["out"][-1]["soc"], str):
            ctx.violation("calculator-raised", {"snapshot": snap, "factor": rat(k)}, {"out": [o1, o2]})
        elif soc_of(o1) != soc_of(o2):
            crossing = (abs(w) <= TOL) != (abs(k * w) <= TOL)
            ctx.violation("scale", {"snapshot": snap, "factor": rat(k)},
                          {"soc": rat(soc_of(o1)), "soc_scaled": rat(soc_of(o2)), "total_x100": rat(w), "scaled_total_x100": rat(k * w)},
                          regime="NearZeroTotal" if crossing else None)


def run(ctx: Ctx) -> None:
    python_flags()
    ctx.rule = RULE
    n = ctx.budget(2000, 60000)
    scripts: list[dict] = []
    outs: list[dict] = []
    for c in load_corpus():
        run_case_json(ctx, c, ctx.subrng("corpus"), scripts, outs)
    for i in range(n):
        rng = ctx.subrng("case", i)
        r = rng.random()
        if r < 0.2:
            check_script(ctx, g.gen_c18_script(rng), scripts, outs)
        else:
            check_snapshot(ctx, g.gen_c18_static(rng, in_domain=r < 0.92), rng, scripts, outs)
    for i in range(ctx.budget(40, 600)):
        rng = ctx.subrng("fullstack", i)
        snap = g.gen_c18_static(rng)
        check_fullstack(ctx, snap, [d["id"] for d in snap["bats"] if rng.random() < 0.7], scripts, outs)
    # histories through the real SendOnUpdate objects: tiny relative changes of one metric per sample, long slow drifts
    for i in range(ctx.budget(30, 400)):
        check_stream(ctx, g.gen_c18_history(ctx.subrng("stream-tiny", i)))
    for i in range(ctx.budget(3, 20)):
        check_stream(ctx, g.gen_c18_history(ctx.subrng("stream-long", i), long=True))
    if ctx.tier == "thorough":
        # bounded-exhaustive small scope: two batteries, every combination of capacity / limits / SoC position /
        # presence from a small lattice (both working), with the metamorphic re-runs of every snapshot
        caps = ["0", "1/1099511627776", "1", "1000"]
        lims = [("0", "100"), ("20", "20"), ("10", "90")]
        k = 0

        def variants():
            for cap in caps:
                for lo, hi in lims:
                    l, h = Fraction(lo), Fraction(hi)
                    for soc in (l - 5, l, (l + h) / 2, h, h + 5):
                        yield {"capacity": cap, "lo": lo, "hi": hi, "soc": rat(soc), "has": True}
            yield {"capacity": "1000", "lo": "10", "hi": "90", "soc": None, "has": True}
            yield {"capacity": "1000", "lo": "10", "hi": "90", "soc": "50", "has": False}

        vs = list(variants())
        for a in vs:
            for b in vs:
                snap = {"bats": [{"id": 11, "ts": 1, **a}, {"id": 12, "ts": 2, **b}], "working": [11, 12]}
                check_snapshot(ctx, snap, ctx.subrng("exh", k), scripts, outs)
                k += 1
        ctx.extra["bounded_exhaustive_cases"] = k
    ctx.compare("PoolSoc", scripts, outs, what="pool SoC / capacity samples")


def replay(ctx: Ctx, data: dict) -> None:
    python_flags()
    case = data.get("case")
    if not isinstance(case, dict):
        return run(ctx)
    if "factor" in case:  # a scale violation: {"snapshot":…, "factor":…}
        case = {"snapshot": case["snapshot"], "scale": case["factor"]}
    if "raised" in case:
        case = {"snapshot": case["snapshot"]}
    if not ("snapshot" in case or "script" in case or "stream" in case):
        return run(ctx)
    scripts: list[dict] = []
    outs: list[dict] = []
    run_case_json(ctx, case, ctx.subrng("replay"), scripts, outs)
    ctx.compare("PoolSoc", scripts, outs, what="replayed case")
